#!/bin/sh
# Offline build of the whole framework from files on disk: Coq development (full .vo build),
# extraction + OCaml model runner, Rust executor variants against /repo's current tree.
set -e
cd "$(dirname "$0")"
export CARGO_NET_OFFLINE=true
(cd coq && coq_makefile -f _CoqProject -o Makefile >/dev/null && timeout 7000 make -j16 >/dev/null)
python3 - <<'PY'
import sys, os
sys.path.insert(0, os.path.join(os.getcwd(), "tools"))
import vlib
ok, out = vlib.ocaml_build()
print("ocaml model runner:", "ok" if ok else out[-2000:])
bad = not ok
for v in vlib.VARIANTS:
    ok, out = vlib.harness_build(v)
    print("executor", v, "ok" if ok else out[-2000:])
    bad = bad or not ok
sys.exit(1 if bad else 0)
PY
