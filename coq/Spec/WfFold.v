(* WfFold.v: the case folding the judge evaluates the WDupLong clause of Spec/Wf.v with, and its relation to the library's
   own name matching.

   [Wf.wf_issues fold im] takes the folding of a long name (UTF-16 units -> anything comparable) as a parameter.  The
   judge (ocaml/judge.ml) instantiates it with [wf_fold upper], where [upper] is the to_uppercase table dumped from the
   executor under test - the SAME table the extracted library model (Model/Name.v eq_name, Model/DirSlots.v matches) is
   run with: decode the units as String::from_utf16_lossy does, then replace every character by its (possibly
   multi-character) upper-case expansion.

   [fold_agrees upper fold]: on long names that are valid UTF-16, two names have the same folding exactly when the library's
   long-name comparison DirEntry::eq_name (long-name half, Model/Name.v eq_name_lfn: char::decode_utf16 of the stored
   units against the char_to_uppercase expansion of the looked-up string, element by element) says they match.
   Proofs/DupLongProofs.v: [wf_fold_agrees] proves it for [wf_fold upper], for EVERY table [upper].
   The restriction to valid UTF-16 is necessary: a stored name with an unpaired surrogate never matches anything in the
   library (decode error = "no match") but is listed - and folded - as U+FFFD (Proofs/DupLongProofs.v,
   fold_agrees_needs_valid_utf16).  No proofs here. *)
From Coq Require Import NArith List Bool.
From FatVerif Require Import Model.Base Model.Str Model.Name.
Import ListNotations.
Open Scope N_scope.

(* the judge's folding of a long name given as UTF-16 units *)
Definition wf_fold (upper : N -> list N) (us : list N) : list N := fold_upper upper (utf16_decode_lossy us).

(* char::decode_utf16 reports no error on these units (no unpaired surrogate) *)
Definition utf16_okb (us : list N) : bool :=
  forallb (fun o => match o with Some _ => true | None => false end) (utf16_decode us).

Definition fold_agrees (upper : N -> list N) (fold : list N -> list N) : Prop :=
  forall us name, us <> [] -> utf16_okb us = true -> str_valid name = true ->
    (fold us = fold (utf16_encode name) <-> eq_name_lfn upper us name = true).
