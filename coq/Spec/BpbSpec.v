(* BpbSpec.v: what C07 calls "an independent parse of the same bytes" and "coherent geometry".
   Written from the Microsoft FAT specification (fatgen103: "Boot Sector and BPB Structure",
   "FAT Type Determination"), in unbounded integer arithmetic (Z): nothing here can wrap around,
   and nothing here mentions the model of the library. *)
From Coq Require Import ZArith NArith List Bool.
Import ListNotations.
Open Scope Z_scope.

(* little-endian field of [size] bytes at byte offset [off] of the sector *)
Definition field (bs : list N) (off size : nat) : Z :=
  fold_right (fun b acc => Z.of_N b + 256 * acc) 0 (firstn size (skipn off bs)).

(* names and offsets as in the Microsoft document *)
Definition BPB_BytsPerSec (bs : list N) := field bs 11 2.
Definition BPB_SecPerClus (bs : list N) := field bs 13 1.
Definition BPB_RsvdSecCnt (bs : list N) := field bs 14 2.
Definition BPB_NumFATs    (bs : list N) := field bs 16 1.
Definition BPB_RootEntCnt (bs : list N) := field bs 17 2.
Definition BPB_TotSec16   (bs : list N) := field bs 19 2.
Definition BPB_FATSz16    (bs : list N) := field bs 22 2.
Definition BPB_TotSec32   (bs : list N) := field bs 32 4.
(* FAT32 structure starting at offset 36 *)
Definition BPB_FATSz32    (bs : list N) := field bs 36 4.
Definition BPB_RootClus   (bs : list N) := field bs 44 4.
Definition BPB_FSInfo     (bs : list N) := field bs 48 2.
Definition BPB_BkBootSec  (bs : list N) := field bs 50 2.

(* "FAT Type Determination" *)
Definition RootDirSectors (bs : list N) : Z :=
  ((BPB_RootEntCnt bs * 32) + (BPB_BytsPerSec bs - 1)) / BPB_BytsPerSec bs.
Definition FATSz (bs : list N) : Z := if BPB_FATSz16 bs =? 0 then BPB_FATSz32 bs else BPB_FATSz16 bs.
Definition TotSec (bs : list N) : Z := if BPB_TotSec16 bs =? 0 then BPB_TotSec32 bs else BPB_TotSec16 bs.
(* sectors in front of the data region: reserved area, all FAT copies, fixed root directory *)
Definition MetaSec (bs : list N) : Z := BPB_RsvdSecCnt bs + (BPB_NumFATs bs * FATSz bs) + RootDirSectors bs.
Definition DataSec (bs : list N) : Z := TotSec bs - MetaSec bs.
Definition CountofClusters (bs : list N) : Z := DataSec bs / BPB_SecPerClus bs.
Definition fat_bits_of_count (c : Z) : Z := if c <? 4085 then 12 else if c <? 65525 then 16 else 32.

(* (FAT width in bits, bytes per cluster, number of data clusters) *)
Definition spec_geometry (bs : list N) : Z * Z * Z :=
  (fat_bits_of_count (CountofClusters bs), BPB_BytsPerSec bs * BPB_SecPerClus bs, CountofClusters bs).

(* The coherence clauses of C07, one per line. *)
Definition coherent (bs : list N) : Prop :=
  In (BPB_BytsPerSec bs) [512; 1024; 2048; 4096] /\                 (* power-of-two sector size 512..4096 *)
  In (BPB_SecPerClus bs) [1; 2; 4; 8; 16; 32; 64; 128] /\             (* power-of-two cluster size *)
  0 < BPB_NumFATs bs /\                                              (* non-zero FAT count *)
  0 < FATSz bs /\                                                    (* non-zero FAT size *)
  0 < BPB_RsvdSecCnt bs /\                                           (* the boot sector itself is reserved *)
  MetaSec bs < TotSec bs /\ TotSec bs < 2 ^ 32 /\                    (* metadata fits, in Z: no 32-bit wrap *)
  (BPB_FATSz16 bs = 0 <-> fat_bits_of_count (CountofClusters bs) = 32) /\  (* layout agrees with the count *)
  (fat_bits_of_count (CountofClusters bs) = 32 ->
     CountofClusters bs <= 0x0FFFFFFF /\                             (* cluster numbers stay below 2^28 + 1 *)
     2 <= BPB_RootClus bs < CountofClusters bs + 2 /\                (* root directory cluster exists *)
     BPB_FSInfo bs < BPB_RsvdSecCnt bs /\                            (* information sector in the reserved area *)
     BPB_BkBootSec bs < BPB_RsvdSecCnt bs).                          (* backup boot sector in the reserved area *)

(* Requirements of the implementation beyond the clauses of C07 (all from the Microsoft document:
   BPB_RootEntCnt and BPB_TotSec16 must be 0 on FAT32 and BPB_RootEntCnt non-zero otherwise, BPB_FSVer 0:0,
   BPB_TotSec16/32 not contradicting each other). *)
Definition BPB_FSVer (bs : list N) := field bs 42 2.
Definition layout_ok (bs : list N) : Prop :=
  (BPB_FATSz16 bs = 0 <-> BPB_RootEntCnt bs = 0) /\
  (BPB_FATSz16 bs = 0 -> BPB_TotSec16 bs = 0 /\ BPB_FSVer bs = 0) /\
  (BPB_TotSec16 bs = 0 \/ BPB_TotSec32 bs = 0 \/ BPB_TotSec16 bs = BPB_TotSec32 bs).

(* the same, executable (extracted; used to judge what the real library accepted) *)
Definition mem (x : Z) (l : list Z) : bool := existsb (Z.eqb x) l.
Definition coherentb (bs : list N) : bool :=
  mem (BPB_BytsPerSec bs) [512; 1024; 2048; 4096] &&
  mem (BPB_SecPerClus bs) [1; 2; 4; 8; 16; 32; 64; 128] &&
  (0 <? BPB_NumFATs bs) &&
  (0 <? FATSz bs) &&
  (0 <? BPB_RsvdSecCnt bs) &&
  (MetaSec bs <? TotSec bs) && (TotSec bs <? 2 ^ 32) &&
  Bool.eqb (BPB_FATSz16 bs =? 0) (fat_bits_of_count (CountofClusters bs) =? 32) &&
  (negb (fat_bits_of_count (CountofClusters bs) =? 32) ||
   ((CountofClusters bs <=? 0x0FFFFFFF) &&
    (2 <=? BPB_RootClus bs) && (BPB_RootClus bs <? CountofClusters bs + 2) &&
    (BPB_FSInfo bs <? BPB_RsvdSecCnt bs) &&
    (BPB_BkBootSec bs <? BPB_RsvdSecCnt bs))).
