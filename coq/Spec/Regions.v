(* Regions.v: classification of device offsets against the decoded volume (C11, C12, C13, C14):
   which on-disk structure a byte belongs to and who owns a cluster.  Executable; extracted. *)
From Coq Require Import FMapPositive.
From FatVerif Require Import Model.Base Model.Slot Spec.Image Spec.Abs.
Open Scope N_scope.

Inductive owner := OFree | OBad | ODir (first : N) | OFile (first : N) | OUnowned.   (* allocated but referenced by nobody *)

Inductive region :=
| RStatus                      (* the status byte of the boot sector *)
| RBoot                        (* any other byte of the boot sector / reserved area *)
| RFsInfo                      (* the FAT32 information sector *)
| RFat (copy : N)              (* inside FAT copy number [copy] *)
| RRoot                        (* fixed root directory area (FAT12/16) *)
| RCluster (c : N) (o : owner) (* data area *)
| RTail                        (* inside the volume but after the last whole cluster *)
| ROutside.                    (* at or beyond the declared end of the volume *)

(* ownership map: cluster -> owner, from the decoded tree *)
Fixpoint own_list (cs : list N) (o : owner) (m : PositiveMap.t owner) : PositiveMap.t owner :=
  match cs with [] => m | c :: r => own_list r o (PositiveMap.add (N.succ_pos c) o m) end.

Fixpoint node_owners (n : node) (m : PositiveMap.t owner) {struct n} : PositiveMap.t owner :=
  match n with
  | NDot _ => m
  | NFile e (Some l) _ => own_list l (OFile (e_cluster e)) m
  | NFile _ None _ => m
  | NDir e ch children _ _ =>
    let m1 := match ch with Some l => own_list l (ODir (e_cluster e)) m | None => m end in
    (fix sub (cs : list node) (m : PositiveMap.t owner) : PositiveMap.t owner :=
       match cs with [] => m | c :: cr => sub cr (node_owners c m) end) children m1
  end.

Definition owners (v : volume) : PositiveMap.t owner :=
  let m0 := match v_root_chain v with
            | Some l => own_list l (ODir (g_root_cluster (v_geom v))) (PositiveMap.empty owner)
            | None => PositiveMap.empty owner end in
  fold_left (fun m n => node_owners n m) (v_root v) m0.

Definition cluster_owner (g : geom) (im : image) (m : PositiveMap.t owner) (c : N) : owner :=
  match PositiveMap.find (N.succ_pos c) m with
  | Some o => o
  | None => match fat_val g im c with FFree => OFree | FBad => OBad | _ => OUnowned end
  end.

Definition classify (g : geom) (im : image) (m : PositiveMap.t owner) (off : N) : region :=
  let bps := g_bps g in
  if g_volume_bytes g <=? off then ROutside
  else if off <? g_reserved g * bps then
    if off =? g_status_off g then RStatus
    else if (g_bits g =? 32) && (g_fsinfo_sector g * bps <=? off) && (off <? (g_fsinfo_sector g + 1) * bps) then RFsInfo
    else RBoot
  else if off <? g_root_off g then RFat ((off - g_reserved g * bps) / g_fat_bytes g)
  else if off <? g_first_data g * bps then RRoot
  else
    let c := (off - g_first_data g * bps) / g_cluster_size g + 2 in
    if c <? g_clusters g + 2 then RCluster c (cluster_owner g im m c) else RTail.

(* a write [off, off+len) by its first and last byte (writes never straddle structures in this library;
   a straddling write is reported as its worse end) *)

(* the six time-stamp byte positions of a short directory slot *)
Definition is_time_field (slot_off : N) : bool :=
  ((13 <=? slot_off) && (slot_off <=? 19)) || ((22 <=? slot_off) && (slot_off <=? 25)).

(* does the write change anything, and does it change more than time-stamp fields of directory slots? *)
Fixpoint changed_offsets (im : image) (off : N) (bs : list N) : list N :=
  match bs with
  | [] => []
  | b :: r => (if img_get im off =? b then [] else [off]) ++ changed_offsets im (off + 1) r
  end.
