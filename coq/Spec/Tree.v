(* Tree.v: the abstract specification machine for C01 (directory tree) and C02 (files as growable
   byte arrays with a cursor): a plain in-memory tree with case-insensitive, case-preserving names.
   [tree_step] is a CHECKER: given the abstract state, an operation and the outcome the implementation
   produced, it says whether that outcome is one the specification allows and returns the next
   abstract state.  A failed operation leaves the state unchanged (theorem [step_error_unchanged]). *)
From FatVerif Require Import Model.Base Model.Str Model.Slot Spec.Abs.
Open Scope N_scope.

Section Tree.
Variable upper : N -> list N.       (* char::to_uppercase (unicode) or to_ascii_uppercase *)
Variable oem_decode : N -> N.       (* OEM code page byte -> scalar value *)

Record tnode := { t_id : N; t_parent : N; t_name : str; t_alias : list N (* 11 raw bytes *);
                  t_is_dir : bool; t_content : list N }.
Record fhandle := { fh_node : N; fh_pos : N; fh_dirty : bool }.
Record tstate := { ts_nodes : list tnode; ts_next : N;
                   ts_dirs : list (N * N);          (* dir handle -> node id (0 = root) *)
                   ts_files : list (N * fhandle);
                   ts_tainted : bool }.              (* an inadmissible operation was seen: nothing is predicted any more *)

Definition ts_init : tstate := {| ts_nodes := []; ts_next := 1; ts_dirs := []; ts_files := []; ts_tainted := false |}.

Definition fold_str (s : str) : str := flat_map upper s.
Definition alias_str (a : list N) : str := map oem_decode (sfn_render a).
Definition name_matches (n : tnode) (q : str) : bool :=
  str_eqb (fold_str (t_name n)) (fold_str q) || str_eqb (fold_str (alias_str (t_alias n))) (fold_str q).

Definition children (s : tstate) (d : N) : list tnode := filter (fun n => t_parent n =? d) (ts_nodes s).
Definition find_node (s : tstate) (id : N) : option tnode := find (fun n => t_id n =? id) (ts_nodes s).
Definition matches (s : tstate) (d : N) (q : str) : list tnode := filter (fun n => name_matches n q) (children s d).

(* split_path: trim '/', split at the first '/', recursively: empty components vanish, an all-slash or
   empty path is the single empty component *)
Fixpoint split_slash (p : str) (cur : str) : list str :=
  match p with
  | [] => [rev cur]
  | c :: r => if c =? 47 then rev cur :: split_slash r [] else split_slash r (c :: cur)
  end.
Definition path_comps (p : str) : list str :=
  match filter (fun c => negb (match c with [] => true | _ => false end)) (split_slash p []) with
  | [] => [[]]
  | l => l
  end.

Inductive lookup := LNone | LAmbiguous | LDot | LDotDot | LNode (n : tnode).

Definition is_dot (q : str) : bool := str_eqb q [46].
Definition is_dotdot (q : str) : bool := str_eqb q [46; 46].

(* find_entry in directory d (0 = root; the root has no dot entries) *)
Definition lookup_in (s : tstate) (d : N) (q : str) : lookup :=
  if negb (d =? 0) && is_dot q then LDot
  else if negb (d =? 0) && is_dotdot q then LDotDot
  else match matches s d q with
       | [] => LNone
       | [n] => LNode n
       | _ => LAmbiguous
       end.

Definition parent_of (s : tstate) (d : N) : N :=
  match find_node s d with Some n => t_parent n | None => 0 end.

Inductive walk := WDir (d : N) | WErr (e : error) | WAmb.

(* walk the intermediate components: each must resolve to a directory *)
Fixpoint walk_dirs (s : tstate) (d : N) (comps : list str) : walk :=
  match comps with
  | [] => WDir d
  | c :: r =>
    match lookup_in s d c with
    | LNone => WErr ENotFound
    | LAmbiguous => WAmb
    | LDot => walk_dirs s d r
    | LDotDot => walk_dirs s (parent_of s d) r
    | LNode n => if t_is_dir n then walk_dirs s (t_id n) r else WErr EInvalidInput
    end
  end.

Definition split_last (comps : list str) : list str * str :=
  (removelast comps, last comps []).

(* name validation as documented: 1..255 bytes of UTF-8, characters from the long-name set *)
Definition lfn_char_ok (c : N) : bool :=
  ((97 <=? c) && (c <=? 122)) || ((65 <=? c) && (c <=? 90)) || ((48 <=? c) && (c <=? 57))
  || ((128 <=? c) && (c <=? 65535))
  || existsb (N.eqb c) [36; 37; 39; 45; 95; 64; 126; 96; 33; 40; 41; 123; 125; 46; 32; 43; 44; 59; 61; 91; 93; 94; 35; 38].
Definition name_check (n : str) : option error :=
  if (utf8_len n =? 0) || (255 <? utf8_len n) then Some EInvalidFileNameLength
  else if forallb lfn_char_ok n then None else Some EUnsupportedFileNameCharacter.

(* ------------------------------------------------------------------ operations and outcomes *)
Inductive whence := SeekStart | SeekEnd | SeekCur.

Inductive top :=
| TOpenDir (dh : N) (path : str) (newh : N)
| TCreateDir (dh : N) (path : str) (newh : N) (alias : list N)     (* alias: the one the implementation chose, if it created *)
| TOpenFile (dh : N) (path : str) (newh : N)
| TCreateFile (dh : N) (path : str) (newh : N) (alias : list N)
| TRemove (dh : N) (path : str)
| TRename (dh : N) (src : str) (dh2 : N) (dst : str) (alias : list N)
| TList (dh : N)
| TRead (fh : N) (n : N)
| TReadAll (fh : N) (n : N)           (* repeated reads until 0 or n bytes: must return everything available *)
| TExtents (fh : N) (bytes_on_device : list N)   (* bytes found on the device at the reported extents *)
| TWrite (fh : N) (data : list N)
| TSeek (fh : N) (w : whence) (off : N) (neg : bool)
| TTruncate (fh : N)
| TFlush (fh : N)
| TDropFile (fh : N)
| TDropDir (dh : N)
| TDropAll.

(* what the implementation returned *)
Inductive tres :=
| ROk                                   (* ok, no payload *)
| RErr (e : error)
| RList (l : list (str * bool * N))     (* name, is_dir, size *)
| RData (bs : list N)                   (* read *)
| RCount (n : N).                       (* write count / seek position *)

Inductive verdict :=
| VOk
| VSkip                                  (* outcome not determined by the specification (ambiguous lookup, stale handle) *)
| VBad (code : N).                       (* the outcome is not allowed; code identifies the rule *)

Definition dir_of_handle (s : tstate) (h : N) : option N :=
  if h =? 0 then Some 0 else
  match find (fun p => fst p =? h) (ts_dirs s) with Some p => Some (snd p) | None => None end.
Definition file_of_handle (s : tstate) (h : N) : option fhandle :=
  match find (fun p => fst p =? h) (ts_files s) with Some p => Some (snd p) | None => None end.

Definition set_dir_handle (s : tstate) (h id : N) : tstate :=
  if h =? 0 then s else
  {| ts_nodes := ts_nodes s; ts_next := ts_next s;
     ts_dirs := (h, id) :: filter (fun p => negb (fst p =? h)) (ts_dirs s); ts_files := ts_files s; ts_tainted := ts_tainted s |}.
Definition set_file_handle (s : tstate) (h : N) (f : fhandle) : tstate :=
  if h =? 0 then s else
  {| ts_nodes := ts_nodes s; ts_next := ts_next s; ts_dirs := ts_dirs s;
     ts_files := (h, f) :: filter (fun p => negb (fst p =? h)) (ts_files s); ts_tainted := ts_tainted s |}.
Definition update_file_handle (s : tstate) (h : N) (f : fhandle) : tstate :=
  {| ts_nodes := ts_nodes s; ts_next := ts_next s; ts_dirs := ts_dirs s;
     ts_files := map (fun p => if fst p =? h then (h, f) else p) (ts_files s); ts_tainted := ts_tainted s |}.
Definition set_content (s : tstate) (id : N) (c : list N) : tstate :=
  {| ts_nodes := map (fun n => if t_id n =? id then
                        {| t_id := t_id n; t_parent := t_parent n; t_name := t_name n; t_alias := t_alias n;
                           t_is_dir := t_is_dir n; t_content := c |} else n) (ts_nodes s);
     ts_next := ts_next s; ts_dirs := ts_dirs s; ts_files := ts_files s; ts_tainted := ts_tainted s |}.
Definition add_node (s : tstate) (parent : N) (name : str) (alias : list N) (is_dir : bool) : tstate * N :=
  ({| ts_nodes := ts_nodes s ++ [{| t_id := ts_next s; t_parent := parent; t_name := name; t_alias := alias;
                                    t_is_dir := is_dir; t_content := [] |}];
      ts_next := ts_next s + 1; ts_dirs := ts_dirs s; ts_files := ts_files s; ts_tainted := ts_tainted s |}, ts_next s).
Definition del_node (s : tstate) (id : N) : tstate :=
  {| ts_nodes := filter (fun n => negb (t_id n =? id)) (ts_nodes s); ts_next := ts_next s;
     ts_dirs := ts_dirs s; ts_files := ts_files s; ts_tainted := ts_tainted s |}.
Definition move_node (s : tstate) (id parent : N) (name : str) (alias : list N) : tstate :=
  {| ts_nodes := map (fun n => if t_id n =? id then
                        {| t_id := t_id n; t_parent := parent; t_name := name; t_alias := alias;
                           t_is_dir := t_is_dir n; t_content := t_content n |} else n) (ts_nodes s);
     ts_next := ts_next s; ts_dirs := ts_dirs s; ts_files := ts_files s; ts_tainted := ts_tainted s |}.

(* is [a] the node [d] or one of its ancestors? (fuel = number of nodes) *)
Fixpoint is_ancestor (s : tstate) (a d : N) (fuel : nat) : bool :=
  match fuel with
  | O => false
  | S f => (a =? d) || (if d =? 0 then false else is_ancestor s a (parent_of s d) f)
  end.

Definition taint (s : tstate) : tstate :=
  {| ts_nodes := ts_nodes s; ts_next := ts_next s; ts_dirs := ts_dirs s; ts_files := ts_files s; ts_tainted := true |}.

(* the documented precondition of remove/rename: no live handle on the object (or, for a directory, beneath it) *)
Definition has_live_handle (s : tstate) (id : N) : bool :=
  let fuel := S (length (ts_nodes s)) in
  existsb (fun p => is_ancestor s id (fh_node (snd p)) fuel) (ts_files s)
  || existsb (fun p => negb (snd p =? 0) && is_ancestor s id (snd p) fuel) (ts_dirs s).

Definition expect_err (r : tres) (e : error) (code : N) : verdict :=
  match r with RErr e' => if error_eqb e e' then VOk else VBad code | _ => VBad code end.

(* an out-of-space outcome is allowed for operations that may need a new cluster or directory slot;
   whether space really ran out is property C05's business *)
Definition is_nospace (r : tres) : bool :=
  match r with RErr ENotEnoughSpace => true | _ => false end.

(* size information of open handles lags on disk (it is written back by flush/drop): the listed size of a
   file with a dirty handle is not compared *)
Definition node_dirty (s : tstate) (id : N) : bool :=
  existsb (fun p => (fh_node (snd p) =? id) && fh_dirty (snd p)) (ts_files s).

Definition listing_of (s : tstate) (d : N) : list (str * bool * option N) :=
  map (fun n => (t_name n, t_is_dir n,
                 if t_is_dir n then Some 0 else if node_dirty s (t_id n) then None else Some (len_N (t_content n))))
      (children s d).

(* listings are compared as sets: same length and every expected item present (names are unique) *)
Definition item_eqb (a : str * bool * option N) (b : str * bool * N) : bool :=
  let '(n1, d1, s1) := a in let '(n2, d2, s2) := b in
  str_eqb n1 n2 && Bool.eqb d1 d2 && match s1 with Some x => x =? s2 | None => true end.
Definition listing_eqb (exp : list (str * bool * option N)) (got : list (str * bool * N)) (is_root : bool) : bool :=
  (* a sub-directory additionally lists "." and ".." *)
  let got' := if is_root then got else filter (fun it => negb (is_dot (fst (fst it)) || is_dotdot (fst (fst it)))) got in
  Nat.eqb (length exp) (length got') && forallb (fun e => existsb (item_eqb e) got') exp
  && (is_root || Nat.eqb (length got) (length got' + 2)%nat).

Fixpoint write_at (content : list N) (pos : nat) (data : list N) : list N :=
  firstn pos content ++ data ++ skipn (pos + length data) content.

Definition bytes_eqb (a b : list N) : bool := list_eqb a b.

(* size information of open handles lags on disk: a file with a dirty handle is excluded from the
   comparison with the decoded image *)
Definition tree_step_core (s : tstate) (o : top) (r : tres) : verdict * tstate :=
  match o with
  | TOpenDir dh path newh =>
    match dir_of_handle s dh with
    | None => (VSkip, s)
    | Some d0 =>
      let '(pre, final) := split_last (path_comps path) in
      match walk_dirs s d0 pre with
      | WAmb => (VSkip, s)
      | WErr e => (expect_err r e 101, s)
      | WDir d =>
        match lookup_in s d final with
        | LAmbiguous => (VSkip, s)
        | LNone => (expect_err r ENotFound 102, s)
        | LDot => (match r with ROk => VOk | _ => VBad 103 end, set_dir_handle s newh d)
        | LDotDot => (match r with ROk => VOk | _ => VBad 103 end, set_dir_handle s newh (parent_of s d))
        | LNode n =>
          if t_is_dir n then (match r with ROk => VOk | _ => VBad 103 end,
                              match r with ROk => set_dir_handle s newh (t_id n) | _ => s end)
          else (expect_err r EInvalidInput 104, s)
        end
      end
    end
  | TOpenFile dh path newh =>
    match dir_of_handle s dh with
    | None => (VSkip, s)
    | Some d0 =>
      let '(pre, final) := split_last (path_comps path) in
      match walk_dirs s d0 pre with
      | WAmb => (VSkip, s)
      | WErr e => (expect_err r e 111, s)
      | WDir d =>
        match lookup_in s d final with
        | LAmbiguous => (VSkip, s)
        | LNone => (expect_err r ENotFound 112, s)
        | LDot | LDotDot => (expect_err r EInvalidInput 114, s)
        | LNode n =>
          if t_is_dir n then (expect_err r EInvalidInput 114, s)
          else (match r with ROk => VOk | _ => VBad 113 end,
                match r with ROk => set_file_handle s newh {| fh_node := t_id n; fh_pos := 0; fh_dirty := false |} | _ => s end)
        end
      end
    end
  | TCreateFile dh path newh alias =>
    match dir_of_handle s dh with
    | None => (VSkip, s)
    | Some d0 =>
      let '(pre, final) := split_last (path_comps path) in
      match walk_dirs s d0 pre with
      | WAmb => (VSkip, s)
      | WErr e => (expect_err r e 121, s)
      | WDir d =>
        match name_check final with
        | Some e => (expect_err r e 122, s)
        | None =>
          match lookup_in s d final with
          | LAmbiguous => (VSkip, s)
          | LDot | LDotDot => (expect_err r EInvalidInput 124, s)
          | LNode n =>
            if t_is_dir n then (expect_err r EInvalidInput 124, s)
            else (match r with ROk => VOk | _ => VBad 123 end,
                  match r with ROk => set_file_handle s newh {| fh_node := t_id n; fh_pos := 0; fh_dirty := false |} | _ => s end)
          | LNone =>
            if is_nospace r then (VOk, s) else
            match r with
            | ROk => let '(s1, id) := add_node s d final alias false in
                     (VOk, set_file_handle s1 newh {| fh_node := id; fh_pos := 0; fh_dirty := false |})
            | _ => (VBad 125, s)
            end
          end
        end
      end
    end
  | TCreateDir dh path newh alias =>
    match dir_of_handle s dh with
    | None => (VSkip, s)
    | Some d0 =>
      let '(pre, final) := split_last (path_comps path) in
      match walk_dirs s d0 pre with
      | WAmb => (VSkip, s)
      | WErr e => (expect_err r e 131, s)
      | WDir d =>
        match name_check final with
        | Some e => (expect_err r e 132, s)
        | None =>
          match lookup_in s d final with
          | LAmbiguous => (VSkip, s)
          | LDot => (match r with ROk => VOk | _ => VBad 133 end, match r with ROk => set_dir_handle s newh d | _ => s end)
          | LDotDot => (match r with ROk => VOk | _ => VBad 133 end,
                        match r with ROk => set_dir_handle s newh (parent_of s d) | _ => s end)
          | LNode n =>
            if t_is_dir n then (match r with ROk => VOk | _ => VBad 133 end,
                                match r with ROk => set_dir_handle s newh (t_id n) | _ => s end)
            else (expect_err r EInvalidInput 134, s)
          | LNone =>
            if is_nospace r then (VOk, s) else
            match r with
            | ROk => let '(s1, id) := add_node s d final alias true in (VOk, set_dir_handle s1 newh id)
            | _ => (VBad 135, s)
            end
          end
        end
      end
    end
  | TRemove dh path =>
    match dir_of_handle s dh with
    | None => (VSkip, s)
    | Some d0 =>
      let '(pre, final) := split_last (path_comps path) in
      match walk_dirs s d0 pre with
      | WAmb => (VSkip, s)
      | WErr e => (expect_err r e 141, s)
      | WDir d =>
        match lookup_in s d final with
        | LAmbiguous => (VSkip, s)
        | LNone => (expect_err r ENotFound 142, s)
        | LDot | LDotDot => (expect_err r EInvalidInput 146, s)
        | LNode n =>
          if has_live_handle s (t_id n) then (VSkip, taint s) else
          if t_is_dir n && negb (match children s (t_id n) with [] => true | _ => false end)
          then (expect_err r EDirectoryIsNotEmpty 143, s)
          else (match r with ROk => VOk | _ => VBad 144 end, match r with ROk => del_node s (t_id n) | _ => s end)
        end
      end
    end
  | TRename dh src dh2 dst alias =>
    match dir_of_handle s dh, dir_of_handle s dh2 with
    | Some d0, Some e0 =>
      let '(spre, sfinal) := split_last (path_comps src) in
      match walk_dirs s d0 spre with
      | WAmb => (VSkip, s)
      | WErr e => (expect_err r e 151, s)
      | WDir sd =>
        let '(dpre, dfinal) := split_last (path_comps dst) in
        match walk_dirs s e0 dpre with
        | WAmb => (VSkip, s)
        | WErr e => (expect_err r e 152, s)
        | WDir dd =>
          match lookup_in s sd sfinal with
          | LAmbiguous => (VSkip, s)
          | LDot | LDotDot => (expect_err r EInvalidInput 159, s)
          | LNone => (expect_err r ENotFound 153, s)
          | LNode n =>
            if has_live_handle s (t_id n) then (VSkip, taint s) else
            if t_is_dir n && is_ancestor s (t_id n) dd (S (length (ts_nodes s)))
            then (* a directory cannot be moved into itself or below itself: the plain tree has no such move *)
              (expect_err r EInvalidInput 158, s)
            else
            match name_check dfinal with
            | Some e => (expect_err r e 154, s)
            | None =>
              match lookup_in s dd dfinal with
              | LAmbiguous => (VSkip, s)
              | LDot | LDotDot => (expect_err r EAlreadyExists 155, s)
              | LNode m =>
                if t_id m =? t_id n
                then (* the destination name resolves to the source itself (same name, another spelling of it, or its
                        alias): a case-preserving tree takes the new spelling *)
                  if is_nospace r then (VOk, s) else   (* the new spelling is written before the old entry is freed *)
                  (match r with ROk => VOk | _ => VBad 156 end,
                   match r with ROk => move_node s (t_id n) dd dfinal alias | _ => s end)
                else (expect_err r EAlreadyExists 155, s)
              | LNone =>
                if is_nospace r then (VOk, s)
                else (match r with ROk => VOk | _ => VBad 157 end,
                      match r with ROk => move_node s (t_id n) dd dfinal alias | _ => s end)
              end
            end
          end
        end
      end
    | _, _ => (VSkip, s)
    end
  | TList dh =>
    match dir_of_handle s dh with
    | None => (VSkip, s)
    | Some d =>
      (match r with
       | RList l => if listing_eqb (listing_of s d) l (d =? 0) then VOk else VBad 161
       | _ => VBad 162
       end, s)
    end
  | TRead fh n =>
    match file_of_handle s fh with
    | None => (VSkip, s)
    | Some f =>
      match find_node s (fh_node f) with
      | None => (VSkip, s)
      | Some nd =>
        let len := len_N (t_content nd) in
        let avail := N.min n (len - fh_pos f) in
        match r with
        | RData bs =>
          let k := len_N bs in
          if (k <=? avail) && ((0 <? k) || (avail =? 0))
             && bytes_eqb bs (firstn (N.to_nat k) (skipn (N.to_nat (fh_pos f)) (t_content nd)))
          then (VOk, update_file_handle s fh {| fh_node := fh_node f; fh_pos := fh_pos f + k; fh_dirty := fh_dirty f |})
          else (VBad 171, s)
        | _ => (VBad 172, s)
        end
      end
    end
  | TReadAll fh n =>
    match file_of_handle s fh with
    | None => (VSkip, s)
    | Some f =>
      match find_node s (fh_node f) with
      | None => (VSkip, s)
      | Some nd =>
        let len := len_N (t_content nd) in
        let avail := N.min n (len - fh_pos f) in
        match r with
        | RData bs =>
          if (len_N bs =? avail)
             && bytes_eqb bs (firstn (N.to_nat avail) (skipn (N.to_nat (fh_pos f)) (t_content nd)))
          then (VOk, update_file_handle s fh {| fh_node := fh_node f; fh_pos := fh_pos f + avail; fh_dirty := fh_dirty f |})
          else (VBad 173, s)
        | _ => (VBad 174, s)
        end
      end
    end
  | TExtents fh dev =>
    match file_of_handle s fh with
    | None => (VSkip, s)
    | Some f =>
      match find_node s (fh_node f) with
      | None => (VSkip, s)
      | Some nd => (match r with ROk => if bytes_eqb dev (t_content nd) then VOk else VBad 221 | _ => VBad 222 end, s)
      end
    end
  | TWrite fh data =>
    match file_of_handle s fh with
    | None => (VSkip, s)
    | Some f =>
      match find_node s (fh_node f) with
      | None => (VSkip, s)
      | Some nd =>
        match r with
        | RCount k =>
          if (k <=? len_N data) && ((0 <? k) || (len_N data =? 0)) then
            let c' := write_at (t_content nd) (N.to_nat (fh_pos f)) (firstn (N.to_nat k) data) in
            (VOk, update_file_handle (set_content s (fh_node f) c') fh
                    {| fh_node := fh_node f; fh_pos := fh_pos f + k; fh_dirty := fh_dirty f || (0 <? k) |})
          else (VBad 181, s)
        | RErr ENotEnoughSpace => (VOk, s)
        | _ => (VBad 182, s)
        end
      end
    end
  | TSeek fh w off neg =>
    match file_of_handle s fh with
    | None => (VSkip, s)
    | Some f =>
      match find_node s (fh_node f) with
      | None => (VSkip, s)
      | Some nd =>
        let len := len_N (t_content nd) in
        let base := match w with SeekStart => 0 | SeekEnd => len | SeekCur => fh_pos f end in
        if neg && (base <? off) then (expect_err r EInvalidInput 191, s)
        else
          let target := if neg then base - off else base + off in
          let p := N.min target len in
          (match r with RCount q => if q =? p then VOk else VBad 192 | _ => VBad 193 end,
           match r with RCount _ => update_file_handle s fh {| fh_node := fh_node f; fh_pos := p; fh_dirty := fh_dirty f |} | _ => s end)
      end
    end
  | TTruncate fh =>
    match file_of_handle s fh with
    | None => (VSkip, s)
    | Some f =>
      match find_node s (fh_node f) with
      | None => (VSkip, s)
      | Some nd =>
        match r with
        | ROk => (VOk, update_file_handle (set_content s (fh_node f) (firstn (N.to_nat (fh_pos f)) (t_content nd))) fh
                         {| fh_node := fh_node f; fh_pos := fh_pos f; fh_dirty := true |})
        | _ => (VBad 201, s)
        end
      end
    end
  | TFlush fh =>
    match file_of_handle s fh with
    | None => (VSkip, s)
    | Some f => (match r with ROk => VOk | _ => VBad 211 end,
                 update_file_handle s fh {| fh_node := fh_node f; fh_pos := fh_pos f; fh_dirty := false |})
    end
  | TDropFile fh =>
    (VOk, {| ts_nodes := ts_nodes s; ts_next := ts_next s; ts_dirs := ts_dirs s;
             ts_files := filter (fun p => negb (fst p =? fh)) (ts_files s); ts_tainted := ts_tainted s |})
  | TDropDir dh =>
    (VOk, {| ts_nodes := ts_nodes s; ts_next := ts_next s;
             ts_dirs := filter (fun p => negb (fst p =? dh)) (ts_dirs s); ts_files := ts_files s; ts_tainted := ts_tainted s |})
  | TDropAll =>
    (VOk, {| ts_nodes := ts_nodes s; ts_next := ts_next s; ts_dirs := []; ts_files := []; ts_tainted := ts_tainted s |})
  end.

Definition tree_step (s : tstate) (o : top) (r : tres) : verdict * tstate :=
  if ts_tainted s then (VSkip, s) else tree_step_core s o r.

(* ------------------------------------------------------------------ comparison with a decoded image *)
(* names are compared through UTF-16: the decoded long name of an entry (or, without one, its rendered
   short name) must equal the abstract node's name; kinds must agree; file size and content must agree
   unless an open handle still has unflushed metadata *)
Fixpoint abs_children_match (s : tstate) (fuel : nat) (d : N) (ns : list node) {struct fuel} : bool :=
  match fuel with
  | O => false
  | S f =>
    let real := filter (fun n => match n with NDot _ => false | _ => true end) ns in
    let exp := children s d in
    Nat.eqb (length real) (length exp)
    && forallb (fun t =>
         existsb (fun n =>
           let e := node_entry n in
           list_eqb (e_lfn e) (utf16_encode (t_name t)) && list_eqb (e_sfn e) (t_alias t)
           && match n with
              | NFile _ _ content =>
                negb (t_is_dir t)
                && (node_dirty s (t_id t) || ((e_size e =? len_N (t_content t)) && list_eqb content (t_content t)))
              | NDir _ _ ch _ _ => t_is_dir t && abs_children_match s f (t_id t) ch
              | NDot _ => false
              end) real) exp
  end.

Definition tree_matches_abs (s : tstate) (v : volume) : bool :=
  abs_children_match s (S (S (length (ts_nodes s)))) 0 (v_root v).

End Tree.
