(* Abs.v: an independent decoder of raw FAT12/16/32 images, written from the FAT specification
   (Microsoft "FAT: General Overview of On-Disk Format") and NOT from the library's code.
   It is the "independent implementation of the FAT specification" properties C03/C04/C08 refer to:
   geometry, FAT entries, cluster chains, directory slots, long-name runs, the whole tree with file
   contents.  Executable; extracted and run on the implementation's real images. *)
From Coq Require Import FMapPositive.
From FatVerif Require Import Model.Base Model.Slot Spec.Image.
Open Scope N_scope.

(* ------------------------------------------------------------------ geometry *)
Record geom := {
  g_bps : N; g_spc : N; g_reserved : N; g_fats : N; g_root_entries : N; g_total_sectors : N;
  g_spf : N; g_ext_flags : N; g_root_cluster : N; g_fsinfo_sector : N; g_backup_sector : N; g_media : N }.

Definition parse_geom (im : image) : geom :=
  let spf16 := img_u16 im 22 in
  let ts16 := img_u16 im 19 in
  let is32 := spf16 =? 0 in
  {| g_bps := img_u16 im 11; g_spc := img_get im 13; g_reserved := img_u16 im 14; g_fats := img_get im 16;
     g_root_entries := img_u16 im 17;
     g_total_sectors := if ts16 =? 0 then img_u32 im 32 else ts16;
     g_spf := if is32 then img_u32 im 36 else spf16;
     g_ext_flags := if is32 then img_u16 im 40 else 0;
     g_root_cluster := if is32 then img_u32 im 44 else 0;
     g_fsinfo_sector := if is32 then img_u16 im 48 else 0;
     g_backup_sector := if is32 then img_u16 im 50 else 0;
     g_media := img_get im 21 |}.

Definition g_root_sectors (g : geom) : N := (g_root_entries g * 32 + g_bps g - 1) / g_bps g.
Definition g_first_data (g : geom) : N := g_reserved g + g_fats g * g_spf g + g_root_sectors g.
Definition g_clusters (g : geom) : N := (g_total_sectors g - g_first_data g) / g_spc g.
Definition g_bits (g : geom) : N :=
  if g_clusters g <? 4085 then 12 else if g_clusters g <? 65525 then 16 else 32.
Definition g_cluster_size (g : geom) : N := g_bps g * g_spc g.
Definition g_fat_off (g : geom) (copy : N) : N := (g_reserved g + copy * g_spf g) * g_bps g.
Definition g_fat_bytes (g : geom) : N := g_spf g * g_bps g.
Definition g_root_off (g : geom) : N := (g_reserved g + g_fats g * g_spf g) * g_bps g.
Definition g_cluster_off (g : geom) (c : N) : N := (g_first_data g + (c - 2) * g_spc g) * g_bps g.
Definition g_volume_bytes (g : geom) : N := g_total_sectors g * g_bps g.
Definition g_mirroring (g : geom) : bool := if g_bits g =? 32 then N.land (g_ext_flags g) 128 =? 0 else true.
Definition g_active (g : geom) : N := if g_mirroring g then 0 else (g_ext_flags g) mod 16.
Definition g_status_off (g : geom) : N := if g_bits g =? 32 then 65 else 37.
Definition in_range (g : geom) (c : N) : bool := (2 <=? c) && (c <? g_clusters g + 2).

(* ------------------------------------------------------------------ FAT entries *)
Definition fat_raw (g : geom) (im : image) (copy c : N) : N :=
  let base := g_fat_off g copy in
  if g_bits g =? 12 then
    let w := img_u16 im (base + c + c / 2) in
    if c mod 2 =? 0 then w mod 4096 else w / 16
  else if g_bits g =? 16 then img_u16 im (base + 2 * c)
  else img_u32 im (base + 4 * c) mod 268435456.

Inductive fatval := FFree | FBad | FEoc | FNext (n : N).

Definition fat_classify (g : geom) (v : N) : fatval :=
  let top := if g_bits g =? 12 then 4095 else if g_bits g =? 16 then 65535 else 268435455 in
  if v =? 0 then FFree
  else if v =? top - 8 then FBad
  else if top - 7 <=? v then FEoc
  else FNext v.

Definition fat_val (g : geom) (im : image) (c : N) : fatval := fat_classify g (fat_raw g im (g_active g) c).

(* cluster chain starting at c; None = broken (out-of-range link, free/bad entry inside, cycle) *)
Fixpoint chain_from (g : geom) (im : image) (c : N) (fuel : nat) : option (list N) :=
  match fuel with
  | O => None
  | S f =>
    if in_range g c then
      match fat_val g im c with
      | FEoc => Some [c]
      | FNext n => match chain_from g im n f with Some l => Some (c :: l) | None => None end
      | FFree | FBad => None
      end
    else None
  end.

(* a chain cannot be longer than the number of clusters; on very large volumes the decoder follows at most 2^17
   links (a documented limit of this executable specification, far above anything the checks create) *)
Definition chain_fuel (g : geom) : nat := S (N.to_nat (N.min (g_clusters g) 131072)).

Definition cluster_bytes (g : geom) (im : image) (c : N) : list N :=
  img_read im (g_cluster_off g c) (N.to_nat (g_cluster_size g)).

Definition chain_bytes (g : geom) (im : image) (l : list N) : list N :=
  flat_map (cluster_bytes g im) l.

(* ------------------------------------------------------------------ directory slots *)
Fixpoint chunk32 (bs : list N) (fuel : nat) : list (list N) :=
  match fuel with
  | O => []
  | S f => match bs with [] => [] | _ => firstn 32 bs :: chunk32 (skipn 32 bs) f end
  end.
Definition slots_of (bs : list N) : list (list N) := chunk32 bs (S (Nat.div (length bs) 32)).

Record entry := {
  e_lfn : list N;        (* long name, UTF-16 units; [] = none *)
  e_lfn_ok : bool;       (* the pending run (live LFN slots directly before the short slot, back to the nearest one carrying
                            0x40), if any, is one complete, ordered, checksummed, padded run *)
  e_sfn : list N;        (* 11 raw bytes *)
  e_attr : N; e_ntres : N;
  e_ctime_ms : N; e_ctime : N; e_cdate : N; e_adate : N; e_mtime : N; e_mdate : N;
  e_cluster : N;         (* hi:lo as stored (hi ignored unless FAT32) *)
  e_size : N;
  e_first_slot : N;      (* index of the first slot of the entry (start of its pending LFN run) *)
  e_sfn_slot : N }.      (* index of the short slot *)

Definition is_lfn_slot (s : list N) : bool := (byte_at s 11) mod 64 =? 15.
Definition is_label_slot (s : list N) : bool := negb (N.land (byte_at s 11) 8 =? 0).

Definition lfn_units (s : list N) : list N :=
  [u16_at s 1; u16_at s 3; u16_at s 5; u16_at s 7; u16_at s 9;
   u16_at s 14; u16_at s 16; u16_at s 18; u16_at s 20; u16_at s 22; u16_at s 24; u16_at s 28; u16_at s 30].

(* pending LFN slots are kept newest-first, i.e. in ascending order of index when the run iss well formed *)
Fixpoint run_ordered (pend : list (list N)) (expect : N) : bool :=
  match pend with
  | [] => true
  | s :: r => (byte_at s 0 mod 64 =? expect) && run_ordered r (expect + 1)
  end.

Fixpoint cut_nul (us : list N) : list N :=
  match us with [] => [] | u :: r => if u =? 0 then [] else u :: cut_nul r end.
Fixpoint after_nul (us : list N) : option (list N) :=
  match us with [] => None | u :: r => if u =? 0 then Some r else after_nul r end.

Definition run_valid (pend : list (list N)) (sfn : list N) : bool :=
  let n := len_N pend in
  let ck := lfn_checksum sfn in
  match rev pend with
  | [] => true
  | first :: _ =>
    (1 <=? n) && (n <=? 20)
    && (byte_at first 0 =? n + 64)                               (* first stored slot: last index with 0x40 *)
    && run_ordered pend 1                                        (* nearest to the short entry iss 1, ascending outward *)
    && forallb (fun s => (byte_at s 13 =? ck) && (byte_at s 0 <? 128)) pend
    && forallb (fun s => (byte_at s 0 <? 64)) (removelast pend)  (* only the first stored slot carries 0x40 *)
    && (let us := flat_map lfn_units pend in
        match after_nul us with
        | Some pad => forallb (fun u => u =? 65535) pad && (len_N pad <? 13)
        | None => true
        end)
    && (1 <=? len_N (cut_nul (flat_map lfn_units pend))) && (len_N (cut_nul (flat_map lfn_units pend)) <=? 255)
  end.

Definition mk_entry (pend : list (list N)) (s : list N) (idx : N) (fat32 : bool) : entry :=
  let ok := run_valid pend (firstn 11 s) in
  {| e_lfn := if ok then cut_nul (flat_map lfn_units pend) else [];
     e_lfn_ok := ok;
     e_sfn := firstn 11 s; e_attr := byte_at s 11; e_ntres := byte_at s 12;
     e_ctime_ms := byte_at s 13; e_ctime := u16_at s 14; e_cdate := u16_at s 16; e_adate := u16_at s 18;
     e_mtime := u16_at s 22; e_mdate := u16_at s 24;
     e_cluster := (if fat32 then u16_at s 20 * 65536 else 0) + u16_at s 26;
     e_size := u32_at s 28;
     e_first_slot := idx - len_N pend; e_sfn_slot := idx |}.

(* decode-time findings about one directory *)
Inductive dissue := DOrphanLfn (slot : N) | DAfterEnd (slot : N).

(* bit 6 (0x40, LAST_LONG_ENTRY) of the order byte: this long-name slot is the first stored slot of a run *)
Definition lfn_starts (s : list N) : bool := (byte_at s 0 / 64) mod 2 =? 1.

(* walk the slots of one directory; returns entries (in order), labels, issues.
   A long-name slot carrying 0x40 STARTS a run (as every reader of the format does: the specification's "last long entry"
   is the first one stored): long-name slots still pending at that point belong to no entry - they are reported as an
   orphan run at the index of the restarting slot - and the new pending run is just this slot.  So a pending run never
   holds a 0x40 slot except as its farthest element, which is what run_valid demands. *)
Fixpoint dir_scan (ss : list (list N)) (idx : N) (pend : list (list N)) (fat32 : bool)
  : list entry * list (list N) * list dissue :=
  match ss with
  | [] => ([], [], match pend with [] => [] | _ => [DOrphanLfn idx] end)
  | s :: r =>
    if byte_at s 0 =? 0 then
      (* end marker: everything after it must be unused *)
      ([], [], (match pend with [] => [] | _ => [DOrphanLfn idx] end)
               ++ (if forallb (fun t => byte_at t 0 =? 0) r then [] else [DAfterEnd idx]))
    else if byte_at s 0 =? 229 then
      let '(es, ls, iss) := dir_scan r (idx + 1) [] fat32 in
      (es, ls, (match pend with [] => [] | _ => [DOrphanLfn idx] end) ++ iss)
    else if is_lfn_slot s then
      if lfn_starts s && (match pend with [] => false | _ => true end) then
        let '(es, ls, iss) := dir_scan r (idx + 1) [s] fat32 in
        (es, ls, DOrphanLfn idx :: iss)
      else dir_scan r (idx + 1) (s :: pend) fat32
    else if is_label_slot s then
      let '(es, ls, iss) := dir_scan r (idx + 1) [] fat32 in
      (es, firstn 11 s :: ls, (match pend with [] => [] | _ => [DOrphanLfn idx] end) ++ iss)
    else
      let e := mk_entry pend s idx fat32 in
      let '(es, ls, iss) := dir_scan r (idx + 1) [] fat32 in
      (e :: es, ls, (if e_lfn_ok e then [] else [DOrphanLfn idx]) ++ iss)
  end.

(* ------------------------------------------------------------------ the tree *)
Definition DOT : list N := [46; 32; 32; 32; 32; 32; 32; 32; 32; 32; 32].
Definition DOTDOT : list N := [46; 46; 32; 32; 32; 32; 32; 32; 32; 32; 32].
Fixpoint list_eqb (a b : list N) : bool :=
  match a, b with
  | [], [] => true
  | x :: a', y :: b' => (x =? y) && list_eqb a' b'
  | _, _ => false
  end.
Definition e_is_dir (e : entry) : bool := negb (N.land (e_attr e) 16 =? 0).
Definition e_is_dot (e : entry) : bool := list_eqb (e_sfn e) DOT || list_eqb (e_sfn e) DOTDOT.

Inductive node :=
| NFile (e : entry) (chain : option (list N)) (content : list N)
| NDir (e : entry) (chain : option (list N)) (children : list node) (issues : list dissue) (labels : list (list N))
| NDot (e : entry).

Definition node_entry (n : node) : entry :=
  match n with NFile e _ _ => e | NDir e _ _ _ _ => e | NDot e => e end.

Fixpoint decode_entries (g : geom) (im : image) (depth : nat) (es : list entry) {struct depth} : list node :=
  match depth with
  | O => map (fun e => NDot e) es   (* depth exhausted: reported by wf as a directory loop *)
  | S d =>
    map (fun e =>
      if e_is_dot e then NDot e
      else if e_is_dir e then
        let ch := if e_cluster e =? 0 then None else chain_from g im (e_cluster e) (chain_fuel g) in
        match ch with
        | Some l =>
          let '(ces, labels, iss) := dir_scan (slots_of (chain_bytes g im l)) 0 [] (g_bits g =? 32) in
          NDir e ch (decode_entries g im d ces) iss labels
        | None => NDir e None [] [] []
        end
      else
        let ch := if e_cluster e =? 0 then None else chain_from g im (e_cluster e) (chain_fuel g) in
        NFile e ch (match ch with Some l => firstn (N.to_nat (e_size e)) (chain_bytes g im l) | None => [] end)) es
  end.

Record volume := {
  v_geom : geom;
  v_root_chain : option (list N);        (* FAT32 only *)
  v_root : list node;
  v_root_issues : list dissue;
  v_labels : list (list N);
  v_status : N;                          (* status byte in the boot sector *)
  v_fsinfo_free : N; v_fsinfo_next : N;  (* raw FS-info words (FAT32; else 0) *)
}.

Definition MAX_DEPTH : nat := 24.

Definition root_slots (g : geom) (im : image) : option (list N) * list (list N) :=
  if g_bits g =? 32 then
    match chain_from g im (g_root_cluster g) (chain_fuel g) with
    | Some l => (Some l, slots_of (chain_bytes g im l))
    | None => (None, [])
    end
  else (None, slots_of (img_read im (g_root_off g) (N.to_nat (g_root_entries g * 32)))).

Definition abs (im : image) : volume :=
  let g := parse_geom im in
  let '(rc, ss) := root_slots g im in
  let '(es, labels, iss) := dir_scan ss 0 [] (g_bits g =? 32) in
  let fsi := g_fsinfo_sector g * g_bps g in
  {| v_geom := g; v_root_chain := rc; v_root := decode_entries g im MAX_DEPTH es; v_root_issues := iss;
     v_labels := labels; v_status := img_get im (g_status_off g);
     v_fsinfo_free := if g_bits g =? 32 then img_u32 im (fsi + 488) else 0;
     v_fsinfo_next := if g_bits g =? 32 then img_u32 im (fsi + 492) else 0 |}.

(* ------------------------------------------------------------------ free clusters *)
Fixpoint count_free_from (g : geom) (im : image) (c : N) (n : nat) : N :=
  match n with
  | O => 0
  | S k => (match fat_val g im c with FFree => 1 | _ => 0 end) + count_free_from g im (c + 1) k
  end.
Definition count_free (g : geom) (im : image) : N := count_free_from g im 2 (N.to_nat (g_clusters g)).

(* all FAT copies byte-identical *)
Fixpoint bytes_equal (im : image) (a b : N) (n : nat) : bool :=
  match n with O => true | S k => (img_get im a =? img_get im b) && bytes_equal im (a + 1) (b + 1) k end.
Fixpoint copies_equal_from (g : geom) (im : image) (k : nat) : bool :=
  match k with
  | O => true
  | S j => bytes_equal im (g_fat_off g 0) (g_fat_off g (N.of_nat (S j))) (N.to_nat (g_fat_bytes g))
           && copies_equal_from g im j
  end.
Definition fat_copies_equal (g : geom) (im : image) : bool := copies_equal_from g im (N.to_nat (g_fats g) - 1).

(* short-name rendering "NAME.EXT" per the specification (0x05 lead byte stands for 0xE5) *)
Fixpoint rstrip_spaces (l : list N) : list N :=
  match l with
  | [] => []
  | x :: r => let r' := rstrip_spaces r in if (x =? 32) && (match r' with [] => true | _ => false end) then [] else x :: r'
  end.
Definition sfn_render (sfn : list N) : list N :=
  let base := rstrip_spaces (firstn 8 sfn) in
  let ext := rstrip_spaces (skipn 8 sfn) in
  let s := match ext with [] => base | _ => base ++ [46] ++ ext end in
  match s with 5 :: r => 229 :: r | _ => s end.
