(* LfnSpec.v: what the long name of a directory entry SHOULD be, stated from the FAT long-name rules and
   independently of how the library assembles it (no buffer, no builder state, no forward state machine):
   look BACK from the short entry over the slots that precede it.

   A short entry has a long name iff the slots immediately before it are a complete run
        [n|0x40] [n-1] ... [2] [1]      (physical order; 1 <= n <= 20)
   of long-name slots, none deleted, every one carrying the checksum of the short name.  The name is
   part(1) ++ part(2) ++ ... ++ part(n), cut at the first NUL unit, if that is at most 255 units.
   Otherwise the entry has no long name (callers fall back to the short name).  Nothing that lies before
   the slot carrying the 0x40 flag can contribute. *)
From FatVerif Require Import Model.Base Model.Str Model.Slot Model.Time Model.Lfn.
Open Scope N_scope.

Definition lfn_is_deleted (e : lfn_entry) : bool := le_order e =? DELETED_FLAG.

(* [back]: the slots before the short entry, NEAREST FIRST.  [k]: the index the next slot must carry.
   [acc]: parts 1 .. k-1 already collected. *)
Fixpoint run_back (ck : N) (k : N) (back : list slot) (acc : list N) : option (list N) :=
  match back with
  | [] => None
  | SFile _ :: _ => None                       (* a short, deleted-short or volume slot interrupts *)
  | SLfn e :: more =>
    if lfn_is_deleted e then None
    else if (1 <=? k) && (k <=? 20) && (order_index (le_order e) =? k) && (le_checksum e =? ck) then
      if order_is_last (le_order e) then Some (acc ++ le_name e)
      else run_back ck (k + 1) more (acc ++ le_name e)
    else None
  end.

(* cut at the first NUL unit *)
Fixpoint until_nul (us : list N) : list N :=
  match us with
  | [] => []
  | u :: r => if u =? 0 then [] else u :: until_nul r
  end.

(* the long name ([] = none) of a short entry with raw name [name11] preceded (nearest first) by [back] *)
Definition lfn_spec (back : list slot) (name11 : list N) : list N :=
  match run_back (lfn_checksum name11) 1 back [] with
  | Some us => let n := until_nul us in if len_N n <=? 255 then n else []
  | None => []
  end.

(* which slots are entries of the listing *)
Definition is_entry (skip_volume : bool) (s : slot) : bool :=
  match s with
  | SFile e => negb (slot_is_deleted s) && negb (skip_volume && sfn_is_volume e)
  | SLfn _ => false
  end.

(* the slots that belong to the entry: the live long-name slots directly before it (complete run or not) *)
Definition is_live_lfn (s : slot) : bool :=
  match s with SLfn e => negb (lfn_is_deleted e) | SFile _ => false end.
Fixpoint take_while {A} (f : A -> bool) (l : list A) : list A :=
  match l with [] => [] | x :: r => if f x then x :: take_while f r else [] end.

(* the listing of a directory: every entry slot before the end marker, with the long name given by
   [lfn_spec] on the slots before it.  [before] = decoded slots already passed, nearest first. *)
Fixpoint spec_list (oem : N -> N) (skip_volume : bool) (before : list slot) (slots : list (list N)) : list entry_view :=
  match slots with
  | [] => []
  | bs :: rest =>
    let s := slot_decode bs in
    if slot_is_end s then []
    else
      match s with
      | SFile e =>
        if is_entry skip_volume s then
          let pos := len_N before in
          mk_view oem e (lfn_spec before (se_name e))
                  (32 * (pos - len_N (take_while is_live_lfn before))) (32 * (pos + 1))
          :: spec_list oem skip_volume (s :: before) rest
        else spec_list oem skip_volume (s :: before) rest
      | SLfn _ => spec_list oem skip_volume (s :: before) rest
      end
  end.

Definition spec_dir (oem : N -> N) (skip_volume : bool) (slots : list (list N)) : list entry_view :=
  spec_list oem skip_volume [] slots.

(* A readable, relational form of "complete run" used to state what [run_back] accepts:
   [run] = the long-name entries of the run, nearest first (index 1 first). *)
Fixpoint run_ok (ck : N) (k : N) (run : list lfn_entry) : bool :=
  match run with
  | [] => false
  | e :: more =>
    negb (lfn_is_deleted e) && (1 <=? k) && (k <=? 20) && (order_index (le_order e) =? k) && (le_checksum e =? ck)
    && (if order_is_last (le_order e) then match more with [] => true | _ => false end
        else run_ok ck (k + 1) more)
  end.

(* ---------------------------------------------------------------- vocabulary of the C17 / C19 theorems *)
(* cut at the first NUL; more than 255 units = no long name *)
Definition cut_name (us : list N) : list N :=
  let n := until_nul us in if len_N n <=? 255 then n else [].
(* the entry a short slot [se] yields when the raw slots [pre] (directory order) precede it, themselves preceded by
   the decoded slots [before] (nearest first) *)
Definition entry_at (oem : N -> N) (before : list slot) (pre : list (list N)) (se : sfn_entry) : entry_view :=
  let hist := rev (map slot_decode pre) ++ before in
  mk_view oem se (lfn_spec hist (se_name se))
          (32 * (len_N hist - len_N (take_while is_live_lfn hist))) (32 * (len_N hist + 1)).
(* [e] is listed for [slots]: some slot, not behind an end marker, is a live short entry and [e] is its view *)
Definition listed_at (oem : N -> N) (sv : bool) (before : list slot) (slots : list (list N)) (e : entry_view) : Prop :=
  exists pre bs post se,
    slots = pre ++ bs :: post /\
    Forall (fun p => slot_is_end (slot_decode p) = false) pre /\
    slot_decode bs = SFile se /\ slot_is_end (SFile se) = false /\ is_entry sv (SFile se) = true /\
    e = entry_at oem before pre se.
Definition bytes_ok (bs : list N) : Prop := Forall (fun b => b < 256) bs.
Definition slot_ok (bs : list N) : Prop := length bs = 32%nat /\ bytes_ok bs.
Definition date_in_range (d : date) : Prop := 1980 <= year d <= 2107 /\ month d < 16 /\ day d < 32.
Definition time_in_range (t : time) : Prop := hour t < 32 /\ min t < 64 /\ sec t < 65 /\ millis t < 1000.
Definition units_ok (us : list N) : Prop := Forall (fun u => u < 65536) us.
Definition str_ok (s : str) : Prop := Forall (fun c => is_scalar c = true) s.
(* every accessor value is inside its machine range *)
Definition view_in_range (e : entry_view) : Prop :=
  units_ok (ev_lfn e) /\ len_N (ev_lfn e) <= 255 /\
  length (ev_raw_name e) = 11%nat /\ bytes_ok (ev_raw_name e) /\
  (length (ev_short e) <= 12)%nat /\ bytes_ok (ev_short e) /\
  ev_attrs e < 64 /\ ev_size e < 4294967296 /\ ev_cluster_hi e < 65536 /\ ev_cluster_lo e < 65536 /\
  date_in_range (dt_date (ev_created e)) /\ time_in_range (dt_time (ev_created e)) /\
  date_in_range (dt_date (ev_modified e)) /\ time_in_range (dt_time (ev_modified e)) /\
  date_in_range (ev_accessed e) /\
  (ev_is_dir e = true <-> (ev_attrs e / 16) mod 2 = 1).
Definition ascii (s : list N) : Prop := Forall (fun c => c < 128) s.
