(* FormatSpec.v: what "a specification-valid freshly formatted boot sector" means (C06), written from the
   FAT specification (Microsoft FAT32 File System Specification 1.03, "Boot Sector and BPB", "FAT Type
   Determination") and from the property text, independently of how the library sizes a volume.
   The record [fbpb] is only the list of decoded BPB fields.  Natural-number arithmetic (no wrap-around):
   a clause that would need a negative number is false.  No proofs here. *)
From Coq Require Import NArith List Bool.
From FatVerif Require Import Model.Base Model.Format.
Import ListNotations.
Open Scope N_scope.

Definition sp_pow2 (n : N) : bool := (0 <? n) && (n =? 2 ^ N.log2 n).

(* RootDirSectors = ((BPB_RootEntCnt * 32) + (BPB_BytsPerSec - 1)) / BPB_BytsPerSec *)
Definition sp_root_dir_sectors (b : fbpb) : N :=
  (fb_root_entries b * 32 + (fb_bytes_per_sector b - 1)) / fb_bytes_per_sector b.
(* FATSz = BPB_FATSz16 if non-zero, else BPB_FATSz32; TotSec likewise *)
Definition sp_fat_size (b : fbpb) : N :=
  if fb_sectors_per_fat_16 b =? 0 then fb_sectors_per_fat_32 b else fb_sectors_per_fat_16 b.
Definition sp_total_sectors (b : fbpb) : N :=
  if fb_total_sectors_16 b =? 0 then fb_total_sectors_32 b else fb_total_sectors_16 b.
(* sectors before the data region *)
Definition sp_meta_sectors (b : fbpb) : N :=
  fb_reserved_sectors b + fb_fats b * sp_fat_size b + sp_root_dir_sectors b.
(* CountofClusters = DataSec / BPB_SecPerClus, rounded down *)
Definition sp_clusters (b : fbpb) : N :=
  (sp_total_sectors b - sp_meta_sectors b) / fb_sectors_per_cluster b.
Definition sp_type_of_clusters (c : N) : fat_type :=
  if c <? 4085 then Fat12 else if c <? 65525 then Fat16 else Fat32.
Definition sp_bits (t : fat_type) : N := match t with Fat12 => 12 | Fat16 => 16 | Fat32 => 32 end.
(* number of whole entries one FAT copy can hold *)
Definition sp_fat_entries (b : fbpb) (t : fat_type) : N :=
  sp_fat_size b * fb_bytes_per_sector b * 8 / sp_bits t.
Definition sp_min_clusters (t : fat_type) : N := match t with Fat12 => 0 | Fat16 => 4085 | Fat32 => 65525 end.
Definition sp_max_clusters (t : fat_type) : N := match t with Fat12 => 4084 | Fat16 => 65524 | Fat32 => 268435444 end.
Definition sp_is32 (t : fat_type) : bool := match t with Fat32 => true | _ => false end.
Definition sp_type_eqb (a b : fat_type) : bool :=
  match a, b with Fat12, Fat12 | Fat16, Fat16 | Fat32, Fat32 => true | _, _ => false end.
Definition sp_label (t : fat_type) : list N :=
  match t with
  | Fat12 => [70; 65; 84; 49; 50; 32; 32; 32]
  | Fat16 => [70; 65; 84; 49; 54; 32; 32; 32]
  | Fat32 => [70; 65; 84; 51; 50; 32; 32; 32]
  end.
Fixpoint sp_list_eqb (a b : list N) : bool :=
  match a, b with
  | [], [] => true
  | x :: a', y :: b' => (x =? y) && sp_list_eqb a' b'
  | _, _ => false
  end.

(* The clauses.  [ts] = the sector count the caller asked for, [chosen] = the FAT type the formatter reports,
   [req] = the FAT type the caller forced (if any). *)
Definition cl_sector_size (b : fbpb) : bool :=
  sp_pow2 (fb_bytes_per_sector b) && (512 <=? fb_bytes_per_sector b) && (fb_bytes_per_sector b <=? 4096).
Definition cl_cluster_size (b : fbpb) : bool :=
  sp_pow2 (fb_sectors_per_cluster b) && (fb_sectors_per_cluster b <=? 128).
Definition cl_counts (b : fbpb) : bool :=
  (1 <=? fb_reserved_sectors b) && (1 <=? fb_fats b) && (fb_fats b <=? 2).
Definition cl_declared_size (b : fbpb) (ts : N) : bool :=
  (sp_total_sectors b =? ts) && ((fb_total_sectors_16 b =? 0) || (fb_total_sectors_32 b =? 0)) &&
  (fb_hidden_sectors b =? 0).
Definition cl_regions_fit (b : fbpb) (ts : N) : bool :=
  (sp_meta_sectors b <? ts) &&
  (sp_meta_sectors b + sp_clusters b * fb_sectors_per_cluster b <=? ts).
Definition cl_type_from_clusters (b : fbpb) (chosen : fat_type) : bool :=
  sp_type_eqb (sp_type_of_clusters (sp_clusters b)) chosen.
Definition cl_requested_type (chosen : fat_type) (req : option fat_type) : bool :=
  match req with None => true | Some t => sp_type_eqb t chosen end.
Definition cl_fat_capacity (b : fbpb) (chosen : fat_type) : bool :=
  sp_clusters b + 2 <=? sp_fat_entries b chosen.
Definition cl_fat32_fields (b : fbpb) (chosen : fat_type) : bool :=
  if sp_is32 chosen then
    (fb_sectors_per_fat_16 b =? 0) && negb (fb_sectors_per_fat_32 b =? 0) &&
    (fb_backup_boot_sector b =? 6) && (fb_fs_info_sector b =? 1) &&
    (fb_backup_boot_sector b <? fb_reserved_sectors b) && (fb_fs_info_sector b <? fb_reserved_sectors b) &&
    (fb_root_entries b =? 0) && (fb_total_sectors_16 b =? 0) && (fb_fs_version b =? 0) &&
    (fb_extended_flags b =? 0) &&
    (2 <=? fb_root_dir_first_cluster b) && (fb_root_dir_first_cluster b <? sp_clusters b + 2)
  else
    negb (fb_sectors_per_fat_16 b =? 0) && negb (fb_root_entries b =? 0).
Definition cl_cluster_limits (b : fbpb) (chosen : fat_type) : bool :=
  (sp_min_clusters chosen <=? sp_clusters b) && (sp_clusters b <=? sp_max_clusters chosen).
Definition cl_labels (b : fbpb) (chosen : fat_type) : bool :=
  (fb_ext_sig b =? 41) && sp_list_eqb (fb_fs_type_label b) (sp_label chosen) &&
  Nat.eqb (length (fb_volume_label b)) 11.

Definition fmt_clauses (b : fbpb) (ts : N) (chosen : fat_type) (req : option fat_type) : list (N * bool) :=
  [ (1, cl_sector_size b); (2, cl_cluster_size b); (3, cl_counts b); (4, cl_declared_size b ts);
    (5, cl_regions_fit b ts); (6, cl_type_from_clusters b chosen); (7, cl_requested_type chosen req);
    (8, cl_fat_capacity b chosen); (9, cl_fat32_fields b chosen); (10, cl_cluster_limits b chosen);
    (11, cl_labels b chosen) ].

(* numbers of the violated clauses; [] = valid *)
Definition fmt_violations (b : fbpb) (ts : N) (chosen : fat_type) (req : option fat_type) : list N :=
  map fst (filter (fun p => negb (snd p)) (fmt_clauses b ts chosen req)).

(* boot-sector level: signature and the two jump forms *)
Definition cl_boot_frame (s : fboot) : bool :=
  sp_list_eqb (fbs_boot_sig s) [85; 170] && Nat.eqb (length (fbs_oem_name s)) 8 &&
  match fbs_bootjmp s with [a; _; c] => ((a =? 235) && (c =? 144)) || (a =? 233) | _ => false end.

Definition boot_violations (s : fboot) (ts : N) (chosen : fat_type) (req : option fat_type) : list N :=
  fmt_violations (fbs_bpb s) ts chosen req ++ (if cl_boot_frame s then [] else [12]).

(* ---------------------------------------------------------------- the requests the public builder can construct
   FormatVolumeOptions::new() followed by any sequence of builder calls: the field types bound every number,
   and three setters assert: bytes_per_sector / bytes_per_cluster "is_power_of_two() && >= 512", fats in 1..=2. *)
Definition builder_range (o : fmt_options) : Prop :=
  sp_pow2 (o_bytes_per_sector o) = true /\ 512 <= o_bytes_per_sector o <= 65535 /\
  (forall b, o_bytes_per_cluster o = Some b -> sp_pow2 b = true /\ 512 <= b <= 4294967295) /\
  o_max_root_dir_entries o <= 65535 /\
  1 <= o_fats o <= 2 /\
  o_media o <= 255 /\ o_sectors_per_track o <= 65535 /\ o_heads o <= 65535 /\
  (forall d, o_drive_num o = Some d -> d <= 255) /\
  o_volume_id o <= 4294967295 /\
  (forall l, o_volume_label o = Some l -> length l = 11%nat /\ Forall (fun x => x <= 255) l).

(* The same clauses as one proposition (FormatProofs.violations_nil_iff: [fmt_violations b ts chosen req = []] iff this). *)
Definition valid_format_geometry (b : fbpb) (ts : N) (chosen : fat_type) (req : option fat_type) : Prop :=
  let clusters := sp_clusters b in
  (* 1 *) ((exists k, fb_bytes_per_sector b = 2 ^ k) /\ 512 <= fb_bytes_per_sector b <= 4096) /\
  (* 2 *) ((exists k, fb_sectors_per_cluster b = 2 ^ k) /\ fb_sectors_per_cluster b <= 128) /\
  (* 3 *) (1 <= fb_reserved_sectors b /\ 1 <= fb_fats b <= 2) /\
  (* 4 *) (sp_total_sectors b = ts /\ (fb_total_sectors_16 b = 0 \/ fb_total_sectors_32 b = 0) /\ fb_hidden_sectors b = 0) /\
  (* 5 *) (sp_meta_sectors b < ts /\ sp_meta_sectors b + clusters * fb_sectors_per_cluster b <= ts) /\
  (* 6 *) sp_type_of_clusters clusters = chosen /\
  (* 7 *) (forall t, req = Some t -> t = chosen) /\
  (* 8 *) clusters + 2 <= sp_fat_entries b chosen /\
  (* 9 *) (if sp_is32 chosen then
             fb_sectors_per_fat_16 b = 0 /\ fb_sectors_per_fat_32 b <> 0 /\
             fb_backup_boot_sector b = 6 /\ fb_fs_info_sector b = 1 /\
             fb_backup_boot_sector b < fb_reserved_sectors b /\ fb_fs_info_sector b < fb_reserved_sectors b /\
             fb_root_entries b = 0 /\ fb_total_sectors_16 b = 0 /\ fb_fs_version b = 0 /\ fb_extended_flags b = 0 /\
             2 <= fb_root_dir_first_cluster b /\ fb_root_dir_first_cluster b < clusters + 2
           else fb_sectors_per_fat_16 b <> 0 /\ fb_root_entries b <> 0) /\
  (* 10 *) (sp_min_clusters chosen <= clusters /\ clusters <= sp_max_clusters chosen) /\
  (* 11 *) (fb_ext_sig b = 41 /\ fb_fs_type_label b = sp_label chosen /\ length (fb_volume_label b) = 11%nat).
