(* FormatImageSpec.v: where the structures of a freshly formatted volume lie on the device, as a function of the
   decoded boot sector (C06, image level).  Written from the FAT specification: sector 0 is the boot sector; a FAT32
   volume has an FS-info sector and a backup boot sector in the reserved area; BPB_NumFATs copies of the FAT follow
   the reserved sectors; then the fixed root directory region (FAT12/16) or the data region whose first cluster
   (cluster 2) is the root directory (FAT32 as formatted here).  No proofs here. *)
From Coq Require Import NArith Bool.
From FatVerif Require Import Model.Base Spec.Image Model.Fat Model.Format Spec.FormatSpec.
From FatVerif Require Spec.Abs.
Open Scope N_scope.

Definition fi_fat_pos (b : fbpb) : N := fb_reserved_sectors b * fb_bytes_per_sector b.
(* bytes of ONE copy *)
Definition fi_fat_bytes (b : fbpb) : N := sp_fat_size b * fb_bytes_per_sector b.
(* first byte after the last copy = root directory region (FAT12/16) / first data cluster (FAT32) *)
Definition fi_root_pos (b : fbpb) : N := (fb_reserved_sectors b + fb_fats b * sp_fat_size b) * fb_bytes_per_sector b.
Definition fi_root_len (b : fbpb) (t : fat_type) : N :=
  if sp_is32 t then fb_sectors_per_cluster b * fb_bytes_per_sector b
  else sp_root_dir_sectors b * fb_bytes_per_sector b.
Definition fi_fsinfo_pos (b : fbpb) : N := fb_fs_info_sector b * fb_bytes_per_sector b.
Definition fi_backup_pos (b : fbpb) : N := fb_backup_boot_sector b * fb_bytes_per_sector b.

(* the FAT copies of an image as a mirrored store (Model/Fat.v): entry views val12/val16/val32 of Proofs/FatProofs.v *)
Definition fi_fat_store (im : image) (b : fbpb) : fstore :=
  {| fs_img := im; fs_base := fi_fat_pos b; fs_size := fi_fat_bytes b; fs_mirrors := N.to_nat (fb_fats b) |}.

Definition fi_in (lo len x : N) : bool := (lo <=? x) && (x <? lo + len).

(* the bytes format_volume owns: boot sector, (FAT32) FS-info and backup boot sector, all FAT copies, root directory *)
Definition fi_written (b : fbpb) (t : fat_type) (x : N) : bool :=
  fi_in 0 (fb_bytes_per_sector b) x
  || (sp_is32 t && (fi_in (fi_fsinfo_pos b) (fb_bytes_per_sector b) x || fi_in (fi_backup_pos b) (fb_bytes_per_sector b) x))
  || fi_in (fi_fat_pos b) (fb_fats b * fi_fat_bytes b) x
  || fi_in (fi_root_pos b) (fi_root_len b t) x.

(* the geometry the independent decoder (Spec/Abs.v parse_geom) must read back from the boot sector *)
Definition geom_of (b : fbpb) : Abs.geom :=
  {| Abs.g_bps := fb_bytes_per_sector b; Abs.g_spc := fb_sectors_per_cluster b; Abs.g_reserved := fb_reserved_sectors b;
     Abs.g_fats := fb_fats b; Abs.g_root_entries := fb_root_entries b; Abs.g_total_sectors := sp_total_sectors b;
     Abs.g_spf := sp_fat_size b; Abs.g_ext_flags := fb_extended_flags b; Abs.g_root_cluster := fb_root_dir_first_cluster b;
     Abs.g_fsinfo_sector := fb_fs_info_sector b; Abs.g_backup_sector := fb_backup_boot_sector b; Abs.g_media := fb_media b |}.

