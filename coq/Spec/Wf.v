(* Wf.v: the structural invariants of property C03 as an executable checker over the decoded volume.
   [wf_issues fold im] returns the list of violated clauses (empty = well formed). *)
From Coq Require Import FMapPositive.
From FatVerif Require Import Model.Base Model.Slot Spec.Image Spec.Abs.
Open Scope N_scope.

Inductive issue :=
| WOrphanLfn (dir_cluster slot : N)      (* live LFN slot not part of a complete, ordered, padded, checksummed run *)
| WAfterEnd (dir_cluster slot : N)       (* something follows the end-of-directory marker *)
| WChainBroken (first : N)               (* out-of-range link, free/bad entry inside a chain, or a cycle *)
| WCrossLink (c : N)                     (* cluster owned twice *)
| WLost (c : N)                          (* allocated cluster owned by nobody *)
| WSizeChain (first size len : N)        (* chain length does not match the recorded size *)
| WEmptyOwns (first : N)                 (* empty file owns a cluster *)
| WSizeNoCluster (size : N)              (* non-empty file without a first cluster *)
| WDirNoCluster                          (* sub-directory entry without a cluster *)
| WDot (dir_cluster : N)                 (* first entry is not "." pointing at the directory itself *)
| WDotDot (dir_cluster : N)              (* second entry is not ".." pointing at the real parent *)
| WDupShort (dir_cluster : N)
| WDupLong (dir_cluster : N)
| WDepth
| WRootChain.

Section WithFold.
Variable fold : list N -> list N.   (* case folding of a long name (UTF-16 units) *)

Fixpoint has_dup (eqb : list N -> list N -> bool) (l : list (list N)) : bool :=
  match l with
  | [] => false
  | x :: r => existsb (eqb x) r || has_dup eqb r
  end.

Definition dir_issue (dc : N) (d : dissue) : issue :=
  match d with DOrphanLfn s => WOrphanLfn dc s | DAfterEnd s => WAfterEnd dc s end.

Definition names_issues (dc : N) (ns : list node) : list issue :=
  let es := map node_entry ns in
  (if has_dup list_eqb (map e_sfn es) then [WDupShort dc] else [])
  ++ (if has_dup list_eqb (map fold (filter (fun l => negb (match l with [] => true | _ => false end)) (map e_lfn es)))
      then [WDupLong dc] else []).

Definition ceil_div (a b : N) : N := (a + b - 1) / b.

(* issues of one node that lives in the directory whose cluster is [pc] (0 for the root, also on FAT32) *)
Fixpoint node_issues (g : geom) (pc : N) (n : node) {struct n} : list issue :=
  match n with
  | NDot _ => []
  | NFile e ch content =>
    if e_size e =? 0 then (if e_cluster e =? 0 then [] else [WEmptyOwns (e_cluster e)])
    else if e_cluster e =? 0 then [WSizeNoCluster (e_size e)]
    else match ch with
         | None => [WChainBroken (e_cluster e)]
         | Some l => if len_N l =? ceil_div (e_size e) (g_cluster_size g) then []
                     else [WSizeChain (e_cluster e) (e_size e) (len_N l)]
         end
  | NDir e ch children iss labels =>
    if e_cluster e =? 0 then [WDirNoCluster]
    else match ch with
         | None => [WChainBroken (e_cluster e)]
         | Some _ =>
           map (dir_issue (e_cluster e)) iss
           ++ (match children with
               | NDot d1 :: rest =>
                 (if list_eqb (e_sfn d1) DOT && (e_cluster d1 =? e_cluster e) && e_is_dir d1 && (e_sfn_slot d1 =? 0)
                  then [] else [WDot (e_cluster e)])
                 ++ (match rest with
                     | NDot d2 :: _ =>
                       if list_eqb (e_sfn d2) DOTDOT && (e_cluster d2 =? pc) && e_is_dir d2 && (e_sfn_slot d2 =? 1)
                       then [] else [WDotDot (e_cluster e)]
                     | _ => [WDotDot (e_cluster e)]
                     end)
               | _ => [WDot (e_cluster e); WDotDot (e_cluster e)]
               end)
           ++ names_issues (e_cluster e) children
           ++ (fix sub (cs : list node) : list issue :=
                 match cs with
                 | [] => []
                 | c :: cr => node_issues g (e_cluster e) c ++ sub cr
                 end) children
         end
  end.

Definition nodes_issues (g : geom) (pc : N) (ns : list node) : list issue := flat_map (node_issues g pc) ns.

(* all chains referenced from the tree *)
Fixpoint node_chains (n : node) {struct n} : list (list N) :=
  match n with
  | NDot _ => []
  | NFile _ (Some l) _ => [l]
  | NFile _ None _ => []
  | NDir _ ch children _ _ =>
    (match ch with Some l => [l] | None => [] end)
    ++ (fix sub (cs : list node) : list (list N) :=
          match cs with [] => [] | c :: cr => node_chains c ++ sub cr end) children
  end.
Definition nodes_chains (ns : list node) : list (list N) := flat_map node_chains ns.

Fixpoint own_clusters (cs : list N) (m : PositiveMap.t unit) : PositiveMap.t unit * list issue :=
  match cs with
  | [] => (m, [])
  | c :: r =>
    match PositiveMap.find (N.succ_pos c) m with
    | Some _ => let '(m', iss) := own_clusters r m in (m', WCrossLink c :: iss)
    | None => own_clusters r (PositiveMap.add (N.succ_pos c) tt m)
    end
  end.

Fixpoint lost_from (g : geom) (im : image) (m : PositiveMap.t unit) (c : N) (n : nat) : list issue :=
  match n with
  | O => []
  | S k =>
    (match fat_val g im c with
     | FFree | FBad => []
     | _ => match PositiveMap.find (N.succ_pos c) m with Some _ => [] | None => [WLost c] end
     end) ++ lost_from g im m (c + 1) k
  end.

Fixpoint depth_exceeded (ns : list node) (d : nat) : bool :=
  match d with
  | O => existsb (fun n => match n with NDir _ _ _ _ _ => true | _ => false end) ns
  | S k => existsb (fun n => match n with NDir _ _ ch _ _ => depth_exceeded ch k | _ => false end) ns
  end.

Definition wf_issues (im : image) : list issue :=
  let v := abs im in
  let g := v_geom v in
  let is32 := g_bits g =? 32 in
  let rootc := if is32 then g_root_cluster g else 0 in
  let root_ok := if is32 then (match v_root_chain v with Some _ => true | None => false end) else true in
  let chains := (match v_root_chain v with Some l => [l] | None => [] end) ++ nodes_chains (v_root v) in
  let '(owned, cross) := own_clusters (concat chains) (PositiveMap.empty unit) in
  (if root_ok then [] else [WRootChain])
  ++ map (dir_issue rootc) (v_root_issues v)
  ++ names_issues rootc (v_root v)
  ++ nodes_issues g 0 (v_root v)
  ++ cross
  ++ lost_from g im owned 2 (N.to_nat (g_clusters g))
  ++ (if depth_exceeded (v_root v) MAX_DEPTH then [WDepth] else []).

End WithFold.
