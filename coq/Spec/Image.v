(* Image.v: raw storage images as sparse byte maps (default fill byte), used by the independent
   decoder (Spec/Abs.v) and by the image-level models. Executable; extracted. *)
From Coq Require Import FMapPositive.
From FatVerif Require Import Model.Base.
Open Scope N_scope.

Record image := { img_map : PositiveMap.t N; img_fill : N }.

Definition img_empty (fill : N) : image := {| img_map := PositiveMap.empty N; img_fill := fill |}.

Definition img_get (im : image) (off : N) : N :=
  match PositiveMap.find (N.succ_pos off) (img_map im) with Some b => b | None => img_fill im end.

Definition img_set (im : image) (off b : N) : image :=
  {| img_map := PositiveMap.add (N.succ_pos off) b (img_map im); img_fill := img_fill im |}.

Fixpoint img_write (im : image) (off : N) (bs : list N) : image :=
  match bs with [] => im | b :: r => img_write (img_set im off b) (off + 1) r end.

Fixpoint img_read (im : image) (off : N) (n : nat) : list N :=
  match n with O => [] | S k => img_get im off :: img_read im (off + 1) k end.

Definition img_u16 (im : image) (off : N) : N := img_get im off + 256 * img_get im (off + 1).
Definition img_u32 (im : image) (off : N) : N := img_u16 im off + 65536 * img_u16 im (off + 2).
