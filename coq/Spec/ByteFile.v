(* ByteFile.v: the byte-array-with-cursor machine of property C02, written from the property text only.
   State = (content, position).  [bf_step st op r] accepts or rejects the outcome [r] that an implementation
   reported for [op] and gives the next state (reads and writes may be short, so the outcome is an input). *)
From Coq Require Import ZArith.
From FatVerif Require Import Model.Base Model.FileM.
Open Scope N_scope.

Definition write_at (content : list N) (pos : nat) (data : list N) : list N :=
  firstn pos content ++ data ++ skipn (pos + length data) content.

Definition seek_target (len pos : N) (p : seekfrom) : Z :=
  match p with
  | FromStart x => Z.of_N x
  | FromEnd o => (Z.of_N len + o)%Z
  | FromCurrent o => (Z.of_N pos + o)%Z
  end.

Definition bytes_eqb (a b : list N) : bool :=
  (length a =? length b)%nat && forallb (fun p => fst p =? snd p) (combine a b).

Definition bf_step (st : list N * N) (o : fop) (r : fresult) : option (list N * N) :=
  let '(content, pos) := st in
  let len := len_N content in
  match o, r with
  | FRead n, RBytes bs =>
    let k := len_N bs in
    let avail := N.min n (len - pos) in
    if (k <=? avail) && ((0 <? k) || (avail =? 0))
       && bytes_eqb bs (firstn (N.to_nat k) (skipn (N.to_nat pos) content))
    then Some (content, pos + k) else None
  | FWrite d, RCount k =>
    (* a write of a non-empty buffer makes progress unless the position is the largest file size *)
    if (k <=? len_N d) && ((0 <? k) || (len_N d =? 0) || (pos =? MAX_FILE_SIZE))
    then Some (write_at content (N.to_nat pos) (firstn (N.to_nat k) d), pos + k) else None
  | FWrite d, RFail ENotEnoughSpace => Some st
  | FSeek p, RPos q =>
    let tg := seek_target len pos p in
    if ((0 <=? tg)%Z && (q =? N.min (Z.to_N tg) len)) then Some (content, q) else None
  | FSeek p, RFail EInvalidInput =>
    if (seek_target len pos p <? 0)%Z then Some st else None
  | FTruncate, RDone => Some (firstn (N.to_nat pos) content, pos)
  | _, _ => None
  end.

Fixpoint bf_run (st : list N * N) (ops : list fop) (rs : list fresult) : option (list N * N) :=
  match ops, rs with
  | [], [] => Some st
  | o :: ops', r :: rs' => match bf_step st o r with Some st' => bf_run st' ops' rs' | None => None end
  | _, _ => None
  end.

(* several byte arrays, operations addressed by index (an index without an array is skipped) *)
Fixpoint bf_multi (sts : list (list N * N)) (ops : list (nat * fop)) (rs : list fresult) : option (list (list N * N)) :=
  match ops with
  | [] => match rs with [] => Some sts | _ => None end
  | (i, o) :: ops' =>
    match nth_error sts i with
    | None => bf_multi sts ops' rs
    | Some st =>
      match rs with
      | r :: rs' => match bf_step st o r with Some st' => bf_multi (list_set sts i st') ops' rs' | None => None end
      | [] => None
      end
    end
  end.
