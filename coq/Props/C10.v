(* C10 - FAT copies and reserved table bits are maintained exactly as the format requires.
   Property theorems only: each is closed by [exact] of a lemma of Proofs/FatProofs.v (byte-level FAT12/16/32
   codecs of Model/Fat.v over a mirrored DiskSlice) or Proofs/TableProofs.v (cluster-chain layer).

   Vocabulary (Proofs/FatProofs.v):
     copy_byte s i o  = image byte at  fs_base s + i * fs_size s + o      (copy i of the table, relative offset o)
     ebyte s o        = image byte at  fs_base s + o                      (first copy)
     copies_equal s   = forall i < mirrors, o < size, copy_byte s i o = copy_byte s 0 o
     geom_eq s s'     = base, size and number of mirrors of s' are those of s
     bytes_ok im      = every image byte is < 256
     okc16 s c = 2c+2 <= size /\ c < 2^31;  okc32 s c = 4c+4 <= size /\ c < 0x0FFFFFF7;
     okc12 s c = c + c/2 + 2 <= size /\ c + c/2 < 2^32       (the entry lies inside the table, no u32 overflow)
     okv16/okv32/okv12 v = v is Free, Bad, Eoc or Data n with 0 < n < 0xFFF7 / 0x0FFFFFF7 / 0xFF7
     val16/val32/val12 s c = the entry decoded from the bytes of the first copy.
   A store with [fs_mirrors = 1] placed on the active copy is the "mirroring disabled" slice of fs.rs fat_slice. *)
From Coq Require Import NArith List Lia.
From FatVerif Require Import Model.Base Model.Slot Model.Table Spec.Image Model.Fat
  Proofs.ImageProofs Proofs.TableProofs Proofs.FatProofs.
Import ListNotations.
Open Scope N_scope.

(* ------------------------------------------------------------------ 1. get decodes the first copy *)
Theorem C10_get16_val : forall s c, okc16 s c -> get16 s c = Ok (val16 s c).
Proof. exact get16_val. Qed.
Theorem C10_get32_val : forall s c, okc32 s c -> get32 s c = Ok (val32 s c).
Proof. exact get32_val. Qed.
Theorem C10_get12_val : forall s c, okc12 s c -> get12 s c = Ok (val12 s c).
Proof. exact get12_val. Qed.

(* ------------------------------------------------------------------ 2. set stores the value and changes no other entry *)
Theorem C10_set16_ok : forall s c v, (1 <= fs_mirrors s)%nat -> okc16 s c -> okv16 v ->
  exists s', set16 s c v = Ok s' /\ geom_eq s s' /\ (bytes_ok (fs_img s) -> bytes_ok (fs_img s')) /\
             val16 s' c = v /\ forall c', c' <> c -> okc16 s c' -> val16 s' c' = val16 s c'.
Proof. exact set16_ok. Qed.

Theorem C10_set32_ok : forall s c v, (1 <= fs_mirrors s)%nat -> bytes_ok (fs_img s) -> okc32 s c -> okv32 v ->
  exists s', set32 s c v = Ok s' /\ geom_eq s s' /\ bytes_ok (fs_img s') /\
             val32 s' c = v /\ forall c', c' <> c -> okc32 s c' -> val32 s' c' = val32 s c'.
Proof. exact set32_ok. Qed.

(* FAT12: the neighbour sharing a byte with entry c keeps its 12 bits *)
Theorem C10_set12_ok : forall s c v, (1 <= fs_mirrors s)%nat -> bytes_ok (fs_img s) -> okc12 s c -> okv12 v ->
  exists s', set12 s c v = Ok s' /\ geom_eq s s' /\ bytes_ok (fs_img s') /\
             val12 s' c = v /\ forall c', c' <> c -> okc12 s c' -> val12 s' c' = val12 s c'.
Proof. exact set12_ok. Qed.

(* ------------------------------------------------------------------ 3. mirroring and frame *)
(* DiskSlice::write: the bytes land at begin + offset + i*size for every i < mirrors and nowhere else *)
Theorem C10_slice_write_spec : forall s off bs s', blist_ok bs -> slice_write s off bs = Ok s' ->
  off + len_N bs <= fs_size s /\
  (geom_eq s s' /\
   (forall i j, i < N.of_nat (fs_mirrors s) -> j < len_N bs -> copy_byte s' i (off + j) = copy_byte s' 0 (off + j)) /\
   (forall a, (forall i, i < N.of_nat (fs_mirrors s) ->
                 a < fs_base s + i * fs_size s + off \/ fs_base s + i * fs_size s + off + len_N bs <= a) ->
              img_get (fs_img s') a = img_get (fs_img s) a) /\
   (copies_equal s -> copies_equal s') /\
   (bytes_ok (fs_img s) -> bytes_ok (fs_img s'))) /\
  (forall i j, i < N.of_nat (fs_mirrors s) -> (j < length bs)%nat ->
     img_get (fs_img s') (fs_base s + off + i * fs_size s + N.of_nat j) = nth j bs 0).
Proof. exact slice_write_spec. Qed.

(* one entry update, any width: every mirrored copy receives the same bytes (set_w_mirrors), nothing outside
   the entry's bytes in the mirrored copies changes (set_w_frame), equal copies stay equal
   (copies_equal_preserved) *)
Theorem C10_fat_set_mirrored : forall ft s c v s', okc_ft ft s c -> fat_set ft s c v = Ok s' ->
  geom_eq s s' /\
  (forall i j, i < N.of_nat (fs_mirrors s) -> j < entry_len ft ->
     copy_byte s' i (entry_off ft c + j) = copy_byte s' 0 (entry_off ft c + j)) /\
  (forall a, (forall i, i < N.of_nat (fs_mirrors s) ->
                a < fs_base s + i * fs_size s + entry_off ft c \/
                fs_base s + i * fs_size s + entry_off ft c + entry_len ft <= a) ->
             img_get (fs_img s') a = img_get (fs_img s) a) /\
  (copies_equal s -> copies_equal s') /\
  (bytes_ok (fs_img s) -> bytes_ok (fs_img s')).
Proof. exact fat_set_mirrored. Qed.

Theorem C10_set16_mirrored : forall s c v s', okc16 s c -> set16 s c v = Ok s' ->
  geom_eq s s' /\
  (forall i j, i < N.of_nat (fs_mirrors s) -> j < 2 -> copy_byte s' i (2 * c + j) = copy_byte s' 0 (2 * c + j)) /\
  (forall a, (forall i, i < N.of_nat (fs_mirrors s) ->
                a < fs_base s + i * fs_size s + 2 * c \/ fs_base s + i * fs_size s + 2 * c + 2 <= a) ->
             img_get (fs_img s') a = img_get (fs_img s) a) /\
  (copies_equal s -> copies_equal s') /\
  (bytes_ok (fs_img s) -> bytes_ok (fs_img s')).
Proof. exact set16_mirrored. Qed.

Theorem C10_set32_mirrored : forall s c v s', okc32 s c -> set32 s c v = Ok s' ->
  geom_eq s s' /\
  (forall i j, i < N.of_nat (fs_mirrors s) -> j < 4 -> copy_byte s' i (4 * c + j) = copy_byte s' 0 (4 * c + j)) /\
  (forall a, (forall i, i < N.of_nat (fs_mirrors s) ->
                a < fs_base s + i * fs_size s + 4 * c \/ fs_base s + i * fs_size s + 4 * c + 4 <= a) ->
             img_get (fs_img s') a = img_get (fs_img s) a) /\
  (copies_equal s -> copies_equal s') /\
  (bytes_ok (fs_img s) -> bytes_ok (fs_img s')).
Proof. exact set32_mirrored. Qed.

Theorem C10_set12_mirrored : forall s c v s', okc12 s c -> set12 s c v = Ok s' ->
  geom_eq s s' /\
  (forall i j, i < N.of_nat (fs_mirrors s) -> j < 2 ->
     copy_byte s' i (c + c / 2 + j) = copy_byte s' 0 (c + c / 2 + j)) /\
  (forall a, (forall i, i < N.of_nat (fs_mirrors s) ->
                a < fs_base s + i * fs_size s + (c + c / 2) \/ fs_base s + i * fs_size s + (c + c / 2) + 2 <= a) ->
             img_get (fs_img s') a = img_get (fs_img s) a) /\
  (copies_equal s -> copies_equal s') /\
  (bytes_ok (fs_img s) -> bytes_ok (fs_img s')).
Proof. exact set12_mirrored. Qed.

(* mirroring disabled (one-copy slice on the active copy): no byte outside the entry changes, hence no byte of
   any other copy of the table, and nothing else on the volume *)
Theorem C10_inactive_untouched : forall ft s c v s' a, okc_ft ft s c -> fat_set ft s c v = Ok s' ->
  fs_mirrors s = 1%nat ->
  (a < fs_base s + entry_off ft c \/ fs_base s + entry_off ft c + entry_len ft <= a) ->
  img_get (fs_img s') a = img_get (fs_img s) a.
Proof.
  exact (fun ft s c v s' a Hc E => single_copy_frame s s' (entry_off ft c) (entry_len ft) a (fat_set_mirrored ft s c v s' Hc E)).
Qed.

(* histories of table updates: copies stay byte-identical, the reserved entries of every copy keep their bytes,
   and only bytes of updated entries inside the mirrored copies can change *)
Theorem C10_run_sets_inv : forall ft l s s',
  (forall c v, In (c, v) l -> okc_ft ft s c) -> run_sets ft s l = Ok s' ->
  geom_eq s s' /\
  (copies_equal s -> copies_equal s') /\
  ((forall c v, In (c, v) l -> 2 <= c) ->
   forall i o, i < N.of_nat (fs_mirrors s) -> o < reserved_len ft -> copy_byte s' i o = copy_byte s i o) /\
  (forall a, (forall c v i, In (c, v) l -> i < N.of_nat (fs_mirrors s) ->
                a < fs_base s + i * fs_size s + entry_off ft c \/
                fs_base s + i * fs_size s + entry_off ft c + entry_len ft <= a) ->
             img_get (fs_img s') a = img_get (fs_img s) a).
Proof. exact run_sets_inv. Qed.

(* ------------------------------------------------------------------ 4. FAT32 reserved high nibble *)
Theorem C10_fat32_set_keeps_high_nibble : forall s c v s',
  (1 <= fs_mirrors s)%nat -> bytes_ok (fs_img s) -> okc32 s c -> raw32 v < 268435456 -> set32 s c v = Ok s' ->
  word32 s' c / 268435456 = word32 s c / 268435456 /\ word32 s' c mod 268435456 = raw32 v.
Proof. exact fat32_set_keeps_high_nibble. Qed.

(* ------------------------------------------------------------------ 5. the two reserved entries *)
Theorem C10_reserved_entries_kept16 : forall s c v s' i o,
  okc16 s c -> 2 <= c -> set16 s c v = Ok s' -> i < N.of_nat (fs_mirrors s) -> o < 4 ->
  copy_byte s' i o = copy_byte s i o.
Proof. exact reserved_entries_kept16. Qed.
Theorem C10_reserved_entries_kept32 : forall s c v s' i o,
  okc32 s c -> 2 <= c -> set32 s c v = Ok s' -> i < N.of_nat (fs_mirrors s) -> o < 8 ->
  copy_byte s' i o = copy_byte s i o.
Proof. exact reserved_entries_kept32. Qed.
(* FAT12: entries 0 and 1 are bytes 0..2 (they share byte 1); entry 2 starts at byte 3 *)
Theorem C10_reserved_entries_kept12 : forall s c v s' i o,
  okc12 s c -> 2 <= c -> set12 s c v = Ok s' -> i < N.of_nat (fs_mirrors s) -> o < 3 ->
  copy_byte s' i o = copy_byte s i o.
Proof. exact reserved_entries_kept12. Qed.
Theorem C10_reserved_raw12_kept : forall s c v s',
  (1 <= fs_mirrors s)%nat -> okc12 s c -> 2 <= c -> set12 s c v = Ok s' ->
  raw12_at s' 0 = raw12_at s 0 /\ raw12_at s' 1 = raw12_at s 1.
Proof. exact reserved_raw12_kept. Qed.

(* ------------------------------------------------------------------ 6. allocation over the byte-level stores *)
(* inv_g base size mirrors s = s has this slice geometry and bytes_ok image; total = number of data clusters *)
Theorem C10_alloc_range16 : forall base size mirrors, (1 <= mirrors)%nat -> forall t prev hint total t' c,
  inv_g base size mirrors t -> hint_ok hint -> 2 * (total + 2) <= size -> total + 2 <= 65527 ->
  (match prev with Some p => okc16_g size p | None => True end) ->
  alloc_cluster fstore get16 set16 t prev hint total = Ok (t', c) -> 2 <= c < total + 2.
Proof. exact alloc_range16. Qed.

Theorem C10_alloc_range32 : forall base size mirrors, (1 <= mirrors)%nat -> forall t prev hint total t' c,
  inv_g base size mirrors t -> hint_ok hint -> 4 * (total + 2) <= size -> total + 2 <= 268435447 ->
  (match prev with Some p => okc32_g size p | None => True end) ->
  alloc_cluster fstore get32 set32 t prev hint total = Ok (t', c) -> 2 <= c < total + 2.
Proof. exact alloc_range32. Qed.

Theorem C10_alloc_range12 : forall base size mirrors, (1 <= mirrors)%nat -> forall t prev hint total t' c,
  inv_g base size mirrors t -> hint_ok hint -> off12 (total + 1) + 2 <= size -> total + 2 <= 4087 ->
  (match prev with Some p => okc12_g size p | None => True end) ->
  alloc_cluster fstore get12 set12 t prev hint total = Ok (t', c) -> 2 <= c < total + 2.
Proof. exact alloc_range12. Qed.

(* the full allocation contract at FAT16 (FAT32 / FAT12: alloc_ok32, alloc_ok12 in FatProofs.v) *)
Theorem C10_alloc_ok16 : forall base size mirrors, (1 <= mirrors)%nat -> forall t prev hint total t' c,
  inv_g base size mirrors t -> hint_ok hint -> 2 * (total + 2) <= size -> total + 2 <= 65527 ->
  (match prev with Some p => okc16_g size p | None => True end) ->
  alloc_cluster fstore get16 set16 t prev hint total = Ok (t', c) ->
  inv_g base size mirrors t' /\ 2 <= c < total + 2 /\ val16 t c = Free /\
  (match prev with
   | Some p => val16 t' p = Data c /\ (p <> c -> val16 t' c = Eoc) /\
               forall x, x <> c -> x <> p -> okc16_g size x -> val16 t' x = val16 t x
   | None => val16 t' c = Eoc /\ forall x, x <> c -> okc16_g size x -> val16 t' x = val16 t x
   end).
Proof. exact alloc_ok16. Qed.

(* FileSystem::alloc_cluster with the free-count / next-free latches, over get16/set16: never a panic, fails only
   with NotEnoughSpace and only when no data cluster is free, the result is a data cluster, the hint stays in range *)
Theorem C10_fs_alloc_inv16 : forall base size mirrors, (1 <= mirrors)%nat -> forall t fi prev total,
  inv_g base size mirrors t -> fi_inv fstore val16 t fi total -> 2 * (total + 2) <= size -> total + 2 <= 65527 ->
  (match prev with Some p => okc16_g size p /\ val16 t p <> Free | None => True end) ->
  match fs_alloc fstore get16 set16 t fi prev total with
  | Ok (t', fi', c) => inv_g base size mirrors t' /\ fi_inv fstore val16 t' fi' total /\ 2 <= c < total + 2 /\
                       val16 t c = Free /\ (exists h, fi_next fi' = Some h /\ 2 <= h < total + 2)
  | Err e => e = ENotEnoughSpace /\ forall x, 2 <= x < total + 2 -> val16 t x <> Free
  | Panic => False
  | OutOfFuel => False
  end.
Proof. exact fs_alloc_inv16. Qed.

Theorem C10_fs_alloc_inv32 : forall base size mirrors, (1 <= mirrors)%nat -> forall t fi prev total,
  inv_g base size mirrors t -> fi_inv fstore val32 t fi total -> 4 * (total + 2) <= size -> total + 2 <= 268435447 ->
  (match prev with Some p => okc32_g size p /\ val32 t p <> Free | None => True end) ->
  match fs_alloc fstore get32 set32 t fi prev total with
  | Ok (t', fi', c) => inv_g base size mirrors t' /\ fi_inv fstore val32 t' fi' total /\ 2 <= c < total + 2 /\
                       val32 t c = Free /\ (exists h, fi_next fi' = Some h /\ 2 <= h < total + 2)
  | Err e => e = ENotEnoughSpace /\ forall x, 2 <= x < total + 2 -> val32 t x <> Free
  | Panic => False
  | OutOfFuel => False
  end.
Proof. exact fs_alloc_inv32. Qed.

Theorem C10_fs_alloc_inv12 : forall base size mirrors, (1 <= mirrors)%nat -> forall t fi prev total,
  inv_g base size mirrors t -> fi_inv fstore val12 t fi total -> off12 (total + 1) + 2 <= size -> total + 2 <= 4087 ->
  (match prev with Some p => okc12_g size p /\ val12 t p <> Free | None => True end) ->
  match fs_alloc fstore get12 set12 t fi prev total with
  | Ok (t', fi', c) => inv_g base size mirrors t' /\ fi_inv fstore val12 t' fi' total /\ 2 <= c < total + 2 /\
                       val12 t c = Free /\ (exists h, fi_next fi' = Some h /\ 2 <= h < total + 2)
  | Err e => e = ENotEnoughSpace /\ forall x, 2 <= x < total + 2 -> val12 t x <> Free
  | Panic => False
  | OutOfFuel => False
  end.
Proof. exact fs_alloc_inv12. Qed.

Theorem C10_fs_free_chain_inv16 : forall base size mirrors, (1 <= mirrors)%nat -> forall t fi total c l fuel,
  inv_g base size mirrors t -> 2 * (total + 2) <= size -> total + 2 <= 65527 ->
  fi_inv fstore val16 t fi total -> chain fstore val16 t c l -> NoDup l ->
  (forall x, In x l -> 2 <= x < total + 2 /\ val16 t x <> Free) -> (length l < fuel)%nat ->
  exists t' fi', fs_free_chain fstore get16 set16 t fi c fuel = Ok (t', fi') /\ inv_g base size mirrors t' /\
    fi_inv fstore val16 t' fi' total /\
    count_spec fstore val16 t' 2 (N.to_nat total) = count_spec fstore val16 t 2 (N.to_nat total) + N.of_nat (length l) /\
    (forall x, In x l -> val16 t' x = Free) /\ (forall x, ~ In x l -> okc16_g size x -> val16 t' x = val16 t x).
Proof. exact fs_free_chain_inv16. Qed.

Theorem C10_fs_stats_exact16 : forall base size mirrors, (1 <= mirrors)%nat -> forall t fi total,
  inv_g base size mirrors t -> fi_inv fstore val16 t fi total -> 2 * (total + 2) <= size -> total + 2 <= 65527 ->
  exists fi', fs_stats fstore get16 t fi total = Ok (fi', count_spec fstore val16 t 2 (N.to_nat total)) /\
              fi_inv fstore val16 t fi' total.
Proof. exact fs_stats_exact16. Qed.

(* ------------------------------------------------------------------ the okv restrictions are necessary *)
(* a 3-sector FAT12 table with 2 mirrored copies at byte 512: media F8, entries 0/1 reserved, 2 -> 3 -> EOC *)
Definition ex_tab12 : list N := [248; 255; 255; 3; 240; 255].
Definition ex12 : fstore :=
  {| fs_img := img_write (img_write (img_empty 0) 512 ex_tab12) 2048 ex_tab12;
     fs_base := 512; fs_size := 1536; fs_mirrors := 2 |}.
(* a 1-sector FAT32 table, 2 copies, entry 3 with reserved nibble A *)
Definition ex_tab32 : list N := [248; 255; 255; 15; 255; 255; 255; 255; 255; 255; 255; 15; 0; 0; 0; 160].
Definition ex32 : fstore :=
  {| fs_img := img_write (img_write (img_empty 0) 16384 ex_tab32) 16896 ex_tab32;
     fs_base := 16384; fs_size := 512; fs_mirrors := 2 |}.

(* FAT12 Data n with n >= 4096 (never produced by alloc: n < total + 2 <= 4087) overwrites the neighbour's nibble *)
Lemma C10_fat12_wide_data_refuted : exists s c n s',
  okc12 s c /\ okc12 s (c + 1) /\ set12 s c (Data n) = Ok s' /\ val12 s' (c + 1) <> val12 s (c + 1).
Proof.
  exists ex12, 4, 4101. eexists. split; [|split; [|split; [vm_compute; reflexivity|]]].
  - unfold okc12, off12; cbn [fs_size ex12]. split; vm_compute; discriminate.
  - unfold okc12, off12; cbn [fs_size ex12]. split; vm_compute; discriminate.
  - vm_compute. discriminate.
Qed.

(* FAT32 Data n with n >= 2^28 (never produced by alloc) is or-ed into the reserved nibble *)
Lemma C10_fat32_wide_data_refuted : exists s c n s',
  okc32 s c /\ set32 s c (Data n) = Ok s' /\ word32 s' c / 268435456 <> word32 s c / 268435456.
Proof.
  exists ex32, 3, 1342177285. eexists. split; [|split; [vm_compute; reflexivity|]].
  - unfold okc32; cbn [fs_size ex32]. split; vm_compute; first [reflexivity|discriminate].
  - vm_compute. discriminate.
Qed.

(* ------------------------------------------------------------------ examples: hypotheses are satisfiable *)
Example ex12_bytes_ok : bytes_ok (fs_img ex12).
Proof.
  cbn [fs_img ex12]. repeat apply img_write_bytes_ok; try (apply img_empty_bytes_ok; reflexivity);
    intros b Hb; cbn in Hb; repeat (destruct Hb as [<-|Hb]; [reflexivity|]); destruct Hb.
Qed.
Example ex32_bytes_ok : bytes_ok (fs_img ex32).
Proof.
  cbn [fs_img ex32]. repeat apply img_write_bytes_ok; try (apply img_empty_bytes_ok; reflexivity);
    intros b Hb; cbn in Hb; repeat (destruct Hb as [<-|Hb]; [reflexivity|]); destruct Hb.
Qed.
Example ex12_okc : okc12 ex12 3 /\ okc12 ex12 4 /\ okv12 (Data 4) /\ (1 <= fs_mirrors ex12)%nat.
Proof. unfold okc12, off12; cbn [fs_size fs_mirrors ex12 okv12]. repeat split; try (vm_compute; discriminate); vm_compute; reflexivity || lia. Qed.

(* decoded values, before *)
Example ex12_get : (get12 ex12 0, get12 ex12 1, get12 ex12 2, get12 ex12 3, get12 ex12 4) =
                   (Ok Eoc, Ok Eoc, Ok (Data 3), Ok Eoc, Ok Free).
Proof. vm_compute. reflexivity. Qed.

(* link 3 -> 4, terminate 4: both copies receive the same bytes, the shared byte keeps entry 2's nibble,
   reserved bytes are untouched *)
Definition ex12_after : res fstore := run_sets Fat12 ex12 [(4, Eoc); (3, Data 4)].
Example ex12_after_values :
  match ex12_after with
  | Ok s' => (get12 s' 2, get12 s' 3, get12 s' 4, get12 s' 5) = (Ok (Data 3), Ok (Data 4), Ok Eoc, Ok Free) /\
             img_read (fs_img s') 512 12 = [248; 255; 255; 3; 64; 0; 255; 15; 0; 0; 0; 0] /\
             img_read (fs_img s') 2048 1536 = img_read (fs_img s') 512 1536 /\
             img_read (fs_img s') 0 512 = img_read (fs_img ex12) 0 512 /\
             img_read (fs_img s') 3584 64 = img_read (fs_img ex12) 3584 64
  | _ => False
  end.
Proof. vm_compute. repeat split; reflexivity. Qed.

(* mirroring disabled: the same update through a one-copy slice on copy 1 leaves copy 0 untouched *)
Definition ex12_active1 : fstore :=
  {| fs_img := fs_img ex12; fs_base := 2048; fs_size := 1536; fs_mirrors := 1 |}.
Example ex12_active1_only :
  match run_sets Fat12 ex12_active1 [(4, Eoc); (3, Data 4)] with
  | Ok s' => img_read (fs_img s') 512 1536 = img_read (fs_img ex12) 512 1536 /\
             img_read (fs_img s') 2048 9 = [248; 255; 255; 3; 64; 0; 255; 15; 0]
  | _ => False
  end.
Proof. vm_compute. repeat split; reflexivity. Qed.

(* FAT32: reserved nibble A of entry 3 survives alloc-style updates; both copies agree *)
Example ex32_nibble :
  match run_sets Fat32 ex32 [(3, Eoc); (2, Data 3)] with
  | Ok s' => word32 s' 3 = 2952790015 (* 0xAFFFFFFF *) /\ get32 s' 3 = Ok Eoc /\ get32 s' 2 = Ok (Data 3) /\
             img_read (fs_img s') 16896 512 = img_read (fs_img s') 16384 512
  | _ => False
  end.
Proof. vm_compute. repeat split; reflexivity. Qed.

(* allocation on the example FAT12 table (10 data clusters): first free cluster 4, linked from 3 *)
Example ex12_alloc :
  match alloc_cluster fstore get12 set12 ex12 (Some 3) None 10 with
  | Ok (s', c) => c = 4 /\ get12 s' 3 = Ok (Data 4) /\ get12 s' 4 = Ok Eoc
  | _ => False
  end.
Proof. vm_compute. repeat split; reflexivity. Qed.
Example ex12_alloc_hyps : inv_g 512 1536 2 ex12 /\ off12 (10 + 1) + 2 <= 1536 /\ okc12_g 1536 3.
Proof.
  split; [repeat split; exact ex12_bytes_ok|]. unfold okc12_g, off12. repeat split; vm_compute; discriminate || reflexivity.
Qed.

Print Assumptions C10_get16_val.
Print Assumptions C10_get32_val.
Print Assumptions C10_get12_val.
Print Assumptions C10_set16_ok.
Print Assumptions C10_set32_ok.
Print Assumptions C10_set12_ok.
Print Assumptions C10_slice_write_spec.
Print Assumptions C10_fat_set_mirrored.
Print Assumptions C10_set16_mirrored.
Print Assumptions C10_set32_mirrored.
Print Assumptions C10_set12_mirrored.
Print Assumptions C10_inactive_untouched.
Print Assumptions C10_run_sets_inv.
Print Assumptions C10_fat32_set_keeps_high_nibble.
Print Assumptions C10_reserved_entries_kept16.
Print Assumptions C10_reserved_entries_kept32.
Print Assumptions C10_reserved_entries_kept12.
Print Assumptions C10_reserved_raw12_kept.
Print Assumptions C10_alloc_range16.
Print Assumptions C10_alloc_range32.
Print Assumptions C10_alloc_range12.
Print Assumptions C10_alloc_ok16.
Print Assumptions C10_fs_alloc_inv16.
Print Assumptions C10_fs_alloc_inv32.
Print Assumptions C10_fs_alloc_inv12.
Print Assumptions C10_fs_free_chain_inv16.
Print Assumptions C10_fs_stats_exact16.
Print Assumptions C10_fat12_wide_data_refuted.
Print Assumptions C10_fat32_wide_data_refuted.

(* ================================================================================================================
   WHOLE IMAGES: "after every API call all copies of the allocation table are byte-identical; the two reserved leading entries
   keep their bytes" (Proofs/VolFrameProofs.v).

   Vocabulary.
     img_copies_equal g im   = every byte of every FAT copy k < g_fats g equals the byte of copy 0 - exactly what the extracted
                               decoder check Abs.fat_copies_equal computes (C10_vol_copies_equal_is_decoder_check);
     reserved_kept g im im'  = the bytes of FAT entries 0 and 1 (3 bytes on FAT12, 4 on FAT16, 8 on FAT32) of EVERY copy are the same;
     FatKept g im im'        = (img_copies_equal g im -> img_copies_equal g im') /\ reserved_kept g im im'   (C10_vol_fat_kept_means);
     StoreKept g im im'      = the same at the level of the library's FAT DiskSlice ([store_of g im]: all mirrored copies, or the
                               active copy alone when mirroring is off), for ANY sane geometry and all three widths.
   Any number of copies >= 1 ([fixed_root_geom] asks 1 <= g_fats g, the BPB field allows up to 255).
   Every [Confined] theorem of Props/C11.v (all operations, all runs) contains [FatKept] (C10_vol_confined_keeps_fat); the
   theorems below restate it function by function. *)

From Coq Require Import FMapPositive.
From FatVerif Require Import Spec.Abs Spec.Regions Model.Str Model.Time Model.FileM Model.Name Model.ShortName Model.DirSlots Model.Flags
  Model.VolDir Model.VolChainDir Model.VolFile Model.FlushM Model.VolSession Model.VolSession2 Model.VolRemove Model.VolStatus
  Spec.ByteFile Proofs.TableProofs Proofs.FileProofs Proofs.DirSlotsProofs Proofs.VolDirProofs Proofs.VolDirFormat
  Proofs.VolFileProofs Proofs.VolSessionProofs Proofs.VolSession2Proofs Proofs.VolRemoveProofs Proofs.VolStatusProofs
  Proofs.VolChainDirProofs Proofs.VolSessionExamples Proofs.VolSession2Examples Proofs.VolRemoveExamples
  Proofs.VolStatusExamples Proofs.VolFrameProofs Proofs.VolFrameExamples.
From FatVerif Require Spec.Wf Model.Lfn Proofs.TimeProofs.
Import ListNotations.

Theorem C10_vol_copies_equal_is_decoder_check :
    forall (g : geom) (im : image), fat_copies_equal g im = true <-> img_copies_equal g im.
Proof. exact fat_copies_equal_iff. Qed.

Theorem C10_vol_fat_kept_means :
    forall (g : geom) (im im' : image),
    FatKept g im im' <->
    ((forall k j : N,
      k < g_fats g -> j < g_fat_bytes g -> img_get im (g_fat_off g k + j) = img_get im (g_fat_off g 0 + j)) ->
     forall k j : N,
     k < g_fats g -> j < g_fat_bytes g -> img_get im' (g_fat_off g k + j) = img_get im' (g_fat_off g 0 + j)) /\
    (forall k j : N,
     k < g_fats g ->
     j < reserved_len (ft_of g) -> img_get im' (g_fat_off g k + j) = img_get im (g_fat_off g k + j)).
Proof. exact fat_kept_means. Qed.

Theorem C10_vol_confined_keeps_fat :
    forall (g : geom) (im0 : image) (own : list N) (status : bool) (im : image),
    Confined g im0 own status im -> FatKept g im0 im.
Proof. exact confined_fat_kept. Qed.

(* ---- the FAT writes themselves: any sane geometry (FAT12/16/32), mirroring on or off *)
(* File::{read,write,seek,truncate}: allocation, linking, truncation, freeing *)
Theorem C10_vol_file_step_store_kept :
    forall g : geom,
    vgeom_ok g ->
    forall (im : image) (fi : fsinfo) (h : fhandle) (sz : N) (l : list N) (op : fop) (im' : image) 
      (fi' : fsinfo) (h' : fhandle) (r : fresult),
    VolInv g im fi h sz l -> vol_step g (im, fi, h) op = (im', fi', h', r) -> StoreKept g im im'.
Proof. exact vol_step_store_kept. Qed.

(* FileSystem::free_cluster_chain (remove) *)
Theorem C10_vol_free_chain_store_kept :
    forall g : geom,
    vgeom_ok g ->
    forall (im : image) (fi : fsinfo) (c : N) (l : list N) (im1 : image) (fi1 : fsinfo),
    FatProofs.bytes_ok im ->
    fi_inv fstore (val_ft (ft_of g)) (store_of g im) fi (g_clusters g) ->
    c <> 0 ->
    chain_from g im c (Abs.chain_fuel g) = Some l ->
    NoDup l -> vol_free_chain g im fi c = Ok (im1, fi1) -> StoreKept g im im1.
Proof. exact vol_free_chain_store_kept. Qed.

(* with mirroring the store covers every copy *)
Theorem C10_vol_store_kept_is_fat_kept :
    forall (g : geom) (im im' : image), g_mirroring g = true -> StoreKept g im im' -> FatKept g im im'.
Proof. exact store_kept_fat_kept. Qed.

(* a file call writes no byte of the FAT region outside the store's copies ... *)
Theorem C10_vol_file_step_fat_region_frame :
    forall g : geom,
    vgeom_ok g ->
    forall (im : image) (fi : fsinfo) (h : fhandle) (sz : N) (l : list N) (op : fop) (im' : image) 
      (fi' : fsinfo) (h' : fhandle) (r : fresult),
    op_ok op ->
    VolInv g im fi h sz l ->
    vol_step g (im, fi, h) op = (im', fi', h', r) ->
    forall a : N, a < g_root_off g -> ~ in_store_area g a -> img_get im' a = img_get im a.
Proof. exact vol_step_fat_region_frame. Qed.

(* ... so with mirroring DISABLED every copy but the active one keeps every byte *)
Theorem C10_vol_inactive_copies_untouched :
    forall g : geom,
    vgeom_ok g ->
    forall (im : image) (fi : fsinfo) (h : fhandle) (sz : N) (l : list N) (op : fop) (im' : image) 
      (fi' : fsinfo) (h' : fhandle) (r : fresult),
    op_ok op ->
    VolInv g im fi h sz l ->
    vol_step g (im, fi, h) op = (im', fi', h', r) ->
    g_mirroring g = false ->
    forall k j : N,
    k < g_fats g ->
    k <> g_active g -> j < g_fat_bytes g -> img_get im' (g_fat_off g k + j) = img_get im (g_fat_off g k + j).
Proof. exact vol_step_inactive_copies_untouched. Qed.

(* ---- FAT12/16 images, function by function *)
Theorem C10_vol_create_keeps_fat :
    forall (upper : N -> list N) (oem : N -> N) (im : image) (name : str) (now : datetime)
      (r : res (option (N * N))) (im' : image),
    fixed_root_geom (parse_geom im) ->
    vol_create_empty_file_root upper oem im name now = (r, im') -> FatKept (parse_geom im) im im'.
Proof. exact vol_create_fat_kept. Qed.

Theorem C10_vol_remove_empty_keeps_fat :
    forall (upper : N -> list N) (oem : N -> N) (im : image) (name : str) (r : res unit) (im' : image),
    fixed_root_geom (parse_geom im) ->
    vol_remove_empty_file_root upper oem im name = Some (r, im') -> FatKept (parse_geom im) im im'.
Proof. exact vol_remove_empty_fat_kept. Qed.

Theorem C10_vol_rename_keeps_fat :
    forall (upper : N -> list N) (oem : N -> N) (im : image) (src dst : str) (r : res unit) (im' : image),
    fixed_root_geom (parse_geom im) ->
    vol_rename_in_root upper oem im src dst = Some (r, im') -> FatKept (parse_geom im) im im'.
Proof. exact vol_rename_fat_kept. Qed.

Theorem C10_vol_file_step_keeps_fat :
    forall (g : geom) (im : image) (fi : fsinfo) (h : fhandle) (sz : N) (l : list N) (op : fop) 
      (im' : image) (fi' : fsinfo) (h' : fhandle) (r : fresult),
    fixed_root_geom g ->
    VolInv g im fi h sz l -> vol_step g (im, fi, h) op = (im', fi', h', r) -> FatKept g im im'.
Proof. exact vol_step_fat_kept. Qed.

Theorem C10_vol_remove_file_keeps_fat :
    forall (upper : N -> list N) (oem : N -> N) (fold : list N -> list N) (im : image) 
      (fi : fsinfo) (name : str) (ev : Lfn.entry_view),
    let g := parse_geom im in
    fixed_root_geom g ->
    FatProofs.bytes_ok im ->
    fi_inv fstore (val_ft (ft_of g)) (store_of g im) fi (g_clusters g) ->
    Wf.wf_issues fold im = [] ->
    Forall attrs_sane (root_region_slots g im) ->
    root_lookup upper oem im name = Ok ev ->
    Lfn.ev_is_dir ev = false ->
    list_eqb (Lfn.ev_raw_name ev) DOT || list_eqb (Lfn.ev_raw_name ev) DOTDOT = false ->
    exists (im' : image) (fi' : fsinfo),
      vol_remove_file_root upper oem im fi name = Some (Ok tt, im', fi') /\ FatKept g im im'.
Proof. exact vol_remove_file_fat_kept. Qed.

(* any run of calls / flushes / drops on any number of handles *)
Theorem C10_session2_run_keeps_fat :
    forall (g : geom) (acc : bool) (ops : list s2op) (st : s2state) (gs : list ghost) 
      (es : list entry) (ls : list (list N)),
    fixed_root_geom g ->
    Forall s2op_ok ops -> Sess2Inv g st gs es ls -> FatKept g (s2_im st) (s2_im (fst (s2_run g acc st ops))).
Proof. exact s2_run_fat_kept. Qed.

(* the whole session from mount *)
Theorem C10_session2_keeps_fat :
    forall (upper : N -> list N) (oem : N -> N) (g : geom) (acc : bool) (im : image) (fi : fsinfo)
      (reqs : list (str * datetime)) (ops : list s2op) (st : s2state) (rs : list fresult),
    fixed_root_geom g ->
    parse_geom im = g ->
    FatProofs.bytes_ok im ->
    fi_inv fstore (val_ft (ft_of g)) (store_of g im) fi (g_clusters g) ->
    v_root_issues (abs im) = [] ->
    Forall (fun q : str * datetime => TimeProofs.datetime_valid (snd q) = true) reqs ->
    Forall s2op_ok ops -> vol_session2 upper oem acc im fi reqs ops = Some (st, rs) -> FatKept g im (s2_im st).
Proof. exact vol_session2_fat_kept. Qed.

(* one mounted session, after every stage *)
Theorem C10_vol_mounted_session_keeps_fat :
    forall (g : geom) (upper : N -> list N) (oem : N -> N) (acc : bool) (im : image) (fi : fsinfo) 
      (name : str) (now : datetime) (ops : list (fop * datetime)) (st1 : sstate) (s1 : fstat) 
      (st2 : sstate) (s2 : fstat) (rs : list fresult),
    fixed_root_geom g ->
    parse_geom im = g ->
    FatProofs.bytes_ok im ->
    fi_inv fstore (val_ft (ft_of g)) (store_of g im) fi (g_clusters g) ->
    v_root_issues (abs im) = [] ->
    TimeProofs.datetime_valid now = true ->
    Forall op_ok (map fst ops) ->
    clocks_ok ops ->
    sesss_create upper oem im fi (vol_mount_status g im) name now = Some (st1, s1) ->
    sesss_run g acc st1 s1 ops = (st2, s2, rs) ->
    FatKept g im (s_im st1) /\
    FatKept g im (s_im st2) /\
    FatKept g im (s_im (fst (sesss_flush g st2 s2))) /\
    FatKept g im (fst (vol_unmount g (s_im (fst (sesss_flush g st2 s2))) s2)).
Proof. exact mounted_session_fat_kept. Qed.

(* non-vacuity (64-sector FAT12 image, two copies): equal before and after the two-file session; reserved bytes F8 FF FF kept *)
Example C10_vol_example_session2 :
    changed_regions ex_vol_im ex2_final =
    [RFat 0; RFat 1; RRoot; RCluster 2 OFree; RCluster 3 OFree; RCluster 4 OFree; RCluster 5 OFree] /\
    length
      (changed_offs ex_vol_im ex2_final
         (Init.Nat.of_num_uint
            (Number.UIntDecimal (Decimal.D3 (Decimal.D5 (Decimal.D0 (Decimal.D0 (Decimal.D0 Decimal.Nil)))))))) =
    1133%nat /\
    fat_copies_equal (parse_geom ex_vol_im) ex_vol_im = true /\
    fat_copies_equal (parse_geom ex_vol_im) ex2_final = true /\
    img_read ex2_final 512 3 = img_read ex_vol_im 512 3 /\
    img_read ex2_final 1024 3 = img_read ex_vol_im 1024 3 /\
    g_volume_bytes (parse_geom ex_vol_im) = 32768 /\ reserved_len (ft_of (parse_geom ex_vol_im)) = 3.
Proof. exact exf_session2_regions. Qed.

Print Assumptions C10_vol_copies_equal_is_decoder_check.
Print Assumptions C10_vol_fat_kept_means.
Print Assumptions C10_vol_confined_keeps_fat.
Print Assumptions C10_vol_file_step_store_kept.
Print Assumptions C10_vol_free_chain_store_kept.
Print Assumptions C10_vol_store_kept_is_fat_kept.
Print Assumptions C10_vol_file_step_fat_region_frame.
Print Assumptions C10_vol_inactive_copies_untouched.
Print Assumptions C10_vol_create_keeps_fat.
Print Assumptions C10_vol_remove_empty_keeps_fat.
Print Assumptions C10_vol_rename_keeps_fat.
Print Assumptions C10_vol_file_step_keeps_fat.
Print Assumptions C10_vol_remove_file_keeps_fat.
Print Assumptions C10_session2_run_keeps_fat.
Print Assumptions C10_session2_keeps_fat.
Print Assumptions C10_vol_mounted_session_keeps_fat.
Print Assumptions C10_vol_example_session2.
