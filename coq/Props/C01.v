(* C01 - directory-tree operations behave like a case-insensitive in-memory tree; a call that fails with a non-I/O
   error leaves the tree as it was.
   This file: the image-layer frame theorem (kept) and the directory SLOT layer (Model/DirSlots.v = find_free_entries,
   write_entry, the deletion loop of remove/rename_internal, check_for_existence, create, rename of src/dir.rs) against
   the independent decoder Spec/Abs.dir_scan: creating, removing and renaming entries refine a finite map keyed by the
   raw short name, with frame.  Property theorems only: each is stated in full and closed by [exact] of a lemma of
   Proofs/DirSlotsProofs.v.  The whole-tree statement (nested directories, handles) is validated by the extracted
   tree machine Spec/Tree.v on every run (tools/props/c01.py). *)
From Coq Require Import NArith List Bool.
From FatVerif Require Import Model.Base Model.Str Model.Slot Model.Time Model.Name Model.ShortName Model.DirSlots
  Spec.Image Spec.Abs Proofs.ImageProofs Proofs.DirSlotsProofs.
From FatVerif Require Model.Lfn Proofs.TimeProofs.
Import ListNotations.
Open Scope N_scope.

Theorem C01_image_write_frame : forall bs im off o,
  (o < off \/ off + N.of_nat (length bs) <= o) -> img_get (img_write im off bs) o = img_get im o.
Proof. exact img_write_outside. Qed.

(* ---- find_free_entries: where a new run of [num] slots goes.  [free_spot ss num p pre mid post] says: ss = pre ++ mid ++ post,
   p = |pre|, no end marker in pre, mid are deleted slots, and either |mid| = num (a run of deleted slots is reused) or
   |mid| < num and post is empty or starts with an end marker (the run is put at the end of the used part, over the
   trailing deleted slots).  No live slot is inside [mid].  The call fails in exactly one situation: the directory is a
   FIXED root (FAT12/16) and the run would end behind the last slot of the region - NotEnoughSpace, before anything is
   written (src/dir.rs since 13fd5fe; before, the position was returned and the write failed half-way: D5). *)
Theorem C01_find_free_entries_spec : forall k ss num, 1 <= num -> len_N ss < 134217728 ->
  exists p pre mid post, free_spot ss num p pre mid post /\
    find_free_entries k ss num = if is_fixed k && (len_N ss <? p + num) then Err ENotEnoughSpace else Ok p.
Proof. exact find_free_entries_spec. Qed.
Example C01_find_free_entries_ex :
  find_free_entries FixedRoot [ex_del; ex_del; ex_live; ex_del; ex_del; ex_del; zero_slot] 3 = Ok 3 /\
  find_free_entries FixedRoot [ex_del; ex_del; ex_live; ex_del; ex_del; zero_slot; zero_slot] 3 = Ok 3 /\
  find_free_entries FixedRoot [ex_del; ex_del; ex_live; ex_del; ex_del; zero_slot] 3 = Ok 3 /\
  find_free_entries FixedRoot [ex_del; ex_del; ex_live; ex_del; ex_del; zero_slot] 4 = Err ENotEnoughSpace /\
  find_free_entries (Chained 16) [ex_del; ex_del; ex_live; ex_del; ex_del; zero_slot] 4 = Ok 3 /\
  find_free_entries FixedRoot [ex_live; ex_live] 3 = Err ENotEnoughSpace /\ find_free_entries (Chained 16) [ex_live; ex_live] 3 = Ok 2 /\
  find_free_entries FixedRoot [ex_live; zero_slot; ex_del; ex_del; ex_del] 3 = Ok 1 /\
  (* a run of deleted slots that reaches the end of the region is reused without the capacity test *)
  find_free_entries FixedRoot [ex_live; ex_del; ex_del; ex_del] 3 = Ok 1.
Proof. vm_compute. repeat split. Qed.

(* (write_entry_refines, mark_deleted_refines, rename_slots_refines - the base refinement theorems with the frame
   conditions - are stated in Props/C03.v: they are also the preservation of the C03 slot clauses.) *)

(* ---- failed calls.  write_entry has exactly four outcomes (C01_write_entry_cases): success; a rejected name (nothing
   changed); NotEnoughSpace of a fixed root that cannot take the run (nothing changed: 13fd5fe, formerly D5/D20 - WriteZero
   after a partial run); NotEnoughSpace of a chain-backed directory that cannot grow, after a proper prefix of the run was
   written (the remaining recorded finding "nospace during entry write": C01_failed_write_unchanged_chain_refuted).
   No Panic, no WriteZero.  Hence: in a FIXED ROOT a call that does not succeed changes nothing
   (C01_failed_write_fixed_root_unchanged); in ANY directory it leaves every slot that was in use and the decoded entries
   and labels as they were (C01_failed_write_keeps_entries). *)
Theorem C01_failed_write_unchanged_partial : forall k free ss n e x,
  validate_long_name n = Err x -> write_entry k free ss n e = (Err x, ss).
Proof. exact failed_write_unchanged_partial. Qed.
Theorem C01_write_entry_cases : forall k free ss n e, len_N ss < 134217728 ->
  (exists range ss', write_entry k free ss n e = (Ok range, ss')) \/
  (exists x, validate_long_name n = Err x /\ write_entry k free ss n e = (Err x, ss)) \/
  (k = FixedRoot /\ validate_long_name n = Ok tt /\ write_entry k free ss n e = (Err ENotEnoughSpace, ss) /\
   exists p pre mid post, free_spot ss (len_N (entry_run n e)) p pre mid post /\ len_N ss < p + len_N (entry_run n e)) \/
  (exists cs p pre mid post j, k = Chained cs /\ validate_long_name n = Ok tt /\
     free_spot ss (len_N (entry_run n e)) p pre mid post /\
     (length (mid ++ post) <= j < length (entry_run n e))%nat /\
     ~ can_hold k free (length ss - N.to_nat p) (length (entry_run n e)) /\
     find_free_entries k ss (len_N (entry_run n e)) = Ok p /\
     write_entry k free ss n e = (Err ENotEnoughSpace, pre ++ firstn j (entry_run n e))).
Proof. exact write_entry_cases. Qed.
(* a failed write_entry on a fixed root changes nothing, and is never WriteZero (replaces the refutation of D5) *)
Theorem C01_failed_write_fixed_root_unchanged : forall free ss n e r ss', len_N ss < 134217728 ->
  write_entry FixedRoot free ss n e = (r, ss') -> (forall range, r <> Ok range) ->
  ss' = ss /\ exists x, r = Err x /\ x <> EWriteZero /\ (x = ENotEnoughSpace \/ validate_long_name n = Err x).
Proof. exact write_entry_fixed_root_full_unchanged. Qed.
Theorem C01_failed_write_unchanged : forall k free ss n e,
  len_N ss < 134217728 -> ~ write_known_class k free ss n e ->
  (exists range ss', write_entry k free ss n e = (Ok range, ss')) \/
  (exists x, validate_long_name n = Err x /\ write_entry k free ss n e = (Err x, ss)) \/
  (k = FixedRoot /\ write_entry k free ss n e = (Err ENotEnoughSpace, ss)).
Proof. exact failed_write_unchanged. Qed.
Theorem C01_failed_write_keeps_entries : forall k free fat32 ss n e es ls r ss',
  dir_scan ss 0 [] fat32 = (es, ls, []) -> len_N ss < 134217728 ->
  write_entry k free ss n e = (r, ss') -> (forall range, r <> Ok range) ->
  (exists x, r = Err x /\ x <> EWriteZero) /\
  (k = FixedRoot -> ss' = ss) /\
  (exists iss, dir_scan ss' 0 [] fat32 = (es, ls, iss) /\ (iss = [] \/ exists i, iss = [DOrphanLfn i])) /\
  (length ss <= length ss')%nat /\
  (forall i s, nth_error ss i = Some s -> ~ free_slot s -> nth_error ss' i = Some s).
Proof. exact failed_write_keeps_entries. Qed.
(* the remaining known class: a chain-backed directory that cannot grow is left with an orphan long-name run *)
Theorem C01_failed_write_unchanged_chain_refuted :
  exists k free ss n e x ss',
    write_entry k free ss n e = (Err x, ss') /\ ss' <> ss /\
    len_N ss < 134217728 /\ sfn_live e /\ write_known_class k free ss n e /\
    dir_scan ss 0 [] false = ([], [], []) /\ dir_scan ss' 0 [] false = ([], [], [DOrphanLfn 2]).
Proof. exact failed_write_unchanged_chain_refuted. Qed.
(* the same for rename (D20, fixed by d9f4de8: the new entry is written first, the source is deleted afterwards): a rename
   within one directory that does not succeed - for whatever reason - leaves the decoded entries (the source among them) and
   labels exactly as they were and changes no slot that was in use; in a fixed root it changes nothing at all *)
Theorem C01_rename_failed_source_kept : forall upper oem k free fat32 ss src dst es ls r ss',
  dir_scan ss 0 [] fat32 = (es, ls, []) -> len_N ss < 134217728 ->
  rename_in_dir upper oem k free ss src dst = (r, ss') -> r <> Ok tt ->
  (k = FixedRoot -> ss' = ss) /\
  (exists iss, dir_scan ss' 0 [] fat32 = (es, ls, iss) /\ (iss = [] \/ exists i, iss = [DOrphanLfn i])) /\
  (length ss <= length ss')%nat /\
  (forall i s, nth_error ss i = Some s -> ~ free_slot s -> nth_error ss' i = Some s).
Proof. exact rename_failed_source_kept. Qed.
(* a move into another directory that does not succeed: the source directory is byte-identical *)
Theorem C01_rename_across_failed_source_unchanged : forall upper oem kd freed fat32 src_ss dst_ss src dst es ls r src' dst',
  dir_scan dst_ss 0 [] fat32 = (es, ls, []) -> len_N dst_ss < 134217728 ->
  rename_across upper oem kd freed src_ss dst_ss src dst = (r, (src', dst')) -> r <> Ok tt ->
  src' = src_ss /\ (kd = FixedRoot -> dst' = dst_ss) /\
  (exists iss, dir_scan dst' 0 [] fat32 = (es, ls, iss) /\ (iss = [] \/ exists i, iss = [DOrphanLfn i])) /\
  (forall i s, nth_error dst_ss i = Some s -> ~ free_slot s -> nth_error dst' i = Some s).
Proof. exact rename_across_failed_source_unchanged. Qed.
(* ex_dir2 is an 8-slot fixed root with 5 slots in use.  A 27-character name needs 4 slots: NotEnoughSpace, nothing written
   (before 13fd5fe: 3 slots written, then WriteZero); renaming "b" to a 53-character name (6 slots) fails the same way and
   "b" is still there (before d9f4de8 it was gone); a chain-backed directory without a free cluster keeps the partial run *)
Example C01_failed_write_ex :
  write_entry FixedRoot 0 ex_dir1 [47] (ex_sfn ex_alias2) = (Err EUnsupportedFileNameCharacter, ex_dir1) /\
  write_entry FixedRoot 0 ex_dir1 [] (ex_sfn ex_alias2) = (Err EInvalidFileNameLength, ex_dir1) /\
  ~ write_known_class FixedRoot 0 ex_dir1 [98] (ex_sfn ex_alias2) /\
  write_entry FixedRoot 0 ex_dir2 (repeat_N 99 27) (ex_sfn ex_alias) = (Err ENotEnoughSpace, ex_dir2) /\
  fst (write_entry FixedRoot 0 ex_dir2 (repeat_N 99 26) (ex_sfn ex_alias)) = Ok (5, 8) /\
  rename_in_dir upper_ascii oem_decode_lossy FixedRoot 0 ex_dir2 [98] (repeat_N 99 53) = (Err ENotEnoughSpace, ex_dir2) /\
  map e_lfn (fst (fst (dir_scan ex_dir2 0 [] false))) = [ex_name1; [98]] /\ snd (dir_scan ex_dir2 0 [] false) = [] /\
  (let r := rename_in_dir upper_ascii oem_decode_lossy (Chained 8) 0 ex_dir2 [98] (repeat_N 99 53) in
   fst r = Err ENotEnoughSpace /\ firstn 5 (snd r) = firstn 5 ex_dir2 /\ length (snd r) = 8%nat /\
   map e_lfn (fst (fst (dir_scan (snd r) 0 [] false))) = [ex_name1; [98]] /\ snd (dir_scan (snd r) 0 [] false) = [DOrphanLfn 8]) /\
  fst (write_entry (Chained 16) 0 (firstn 5 ex_dir2) [99] (ex_sfn ex_alias2)) = Err ENotEnoughSpace.
Proof.
  split; [vm_compute; reflexivity|]. split; [vm_compute; reflexivity|]. split; [intros [cs [p [C _]]]; discriminate|].
  split; [vm_compute; reflexivity|]. split; [vm_compute; reflexivity|]. split; [vm_compute; reflexivity|].
  split; [vm_compute; reflexivity|]. split; [vm_compute; reflexivity|]. split; [|vm_compute; reflexivity].
  vm_compute. repeat split.
Qed.

(* ---- a directory after a failed call is still usable.  The independent decoder starts a long-name run at a slot carrying
   0x40 (Spec/Abs.dir_scan), so an orphan run left by a failed write_entry does not spoil the entry written behind it.
   C01_write_entry_refines_orphans: in a directory whose only decoder issues are orphan long-name runs (DOrphanLfn; no
   DAfterEnd), a successful write_entry of a name that has a long-name run (not "." / ".." - or else in an issue-free
   directory) gains exactly one entry, decoded with its long name, and leaves the issue list EXACTLY as it was; frame as
   in C03_write_entry_refines (which is the case iss = []).
   C01_write_after_failed_write_refines: write_entry fails (any reason, any kind of directory), then a later write_entry
   succeeds: entries and labels are those before the failed call plus the new entry, the issues are those the failed call
   left (none, or one orphan run), and for a new short name the finite-map view is the map update.
   C01_create_refines_map_orphans: the same for the whole create step (existence check, alias, write). *)
Theorem C01_write_entry_refines_orphans : forall k free fat32 ss n e es ls iss p q ss',
  dir_scan ss 0 [] fat32 = (es, ls, iss) -> orphans_only iss -> (is_dot_name n = false \/ iss = []) ->
  len_N ss < 134217728 -> sfn_live e ->
  write_entry k free ss n e = (Ok (p, q), ss') ->
  exists es1 es2 ne,
    es = es1 ++ es2 /\ dir_scan ss' 0 [] fat32 = (es1 ++ ne :: es2, ls, iss) /\
    e_lfn ne = (if is_dot_name n then [] else utf16_encode n) /\ e_lfn_ok ne = true /\
    e_sfn ne = se_name e /\ e_attr ne = se_attrs e /\ e_ntres ne = se_reserved_0 e /\
    e_ctime_ms ne = se_create_time_0 e /\ e_ctime ne = se_create_time_1 e /\ e_cdate ne = se_create_date e /\
    e_adate ne = se_access_date e /\ e_mtime ne = se_modify_time e /\ e_mdate ne = se_modify_date e /\
    e_cluster ne = (if fat32 then se_first_cluster_hi e * 65536 else 0) + se_first_cluster_lo e /\
    e_size ne = se_size e /\ e_first_slot ne = p /\ e_sfn_slot ne + 1 = q /\
    q = p + len_N (entry_run n e) /\
    (forall i, (i < length ss)%nat -> (N.of_nat i < p \/ q <= N.of_nat i) -> nth_error ss' i = nth_error ss i) /\
    (forall i s, p <= N.of_nat i < q -> nth_error ss i = Some s -> free_slot s) /\
    (length ss <= length ss')%nat /\ (k = FixedRoot -> length ss' = length ss).
Proof. exact write_entry_refines_gen. Qed.
Theorem C01_write_after_failed_write_refines : forall k free1 free2 fat32 ss n1 e1 r1 ss1 n2 e2 p q ss2 es ls,
  dir_scan ss 0 [] fat32 = (es, ls, []) -> len_N ss < 134217728 ->
  write_entry k free1 ss n1 e1 = (r1, ss1) -> (forall range, r1 <> Ok range) ->
  len_N ss1 < 134217728 -> sfn_live e2 -> is_dot_name n2 = false ->
  write_entry k free2 ss1 n2 e2 = (Ok (p, q), ss2) ->
  exists iss es1 es2 ne,
    dir_scan ss1 0 [] fat32 = (es, ls, iss) /\ (iss = [] \/ exists i, iss = [DOrphanLfn i]) /\
    es = es1 ++ es2 /\ dir_scan ss2 0 [] fat32 = (es1 ++ ne :: es2, ls, iss) /\
    e_lfn ne = utf16_encode n2 /\ e_lfn_ok ne = true /\ e_sfn ne = se_name e2 /\
    e_attr ne = se_attrs e2 /\ e_size ne = se_size e2 /\
    e_cluster ne = (if fat32 then se_first_cluster_hi e2 * 65536 else 0) + se_first_cluster_lo e2 /\
    e_first_slot ne = p /\ e_sfn_slot ne + 1 = q /\
    (forall i, (i < length ss1)%nat -> (N.of_nat i < p \/ q <= N.of_nat i) -> nth_error ss2 i = nth_error ss1 i) /\
    (~ In (se_name e2) (map e_sfn es) ->
     forall key, dir_map (es1 ++ ne :: es2) key = if list_eqb (se_name e2) key then Some ne else dir_map es key).
Proof. exact write_after_failed_write_refines. Qed.
Theorem C01_create_refines_map_orphans : forall upper oem fat32 k free ss n attrs cl now wd es ls iss range ss',
  dir_scan ss 0 [] fat32 = (es, ls, iss) -> orphans_only iss -> is_dot_name n = false -> len_N ss < 134217728 ->
  attrs < 64 -> N.land attrs 8 = 0 -> TimeProofs.datetime_valid now = true ->
  create_entry upper oem fat32 k free ss n attrs cl now wd = (Ok (Some range), ss') ->
  exists es' ne, dir_scan ss' 0 [] fat32 = (es', ls, iss) /\
    e_lfn ne = utf16_encode n /\ e_lfn_ok ne = true /\ dir_map es (e_sfn ne) = None /\
    forall key, dir_map es' key = if list_eqb (e_sfn ne) key then Some ne else dir_map es key.
Proof. exact create_refines_map_orphans. Qed.
(* a chain-backed directory of ONE 4-slot cluster: "hello world.txt" (slots 0-2) and one free slot.  A 14-character name
   needs 3 slots; no free cluster: NotEnoughSpace, its first long-name slot (0x42) stays in slot 3 (orphan run, reported
   at the end of the directory: slot 4).  Then a cluster is free and "b" is created: the directory grows by one cluster,
   the run of "b" starts at slot 4 directly behind the orphan slot - "b" is decoded WITH its long name, the orphan run is
   still the one issue, reported at slot 4 (now by the restarting slot).  A name without long-name slots ("." ) written
   there would take the orphan slot for its own run: excluded by [is_dot_name n = false]. *)
Example C01_write_after_failed_write_ex :
  dir_scan ex_chain0 0 [] false = ([mk_entry (rev (firstn 2 ex_dir1)) (nth 2 ex_dir1 []) 2 false], [], []) /\
  write_entry (Chained 4) 0 ex_chain0 (repeat_N 97 14) (ex_sfn ex_alias) = (Err ENotEnoughSpace, ex_chain1) /\
  map (fun s => byte_at s 0) ex_chain1 = [66; 1; 72; 66] /\
  snd (dir_scan ex_chain1 0 [] false) = [DOrphanLfn 4] /\ orphans_only (snd (dir_scan ex_chain1 0 [] false)) /\
  sfn_live (ex_sfn ex_alias2) /\
  fst (write_entry (Chained 4) 1 ex_chain1 [98] (ex_sfn ex_alias2)) = Ok (4, 6) /\
  map (fun s => byte_at s 0) ex_chain2 = [66; 1; 72; 66; 65; 66; 0; 0] /\
  map e_lfn (fst (fst (dir_scan ex_chain2 0 [] false))) = [ex_name1; [98]] /\
  map e_lfn_ok (fst (fst (dir_scan ex_chain2 0 [] false))) = [true; true] /\
  map e_first_slot (fst (fst (dir_scan ex_chain2 0 [] false))) = [0; 4] /\
  snd (dir_scan ex_chain2 0 [] false) = [DOrphanLfn 4] /\
  (let r := write_entry (Chained 4) 1 ex_chain1 [46] (ex_sfn ex_alias2) in
   fst r = Ok (4, 5) /\ map e_lfn_ok (fst (fst (dir_scan (snd r) 0 [] false))) = [true; false]).
Proof.
  split; [vm_compute; reflexivity|]. split; [vm_compute; reflexivity|]. split; [vm_compute; reflexivity|].
  split; [vm_compute; reflexivity|]. split; [vm_compute; constructor; [exists 4; reflexivity|constructor]|].
  split. { constructor; [constructor; vm_compute; reflexivity| | |]; vm_compute; try reflexivity; discriminate. }
  vm_compute. repeat split.
Qed.

(* ---- create_file / create_dir in one directory: existence check with the library's own matching (DirEntry::eq_name over
   what the iterator yields), alias from the C16 generator fed with the raw short names of all listed entries.  On
   success: exactly one new entry; its alias is legal and differs from the short name of every decoded entry; no listed
   entry matches the new name (by long or short name, under the library's case folding [upper]); frame. *)
Theorem C01_create_entry_refines : forall upper oem fat32 k free ss n attrs cl now wd es ls range ss',
  dir_scan ss 0 [] fat32 = (es, ls, []) -> len_N ss < 134217728 ->
  attrs < 64 -> N.land attrs 8 = 0 -> TimeProofs.datetime_valid now = true ->
  create_entry upper oem fat32 k free ss n attrs cl now wd = (Ok (Some range), ss') ->
  exists es1 es2 ne,
    es = es1 ++ es2 /\ dir_scan ss' 0 [] fat32 = (es1 ++ ne :: es2, ls, []) /\
    e_lfn ne = (if is_dot_name n then [] else utf16_encode n) /\ e_lfn_ok ne = true /\ e_attr ne = attrs /\ e_size ne = 0 /\
    sfn_legal_b (e_sfn ne) = true /\
    ~ In (e_sfn ne) (map e_sfn es) /\
    (Wf.has_dup list_eqb (map e_sfn es) = false -> Wf.has_dup list_eqb (map e_sfn (es1 ++ ne :: es2)) = false) /\
    (forall l, dir_entries oem ss = Ok l -> forall ev, In ev l -> matches upper oem n ev = false) /\
    (forall i, (i < length ss)%nat -> (N.of_nat i < fst range \/ snd range <= N.of_nat i) -> nth_error ss' i = nth_error ss i).
Proof. exact create_entry_refines. Qed.
Definition ex_now : datetime := {| dt_date := {| year := 2024; month := 2; day := 29 |};
                                   dt_time := {| hour := 13; min := 37; sec := 59; millis := 990 |} |}.
(* "HELLO WORLD.TXT" exists (matched through the long name, case-insensitively): nothing is written; "Hello World.txx"
   gets the alias HELLOW~1.TXX (the tail ~1 is free for this extension) *)
Example C01_create_entry_ex :
  create_entry upper_ascii oem_decode_lossy false FixedRoot 0 ex_dir2
    [72; 69; 76; 76; 79; 32; 87; 79; 82; 76; 68; 46; 84; 88; 84] 0 None ex_now false = (Ok None, ex_dir2) /\
  (let r := create_entry upper_ascii oem_decode_lossy false FixedRoot 0 ex_dir2
              [72; 101; 108; 108; 111; 32; 87; 111; 114; 108; 100; 46; 116; 120; 120] 0 None ex_now false in
   fst r = Ok (Some (5, 8)) /\
   map e_sfn (fst (fst (dir_scan (snd r) 0 [] false))) = [ex_alias1; ex_alias2; [72; 69; 76; 76; 79; 87; 126; 49; 84; 88; 88]] /\
   snd (dir_scan (snd r) 0 [] false) = []) /\
  fst (create_entry upper_ascii oem_decode_lossy false FixedRoot 0 ex_dir2 [66] 16 (Some 5) ex_now true) = Err EInvalidInput.
Proof. vm_compute. repeat split. Qed.

(* ---- dir_refines_map: the decoding of one directory as a finite map (key = raw short name, [dir_map]) commutes with the
   library's create (create_file / create_dir: existence check, alias, write), remove (find by the library's own matching,
   deletion loop) and rename within the directory (find, existence check, alias, write, delete - in this order since
   d9f4de8).  A rename whose
   destination name resolves to the source entry itself is a no-op ONLY for the identical spelling ([has_exact_name],
   spelled out by C01_has_exact_name_spec); for another case of the long name, or for the entry's own alias, the entry is
   rewritten: same key (raw short name), new long name, same attributes/size/cluster (D22, fixed in 46d26a5; the premise
   [length (e_sfn e) = 11] holds for every 32-byte slot).  [attrs_sane]: the
   library's and the decoder's long-name-slot tests agree on every slot (they differ only on attribute bytes 0x1F, 0x2F,
   0x3F (+0x40/0x80), which no writer produces: C01_remove_entry_insane_refuted); [bytes_ok]: slots hold bytes. *)
Theorem C01_dir_refines_map :
  (forall upper oem fat32 k free ss n attrs cl now wd es ls range ss',
     dir_scan ss 0 [] fat32 = (es, ls, []) -> len_N ss < 134217728 ->
     attrs < 64 -> N.land attrs 8 = 0 -> TimeProofs.datetime_valid now = true ->
     create_entry upper oem fat32 k free ss n attrs cl now wd = (Ok (Some range), ss') ->
     exists es' ne, dir_scan ss' 0 [] fat32 = (es', ls, []) /\
       e_lfn ne = (if is_dot_name n then [] else utf16_encode n) /\ dir_map es (e_sfn ne) = None /\
       forall key, dir_map es' key = if list_eqb (e_sfn ne) key then Some ne else dir_map es key) /\
  (forall upper oem fat32 ss name ne es ls ss',
     dir_scan ss 0 [] fat32 = (es, ls, []) -> Forall attrs_sane ss ->
     remove_entry upper oem ss name ne = (Ok tt, ss') ->
     exists ev e es1 es2,
       find_entry upper oem ss name None = Ok ev /\ matches upper oem name ev = true /\ Lfn.ev_raw_name ev = e_sfn e /\
       es = es1 ++ e :: es2 /\ ss' = mark_deleted ss (e_first_slot e) (e_sfn_slot e + 1) /\
       dir_scan ss' 0 [] fat32 = (es1 ++ es2, ls, []) /\
       (NoDup (map e_sfn es) -> forall key, dir_map (es1 ++ es2) key = if list_eqb (e_sfn e) key then None else dir_map es key)) /\
  (forall upper oem k free fat32 ss src dst es ls ss',
     dir_scan ss 0 [] fat32 = (es, ls, []) -> len_N ss < 134217728 -> Forall attrs_sane ss -> Forall bytes_ok ss ->
     NoDup (map e_sfn es) ->
     rename_in_dir upper oem k free ss src dst = (Ok tt, ss') ->
     exists ev e,
       find_entry upper oem ss src None = Ok ev /\ In e es /\ Lfn.ev_raw_name ev = e_sfn e /\
       ((* the destination name is not in use: e leaves the map, a new entry under a fresh legal alias enters it *)
        (exists a ne es',
           check_for_existence upper oem ss dst None = Ok (Fresh a) /\
           dir_scan ss' 0 [] fat32 = (es', ls, []) /\
           e_lfn ne = (if is_dot_name dst then [] else utf16_encode dst) /\ e_lfn_ok ne = true /\
           e_sfn ne = a /\ sfn_legal_b a = true /\ ~ In a (map e_sfn es) /\
           e_attr ne = e_attr e mod 64 /\ e_size ne = e_size e /\ e_cluster ne = e_cluster e /\
           forall key, dir_map es' key =
             if list_eqb a key then Some ne else if list_eqb (e_sfn e) key then None else dir_map es key) \/
        (* the destination name resolves to the source entry itself (its long name in any case, or its alias) *)
        (exists dv,
           check_for_existence upper oem ss dst None = Ok (Exists dv) /\ Lfn.ev_end dv = Lfn.ev_end ev /\
           (* ... in the identical spelling: nothing happens *)
           (has_exact_name ev dst = true -> ss' = ss) /\
           (* ... in another spelling: the key of e now holds the entry with the new long name and the same short name *)
           (has_exact_name ev dst = false -> length (e_sfn e) = 11%nat ->
            exists ne es',
              dir_scan ss' 0 [] fat32 = (es', ls, []) /\
              e_lfn ne = (if is_dot_name dst then [] else utf16_encode dst) /\ e_lfn_ok ne = true /\
              e_sfn ne = e_sfn e /\
              e_attr ne = e_attr e mod 64 /\ e_size ne = e_size e /\ e_cluster ne = e_cluster e /\
              forall key, dir_map es' key = if list_eqb (e_sfn e) key then Some ne else dir_map es key) /\
           (* ... and then no OTHER listed entry matches the new spelling (the scan added by 7e5011a: D27) *)
           (has_exact_name ev dst = false ->
            forall l other, dir_entries oem ss = Ok l -> In other l -> Lfn.ev_end other <> Lfn.ev_end ev ->
              matches upper oem dst other = false)))).
Proof. exact dir_refines_map. Qed.
Theorem C01_remove_entry_insane_refuted :
  exists ss name ss' es ls,
    dir_scan ss 0 [] false = (es, ls, []) /\ ls <> [] /\
    remove_entry upper_ascii oem_decode_lossy ss name false = (Ok tt, ss') /\
    dir_scan ss' 0 [] false = ([], [], []) /\ ~ Forall attrs_sane ss.
Proof. exact remove_entry_insane_refuted. Qed.
(* DirEntry::has_exact_name: the stored long name is, unit for unit, the UTF-16 form of the name; an entry without a long
   name is compared through its rendered short name ("B", "A.TXT") with the bytes of the name *)
Theorem C01_has_exact_name_spec : forall ev name,
  has_exact_name ev name = true <->
  (Lfn.ev_lfn ev <> [] /\ Lfn.ev_lfn ev = utf16_encode name) \/
  (Lfn.ev_lfn ev = [] /\ Lfn.ev_short ev = utf8_encode name).
Proof. exact has_exact_name_spec. Qed.
(* the premise [length (e_sfn e) = 11] of the rewrite case holds in every directory made of 32-byte slots *)
Theorem C01_decoded_sfn_length : forall fat32 ss es ls iss e,
  dir_scan ss 0 [] fat32 = (es, ls, iss) -> Forall (fun s => length s = 32%nat) ss -> In e es -> length (e_sfn e) = 11%nat.
Proof. exact decoded_sfn_length. Qed.
Example C01_decoded_sfn_length_ex : Forall (fun s => length s = 32%nat) ex_dir2 /\ length (fst (fst (dir_scan ex_dir2 0 [] false))) = 2%nat.
Proof. split; [repeat constructor|reflexivity]. Qed.
(* the library's rename_in_dir on the example directory: "b" -> "hello world.TXT" is refused (exists under another case),
   "b" -> "b" is a no-op (same entry, identical spelling), "b" -> "c" moves the entry in the map *)
Example C01_rename_ex :
  rename_in_dir upper_ascii oem_decode_lossy FixedRoot 0 ex_dir2 [98]
    [104; 101; 108; 108; 111; 32; 119; 111; 114; 108; 100; 46; 84; 88; 84] = (Err EAlreadyExists, ex_dir2) /\
  rename_in_dir upper_ascii oem_decode_lossy FixedRoot 0 ex_dir2 [98] [98] = (Ok tt, ex_dir2) /\
  (let r := rename_in_dir upper_ascii oem_decode_lossy FixedRoot 0 ex_dir2 [98] [99] in
   fst r = Ok tt /\ map e_lfn (fst (fst (dir_scan (snd r) 0 [] false))) = [ex_name1; [99]] /\
   map e_sfn (fst (fst (dir_scan (snd r) 0 [] false))) = [ex_alias1; [67; 32; 32; 32; 32; 32; 32; 32; 32; 32; 32]] /\
   snd (dir_scan (snd r) 0 [] false) = []) /\
  fst (rename_in_dir upper_ascii oem_decode_lossy FixedRoot 0 ex_dir2 [120] [99]) = Err ENotFound /\
  Forall attrs_sane ex_dir2 /\ Forall bytes_ok ex_dir2 /\ NoDup (map e_sfn (fst (fst (dir_scan ex_dir2 0 [] false)))) /\
  (let r := remove_entry upper_ascii oem_decode_lossy ex_dir2 [72; 69; 76; 76; 79; 87; 126; 49; 46; 116; 120; 116] false in
   fst r = Ok tt /\ map e_lfn (fst (fst (dir_scan (snd r) 0 [] false))) = [[98]]).
Proof.
  split; [vm_compute; reflexivity|]. split; [vm_compute; reflexivity|]. split; [vm_compute; repeat split|].
  split; [vm_compute; reflexivity|]. split; [repeat constructor|]. split.
  { apply bytes_ok_b. vm_compute. reflexivity. }
  split; [|vm_compute; split; reflexivity].
  vm_compute. constructor; [|constructor; [|constructor]]; cbn [In]; [intros [C|[]]; discriminate|intros []].
Qed.
(* a CASE-ONLY rename, and a rename onto the entry's own alias (D22, fixed): ex_dir2 (8 slots) holds "hello world.txt"
   (alias HELLOW~1.TXT, slots 0-2) and "b" (alias B, slots 3-4); slots 5-7 are unused.
   "b" -> "B": the destination resolves to the source entry itself, which is stored as "b": not the identical spelling, so
   the entry is rewritten with the long name "B" and the same short name - the new entry is written FIRST, into the free
   slots 5-6, then slots 3-4 are deleted; all other slots are untouched.  "hello world.txt" -> "HELLO WORLD.TXT" likewise
   (3 slots: exactly the room left, slots 5-7; the entry now comes after "b"); "hello world.txt" -> "HELLOW~1.TXT" (its
   alias) makes the alias spelling the long name (slots 5-6).  In every case the short names - the keys of the map - are
   as before, and no decoder issue appears. *)
Example C01_rename_case_only_ex :
  let scan ss := (map e_lfn (fst (fst (dir_scan ss 0 [] false))), map e_sfn (fst (fst (dir_scan ss 0 [] false))),
                  snd (dir_scan ss 0 [] false)) in
  let ren := rename_in_dir upper_ascii oem_decode_lossy FixedRoot 0 ex_dir2 in
  scan ex_dir2 = ([ex_name1; [98]], [ex_alias1; ex_alias2], []) /\
  (exists ev, find_entry upper_ascii oem_decode_lossy ex_dir2 [98] None = Ok ev /\
              check_for_existence upper_ascii oem_decode_lossy ex_dir2 [66] None = Ok (Exists ev) /\
              Lfn.ev_lfn ev = [98] /\ has_exact_name ev [66] = false /\ has_exact_name ev [98] = true) /\
  (let r := ren [98] [66] in
   fst r = Ok tt /\ snd r <> ex_dir2 /\ scan (snd r) = ([ex_name1; [66]], [ex_alias1; ex_alias2], []) /\
   firstn 3 (snd r) = firstn 3 ex_dir2 /\ skipn 7 (snd r) = skipn 7 ex_dir2 /\
   map (fun s => byte_at s 0) (snd r) = [66; 1; 72; 229; 229; 65; 66; 0]) /\
  (let r := ren ex_name1 [72; 69; 76; 76; 79; 32; 87; 79; 82; 76; 68; 46; 84; 88; 84] in
   fst r = Ok tt /\
   scan (snd r) = ([[98]; [72; 69; 76; 76; 79; 32; 87; 79; 82; 76; 68; 46; 84; 88; 84]], [ex_alias2; ex_alias1], []) /\
   map (fun s => byte_at s 0) (snd r) = [229; 229; 229; 65; 66; 66; 1; 72]) /\
  (let r := ren ex_name1 [72; 69; 76; 76; 79; 87; 126; 49; 46; 84; 88; 84] in
   fst r = Ok tt /\
   scan (snd r) = ([[98]; [72; 69; 76; 76; 79; 87; 126; 49; 46; 84; 88; 84]], [ex_alias2; ex_alias1], []) /\
   map (fun s => byte_at s 0) (snd r) = [229; 229; 229; 65; 66; 65; 72; 0]) /\
  (* the identical spelling: nothing happens *)
  ren [98] [98] = (Ok tt, ex_dir2) /\
  (* an entry WITHOUT a long name (short slot "B" only) is stored as "B": "b" -> "B" is the identical spelling (no-op),
     "B" -> "b" gives it the long name "b" and keeps the short name; in a root with a single free slot the same rename is
     refused (the new entry needs 2 slots while the old one is still there) and nothing changes *)
  (let d := [ex_live; zero_slot; zero_slot; zero_slot] in
   scan d = ([[]], [ex_alias2], []) /\
   rename_in_dir upper_ascii oem_decode_lossy FixedRoot 0 d [98] [66] = (Ok tt, d) /\
   (let r := rename_in_dir upper_ascii oem_decode_lossy FixedRoot 0 d [66] [98] in
    fst r = Ok tt /\ scan (snd r) = ([[98]], [ex_alias2], []) /\ map (fun s => byte_at s 0) (snd r) = [229; 65; 66; 0]) /\
   rename_in_dir upper_ascii oem_decode_lossy FixedRoot 0 [ex_live; zero_slot] [66] [98] = (Err ENotEnoughSpace, [ex_live; zero_slot])).
Proof.
  cbn zeta. split; [vm_compute; reflexivity|]. split.
  { eexists. split; [vm_compute; reflexivity|]. vm_compute. repeat split. }
  split. { split; [vm_compute; reflexivity|]. split; [vm_compute; discriminate|]. vm_compute. repeat split. }
  split; [vm_compute; repeat split|]. split; [vm_compute; repeat split|]. split; [vm_compute; reflexivity|].
  vm_compute. repeat split.
Qed.


(* ================================================================== the fixed root directory inside WHOLE IMAGES
   (Model/VolDir.v, Proofs/VolDirProofs.v, Proofs/VolDirFormat.v): the slot-layer functions above, applied to the root
   region of a FAT12/16 device image and decoded by the whole-image decoder Spec/Abs.abs.
   vol_create_empty_file_root = root_dir().create_file(name), vol_remove_empty_file_root = root_dir().remove(name) of a file
   without clusters, vol_rename_in_root = root_dir().rename(src, &root_dir(), dst) of a file: read the region as slots, run
   create_entry / remove_entry / rename_in_dir with kind FixedRoot, write the slots back (why this is the device content
   the library leaves: comment in Model/VolDir.v; checked on whole devices by tools/props/cvol_corr.py).
   [fixed_root_geom g]: FAT12/16, >= 512-byte sectors, >= 1 reserved sector and FAT copy, <= 65535 root entries filling
   whole sectors, every cluster's FAT entry inside one copy, data area inside the volume.  Non-vacuous:
   C01_vol_formatted_geom (every such volume format_volume makes) and the example at the end. *)
From FatVerif Require Import Spec.Regions Model.VolDir Model.Format Spec.FormatSpec Model.FormatImage Spec.FormatImageSpec
  Proofs.FatProofs Proofs.FormatImageProofs Proofs.VolDirProofs Proofs.VolDirFormat.
From Coq Require Import Permutation.

(* ---- writing ALL slots of the region back is harmless: a byte of the result differs from the image before only if it
   lies inside the region, in a slot k whose new content differs from the slot the region held at index k; it then is
   byte j of the new slot.  (The library writes only the slots it changes; the image is the same.) *)
Theorem C01_vol_put_root_slots_changes : forall g im ss o,
  length ss = N.to_nat (g_root_entries g) -> Forall (fun s => length s = 32%nat) ss ->
  img_get (put_root_slots g im ss) o <> img_get im o ->
  exists k j, (k < N.to_nat (g_root_entries g))%nat /\ (j < 32)%nat /\ o = g_root_off g + N.of_nat (32 * k + j) /\
              nth k ss [] <> nth k (root_region_slots g im) [] /\
              img_get (put_root_slots g im ss) o = nth j (nth k ss []) 0.
Proof. intros g im ss o H1 H2. exact (put_root_slots_changes g im ss o (conj H1 H2)). Qed.
Theorem C01_vol_root_region_roundtrip : forall g im ss,
  length ss = N.to_nat (g_root_entries g) -> Forall (fun s => length s = 32%nat) ss ->
  root_region_slots g (put_root_slots g im ss) = ss /\
  (forall o, img_get (put_root_slots g im (root_region_slots g im)) o = img_get im o).
Proof. intros g im ss H1 H2. split; [exact (root_region_put g im ss (conj H1 H2))|exact (put_root_slots_same g im)]. Qed.

(* ---- (a) frame and (b) geometry, for EVERY outcome of the three operations: no byte outside the root region changes -
   boot sector, FAT copies, data area, anything behind the volume; a byte that changes is classified RRoot by the region
   classifier of Spec/Regions.v (C11) and lies in a slot of the region whose content changed; the decoder reads the same
   geometry; the FAT as the decoder reads it is untouched: same value for every cluster, same free count, same
   lost-cluster findings *)
Definition vol_frame (im im' : image) : Prop :=
  let g := parse_geom im in
  (forall o, (o < g_root_off g \/ g_root_off g + g_root_entries g * 32 <= o) -> img_get im' o = img_get im o) /\
  (forall o, img_get im' o <> img_get im o ->
     (forall imx m, classify g imx m o = RRoot) /\
     exists k j, (k < N.to_nat (g_root_entries g))%nat /\ (j < 32)%nat /\ o = g_root_off g + N.of_nat (32 * k + j) /\
                 nth k (root_region_slots g im') [] <> nth k (root_region_slots g im) []) /\
  parse_geom im' = g /\
  count_free g im' = count_free g im /\
  (forall c, in_range g c = true -> fat_val g im' c = fat_val g im c) /\
  (forall m, Wf.lost_from g im' m 2 (N.to_nat (g_clusters g)) = Wf.lost_from g im m 2 (N.to_nat (g_clusters g))).
Theorem C01_vol_frame : forall upper oem im,
  fixed_root_geom (parse_geom im) ->
  (forall name now r im', vol_create_empty_file_root upper oem im name now = (r, im') -> vol_frame im im') /\
  (forall name r im', vol_remove_empty_file_root upper oem im name = Some (r, im') -> vol_frame im im') /\
  (forall src dst r im', vol_rename_in_root upper oem im src dst = Some (r, im') -> vol_frame im im').
Proof.
  intros upper oem im Hg. split; [|split].
  - intros name now r im' H. exact (vol_create_confined upper oem im name now r im' Hg H).
  - intros name r im' H. exact (vol_remove_confined upper oem im name r im' Hg H).
  - intros src dst r im' H. exact (vol_rename_confined upper oem im src dst r im' Hg H).
Qed.

(* ---- (c) create, decoded.  The root of [im] decodes without issue; create_file(name) made a new entry.  Then the decoded
   root is the old list of nodes - each one EXACTLY as it was decoded before (entry, chain, content, children), in the same
   order - with ONE new node inserted at the position of the slots the slot layer chose (first fit: e_first_slot = start of
   the returned range): a plain file, no chain, no content, long name = UTF-16 of [name] (none for "." / "..": D21), size 0,
   attributes 0, stamped by Model/Time.stamp_create now, under a legal alias that no old node has; still no decode issue;
   labels, geometry, status byte, FS-info words as before. *)
Theorem C01_vol_create_decodes : forall upper oem im name now range im',
  fixed_root_geom (parse_geom im) -> v_root_issues (abs im) = [] -> TimeProofs.datetime_valid now = true ->
  vol_create_empty_file_root upper oem im name now = (Ok (Some range), im') ->
  exists ns1 ns2 ne st,
    v_root (abs im) = ns1 ++ ns2 /\ v_root (abs im') = ns1 ++ NFile ne None [] :: ns2 /\
    e_lfn ne = (if is_dot_name name then [] else utf16_encode name) /\ e_lfn_ok ne = true /\
    e_size ne = 0 /\ e_cluster ne = 0 /\ e_attr ne = 0 /\ e_ntres ne = 0 /\
    stamp_create now = Ok st /\
    e_ctime_ms ne = create_time_0 st /\ e_ctime ne = create_time_1 st /\ e_cdate ne = create_date st /\
    e_adate ne = access_date st /\ e_mtime ne = modify_time st /\ e_mdate ne = modify_date st /\
    e_first_slot ne = fst range /\ e_sfn_slot ne + 1 = snd range /\
    sfn_legal_b (e_sfn ne) = true /\ ~ In (e_sfn ne) (map e_sfn (map node_entry (v_root (abs im)))) /\
    v_root_issues (abs im') = [] /\ v_labels (abs im') = v_labels (abs im) /\
    v_geom (abs im') = v_geom (abs im) /\ v_root_chain (abs im') = v_root_chain (abs im) /\
    v_status (abs im') = v_status (abs im) /\
    v_fsinfo_free (abs im') = v_fsinfo_free (abs im) /\ v_fsinfo_next (abs im') = v_fsinfo_next (abs im).
Proof. exact vol_create_decodes. Qed.

(* ---- every other outcome of create - the file exists (Ok None: opened, nothing written), the name is a directory's
   (InvalidInput), invalid, or the root has no room (NotEnoughSpace) -: every byte of the device is as before, and so is
   everything decoded from it.  (Images are finite maps, so "unchanged" is byte-wise equality, not Leibniz equality.) *)
Theorem C01_vol_create_failed_unchanged : forall fold upper oem im name now r im',
  fixed_root_geom (parse_geom im) ->
  vol_create_empty_file_root upper oem im name now = (r, im') -> (forall range, r <> Ok (Some range)) ->
  (forall o, img_get im' o = img_get im o) /\ parse_geom im' = parse_geom im /\ abs im' = abs im /\
  Wf.wf_issues fold im' = Wf.wf_issues fold im /\ count_free (parse_geom im) im' = count_free (parse_geom im) im.
Proof. exact vol_create_failed_unchanged. Qed.

(* ---- (c) remove of a file without clusters, decoded.  [attrs_sane]: as in C01_dir_refines_map.  The decoded root loses
   exactly one node - the node of the entry the library's own lookup resolved [name] to (same raw short name and size;
   not a directory, no cluster: a plain file without chain and content, unless its short name is a dot name) -; every
   other node is there exactly as before, in order; no issue; labels, geometry, status byte as before.  Any other outcome
   (NotFound, ...) leaves every byte as it was. *)
Theorem C01_vol_remove_decodes : forall upper oem im name im',
  fixed_root_geom (parse_geom im) -> v_root_issues (abs im) = [] ->
  Forall attrs_sane (root_region_slots (parse_geom im) im) ->
  vol_remove_empty_file_root upper oem im name = Some (Ok tt, im') ->
  exists ns1 n ns2 ev,
    v_root (abs im) = ns1 ++ n :: ns2 /\ v_root (abs im') = ns1 ++ ns2 /\
    root_lookup upper oem im name = Ok ev /\ matches upper oem name ev = true /\
    e_sfn (node_entry n) = Lfn.ev_raw_name ev /\
    e_is_dir (node_entry n) = false /\ e_cluster (node_entry n) = 0 /\ e_size (node_entry n) = Lfn.ev_size ev /\
    (e_is_dot (node_entry n) = false -> n = NFile (node_entry n) None []) /\
    v_root_issues (abs im') = [] /\ v_labels (abs im') = v_labels (abs im) /\
    v_geom (abs im') = v_geom (abs im) /\ v_status (abs im') = v_status (abs im).
Proof. exact vol_remove_decodes. Qed.
Theorem C01_vol_remove_failed_unchanged : forall fold upper oem im name r im',
  fixed_root_geom (parse_geom im) ->
  vol_remove_empty_file_root upper oem im name = Some (r, im') -> r <> Ok tt ->
  (forall o, img_get im' o = img_get im o) /\ parse_geom im' = parse_geom im /\ abs im' = abs im /\
  Wf.wf_issues fold im' = Wf.wf_issues fold im /\ count_free (parse_geom im) im' = count_free (parse_geom im) im.
Proof. exact vol_remove_failed_unchanged. Qed.

(* ---- (c) rename of a FILE inside the root (with or without clusters: rename never touches the FAT), decoded.
   [attrs_sane], [bytes_ok] (every slot byte < 256): as in C01_dir_refines_map.  On success either nothing happened - the
   destination is the stored spelling of the source's own name: every byte as before -, or the decoded root lost exactly the
   node of the source entry and gained exactly one node (first fit; all other nodes exactly as before, same relative
   order): the SAME cluster chain and the SAME content - FAT and data area are untouched and the new entry carries the
   source's first cluster and size -, the source's attributes (bits 6-7 dropped), the new long name; its short name is a
   fresh legal alias, or the source's own when only the spelling changes (D22) - and then no other listed entry matches
   the new spelling (D27, 7e5011a) -; no issue; labels, geometry, status byte as before.  Any other outcome leaves every byte as it was (in particular the source: D20). *)
Theorem C01_vol_rename_decodes : forall upper oem im src dst im',
  fixed_root_geom (parse_geom im) -> v_root_issues (abs im) = [] ->
  Forall attrs_sane (root_region_slots (parse_geom im) im) ->
  Forall DirSlotsProofs.bytes_ok (root_region_slots (parse_geom im) im) ->
  vol_rename_in_root upper oem im src dst = Some (Ok tt, im') ->
  exists ev,
    root_lookup upper oem im src = Ok ev /\ matches upper oem src ev = true /\ Lfn.ev_is_dir ev = false /\
    ((exists dv, check_for_existence upper oem (root_region_slots (parse_geom im) im) dst None = Ok (Exists dv) /\
                 Lfn.ev_end dv = Lfn.ev_end ev /\ has_exact_name ev dst = true /\
                 (forall o, img_get im' o = img_get im o) /\ abs im' = abs im) \/
     (exists nx n ny nc nd n' ch content,
        v_root (abs im) = nx ++ n :: ny /\ nx ++ ny = nc ++ nd /\ v_root (abs im') = nc ++ n' :: nd /\
        e_sfn (node_entry n) = Lfn.ev_raw_name ev /\ e_is_dir (node_entry n) = false /\ e_is_dir (node_entry n') = false /\
        (e_is_dot (node_entry n) = false -> n = NFile (node_entry n) ch content) /\
        (e_is_dot (node_entry n') = false -> n' = NFile (node_entry n') ch content) /\
        e_lfn (node_entry n') = (if is_dot_name dst then [] else utf16_encode dst) /\ e_lfn_ok (node_entry n') = true /\
        e_attr (node_entry n') = e_attr (node_entry n) mod 64 /\
        e_size (node_entry n') = e_size (node_entry n) /\ e_cluster (node_entry n') = e_cluster (node_entry n) /\
        ((exists a, check_for_existence upper oem (root_region_slots (parse_geom im) im) dst None = Ok (Fresh a) /\
                    e_sfn (node_entry n') = a /\ sfn_legal_b a = true /\
                    ~ In a (map e_sfn (map node_entry (v_root (abs im))))) \/
         (exists dv, check_for_existence upper oem (root_region_slots (parse_geom im) im) dst None = Ok (Exists dv) /\
                     Lfn.ev_end dv = Lfn.ev_end ev /\ has_exact_name ev dst = false /\
                     e_sfn (node_entry n') = e_sfn (node_entry n) /\
                     (forall l other, dir_entries oem (root_region_slots (parse_geom im) im) = Ok l -> In other l ->
                                      Lfn.ev_end other <> Lfn.ev_end ev -> matches upper oem dst other = false))) /\
        v_root_issues (abs im') = [] /\ v_labels (abs im') = v_labels (abs im) /\
        v_geom (abs im') = v_geom (abs im) /\ v_status (abs im') = v_status (abs im))).
Proof. exact vol_rename_decodes. Qed.
Theorem C01_vol_rename_failed_unchanged : forall fold upper oem im src dst r im',
  fixed_root_geom (parse_geom im) ->
  vol_rename_in_root upper oem im src dst = Some (r, im') -> r <> Ok tt ->
  (forall o, img_get im' o = img_get im o) /\ parse_geom im' = parse_geom im /\ abs im' = abs im /\
  Wf.wf_issues fold im' = Wf.wf_issues fold im /\ count_free (parse_geom im) im' = count_free (parse_geom im) im.
Proof. exact vol_rename_failed_unchanged. Qed.

(* ---- [fixed_root_geom] is what format_volume produces: every accepted FAT12/16 request whose root-entry count fills
   whole sectors (the default 512 always does) *)
Theorem C01_vol_formatted_geom : forall o ts bs t, builder_range o -> ts < 4294967296 ->
  format_boot_sector_validated o ts = Ok (bs, t) -> t <> Format.Fat32 ->
  (o_max_root_dir_entries o * 32) mod o_bytes_per_sector o = 0 ->
  fixed_root_geom (geom_of (fbs_bpb bs)) /\ sp_clusters (fbs_bpb bs) <= 65524.
Proof. exact formatted_fixed_root_geom. Qed.

(* ---- (d) END TO END FROM ANY DEVICE CONTENT: format_volume of a FAT12/16 volume (premises of C06_image_decodes_empty),
   then one create_file(name) in the root that made a new entry.  The independent decoder finds exactly ONE root node: a
   plain file named [name], empty, without cluster, stamped with [now], under a legal alias; no decode issue; the label of
   the request; the geometry of the boot sector; every cluster still free; no well-formedness issue (Spec/Wf.v) for any
   case folding; no byte outside the root region differs from the formatted device. *)
Theorem C01_vol_format_create_decodes : forall fold upper oem o ts im0 bs t im name now range im1,
  builder_range o -> ts < 4294967296 -> FatProofs.bytes_ok im0 ->
  format_boot_sector_validated o ts = Ok (bs, t) -> t <> Format.Fat32 ->
  (o_max_root_dir_entries o * 32) mod o_bytes_per_sector o = 0 ->
  format_image o ts im0 = Ok im -> TimeProofs.datetime_valid now = true ->
  vol_create_empty_file_root upper oem im name now = (Ok (Some range), im1) ->
  let g := geom_of (fbs_bpb bs) in
  exists ne st,
    v_root (abs im1) = [NFile ne None []] /\
    e_lfn ne = (if is_dot_name name then [] else utf16_encode name) /\ e_lfn_ok ne = true /\
    e_size ne = 0 /\ e_cluster ne = 0 /\ e_attr ne = 0 /\
    stamp_create now = Ok st /\
    e_ctime_ms ne = create_time_0 st /\ e_ctime ne = create_time_1 st /\ e_cdate ne = create_date st /\
    e_adate ne = access_date st /\ e_mtime ne = modify_time st /\ e_mdate ne = modify_date st /\
    sfn_legal_b (e_sfn ne) = true /\
    v_root_issues (abs im1) = [] /\ v_labels (abs im1) = expected_labels o /\
    parse_geom im1 = g /\ fixed_root_geom g /\
    count_free g im1 = sp_clusters (fbs_bpb bs) /\
    Wf.wf_issues fold im1 = [] /\
    (forall x, (x < g_root_off g \/ g_root_off g + g_root_entries g * 32 <= x) -> img_get im1 x = img_get im x).
Proof. exact format_create_decodes. Qed.

(* ... the success premise above is not vacuous: on a freshly formatted FAT12/16 volume whose root has at least 22 entries
   (label + 20 long-name slots + 1 short slot: room for ANY accepted name) create_file makes a new entry for EVERY name
   validate_long_name accepts, under every valid clock value *)
Theorem C01_vol_format_create_succeeds : forall upper oem o ts im0 bs t im name now,
  builder_range o -> ts < 4294967296 -> FatProofs.bytes_ok im0 ->
  format_boot_sector_validated o ts = Ok (bs, t) -> t <> Format.Fat32 ->
  (o_max_root_dir_entries o * 32) mod o_bytes_per_sector o = 0 -> 22 <= o_max_root_dir_entries o ->
  format_image o ts im0 = Ok im ->
  validate_long_name name = Ok tt -> TimeProofs.datetime_valid now = true ->
  exists range im1, vol_create_empty_file_root upper oem im name now = (Ok (Some range), im1).
Proof. exact format_create_succeeds. Qed.

(* ... and by induction ANY sequence of creates that each made a new entry ([vol_create_many]: None as soon as a create
   finds its name in use or fails).  The root holds exactly one node per request (a permutation of the list in creation
   order): plain empty files carrying exactly the requested names, pairwise distinct aliases; no decode issue; label,
   geometry, free count of the formatted volume; nothing outside the root region touched; no well-formedness issue when
   the folded names are pairwise distinct and none is a dot name. *)
Theorem C01_vol_format_create_many_decodes : forall upper oem o ts im0 bs t im reqs im',
  builder_range o -> ts < 4294967296 -> FatProofs.bytes_ok im0 ->
  format_boot_sector_validated o ts = Ok (bs, t) -> t <> Format.Fat32 ->
  (o_max_root_dir_entries o * 32) mod o_bytes_per_sector o = 0 ->
  format_image o ts im0 = Ok im ->
  Forall (fun q => TimeProofs.datetime_valid (snd q) = true) reqs ->
  vol_create_many upper oem im reqs = Some im' ->
  let g := geom_of (fbs_bpb bs) in
  exists nodes,
    Permutation (v_root (abs im')) nodes /\
    map (fun n => e_lfn (node_entry n)) nodes = map (fun q => if is_dot_name (fst q) then [] else utf16_encode (fst q)) reqs /\
    Forall (fun n => exists e, n = NFile e None [] /\ e_size e = 0 /\ e_cluster e = 0 /\ e_lfn_ok e = true) nodes /\
    NoDup (map e_sfn (map node_entry (v_root (abs im')))) /\
    length (v_root (abs im')) = length reqs /\
    v_root_issues (abs im') = [] /\ v_labels (abs im') = expected_labels o /\
    parse_geom im' = g /\ count_free g im' = sp_clusters (fbs_bpb bs) /\
    (forall x, (x < g_root_off g \/ g_root_off g + g_root_entries g * 32 <= x) -> img_get im' x = img_get im x) /\
    (forall fold, Forall (fun q => is_dot_name (fst q) = false) reqs ->
                  NoDup (map (fun q => fold (utf16_encode (fst q))) reqs) -> Wf.wf_issues fold im' = []).
Proof. exact format_create_many_decodes. Qed.
(* the same for a volume that already holds entries: the old nodes stay as they were decoded, the new ones are added *)
Theorem C01_vol_create_many_decodes : forall upper oem reqs im im',
  fixed_root_geom (parse_geom im) -> v_root_issues (abs im) = [] ->
  Forall (fun q => TimeProofs.datetime_valid (snd q) = true) reqs ->
  vol_create_many upper oem im reqs = Some im' ->
  parse_geom im' = parse_geom im /\ v_root_issues (abs im') = [] /\ v_labels (abs im') = v_labels (abs im) /\
  count_free (parse_geom im) im' = count_free (parse_geom im) im /\
  (forall o, (o < g_root_off (parse_geom im) \/ g_root_off (parse_geom im) + g_root_entries (parse_geom im) * 32 <= o) ->
             img_get im' o = img_get im o) /\
  exists news,
    Permutation (v_root (abs im')) (v_root (abs im) ++ news) /\
    map (fun n => e_lfn (node_entry n)) news = map (fun q => if is_dot_name (fst q) then [] else utf16_encode (fst q)) reqs /\
    Forall (fun n => exists e, n = NFile e None [] /\ e_size e = 0 /\ e_cluster e = 0 /\ e_lfn_ok e = true) news /\
    (NoDup (map e_sfn (map node_entry (v_root (abs im)))) -> NoDup (map e_sfn (map node_entry (v_root (abs im'))))).
Proof. exact vol_create_many_decodes. Qed.

(* ---- the 64-sector FAT12 volume of Props/C06.v (ex_img_request: 16 root entries, label, device filled with 0xD1; the root
   region is bytes 1536..2047, slot 0 holds the label).  "hello world.txt" is created (slots 1-3), then "b" (slots 4-5), then
   "HELLO WORLD.TXT" is removed (found through the long name, case-insensitively), then "B" is renamed to "c.d": the new
   entry goes FIRST FIT into the freed slots 1-2, then slots 4-5 are deleted.  After every step the whole image decodes to
   exactly these names; at the end: one node, no issue, 60 free clusters, the label, bytes behind the root region
   (device fill 0xD1) and the FAT (F8 FF FF) untouched.  A 200-character name does not fit (NotEnoughSpace), "/" is refused,
   "C.D" exists (Ok None): the device stays as it was. *)
Example C01_vol_example :
  let U := upper_ascii in let O := oem_decode_lossy in
  let names im := map (fun n => e_lfn (node_entry n)) (v_root (abs im)) in
  let c1 := vol_create_empty_file_root U O ex_vol_im ex_vol_name1 ex_vol_now in
  let c2 := vol_create_empty_file_root U O (snd c1) [98] ex_vol_now in
  (exists bs, format_boot_sector_validated ex_vol_request 64 = Ok (bs, Format.Fat12) /\
     format_image ex_vol_request 64 (img_empty 209) = Ok ex_vol_im /\
     (o_max_root_dir_entries ex_vol_request * 32) mod o_bytes_per_sector ex_vol_request = 0 /\
     fixed_root_geom (parse_geom ex_vol_im) /\ TimeProofs.datetime_valid ex_vol_now = true) /\
  builder_range ex_vol_request /\ FatProofs.bytes_ok (img_empty 209) /\
  fst c1 = Ok (Some (1, 4)) /\ names (snd c1) = [ex_vol_name1] /\
  fst c2 = Ok (Some (4, 6)) /\ names (snd c2) = [ex_vol_name1; [98]] /\
  vol_create_many U O ex_vol_im [(ex_vol_name1, ex_vol_now); ([98], ex_vol_now)] = Some (snd c2) /\
  match vol_remove_empty_file_root U O (snd c2) [72; 69; 76; 76; 79; 32; 87; 79; 82; 76; 68; 46; 84; 88; 84] with
  | Some (r3, im3) =>
    r3 = Ok tt /\ names im3 = [[98]] /\
    match vol_rename_in_root U O im3 [66] [99; 46; 100] with
    | Some (r4, im4) =>
      r4 = Ok tt /\
      (exists e, v_root (abs im4) = [NFile e None []] /\ e_lfn e = [99; 46; 100] /\
                 e_sfn e = [67; 32; 32; 32; 32; 32; 32; 32; 68; 32; 32] /\ e_first_slot e = 1 /\ e_sfn_slot e = 2) /\
      v_root_issues (abs im4) = [] /\ v_labels (abs im4) = [[65; 66; 67; 68; 69; 70; 71; 72; 73; 74; 75]] /\
      Wf.wf_issues (fun l => l) im4 = [] /\ count_free (parse_geom im4) im4 = 60 /\
      map (fun k => img_get im4 (1536 + 32 * k)) [0; 1; 2; 3; 4; 5; 6] = [65; 65; 67; 229; 229; 229; 0] /\
      img_read im4 2046 4 = [0; 0; 209; 209] /\ img_read im4 510 5 = [85; 170; 248; 255; 255] /\
      fst (vol_create_empty_file_root U O im4 (repeat_N 120 200) ex_vol_now) = Err ENotEnoughSpace /\
      fst (vol_create_empty_file_root U O im4 [47] ex_vol_now) = Err EUnsupportedFileNameCharacter /\
      fst (vol_create_empty_file_root U O im4 [67; 46; 68] ex_vol_now) = Ok None /\
      img_read (snd (vol_create_empty_file_root U O im4 (repeat_N 120 200) ex_vol_now)) 1536 200 = img_read im4 1536 200 /\
      option_map fst (vol_remove_empty_file_root U O im4 [120]) = Some (Err ENotFound)
    | None => False
    end
  | None => False
  end.
Proof.
  cbv zeta. split; [exact ex_vol_premises|]. split; [exact ex_vol_request_in_range|].
  split; [apply FatProofs.img_empty_bytes_ok; Lia.lia|].
  vm_compute. repeat (split; [reflexivity|]). split; [|repeat (split; [reflexivity|]); reflexivity].
  eexists. repeat (split; [reflexivity|]). reflexivity.
Qed.

(* ================================================================== a CHAIN-BACKED directory inside whole images, without growth
   (Model/VolChainDir.v, Proofs/VolChainDirProofs.v): a sub-directory of a FAT12/16 volume given by its cluster chain [l].  Its
   slots are what the independent decoder scans, slots_of (chain_bytes g im l); the operations run the slot layer with kind
   Chained and NO free cluster, and write the slots back cluster by cluster at g_cluster_off; they answer None when the
   directory would have to grow (NotEnoughSpace of the slot layer).  vol_create_empty_file_chain = dir.create_file(name),
   vol_remove_empty_file_chain = dir.remove(name) of a file without clusters, vol_rename_in_chain = dir.rename(src, &dir, dst)
   of a file.  Premises: a sane FAT12/16 geometry whose cluster size is a multiple of 32; the chain consists of pairwise
   distinct data clusters; the directory is smaller than 2^32 bytes.
   NOT modelled (Model/VolChainDir.v): growth, the write-back of the directory's own entry in its parent (modification stamp),
   the FAT32 root (the definitions cover it, the theorems below are for FAT12/16). *)
From FatVerif Require Import Model.VolChainDir Proofs.VolChainDirProofs.

(* ---- slots <-> bytes of the clusters: what was written is what the decoder reads back; writing the slots back as they are
   changes no byte; a byte that differs afterwards lies in cluster number i of the chain, in a slot whose content differs *)
Theorem C01_volchain_roundtrip : forall g im l ss,
  fixed_root_geom g /\ g_cluster_size g mod 32 = 0 ->
  NoDup l /\ Forall (fun c => 2 <= c < g_clusters g + 2) l ->
  length ss = (cluster_slots g * length l)%nat /\ Forall (fun s => length s = 32%nat) ss ->
  chain_dir_slots g (put_chain_slots g im l ss) l = ss /\
  (forall o, img_get (put_chain_slots g im l (chain_dir_slots g im l)) o = img_get im o).
Proof. intros g im l ss Hg Hl Hs. split; [exact (chain_dir_put g im l ss Hg Hl Hs)|intros o; exact (put_chain_slots_same g im l o Hg Hl)]. Qed.
Theorem C01_volchain_put_changes : forall g im l ss o,
  fixed_root_geom g /\ g_cluster_size g mod 32 = 0 ->
  NoDup l /\ Forall (fun c => 2 <= c < g_clusters g + 2) l ->
  length ss = (cluster_slots g * length l)%nat /\ Forall (fun s => length s = 32%nat) ss ->
  img_get (put_chain_slots g im l ss) o <> img_get im o ->
  exists i s j, (i < length l)%nat /\ (s < cluster_slots g)%nat /\ (j < 32)%nat /\
    o = g_cluster_off g (nth i l 0) + N.of_nat (32 * s + j) /\
    nth (cluster_slots g * i + s) ss [] <> nth (cluster_slots g * i + s) (chain_dir_slots g im l) [].
Proof. exact put_chain_slots_changes. Qed.

(* ---- (a) frame and (b) geometry, for EVERY outcome the model covers: no byte outside the clusters of [l] changes - boot
   sector, FAT copies, fixed root region, every other cluster; a changed byte lies in cluster (nth i l) of the chain, in a
   slot that changed, and is classified as data cluster (nth i l) by Spec/Regions.v whatever image / ownership map it is
   asked with; same geometry, free count, FAT values, lost-cluster findings, same fixed root slots *)
Definition volchain_frame (im im' : image) (l : list N) : Prop :=
  let g := parse_geom im in
  (forall o, (forall c, In c l -> o < g_cluster_off g c \/ g_cluster_off g c + g_cluster_size g <= o) ->
             img_get im' o = img_get im o) /\
  (forall o, img_get im' o <> img_get im o ->
     exists i s j, (i < length l)%nat /\ (s < cluster_slots g)%nat /\ (j < 32)%nat /\
       o = g_cluster_off g (nth i l 0) + N.of_nat (32 * s + j) /\
       nth (cluster_slots g * i + s) (chain_dir_slots g im' l) [] <> nth (cluster_slots g * i + s) (chain_dir_slots g im l) [] /\
       (forall imx m, classify g imx m o = RCluster (nth i l 0) (cluster_owner g imx m (nth i l 0)))) /\
  parse_geom im' = g /\
  count_free g im' = count_free g im /\
  (forall c, in_range g c = true -> fat_val g im' c = fat_val g im c) /\
  (forall m, Wf.lost_from g im' m 2 (N.to_nat (g_clusters g)) = Wf.lost_from g im m 2 (N.to_nat (g_clusters g))) /\
  root_region_slots g im' = root_region_slots g im.
Theorem C01_volchain_frame : forall upper oem im l,
  fixed_root_geom (parse_geom im) /\ g_cluster_size (parse_geom im) mod 32 = 0 ->
  NoDup l /\ Forall (fun c => 2 <= c < g_clusters (parse_geom im) + 2) l ->
  (forall name now r im', vol_create_empty_file_chain upper oem im l name now = Some (r, im') -> volchain_frame im im' l) /\
  (forall name r im', vol_remove_empty_file_chain upper oem im l name = Some (r, im') -> volchain_frame im im' l) /\
  (forall src dst r im', vol_rename_in_chain upper oem im l src dst = Some (r, im') -> volchain_frame im im' l).
Proof.
  intros upper oem im l Hg Hl. split; [|split].
  - intros name now r im' H. exact (vol_chain_create_confined upper oem im l name now r im' Hg Hl H).
  - intros name r im' H. exact (vol_chain_remove_confined upper oem im l name r im' Hg Hl H).
  - intros src dst r im' H. exact (vol_chain_rename_confined upper oem im l src dst r im' Hg Hl H).
Qed.

(* ---- why "no free cluster" is the library's behaviour: whenever the model answers (Some), the slot layer run with ANY number
   of free clusters gives the same outcome and the same slots - no write reached the end of the chain *)
Theorem C01_volchain_free_irrelevant : forall upper oem im l free,
  (forall name now r im', vol_create_empty_file_chain upper oem im l name now = Some (r, im') ->
     exists ss', create_entry upper oem (is_fat32 im) (chain_kind im) free (chain_dir_slots (parse_geom im) im l) name 0 None now false = (r, ss') /\
                 im' = put_chain_slots (parse_geom im) im l ss') /\
  (forall src dst r im', vol_rename_in_chain upper oem im l src dst = Some (r, im') ->
     exists ss', rename_in_dir upper oem (chain_kind im) free (chain_dir_slots (parse_geom im) im l) src dst = (r, ss') /\
                 im' = put_chain_slots (parse_geom im) im l ss').
Proof.
  intros upper oem im l free. split.
  - intros name now r im' H. exact (vol_chain_create_any_free upper oem im l name now r im' free H).
  - intros src dst r im' H. exact (vol_chain_rename_any_free upper oem im l src dst r im' free H).
Qed.

(* ---- (c) the directory's own decoding.  create: the old entries, same fields and order, with ONE new entry inserted (first
   fit): the name, a fresh legal alias, size 0, no cluster, attributes 0, the stamps of [now]; labels unchanged, no issue; no
   listed entry matched the name.  Every other outcome the model covers leaves every byte of the device as it was. *)
Theorem C01_volchain_create_decodes : forall upper oem im l name now range im' es ls,
  fixed_root_geom (parse_geom im) /\ g_cluster_size (parse_geom im) mod 32 = 0 ->
  NoDup l /\ Forall (fun c => 2 <= c < g_clusters (parse_geom im) + 2) l ->
  N.of_nat (cluster_slots (parse_geom im) * length l) < 134217728 ->
  dir_scan (chain_dir_slots (parse_geom im) im l) 0 [] false = (es, ls, []) -> TimeProofs.datetime_valid now = true ->
  vol_create_empty_file_chain upper oem im l name now = Some (Ok (Some range), im') ->
  exists es1 es2 ne st,
    es = es1 ++ es2 /\ dir_scan (chain_dir_slots (parse_geom im) im' l) 0 [] false = (es1 ++ ne :: es2, ls, []) /\
    e_lfn ne = (if is_dot_name name then [] else utf16_encode name) /\ e_lfn_ok ne = true /\
    e_size ne = 0 /\ e_cluster ne = 0 /\ e_attr ne = 0 /\ e_ntres ne = 0 /\
    stamp_create now = Ok st /\
    e_ctime_ms ne = create_time_0 st /\ e_ctime ne = create_time_1 st /\ e_cdate ne = create_date st /\
    e_adate ne = access_date st /\ e_mtime ne = modify_time st /\ e_mdate ne = modify_date st /\
    e_first_slot ne = fst range /\ e_sfn_slot ne + 1 = snd range /\
    sfn_legal_b (e_sfn ne) = true /\ ~ In (e_sfn ne) (map e_sfn es) /\
    (forall lst, dir_entries oem (chain_dir_slots (parse_geom im) im l) = Ok lst ->
                 forall ev, In ev lst -> matches upper oem name ev = false).
Proof. exact vol_chain_create_decodes. Qed.
Theorem C01_volchain_create_failed_unchanged : forall upper oem im l name now r im',
  fixed_root_geom (parse_geom im) /\ g_cluster_size (parse_geom im) mod 32 = 0 ->
  NoDup l /\ Forall (fun c => 2 <= c < g_clusters (parse_geom im) + 2) l ->
  N.of_nat (cluster_slots (parse_geom im) * length l) < 134217728 ->
  vol_create_empty_file_chain upper oem im l name now = Some (r, im') -> (forall range, r <> Ok (Some range)) ->
  forall o, img_get im' o = img_get im o.
Proof. exact vol_chain_create_failed_unchanged. Qed.
(* remove of a file without clusters: exactly the entry the library's lookup resolved the name to goes *)
Theorem C01_volchain_remove_decodes : forall upper oem im l name im' es ls,
  fixed_root_geom (parse_geom im) /\ g_cluster_size (parse_geom im) mod 32 = 0 ->
  NoDup l /\ Forall (fun c => 2 <= c < g_clusters (parse_geom im) + 2) l ->
  dir_scan (chain_dir_slots (parse_geom im) im l) 0 [] false = (es, ls, []) ->
  Forall attrs_sane (chain_dir_slots (parse_geom im) im l) ->
  vol_remove_empty_file_chain upper oem im l name = Some (Ok tt, im') ->
  exists ev e es1 es2,
    chain_lookup upper oem im l name = Ok ev /\ matches upper oem name ev = true /\
    Lfn.ev_raw_name ev = e_sfn e /\ e_is_dir e = false /\ e_cluster e = 0 /\ e_size e = Lfn.ev_size ev /\
    es = es1 ++ e :: es2 /\ dir_scan (chain_dir_slots (parse_geom im) im' l) 0 [] false = (es1 ++ es2, ls, []).
Proof. exact vol_chain_remove_decodes. Qed.
(* rename of a file inside the directory: nothing (identical spelling), or exactly the source entry goes and exactly one entry
   comes (first fit) with the new long name, the source's attributes, size and first cluster, under a fresh legal alias, or -
   for a respelling that no other entry matches (D27) - the source's own short name *)
Theorem C01_volchain_rename_decodes : forall upper oem im l src dst im' es ls,
  fixed_root_geom (parse_geom im) /\ g_cluster_size (parse_geom im) mod 32 = 0 ->
  NoDup l /\ Forall (fun c => 2 <= c < g_clusters (parse_geom im) + 2) l ->
  N.of_nat (cluster_slots (parse_geom im) * length l) < 134217728 ->
  dir_scan (chain_dir_slots (parse_geom im) im l) 0 [] false = (es, ls, []) ->
  Forall attrs_sane (chain_dir_slots (parse_geom im) im l) -> Forall DirSlotsProofs.bytes_ok (chain_dir_slots (parse_geom im) im l) ->
  vol_rename_in_chain upper oem im l src dst = Some (Ok tt, im') ->
  exists ev e,
    chain_lookup upper oem im l src = Ok ev /\ matches upper oem src ev = true /\ Lfn.ev_is_dir ev = false /\ In e es /\
    Lfn.ev_raw_name ev = e_sfn e /\
    ((exists dv, check_for_existence upper oem (chain_dir_slots (parse_geom im) im l) dst None = Ok (Exists dv) /\
                 Lfn.ev_end dv = Lfn.ev_end ev /\ has_exact_name ev dst = true /\ forall o, img_get im' o = img_get im o) \/
     (exists x y c d ne,
        es = x ++ e :: y /\ x ++ y = c ++ d /\
        dir_scan (chain_dir_slots (parse_geom im) im' l) 0 [] false = (c ++ ne :: d, ls, []) /\
        e_lfn ne = (if is_dot_name dst then [] else utf16_encode dst) /\ e_lfn_ok ne = true /\
        e_attr ne = e_attr e mod 64 /\ e_size ne = e_size e /\ e_cluster ne = e_cluster e /\
        ((exists a, check_for_existence upper oem (chain_dir_slots (parse_geom im) im l) dst None = Ok (Fresh a) /\
                    e_sfn ne = a /\ sfn_legal_b a = true /\ ~ In a (map e_sfn es)) \/
         (exists dv, check_for_existence upper oem (chain_dir_slots (parse_geom im) im l) dst None = Ok (Exists dv) /\
                     Lfn.ev_end dv = Lfn.ev_end ev /\ has_exact_name ev dst = false /\ e_sfn ne = e_sfn e /\
                     (forall lst other, dir_entries oem (chain_dir_slots (parse_geom im) im l) = Ok lst -> In other lst ->
                                        Lfn.ev_end other <> Lfn.ev_end ev -> matches upper oem dst other = false))))).
Proof. exact vol_chain_rename_decodes. Qed.

(* ---- the rest of the tree.  An entry whose decoded node - chain, content, whole sub-tree - refers to no cluster of [l] is
   decoded to the SAME node on any image that agrees with [im] below the data area and in every data cluster outside [l]
   (which is what volchain_frame gives).  [d]: remaining decoding depth. *)
Theorem C01_volchain_other_entries_unchanged : forall g im im' l d e,
  fixed_root_geom g ->
  (forall o, o < g_first_data g * g_bps g -> img_get im' o = img_get im o) ->
  (forall c, 2 <= c -> ~ In c l -> cluster_bytes g im' c = cluster_bytes g im c) ->
  (forall c, In c (concat (Wf.node_chains (node_of g im d e))) -> ~ In c l) ->
  node_of g im' d e = node_of g im d e.
Proof. intros g im im' l d e Hg Hb Hc. exact (proj2 (node_of_avoid g im im' l Hg Hb Hc d) e). Qed.

(* ---- (d) a sub-directory of the fixed root inside the whole decoded volume (Spec/Abs.abs).  The root holds a directory node
   with chain [l] whose own slots decode without issue; no other root node and no child refers to a cluster of [l] (what the
   no-cross-link clause of Spec/Wf.v gives).  A successful create_file in that directory: the decoded volume is the old one
   with ONE node - a plain empty file carrying the name - inserted among the children of that directory; EVERY other node of
   the tree is exactly as before; root issues, labels, geometry, status byte as before; frame as above.
   PARTIAL: depth 1 (a directory referenced from the root), FAT12/16, without the parent-entry write-back. *)
Theorem C01_volchain_create_in_root_decodes_partial : forall upper oem im l name now range im' ra ed children labels rb,
  fixed_root_geom (parse_geom im) /\ g_cluster_size (parse_geom im) mod 32 = 0 ->
  NoDup l /\ Forall (fun c => 2 <= c < g_clusters (parse_geom im) + 2) l ->
  N.of_nat (cluster_slots (parse_geom im) * length l) < 134217728 ->
  TimeProofs.datetime_valid now = true ->
  v_root (abs im) = ra ++ NDir ed (Some l) children [] labels :: rb ->
  Forall (fun n => forall c, In c (concat (Wf.node_chains n)) -> ~ In c l) (ra ++ rb) ->
  Forall (fun n => forall c, In c (concat (Wf.node_chains n)) -> ~ In c l) children ->
  vol_create_empty_file_chain upper oem im l name now = Some (Ok (Some range), im') ->
  exists c1 c2 ne st,
    children = c1 ++ c2 /\
    v_root (abs im') = ra ++ NDir ed (Some l) (c1 ++ NFile ne None [] :: c2) [] labels :: rb /\
    e_lfn ne = (if is_dot_name name then [] else utf16_encode name) /\ e_lfn_ok ne = true /\
    e_size ne = 0 /\ e_cluster ne = 0 /\ e_attr ne = 0 /\
    stamp_create now = Ok st /\
    e_ctime_ms ne = create_time_0 st /\ e_ctime ne = create_time_1 st /\ e_cdate ne = create_date st /\
    e_adate ne = access_date st /\ e_mtime ne = modify_time st /\ e_mdate ne = modify_date st /\
    e_first_slot ne = fst range /\ e_sfn_slot ne + 1 = snd range /\
    sfn_legal_b (e_sfn ne) = true /\ ~ In (e_sfn ne) (map e_sfn (map node_entry children)) /\
    v_root_issues (abs im') = v_root_issues (abs im) /\ v_labels (abs im') = v_labels (abs im) /\
    v_geom (abs im') = v_geom (abs im) /\ v_status (abs im') = v_status (abs im) /\
    volchain_frame im im' l.
Proof. exact vol_chain_create_in_root_decodes_partial. Qed.

(* ---- the example volume of Proofs/VolChainDirProofs.v: the 64-sector FAT12 volume with a directory "D" (root slot 1, cluster 2,
   holding "." and ".."); the premises hold and the volume has no issue.  "hi.t" is created in D (slots 2-3 of cluster 2),
   then "HI.T" exists (Ok None), "hi.t" is renamed to "Hi.T" (a respelling: rewritten into slots 4-5, slots 2-3 deleted) and
   removed again; after every step the whole volume decodes to D with exactly these children and has no issue; the root
   region and the FAT are untouched.  A name of 200 characters (17 slots) does not fit into the 16-slot cluster: the directory
   would have to grow - outside this model (None). *)
Example C01_volchain_example :
  let U := upper_ascii in let O := oem_decode_lossy in
  let kids im := map (fun n => match n with
                               | NDir _ ch cs iss _ => (ch, map (fun c => e_lfn (node_entry c)) cs, iss)
                               | _ => (None, [], [])
                               end) (v_root (abs im)) in
  ((fixed_root_geom (parse_geom ex_sub_im) /\ g_cluster_size (parse_geom ex_sub_im) mod 32 = 0) /\
   (NoDup [2] /\ Forall (fun c => 2 <= c < g_clusters (parse_geom ex_sub_im) + 2) [2]) /\
   N.of_nat (cluster_slots (parse_geom ex_sub_im) * length [2]) < 134217728 /\
   Wf.wf_issues (fun x => x) ex_sub_im = [] /\
   exists ed d1 d2, v_root (abs ex_sub_im) = [] ++ NDir ed (Some [2]) [NDot d1; NDot d2] [] [] :: [] /\
     Forall (fun n => forall c, In c (concat (Wf.node_chains n)) -> ~ In c [2]) ([] ++ []) /\
     Forall (fun n => forall c, In c (concat (Wf.node_chains n)) -> ~ In c [2]) [NDot d1; NDot d2]) /\
  kids ex_sub_im = [(Some [2], [[]; []], [])] /\
  vol_create_empty_file_chain U O ex_sub_im [2] (repeat_N 120 200) ex_vol_now = None /\
  match vol_create_empty_file_chain U O ex_sub_im [2] [104; 105; 46; 116] ex_vol_now with
  | Some (r1, im1) =>
    r1 = Ok (Some (2, 4)) /\ kids im1 = [(Some [2], [[]; []; [104; 105; 46; 116]], [])] /\ Wf.wf_issues (fun x => x) im1 = [] /\
    img_read im1 512 1536 = img_read ex_sub_im 512 1536 /\
    option_map fst (vol_create_empty_file_chain U O im1 [2] [72; 73; 46; 84] ex_vol_now) = Some (Ok None) /\
    match vol_rename_in_chain U O im1 [2] [104; 105; 46; 116] [72; 105; 46; 84] with
    | Some (r2, im2) =>
      r2 = Ok tt /\ kids im2 = [(Some [2], [[]; []; [72; 105; 46; 84]], [])] /\ Wf.wf_issues (fun x => x) im2 = [] /\
      map (fun k => img_get im2 (2048 + 32 * k)) [0; 1; 2; 3; 4; 5; 6] = [46; 46; 229; 229; 65; 72; 0] /\
      match vol_remove_empty_file_chain U O im2 [2] [104; 73; 46; 116] with
      | Some (r3, im3) => r3 = Ok tt /\ kids im3 = [(Some [2], [[]; []], [])] /\ Wf.wf_issues (fun x => x) im3 = []
      | None => False
      end
    | None => False
    end
  | None => False
  end.
Proof. cbv zeta. split; [exact ex_sub_premises|]. vm_compute. repeat split. Qed.

(* ================================================================ remove of a file that owns clusters, on whole images
   (Model/VolRemove.v vol_remove_file_root: lookup ; free_cluster_chain on the FAT slice ; deletion loop - Props/C05.v has the
   full statement C05_vol_remove_reclaims_all).  The TREE part: on a well-formed FAT12/16 volume remove(name) of a file the
   library's lookup resolves [name] to (not stored under a dot short name) succeeds, the decoded root loses exactly that file's
   node - whatever chain and content it had - and every other node is there exactly as decoded before, in order; no decode
   issue; labels, geometry, status byte as before; outside the FAT copies and the entry's own root slots no byte changes. *)
From FatVerif Require Import Model.Table Model.Fat Model.VolFile Model.VolRemove Proofs.TableProofs Proofs.VolFileProofs
  Proofs.VolRemoveProofs Proofs.VolRemoveExamples Proofs.VolSessionExamples.
Theorem C01_vol_remove_file_decodes : forall upper oem fold im fi name ev,
  let g := parse_geom im in
  fixed_root_geom g -> FatProofs.bytes_ok im ->
  fi_inv fstore (val_ft (ft_of g)) (store_of g im) fi (g_clusters g) ->
  Wf.wf_issues fold im = [] -> Forall attrs_sane (root_region_slots g im) ->
  root_lookup upper oem im name = Ok ev -> Lfn.ev_is_dir ev = false ->
  list_eqb (Lfn.ev_raw_name ev) DOT || list_eqb (Lfn.ev_raw_name ev) DOTDOT = false ->
  exists im' fi' ns1 e chain content ns2,
    vol_remove_file_root upper oem im fi name = Some (Ok tt, im', fi') /\
    v_root (abs im) = ns1 ++ NFile e chain content :: ns2 /\ v_root (abs im') = ns1 ++ ns2 /\
    matches upper oem name ev = true /\ e_sfn e = Lfn.ev_raw_name ev /\ e_cluster e = Lfn.ev_cluster_lo ev /\
    e_size e = Lfn.ev_size ev /\
    v_root_issues (abs im') = [] /\ v_labels (abs im') = v_labels (abs im) /\ v_geom (abs im') = v_geom (abs im) /\
    v_root_chain (abs im') = v_root_chain (abs im) /\ v_status (abs im') = v_status (abs im) /\
    (forall a, ~ in_store_area g a -> (a < g_root_off g \/ g_root_off g + root_bytes g <= a) -> img_get im' a = img_get im a) /\
    (forall i, (N.of_nat i < e_first_slot e \/ e_sfn_slot e < N.of_nat i) ->
       nth i (root_region_slots g im') [] = nth i (root_region_slots g im) []).
Proof. exact vol_remove_file_tree. Qed.

(* a remove that does not succeed (the lookup fails: NotFound, ...) hands the image back: nothing at all changes *)
Theorem C01_vol_remove_file_failed_unchanged : forall upper oem im fi name r im' fi',
  vol_remove_file_root upper oem im fi name = Some (r, im', fi') -> r <> Ok tt ->
  im' = im /\ fi' = fi /\ (forall ev, root_lookup upper oem im name <> Ok ev) /\
  match r with Err e => root_lookup upper oem im name = Err e | Panic => root_lookup upper oem im name = Panic
             | OutOfFuel => root_lookup upper oem im name = OutOfFuel | Ok _ => False end.
Proof. exact vol_remove_file_failed_unchanged. Qed.

(* non-vacuity: Props/C05.v C05_vol_remove_example_hyps / C05_vol_remove_example (the 64-sector image after a session) *)
Example C01_vol_remove_file_example :
  (exists ev, root_lookup ex_U ex_O ex_rm_im ex_sname = Ok ev /\ Lfn.ev_is_dir ev = false) /\
  match vol_remove_file_root ex_U ex_O ex_rm_im ex_rm_fi ex_sname with
  | Some (Ok _, im', _) => (exists e, v_root (abs ex_rm_im) = [NFile e (Some [2; 3]) (repeat 7 509 ++ [1; 2; 3; 4; 5; 6])]) /\
                           v_root (abs im') = []
  | _ => False
  end.
Proof. split; [eexists; split; [vm_compute; reflexivity|reflexivity]|]. vm_compute. split; [eexists; reflexivity|reflexivity]. Qed.

Print Assumptions C01_image_write_frame.
Print Assumptions C01_find_free_entries_spec.
Print Assumptions C01_failed_write_unchanged_partial.
Print Assumptions C01_write_entry_cases.
Print Assumptions C01_failed_write_fixed_root_unchanged.
Print Assumptions C01_failed_write_unchanged.
Print Assumptions C01_failed_write_keeps_entries.
Print Assumptions C01_failed_write_unchanged_chain_refuted.
Print Assumptions C01_rename_failed_source_kept.
Print Assumptions C01_rename_across_failed_source_unchanged.
Print Assumptions C01_write_entry_refines_orphans.
Print Assumptions C01_write_after_failed_write_refines.
Print Assumptions C01_create_refines_map_orphans.
Print Assumptions C01_create_entry_refines.
Print Assumptions C01_dir_refines_map.
Print Assumptions C01_remove_entry_insane_refuted.
Print Assumptions C01_has_exact_name_spec.
Print Assumptions C01_decoded_sfn_length.
Print Assumptions C01_vol_put_root_slots_changes.
Print Assumptions C01_vol_root_region_roundtrip.
Print Assumptions C01_vol_frame.
Print Assumptions C01_vol_create_decodes.
Print Assumptions C01_vol_create_failed_unchanged.
Print Assumptions C01_vol_remove_decodes.
Print Assumptions C01_vol_remove_failed_unchanged.
Print Assumptions C01_vol_rename_decodes.
Print Assumptions C01_vol_rename_failed_unchanged.
Print Assumptions C01_vol_formatted_geom.
Print Assumptions C01_vol_format_create_decodes.
Print Assumptions C01_vol_format_create_succeeds.
Print Assumptions C01_vol_format_create_many_decodes.
Print Assumptions C01_vol_create_many_decodes.
Print Assumptions C01_volchain_roundtrip.
Print Assumptions C01_volchain_put_changes.
Print Assumptions C01_volchain_frame.
Print Assumptions C01_volchain_free_irrelevant.
Print Assumptions C01_volchain_create_decodes.
Print Assumptions C01_volchain_create_failed_unchanged.
Print Assumptions C01_volchain_remove_decodes.
Print Assumptions C01_volchain_rename_decodes.
Print Assumptions C01_volchain_other_entries_unchanged.
Print Assumptions C01_volchain_create_in_root_decodes_partial.
Print Assumptions C01_vol_remove_file_decodes.
Print Assumptions C01_vol_remove_file_failed_unchanged.

(* ================================================================ GROWTH of a chain-backed directory on whole images
   (Model/VolChainGrow.v, Proofs/VolChainGrowProofs.v; FAT12/16, a directory referenced from the fixed root).
   vol_create_file_grow im fi l name now = dir.create_file(name) with the directory's chain [l] and the FS-info latch [fi], INCLUDING
   the case where a slot of the run lies at the end of the chain: File::write then calls fs.alloc_cluster(Some(last cluster), zero):
   the image-level allocator of Model/VolFile.v (hint / latch as there) through all mirrored FAT copies, the zero fill of the new
   cluster, the link, and the slots written one by one at their device offsets - a long-name run may straddle the old last
   cluster and the new one, and a 21-slot run in 16-slot clusters takes TWO new clusters.  Result: outcome, image, latch, chain.
   Premises: a sane FAT12/16 geometry with cluster size a multiple of 32; bytes < 256; the latch consistent with the table; the volume
   has NO issue of Spec/Wf.v; the root holds a directory node with chain [l] (which, with well-formedness, gives every
   "avoids" premise of C01_volchain_create_in_root_decodes_partial); the directory is smaller than 2^32 bytes. *)
From FatVerif Require Import Model.VolChainGrow Spec.WfFold Proofs.DupLongProofs Proofs.VolChainGrowProofs Proofs.VolChainGrowExamples.

(* ---- every outcome, in terms of the slot layer: the call is Model/DirSlots.create_entry on the directory's slots with kind
   Chained and [free] = the number of clusters the allocator delivered ([news]; appended to the chain, pairwise distinct, free
   before, allocated now) - the abstract "a write at the end of the chain allocates one zero-filled cluster while free clusters
   remain" of the slot layer (C01_write_entry_cases, C01_create_entry_refines ...) is what the image-level code does *)
Theorem C01_volchain_grow_refines_slots : forall fold upper oem im fi l name now r im' fi' l' ra ed children labels rb,
  let g := parse_geom im in
  fixed_root_geom g /\ g_cluster_size g mod 32 = 0 -> FatProofs.bytes_ok im ->
  fi_inv fstore (val_ft (ft_of g)) (store_of g im) fi (g_clusters g) ->
  Wf.wf_issues fold im = [] -> v_root (abs im) = ra ++ NDir ed (Some l) children [] labels :: rb ->
  N.of_nat (cluster_slots g * length l) < 134217728 -> TimeProofs.datetime_valid now = true ->
  vol_create_file_grow upper oem im fi l name now = (r, (im', fi', l')) ->
  exists news,
    l' = l ++ news /\ NoDup news /\
    (forall x, In x news -> 2 <= x < g_clusters g + 2 /\ fat_val g im x = FFree /\ fat_val g im' x <> FFree) /\
    (forall x, 2 <= x < g_clusters g + 2 -> ~ In x news -> (fat_val g im' x = FFree <-> fat_val g im x = FFree)) /\
    Abs.count_free g im' + N.of_nat (length news) = Abs.count_free g im /\
    FatProofs.bytes_ok im' /\ fi_inv fstore (val_ft (ft_of g)) (store_of g im') fi' (g_clusters g) /\
    (news = [] -> fi' = fi) /\
    (forall a, check_for_existence upper oem (chain_dir_slots g im l) name (Some false) = Ok (Fresh a) -> r = Err ENotEnoughSpace ->
       Abs.count_free g im' = 0) /\
    create_entry upper oem false (Chained (cluster_slots g)) (length news) (chain_dir_slots g im l) name 0 None now false
      = (r, chain_dir_slots g im' l').
Proof. intros fold upper oem. exact (vol_grow_accounting upper oem fold). Qed.

(* ---- SUCCESS.  (a) the chain afterwards is the old chain plus [news] (none / one / two clusters), free before; (b) the decoded
   volume is the old one with ONE node - a plain empty file carrying the name, a fresh legal alias, the stamps of [now] - inserted
   among the children of that directory (first fit), the directory node now carrying the longer chain; every other node of the
   tree, root issues, labels, geometry, status byte as before; (c) frame: FAT entries other than those of [news] and of the old
   last cluster keep their value; no byte changes outside the mirrored FAT copies and the clusters of the NEW chain (and none
   outside the OLD chain when nothing was allocated); every other data cluster keeps its bytes; (d) count_free drops by exactly
   length news (C05); (e) still no issue of Spec/Wf.v - the new cluster is zero behind the written slots, so the end-marker clause
   holds - and every premise holds again for the result.  [fold_agrees] / valid UTF-16 of the stored names / [str_valid]: the
   WDupLong link of Props/C03.v, here for the directory's children. *)
Theorem C01_volchain_grow_create_decodes : forall fold upper oem im fi l name now range im' fi' l' ra ed children labels rb,
  let g := parse_geom im in
  fold_agrees upper fold ->
  fixed_root_geom g /\ g_cluster_size g mod 32 = 0 -> FatProofs.bytes_ok im ->
  fi_inv fstore (val_ft (ft_of g)) (store_of g im) fi (g_clusters g) ->
  Wf.wf_issues fold im = [] -> v_root (abs im) = ra ++ NDir ed (Some l) children [] labels :: rb ->
  N.of_nat (cluster_slots g * length l) < 134217728 ->
  Forall (fun u => utf16_okb u = true) (map e_lfn (map node_entry children)) -> str_valid name = true ->
  TimeProofs.datetime_valid now = true ->
  vol_create_file_grow upper oem im fi l name now = (Ok (Some range), (im', fi', l')) ->
  exists news c1 c2 ne st,
    l' = l ++ news /\ NoDup news /\
    (forall x, In x news -> 2 <= x < g_clusters g + 2 /\ fat_val g im x = FFree /\ ~ In x l) /\
    children = c1 ++ c2 /\
    v_root (abs im') = ra ++ NDir ed (Some l') (c1 ++ NFile ne None [] :: c2) [] labels :: rb /\
    e_lfn ne = (if is_dot_name name then [] else utf16_encode name) /\ e_lfn_ok ne = true /\
    e_size ne = 0 /\ e_cluster ne = 0 /\ e_attr ne = 0 /\ e_ntres ne = 0 /\
    stamp_create now = Ok st /\
    e_ctime_ms ne = create_time_0 st /\ e_ctime ne = create_time_1 st /\ e_cdate ne = create_date st /\
    e_adate ne = access_date st /\ e_mtime ne = modify_time st /\ e_mdate ne = modify_date st /\
    e_first_slot ne = fst range /\ e_sfn_slot ne + 1 = snd range /\
    sfn_legal_b (e_sfn ne) = true /\ ~ In (e_sfn ne) (map e_sfn (map node_entry children)) /\
    v_root_issues (abs im') = v_root_issues (abs im) /\ v_labels (abs im') = v_labels (abs im) /\
    v_geom (abs im') = v_geom (abs im) /\ v_status (abs im') = v_status (abs im) /\
    (forall x, 2 <= x < g_clusters g + 2 -> ~ In x news -> (news = [] \/ x <> last l 0) -> fat_val g im' x = fat_val g im x) /\
    (forall a, ~ in_store_area g a -> (forall c, In c l' -> ~ in_cluster g c a) -> img_get im' a = img_get im a) /\
    (news = [] -> forall a, (forall c, In c l -> ~ in_cluster g c a) -> img_get im' a = img_get im a) /\
    (forall c, 2 <= c < g_clusters g + 2 -> ~ In c l' -> cluster_bytes g im' c = cluster_bytes g im c) /\
    Abs.count_free g im' + N.of_nat (length news) = Abs.count_free g im /\
    Wf.wf_issues fold im' = [] /\
    parse_geom im' = g /\ FatProofs.bytes_ok im' /\ fi_inv fstore (val_ft (ft_of g)) (store_of g im') fi' (g_clusters g) /\
    Forall (fun u => utf16_okb u = true) (map e_lfn (map node_entry (c1 ++ NFile ne None [] :: c2))).
Proof. intros fold upper oem. exact (vol_grow_create_decodes upper oem fold). Qed.

(* ---- the volume of C01_volchain_example (directory D, chain [2], 16 slots, "." and ".."): the premises hold; a name of 200
   characters (17 slots) - declined by the model without growth - succeeds here: slots 2 .. 18, cluster 3 allocated (first free,
   no hint), zeroed over the device fill 0xD1, linked 2 -> 3 -> end; hint 4 afterwards; one child more; no issue; free 59 -> 58;
   the next cluster untouched *)
Example C01_volchain_grow_example :
  (let im := ex_sub_im in
   (fixed_root_geom (parse_geom im) /\ g_cluster_size (parse_geom im) mod 32 = 0) /\ FatProofs.bytes_ok im /\
   fi_inv fstore (val_ft (ft_of (parse_geom im))) (store_of (parse_geom im) im) ex_fi0 (g_clusters (parse_geom im)) /\
   Wf.wf_issues (fun x => x) im = [] /\
   (exists ed d1 d2, v_root (abs im) = [] ++ NDir ed (Some [2]) [NDot d1; NDot d2] [] [] :: []) /\
   N.of_nat (cluster_slots (parse_geom im) * length [2]) < 134217728 /\ TimeProofs.datetime_valid ex_vol_now = true /\
   str_valid ex_long_name = true) /\
  vol_create_empty_file_chain upper_ascii oem_decode_lossy ex_sub_im [2] ex_long_name ex_vol_now = None /\
  match vol_create_file_grow upper_ascii oem_decode_lossy ex_sub_im ex_fi0 [2] ex_long_name ex_vol_now with
  | (r, (im', fi', l')) =>
    r = Ok (Some (2, 19)) /\ l' = [2; 3] /\ fi' = {| fi_free := None; fi_next := Some 4; fi_dirty := true |} /\
    ex_kids ex_sub_im = [(Some [2], [0; 0], [])] /\ ex_kids im' = [(Some [2; 3], [0; 0; 200], [])] /\
    Wf.wf_issues (fun x => x) im' = [] /\
    Abs.count_free (parse_geom ex_sub_im) ex_sub_im = 59 /\ Abs.count_free (parse_geom ex_sub_im) im' = 58 /\
    fat_val (parse_geom ex_sub_im) ex_sub_im 3 = FFree /\ fat_val (parse_geom ex_sub_im) im' 2 = FNext 3 /\
    fat_val (parse_geom ex_sub_im) im' 3 = FEoc /\
    map (fun k => img_get im' (2560 + 32 * k)) [0; 1; 2; 3; 15] = [2; 1; 88; 0; 0] /\ img_get ex_sub_im 2560 = 209 /\
    img_read im' 3072 4 = img_read ex_sub_im 3072 4
  end.
Proof. cbv zeta. split; [exact ex_grow_premises|]. split; [vm_compute; reflexivity|exact ex_grow_success]. Qed.

(* ---- FAILURE.  The claim "a create that fails leaves the device as it was" is FALSE of the faithful model when the directory
   must grow and no cluster is free (known class `nospace-during-entry-write`; the full characterisation is
   Props/C03.v C03_volchain_grow_nospace_residue).  The witness: the same volume with every other cluster owned by a file F - every
   premise holds, no cluster is free -, create_file of the 200-character name in D: NotEnoughSpace, slot 2 of the directory's
   cluster (device byte 2112, an unused slot before) now starts with 0x50, and the one finding is an orphan run *)
Theorem C01_volchain_grow_nospace_unchanged_refuted :
  exists im fi l name now im' fi' l',
    (fixed_root_geom (parse_geom im) /\ g_cluster_size (parse_geom im) mod 32 = 0) /\ FatProofs.bytes_ok im /\
    fi_inv fstore (val_ft (ft_of (parse_geom im))) (store_of (parse_geom im) im) fi (g_clusters (parse_geom im)) /\
    Wf.wf_issues (fun x => x) im = [] /\ N.of_nat (cluster_slots (parse_geom im) * length l) < 134217728 /\
    TimeProofs.datetime_valid now = true /\
    (exists ra ed children labels rb, v_root (abs im) = ra ++ NDir ed (Some l) children [] labels :: rb) /\
    Abs.count_free (parse_geom im) im = 0 /\
    vol_create_file_grow upper_ascii oem_decode_lossy im fi l name now = (Err ENotEnoughSpace, (im', fi', l')) /\
    img_get im' (2048 + 64) <> img_get im (2048 + 64) /\ Wf.wf_issues (fun x => x) im' = [Wf.WOrphanLfn 2 16].
Proof. exact grow_nospace_unchanged_refuted. Qed.

Print Assumptions C01_volchain_grow_refines_slots.
Print Assumptions C01_volchain_grow_create_decodes.
Print Assumptions C01_volchain_grow_nospace_unchanged_refuted.

(* ==================================================================================================================
   DIRECTORIES IN THE FIXED ROOT ON WHOLE IMAGES (Model/VolDirTree.v: vol_create_dir_root, vol_remove_dir_root; byte-exact against
   the library: tools/props/cvoltree_corr.py, model cvol mkdir / rmdir).
   PROVED IN GENERAL: the failure clauses (nothing changes) and the meaning of "not empty".
   PARTIAL (the general statements are in the comments; proved on the concrete volume of Proofs/VolDirTreeExamples.v and compared
   with the library on every call of the correspondence stream): the decode of the image after a SUCCESSFUL create_dir / remove. *)
From FatVerif Require Import Model.VolDirTree Proofs.VolDirTreeProofs Proofs.VolDirTreeExamples Proofs.VolSessionExamples.

(* remove of a directory that is not empty for the code: DirectoryIsNotEmpty, image and FS-info latch handed back as they were *)
Theorem C01_vol_remove_dir_nonempty_unchanged : forall upper oem im fi name ev l,
  let g := parse_geom im in
  root_lookup upper oem im name = Ok ev -> Lfn.ev_is_dir ev = true -> is_special ev = false ->
  root_entry_cluster ev <> 0 -> chain_from g im (root_entry_cluster ev) (Abs.chain_fuel g) = Some l ->
  dir_is_empty oem g im l = Ok false ->
  vol_remove_dir_root upper oem im fi name = Some (Err EDirectoryIsNotEmpty, im, fi).
Proof. exact vol_remove_dir_nonempty. Qed.

(* ... where "not empty" is exactly: the listing of the directory (Dir::iter(): live entries, volume labels skipped) has an entry
   whose rendered short name is neither "." nor ".." *)
Theorem C01_vol_dir_is_empty_meaning : forall oem g im l es,
  dir_entries oem (chain_dir_slots g im l) = Ok es ->
  (dir_is_empty oem g im l = Ok false <-> exists ev, In ev es /\ is_dot_entry ev = false).
Proof. exact dir_is_empty_false_iff. Qed.

(* EVERY answer of remove-of-a-directory other than Ok (NotFound, InvalidInput for "." / "..", DirectoryIsNotEmpty, ...) leaves
   the image and the latch equal - not only byte-wise: the same value *)
Theorem C01_vol_remove_dir_failed_unchanged : forall upper oem im fi name r im' fi',
  vol_remove_dir_root upper oem im fi name = Some (r, im', fi') -> r <> Ok tt -> im' = im /\ fi' = fi.
Proof. exact vol_remove_dir_failed_unchanged. Qed.

(* create_dir that does not create: image and latch are the same values as before (an existing directory of that name - Ok -, a file
   of that name - InvalidInput -, a rejected name, no free cluster - NotEnoughSpace -), UNLESS the allocation had succeeded - the
   only remaining path is the failing entry write with its give-back: C03_vol_create_dir_failed_gives_back *)
Theorem C01_vol_create_dir_not_created_cases : forall upper oem im fi name now r im' fi',
  vol_create_dir_root upper oem im fi name now = (r, (im', fi')) ->
  (im' = im /\ fi' = fi /\ (forall x, r <> Ok (Some x))) \/
  (exists a im1 fi1 c, check_for_existence upper oem (root_region_slots (parse_geom im) im) name (Some true) = Ok (Fresh a) /\
                       vol_alloc_new_cluster (parse_geom im) im fi = Ok (im1, fi1, c)).
Proof. exact vol_create_dir_not_created_cases. Qed.

(* FULL STATEMENT, NOT PROVED IN GENERAL (C01_vol_create_dir_decodes):
     fixed_root_geom (parse_geom im) -> bytes_ok im -> fi_inv .. im fi -> Wf.wf_issues fold im = [] -> Forall attrs_sane (root slots) ->
     datetime_valid now = true -> vol_create_dir_root upper oem im fi name now = (Ok (Some (p, q, c)), (im', fi')) ->
     exists ns1 ns2 e d1 d2,
       v_root (abs im) = ns1 ++ ns2 /\ v_root (abs im') = ns1 ++ NDir e (Some [c]) [NDot d1; NDot d2] [] [] :: ns2 /\
       fat_val g im c = FFree /\ e_cluster e = c /\ e_attr e = 16 /\ e_size e = 0 /\ matches name (entry e) /\ alias fresh /\
       e_sfn d1 = DOT /\ e_cluster d1 = c /\ e_sfn_slot d1 = 0 /\ e_sfn d2 = DOTDOT /\ e_cluster d2 = 0 /\ e_sfn_slot d2 = 1 /\
       stamps of e, d1, d2 = stamp_create now /\ every other node, labels, geometry, status as before /\
       Abs.count_free g im' + 1 = Abs.count_free g im /\ Wf.wf_issues fold im' = [] /\
       (forall o, img_get im' o <> img_get im o -> in a FAT copy \/ in root slots p .. q-1 \/ in cluster c).
   What is missing: the bridge from the slot layer (DirSlotsProofs.create_entry_refines for want_dir = true) through abs_put_root to a
   NESTED decode (decode_entries one level down on the new cluster) - the lemmas exist for files (VolDirProofs.vol_create_decodes) and
   for an existing sub-directory (VolChainGrowProofs.bridge_abs), not yet for a node whose chain is created in the same call.
   PROVED: the statement on the freshly formatted 64-sector FAT12 volume, name "Sub Dir" (long-name slot + alias SUBDIR~1). *)
Theorem C01_vol_create_dir_decodes_partial :
  v_root (abs ex_vol_im) = [] /\
  match v_root (abs ex_mk_im) with
  | [NDir e (Some [2]) [NDot d1; NDot d2] [] []] =>
    e_lfn e = [83; 117; 98; 32; 68; 105; 114] /\ e_sfn e = [83; 85; 66; 68; 73; 82; 126; 49; 32; 32; 32] /\
    e_attr e = 16 /\ e_cluster e = 2 /\ e_size e = 0 /\ e_first_slot e = 1 /\ e_sfn_slot e = 2 /\
    e_sfn d1 = DOT /\ e_cluster d1 = 2 /\ e_attr d1 = 16 /\ e_sfn_slot d1 = 0 /\ e_lfn d1 = [] /\
    e_sfn d2 = DOTDOT /\ e_cluster d2 = 0 /\ e_attr d2 = 16 /\ e_sfn_slot d2 = 1 /\ e_lfn d2 = [] /\
    (e_ctime e, e_cdate e, e_mtime e, e_mdate e) = (e_ctime d1, e_cdate d1, e_mtime d1, e_mdate d1) /\
    (e_ctime e, e_cdate e, e_mtime e, e_mdate e) = (e_ctime d2, e_cdate d2, e_mtime d2, e_mdate d2)
  | _ => False
  end /\
  v_root_issues (abs ex_mk_im) = [] /\ v_labels (abs ex_mk_im) = v_labels (abs ex_vol_im) /\
  v_geom (abs ex_mk_im) = v_geom (abs ex_vol_im) /\ v_status (abs ex_mk_im) = v_status (abs ex_vol_im).
Proof. exact ex_mkdir_decodes. Qed.

(* the outcome and the frame of that call: root slots 1 .. 2, cluster 2 (free before, end-of-chain after, in BOTH FAT copies);
   every byte outside the two FAT entries, the two root slots and the cluster is as before; the cluster is zero behind "." and ".." *)
Theorem C01_vol_create_dir_frame_partial :
  (
  fst ex_mk = Ok (Some (1, 3, 2)) /\ fat_val ex_g ex_vol_im 2 = FFree /\ fat_val ex_g ex_mk_im 2 = FEoc /\
  ex_mk_fi = {| fi_free := None; fi_next := Some 3; fi_dirty := true |}
  ) /\ (
  img_read ex_mk_im 0 515 = img_read ex_vol_im 0 515 /\ img_read ex_mk_im 517 510 = img_read ex_vol_im 517 510 /\
  img_read ex_mk_im 1029 539 = img_read ex_vol_im 1029 539 /\
  img_read ex_mk_im 1632 416 = img_read ex_vol_im 1632 416 /\
  img_read ex_mk_im 2560 (59 * 512) = img_read ex_vol_im 2560 (59 * 512) /\
  img_read ex_mk_im 515 2 = [255; 15] /\ img_read ex_mk_im 1027 2 = [255; 15] /\
  img_read ex_mk_im (2048 + 64) 448 = repeat 0 448 /\ img_read ex_vol_im 2048 512 = repeat 209 512
  ).
Proof. exact (conj ex_mkdir_outcome ex_mkdir_frame). Qed.

(* FULL STATEMENT, NOT PROVED IN GENERAL (C01_vol_remove_dir_decodes): under the premises above, for a name that resolves to a
   directory node NDir e (Some l) children [] labels of the root with every child an NDot:  vol_remove_dir_root = Some (Ok tt, im', fi')
   with v_root (abs im') = ns1 ++ ns2, every cluster of l FFree, Abs.count_free g im' = Abs.count_free g im + length l, wf kept, changes only
   in the FAT copies and the entry's root slots.  (Proof route: VolRemoveProofs.vol_remove_file_decodes with NDir for NFile; its
   lemma decode_entries_off already covers sibling directories.)
   PROVED: create_dir ; remove on the concrete volume returns to an image that DECODES EXACTLY as the formatted one (abs equal, 60
   free clusters, no issue) and differs from it in exactly: root slots 1 and 2 (first byte 0xE5, the rest as written), and cluster 2
   (zeroed, with the "." / ".." slots still in it - remove does not touch the directory's data); latch as after the create. *)
Theorem C01_vol_create_then_remove_dir_partial :
  match ex_rd with
  | Some (r, im', fi') =>
    r = Ok tt /\ abs im' = abs ex_vol_im /\ fat_val ex_g im' 2 = FFree /\ Abs.count_free ex_g im' = 60 /\
    Wf.wf_issues (fun l => l) im' = [] /\ fi' = ex_mk_fi /\
    img_read im' 0 1568 = img_read ex_vol_im 0 1568 /\ img_read im' 1632 416 = img_read ex_vol_im 1632 416 /\
    img_read im' 2560 (59 * 512) = img_read ex_vol_im 2560 (59 * 512) /\
    map (fun k => img_get im' (1536 + 32 * k)) [0; 1; 2; 3] = [65; 229; 229; 0] /\
    img_read im' 2048 2 = [46; 32] /\ img_read im' (2048 + 64) 448 = repeat 0 448
  | None => False
  end.
Proof. exact ex_rmdir_empty. Qed.

(* a file inside makes the directory non-empty (the premises of C01_vol_remove_dir_nonempty_unchanged are satisfiable); once the
   file is removed again - a DELETED slot stays inside - the directory is empty for the code and remove succeeds *)
Theorem C01_vol_remove_dir_emptied_partial :
  (
  vol_create_empty_file_chain ex_U ex_O ex_mk_im [2] ex_inner ex_vol_now = Some (Ok (Some (2, 4)), ex_ne_im) /\
  dir_is_empty ex_O ex_g ex_ne_im [2] = Ok false /\
  vol_remove_dir_root ex_U ex_O ex_ne_im ex_mk_fi ex_dname = Some (Err EDirectoryIsNotEmpty, ex_ne_im, ex_mk_fi)
  ) /\ (
  vol_remove_empty_file_chain ex_U ex_O ex_ne_im [2] ex_inner = Some (Ok tt, ex_ne2_im) /\
  img_get ex_ne2_im (2048 + 64) = 229 /\ dir_is_empty ex_O ex_g ex_ne2_im [2] = Ok true /\
  match vol_remove_dir_root ex_U ex_O ex_ne2_im ex_mk_fi ex_dname with
  | Some (r, im', _) => r = Ok tt /\ abs im' = abs ex_vol_im /\ Abs.count_free ex_g im' = 60 /\ Wf.wf_issues (fun l => l) im' = []
  | None => False
  end
  ).
Proof. exact (conj ex_rmdir_nonempty ex_rmdir_emptied). Qed.

Print Assumptions C01_vol_remove_dir_nonempty_unchanged.
Print Assumptions C01_vol_dir_is_empty_meaning.
Print Assumptions C01_vol_remove_dir_failed_unchanged.
Print Assumptions C01_vol_create_dir_not_created_cases.
Print Assumptions C01_vol_create_dir_decodes_partial.
Print Assumptions C01_vol_create_dir_frame_partial.
Print Assumptions C01_vol_create_then_remove_dir_partial.
Print Assumptions C01_vol_remove_dir_emptied_partial.
(* ================================================================ THE FAT32 ROOT DIRECTORY on whole images
   (Model/Vol32Root.v, Proofs/Vol32RootProofs.v, Vol32RootFormat.v, Vol32RootExamples.v).  On FAT32 fs.root_dir() is a
   chain-backed directory starting at BPB_RootClus, without an entry of its own and without "." / "..": the functions of
   Model/VolChainDir.v applied to the chain the decoder reads ([root32_chain]), create_sfn_entry with fat32 = true.
   [root32_ok im l es ls]: a sane FAT32 geometry ([fat32_geom]); the root chain [l], cycle-free, below 2^32 bytes; its slots
   scan to [es] / labels [ls] without issue.  [avoids l n]: node [n] refers to no cluster of [l] (no cross-link with the root). *)
From FatVerif Require Import Model.VolChainDir Model.Vol32Root Proofs.VolDirProofs Proofs.VolChainDirProofs
  Proofs.Vol32RootProofs Proofs.Vol32RootFormat Proofs.Vol32RootExamples.
From FatVerif Require Import Model.Format Spec.FormatSpec Model.FormatImage Spec.FormatImageSpec.
(* the slots of a chain <-> the bytes of its clusters, for ANY geometry with positive sector / cluster sizes whose cluster
   holds whole slots ([slot_geom]: FAT12/16 [chain_geom] and FAT32 [fat32_geom] are instances) - the generalisation of
   C01_volchain_put_changes that the FAT32 root uses *)
Theorem C01_vol32_put_changes : forall g im l ss o,
  slot_geom g -> chain_ok g l -> shape (cluster_slots g * length l) ss ->
  img_get (put_chain_slots g im l ss) o <> img_get im o ->
  exists i s j, (i < length l)%nat /\ (s < cluster_slots g)%nat /\ (j < 32)%nat /\
    o = Abs.g_cluster_off g (nth i l 0) + N.of_nat (32 * s + j) /\
    nth (cluster_slots g * i + s) ss [] <> nth (cluster_slots g * i + s) (chain_dir_slots g im l) [].
Proof. exact put_chain_slots_changes_sg. Qed.

Theorem C01_vol32_geom_is_slot_geom : forall g,
  fat32_geom g -> slot_geom g.
Proof. exact fat32_slot_geom. Qed.

Theorem C01_volchain_geom_is_slot_geom : forall g,
  chain_geom g -> slot_geom g.
Proof. exact chain_slot_geom. Qed.

(* the frame of a rewrite of the root chain's slots on a FAT32 volume: as C01_volchain_frame (active FAT copy, free count,
   lost clusters, geometry untouched; a changed byte lies in a changed slot of a cluster of the chain) *)
Theorem C01_vol32_frame : forall im l ss,
  fat32_geom (parse_geom im) -> chain_ok (parse_geom im) l ->
  shape (cluster_slots (parse_geom im) * length l) ss -> chain_frame im (put_chain_slots (parse_geom im) im l ss) l.
Proof. exact put_chain_confined32. Qed.

(* CREATE in the FAT32 root, decoded by Abs.abs of the WHOLE image: exactly one node inserted, every other node (chain, content,
   sub-tree) unchanged and in order, no decode issue, labels / root chain / geometry as before, only the root chain's
   clusters touched, FAT and free count untouched; the premises hold again (the theorems chain) *)
Theorem C01_vol32_root_create_decodes : forall upper oem im l es ls name now range im',
  root32_ok im l es ls -> Forall (avoids l) (v_root (abs im)) -> TimeProofs.datetime_valid now = true ->
  vol32_root_create upper oem im name now = Some (Ok (Some range), im') ->
  exists n1 n2 ne st,
    v_root (abs im) = n1 ++ n2 /\ v_root (abs im') = n1 ++ NFile ne None [] :: n2 /\
    e_lfn ne = (if is_dot_name name then [] else utf16_encode name) /\ e_lfn_ok ne = true /\
    e_size ne = 0 /\ e_cluster ne = 0 /\ e_attr ne = 0 /\ e_ntres ne = 0 /\
    stamp_create now = Ok st /\
    e_ctime_ms ne = create_time_0 st /\ e_ctime ne = create_time_1 st /\ e_cdate ne = create_date st /\
    e_adate ne = access_date st /\ e_mtime ne = modify_time st /\ e_mdate ne = modify_date st /\
    e_first_slot ne = fst range /\ e_sfn_slot ne + 1 = snd range /\
    sfn_legal_b (e_sfn ne) = true /\ ~ In (e_sfn ne) (map e_sfn (map node_entry (v_root (abs im)))) /\
    v_root_issues (abs im') = [] /\ v_labels (abs im') = v_labels (abs im) /\
    v_root_chain (abs im') = Some l /\ v_root_chain (abs im) = Some l /\ v_geom (abs im') = v_geom (abs im) /\
    chain_frame im im' l /\
    exists es', root32_ok im' l es' ls.
Proof. exact vol32_root_create_decodes. Qed.

(* every other outcome the model covers leaves every byte *)
Theorem C01_vol32_root_create_failed_unchanged : forall upper oem im l es ls name now r im',
  root32_ok im l es ls -> vol32_root_create upper oem im name now = Some (r, im') -> (forall range, r <> Ok (Some range)) ->
  forall o, img_get im' o = img_get im o.
Proof. exact vol32_root_create_failed_unchanged. Qed.

(* REMOVE of a file without clusters (both first-cluster words zero): exactly one node removed *)
Theorem C01_vol32_root_remove_decodes : forall upper oem im l es ls name im',
  root32_ok im l es ls -> Forall (avoids l) (v_root (abs im)) ->
  Forall attrs_sane (chain_dir_slots (parse_geom im) im l) ->
  vol32_root_remove upper oem im name = Some (Ok tt, im') ->
  exists ev e n1 n2,
    chain_lookup upper oem im l name = Ok ev /\ matches upper oem name ev = true /\
    Lfn.ev_raw_name ev = e_sfn e /\ e_is_dir e = false /\ e_cluster e = 0 /\ e_size e = Lfn.ev_size ev /\
    v_root (abs im) = n1 ++ node_of (parse_geom im) im 23 e :: n2 /\ v_root (abs im') = n1 ++ n2 /\
    (e_is_dot e = false -> node_of (parse_geom im) im 23 e = NFile e None []) /\
    v_root_issues (abs im') = [] /\ v_labels (abs im') = v_labels (abs im) /\
    v_root_chain (abs im') = Some l /\ v_geom (abs im') = v_geom (abs im) /\
    chain_frame im im' l /\
    exists es', root32_ok im' l es' ls.
Proof. exact vol32_root_remove_decodes. Qed.

Theorem C01_vol32_root_remove_failed_unchanged : forall upper oem im l es ls name r im',
  root32_ok im l es ls -> vol32_root_remove upper oem im name = Some (r, im') -> r <> Ok tt ->
  forall o, img_get im' o = img_get im o.
Proof. exact vol32_root_remove_failed_unchanged. Qed.

(* RENAME of a file inside the root: nothing (stored spelling), or exactly the source node replaced by one node with the same
   chain and content (first cluster carried in BOTH words), the new long name, a fresh alias or the source's own *)
Theorem C01_vol32_root_rename_decodes : forall upper oem im l es ls src dst im',
  root32_ok im l es ls -> Forall (avoids l) (v_root (abs im)) -> Forall (fun e => e_is_dot e = false) es ->
  Forall attrs_sane (chain_dir_slots (parse_geom im) im l) -> Forall DirSlotsProofs.bytes_ok (chain_dir_slots (parse_geom im) im l) ->
  vol32_root_rename upper oem im src dst = Some (Ok tt, im') ->
  exists ev e,
    chain_lookup upper oem im l src = Ok ev /\ matches upper oem src ev = true /\ Lfn.ev_is_dir ev = false /\ In e es /\
    Lfn.ev_raw_name ev = e_sfn e /\
    ((exists dv, check_for_existence upper oem (chain_dir_slots (parse_geom im) im l) dst None = Ok (Exists dv) /\
                 Lfn.ev_end dv = Lfn.ev_end ev /\ has_exact_name ev dst = true /\ forall o, img_get im' o = img_get im o) \/
     (exists nx ny nc nd ne,
        v_root (abs im) = nx ++ NFile e (file_chain (parse_geom im) im e) (file_content (parse_geom im) im e) :: ny /\
        nx ++ ny = nc ++ nd /\
        v_root (abs im') = nc ++ NFile ne (file_chain (parse_geom im) im e) (file_content (parse_geom im) im e) :: nd /\
        e_lfn ne = (if is_dot_name dst then [] else utf16_encode dst) /\ e_lfn_ok ne = true /\
        e_attr ne = e_attr e mod 64 /\ e_size ne = e_size e /\ e_cluster ne = e_cluster e /\
        ((exists a, check_for_existence upper oem (chain_dir_slots (parse_geom im) im l) dst None = Ok (Fresh a) /\
                    e_sfn ne = a /\ sfn_legal_b a = true /\ ~ In a (map e_sfn es)) \/
         (exists dv, check_for_existence upper oem (chain_dir_slots (parse_geom im) im l) dst None = Ok (Exists dv) /\
                     Lfn.ev_end dv = Lfn.ev_end ev /\ has_exact_name ev dst = false /\ e_sfn ne = e_sfn e)) /\
        v_root_issues (abs im') = [] /\ v_labels (abs im') = v_labels (abs im) /\
        v_root_chain (abs im') = Some l /\ v_geom (abs im') = v_geom (abs im) /\
        chain_frame im im' l /\
        exists es', root32_ok im' l es' ls)).
Proof. exact vol32_root_rename_decodes. Qed.

Theorem C01_vol32_root_rename_failed_unchanged : forall upper oem im l es ls src dst r im',
  root32_ok im l es ls -> vol32_root_rename upper oem im src dst = Some (r, im') -> r <> Ok tt ->
  forall o, img_get im' o = img_get im o.
Proof. exact vol32_root_rename_failed_unchanged. Qed.

(* from ANY device content: every FAT32 volume format_volume makes satisfies the premises, with root chain [2] *)
Theorem C01_vol32_formatted_root_ok : forall o ts im0 bs im,
  builder_range o -> ts < 4294967296 -> FatProofs.bytes_ok im0 ->
  format_boot_sector_validated o ts = Ok (bs, Format.Fat32) -> format_image o ts im0 = Ok im ->
  root32_ok im [2] [] (expected_labels o) /\ v_root (abs im) = [] /\ parse_geom im = geom_of (fbs_bpb bs).
Proof. exact formatted_root32_ok. Qed.

Theorem C01_vol32_root_create_many_decodes : forall upper oem,
  forall reqs im im' l es ls,
  root32_ok im l es ls -> Forall (avoids l) (v_root (abs im)) ->
  Forall (fun q => TimeProofs.datetime_valid (snd q) = true) reqs ->
  vol32_root_create_many upper oem im reqs = Some im' ->
  (exists es', root32_ok im' l es' ls) /\ Forall (avoids l) (v_root (abs im')) /\
  parse_geom im' = parse_geom im /\ v_root_issues (abs im') = [] /\ v_labels (abs im') = v_labels (abs im) /\
  v_root_chain (abs im') = Some l /\
  Abs.count_free (parse_geom im) im' = Abs.count_free (parse_geom im) im /\
  (forall c, Abs.in_range (parse_geom im) c = true -> Abs.fat_val (parse_geom im) im' c = Abs.fat_val (parse_geom im) im c) /\
  (forall o, outside_chain (parse_geom im) l o -> img_get im' o = img_get im o) /\
  exists news,
    Permutation (v_root (abs im')) (v_root (abs im) ++ news) /\
    map (fun n => e_lfn (node_entry n)) news = map (fun q => stored_lfn (fst q)) reqs /\
    Forall empty_file_node news /\
    (NoDup (map e_sfn (map node_entry (v_root (abs im)))) -> NoDup (map e_sfn (map node_entry (v_root (abs im'))))).
Proof. exact vol32_root_create_many_decodes. Qed.

(* THE PAYOFF (the FAT32 analogue of C01_vol_format_create_many_decodes): format_volume of a FAT32 request on ANY device content,
   then creates in the root: exactly those names, as plain empty files, no issue, FAT and free count of the formatted volume *)
Theorem C01_vol32_format_create_many_decodes : forall upper oem o ts im0 bs im reqs im',
  builder_range o -> ts < 4294967296 -> FatProofs.bytes_ok im0 ->
  format_boot_sector_validated o ts = Ok (bs, Format.Fat32) ->
  format_image o ts im0 = Ok im ->
  Forall (fun q => TimeProofs.datetime_valid (snd q) = true) reqs ->
  vol32_root_create_many upper oem im reqs = Some im' ->
  let g := geom_of (fbs_bpb bs) in
  exists nodes,
    Permutation (v_root (abs im')) nodes /\
    map (fun n => e_lfn (node_entry n)) nodes = map (fun q => stored_lfn (fst q)) reqs /\
    Forall empty_file_node nodes /\
    NoDup (map e_sfn (map node_entry (v_root (abs im')))) /\
    length (v_root (abs im')) = length reqs /\
    v_root_issues (abs im') = [] /\ v_labels (abs im') = expected_labels o /\ v_root_chain (abs im') = Some [2] /\
    parse_geom im' = g /\ Abs.count_free g im' = Abs.count_free g im /\
    (forall c, Abs.in_range g c = true -> Abs.fat_val g im' c = Abs.fat_val g im c) /\
    (forall x, (x < Abs.g_cluster_off g 2 \/ Abs.g_cluster_off g 2 + Abs.g_cluster_size g <= x) -> img_get im' x = img_get im x).
Proof. exact format32_create_many_decodes. Qed.

(* the premises are satisfiable and the calls do what the theorems say on a formatted 65579-cluster volume *)
Example C01_vol32_example :
  root32_ok ex32r_im [2] [] [] /\ v_root (abs ex32r_im) = [] /\
  opt_res (vol32_root_create upper_ascii oem_decode_lossy ex32r_im ex32_name1 ex_vol_now) = Some (Ok (Some (0, 3))) /\
  opt_res (vol32_root_create upper_ascii oem_decode_lossy ex32r_im2 ex32_name2 ex_vol_now) = Some (Ok None) /\
  opt_res (vol32_root_rename upper_ascii oem_decode_lossy ex32r_im2 ex32_name1 ex32_name3) = Some (Ok tt) /\
  opt_res (vol32_root_remove upper_ascii oem_decode_lossy ex32r_im3 ex32_name2) = Some (Ok tt) /\
  opt_res (vol32_root_remove upper_ascii oem_decode_lossy ex32r_im4 ex32_name2) = Some (Err ENotFound) /\
  root_view ex32r_im3 = [(utf16_encode ex32_name2, 0, 0); (utf16_encode ex32_name3, 0, 0)] /\
  root_view ex32r_im4 = [(utf16_encode ex32_name3, 0, 0)] /\
  vol32_root_create upper_ascii oem_decode_lossy ex32r_full (ex32_name_k 5) ex_vol_now = None.
Proof.
  split; [exact ex32r_ok|]. split; [exact ex32r_root_empty|]. split; [exact ex32r_create1|]. split; [exact ex32r_create2_again|].
  split; [exact ex32r_rename|]. split; [exact ex32r_remove|]. split; [exact ex32r_remove_missing|].
  split; [exact (proj1 ex32r_view3)|]. split; [exact (proj1 ex32r_view4)|]. exact ex32r_full_declines.
Qed.

Print Assumptions C01_vol32_put_changes.
Print Assumptions C01_vol32_geom_is_slot_geom.
Print Assumptions C01_volchain_geom_is_slot_geom.
Print Assumptions C01_vol32_frame.
Print Assumptions C01_vol32_root_create_decodes.
Print Assumptions C01_vol32_root_create_failed_unchanged.
Print Assumptions C01_vol32_root_remove_decodes.
Print Assumptions C01_vol32_root_remove_failed_unchanged.
Print Assumptions C01_vol32_root_rename_decodes.
Print Assumptions C01_vol32_root_rename_failed_unchanged.
Print Assumptions C01_vol32_formatted_root_ok.
Print Assumptions C01_vol32_root_create_many_decodes.
Print Assumptions C01_vol32_format_create_many_decodes.

(* GROWTH of the FAT32 root (Model/Vol32Root.vol32_root_create_grow = Model/VolChainGrow.vol_create_file_grow on the root chain).
   PARTIAL: the theorems C01_volchain_grow_* are proved for FAT12/16 geometries; for the FAT32 root the function is validated by this
   evaluation and by the correspondence stream (tools/props/cvol_corr.py run_root32_stream, growing creates).  The full one-cluster
   root of the example (15 of 16 slots used) takes a 3-slot entry: cluster 3 is allocated from the hint, zeroed and linked
   (FAT entry 2 = 3, entry 3 = end of chain), the latch goes to (65577, 4, dirty), the decoder follows the root chain [2; 3],
   finds 6 nodes and no well-formedness issue. *)
From FatVerif Require Import Model.Table Model.VolChainGrow Proofs.Vol32RootGrowExamples.
Example C01_vol32_root_grow_example :
  grow_view (vol32_root_create_grow upper_ascii oem_decode_lossy ex32r_full ex32_fi (ex32_name_k 5) ex_vol_now) =
  Some (Ok (Some (15, 18)), {| fi_free := Some 65577; fi_next := Some 4; fi_dirty := true |}, [2; 3], Some [2; 3], 6%nat, [],
        65577, [3; 0; 0; 0; 255; 255; 255; 15]).
Proof. exact ex32r_root_grows. Qed.
