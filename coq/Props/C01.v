(* C01 - placeholder property file: theorems are added as the corresponding model layer is proved.
   The decisive oracle today is the extracted specification machine (Spec/Tree.v, Spec/Abs.v, Spec/Wf.v). *)
From Coq Require Import NArith List.
From FatVerif Require Import Model.Base Spec.Image Proofs.ImageProofs.
Open Scope N_scope.

Theorem C01_image_write_frame : forall bs im off o,
  (o < off \/ off + N.of_nat (length bs) <= o) -> img_get (img_write im off bs) o = img_get im o.
Proof. exact img_write_outside. Qed.

Print Assumptions C01_image_write_frame.
