(* C19 - Build features change only what they document.
   Property theorems only: each is closed by [exact] of a lemma of Proofs/LfnProofs.v.
   The two cfg(alloc) variants of LfnBuffer are [VecBuf] / [FixedBuf] of Model/Lfn.v; the two variants of
   char_to_uppercase are the parameters [upper_u] (char::to_uppercase) and [upper_a] (to_ascii_uppercase). *)
From Coq Require Import NArith List.
From FatVerif Require Import Model.Base Model.Str Model.Slot Model.Time Model.Lfn Spec.LfnSpec Proofs.LfnProofs.
Import ListNotations.
Open Scope N_scope.

(* builder_equiv: for EVERY list of directory slots (well-formed or not) both long-name buffer variants list
   the same entries with the same values of every accessor *)
Theorem C19_builder_equiv : forall oem skip_volume slots,
  read_dir VecBuf oem skip_volume slots = read_dir FixedBuf oem skip_volume slots.
Proof. exact builder_equiv. Qed.

(* from_units_equiv: LfnBuffer::from_ucs2_units (used when an entry is written) holds the same units in both
   variants for up to 260 units, in particular for every long name of up to 255 units ... *)
Theorem C19_from_units_equiv : forall us, len_N us <= 260 ->
  exists bv bf, buf_from_units VecBuf us = Ok bv /\ buf_from_units FixedBuf us = Ok bf /\
    buf_as_units VecBuf bv = Ok us /\ buf_as_units FixedBuf bf = Ok us /\
    buf_len VecBuf bv = len_N us /\ buf_len FixedBuf bf = len_N us.
Proof. exact from_units_equiv. Qed.

(* ... beyond 260 units the fixed buffer panics (array index) where the Vec does not ... *)
Theorem C19_from_units_beyond : forall us, 260 < len_N us ->
  buf_from_units FixedBuf us = Panic /\
  exists bv, buf_from_units VecBuf us = Ok bv /\ buf_as_units VecBuf bv = Ok us.
Proof. exact from_units_beyond. Qed.

(* ... which the only caller excludes: Dir::write_entry validates first (name.len() <= 255 bytes of UTF-8) *)
Theorem C19_encode_lfn_equiv : forall name, utf8_len name <= 255 ->
  exists bv bf, buf_from_units VecBuf (utf16_encode name) = Ok bv /\ buf_from_units FixedBuf (utf16_encode name) = Ok bf /\
    buf_as_units VecBuf bv = Ok (utf16_encode name) /\ buf_as_units FixedBuf bf = Ok (utf16_encode name) /\
    buf_len VecBuf bv = buf_len FixedBuf bf.
Proof. exact encode_lfn_equiv. Qed.

(* ascii_fold_equiv: whenever the two case mappings agree on ASCII (the documented contract of
   char::to_uppercase / to_ascii_uppercase), folding comparison gives the same answer on ASCII-only strings *)
Theorem C19_ascii_fold_equiv : forall (upper_u : N -> list N) (upper_a : N -> N),
  (forall c, c < 128 -> upper_u c = [upper_a c]) ->
  forall a b, ascii a -> ascii b -> fold_eq upper_u a b = fold_eq (fun c => [upper_a c]) a b.
Proof. exact ascii_fold_equiv. Qed.

(* the same for DirEntry::eq_name (long name first, then short name), i.e. for every lookup *)
Theorem C19_eq_name_ascii_equiv : forall (upper_u : N -> list N) (upper_a : N -> N),
  (forall c, c < 128 -> upper_u c = [upper_a c]) ->
  forall oem ev name, ascii (ev_lfn ev) -> ascii (map oem (ev_short ev)) -> ascii name ->
    eq_name upper_u oem ev name = eq_name (fun c => [upper_a c]) oem ev name.
Proof. exact eq_name_ascii_equiv. Qed.

(* ---- examples ---------------------------------------------------------------------------------- *)
(* the hypothesis is satisfiable by a mapping that folds non-ASCII too, and there the two builds DO differ:
   the restriction to ASCII in the theorem is necessary, not an artefact *)
Definition ex_upper_u (c : N) : list N :=
  if c =? 233 then [201] else if c =? 223 then [83; 83] else [ascii_upper c].   (* é -> É, ß -> SS *)
Example C19_ex_upper_agree : forall c, c < 128 -> ex_upper_u c = [ascii_upper c].
Proof.
  intros c H. unfold ex_upper_u.
  destruct (c =? 233) eqn:E1; [apply N.eqb_eq in E1; subst; discriminate H|].
  destruct (c =? 223) eqn:E2; [apply N.eqb_eq in E2; subst; discriminate H|]. reflexivity.
Qed.
Example C19_ex_nonascii_differs :
  fold_eq ex_upper_u [99; 97; 102; 233] [67; 65; 70; 201] = true /\
  fold_eq upper_ascii [99; 97; 102; 233] [67; 65; 70; 201] = false /\
  fold_eq ex_upper_u [99; 97; 102] [67; 65; 70] = fold_eq upper_ascii [99; 97; 102] [67; 65; 70].
Proof. vm_compute. auto. Qed.

(* a malformed directory on which the two buffer variants hold different internal state (stale units in the
   array) but list the same: orphan 0x43 run, then a 2-slot run *)
Definition exn : list N := [70; 79; 79; 32; 32; 32; 32; 32; 84; 88; 84].
Definition exl (order ch : N) : list N := lfn_encode (lfn_new order (lfn_checksum exn) (repeat_N ch 13)).
Definition exs : list N :=
  sfn_encode {| se_name := exn; se_attrs := 32; se_reserved_0 := 24; se_create_time_0 := 0; se_create_time_1 := 0;
                se_create_date := 0; se_access_date := 0; se_first_cluster_hi := 0; se_modify_time := 0;
                se_modify_date := 0; se_first_cluster_lo := 0; se_size := 0 |}.
Example C19_ex_variants_same :
  read_dir VecBuf oem_lossy true [exl 67 65; exl 66 98; exl 1 99; exs]
  = read_dir FixedBuf oem_lossy true [exl 67 65; exl 66 98; exl 1 99; exs]
  /\ match read_dir FixedBuf oem_lossy true [exl 67 65; exl 66 98; exl 1 99; exs] with
     | Ok [e] => ev_lfn e = repeat_N 99 13 ++ repeat_N 98 13
     | _ => False
     end.
Proof. vm_compute. auto. Qed.

Print Assumptions C19_builder_equiv.
Print Assumptions C19_from_units_equiv.
Print Assumptions C19_from_units_beyond.
Print Assumptions C19_encode_lfn_equiv.
Print Assumptions C19_ascii_fold_equiv.
Print Assumptions C19_eq_name_ascii_equiv.
