(* C15 - Names: total validation, lossless long names, case-insensitive lookup.
   Property theorems only: each is stated in full and closed by [exact] of a lemma proved in Proofs/. *)
From Coq Require Import NArith List Bool.
From FatVerif Require Import Model.Base Model.Str Model.Slot Model.Name Model.ShortName
  Proofs.NameProofs Proofs.ShortNameProofs.
Import ListNotations.
Open Scope N_scope.

(* A name is accepted exactly when it is 1..255 bytes of UTF-8 and every character is in the long-name set; the error
   kind is determined (length first, then characters) and nothing else can come out. *)
Theorem C15_validate_spec : forall n,
  (validate_long_name n = Ok tt <-> (1 <= utf8_len n <= 255 /\ forallb lfn_char_ok n = true)) /\
  (validate_long_name n = Err EInvalidFileNameLength <-> (utf8_len n = 0 \/ 255 < utf8_len n)) /\
  (validate_long_name n = Err EUnsupportedFileNameCharacter <->
     (1 <= utf8_len n <= 255 /\ forallb lfn_char_ok n = false)) /\
  (validate_long_name n = Ok tt \/ validate_long_name n = Err EInvalidFileNameLength \/
   validate_long_name n = Err EUnsupportedFileNameCharacter).
Proof. exact validate_spec. Qed.
Example C15_validate_ex :
  validate_long_name [72; 233; 8364; 32; 46; 65535] = Ok tt /\ validate_long_name [] = Err EInvalidFileNameLength /\
  validate_long_name [58] = Err EUnsupportedFileNameCharacter /\ validate_long_name [128512] = Err EUnsupportedFileNameCharacter /\
  validate_long_name (repeat_N 8364 85) = Ok tt /\ validate_long_name (repeat_N 8364 85 ++ [97]) = Err EInvalidFileNameLength /\
  validate_long_name (58 :: repeat_N 97 255) = Err EInvalidFileNameLength.
Proof. vm_compute. repeat split. Qed.

(* The name pipeline of create/rename (validation first, then ShortNameGenerator::new, then the alias loop) never
   panics, whatever the string: empty, multi-byte first character, only dots or spaces; the generator's constructor
   alone is total on every string (it used to slice name[1..]); an invalid name yields its validation error whatever
   the directory holds. *)
Theorem C15_name_pipeline_total : forall n ex fuel,
  (validate_long_name n = Ok tt \/ validate_long_name n = Err EInvalidFileNameLength \/
   validate_long_name n = Err EUnsupportedFileNameCharacter) /\
  (exists g, sng_new n = Ok g) /\
  alias_for n ex fuel <> Panic /\
  (forall e, validate_long_name n = Err e -> alias_for n ex fuel = Err e).
Proof. exact name_pipeline_total. Qed.
Example C15_pipeline_ex :
  (exists g, sng_new [] = Ok g) /\ (exists g, sng_new [233] = Ok g) /\ (exists g, sng_new [46; 46; 46] = Ok g) /\
  alias_for [] [] 1 = Err EInvalidFileNameLength /\ alias_for [233; 46; 8364] [] 1 = Ok [95; 126; 49; 32; 32; 32; 32; 32; 95; 32; 32].
Proof. vm_compute. repeat split; eexists; reflexivity. Qed.

(* "without side effects": FULL STATEMENT (not proved here, it needs the directory layer):
     forall name dir_state, validate_long_name name = Err e ->
       trace (create_file/create_dir/rename ... name) contains no device write and returns Err e.
   Proved part: in the model of Dir::check_for_existence the validation error is returned before the generator is
   built and before the directory is scanned, independently of the directory contents. The write trace itself is
   checked on the implementation by tools/props/c15.py (no `w` event, identical device pages). *)
Theorem C15_invalid_name_no_effect_partial : forall n e ex ex' fuel fuel',
  validate_long_name n = Err e -> alias_for n ex fuel = Err e /\ alias_for n ex' fuel' = Err e.
Proof. intros n e ex ex' fuel fuel' H. split; apply name_pipeline_total; exact H. Qed.

(* UTF-16 encoding of a Rust string decodes back to the same scalar values without error *)
Theorem C15_utf16_roundtrip : forall n, str_valid n = true -> utf16_decode (utf16_encode n) = map Some n.
Proof. exact utf16_roundtrip. Qed.
Example C15_utf16_ex : utf16_decode (utf16_encode [97; 65535; 128512; 1114111]) = map Some [97; 65535; 128512; 1114111].
Proof. vm_compute. reflexivity. Qed.

(* Writer then reader: the slots generated for an accepted name, read back in stream order against the short entry
   whose checksum they carry, give the name unit for unit - also when it ends in U+FFFF and when its length is a
   multiple of 13 (no terminator, no padding). *)
Theorem C15_lfn_roundtrip : forall n ck sfn,
  validate_long_name n = Ok tt -> ck = lfn_checksum sfn ->
  lfn_assemble (lfn_entries (utf16_encode n) ck) sfn = Ok (utf16_encode n).
Proof. exact lfn_roundtrip. Qed.
(* the same for any unit list a foreign implementation may have written: non-empty, at most 255 units, no NUL *)
Theorem C15_lfn_roundtrip_units : forall u ck sfn,
  u <> [] -> (length u <= 255)%nat -> ~ In 0 u -> ck = lfn_checksum sfn ->
  lfn_assemble (lfn_entries u ck) sfn = Ok u.
Proof. exact lfn_roundtrip_units. Qed.
Example C15_lfn_roundtrip_ex :
  let sfn := [65; 66; 67; 95; 126; 49; 32; 32; 32; 32; 32] in
  lfn_assemble (lfn_entries [97; 98; 99; 65535] (lfn_checksum sfn)) sfn = Ok [97; 98; 99; 65535] /\
  lfn_assemble (lfn_entries (repeat_N 65535 13) (lfn_checksum sfn)) sfn = Ok (repeat_N 65535 13) /\
  lfn_assemble (lfn_entries (repeat_N 120 26) (lfn_checksum sfn)) sfn = Ok (repeat_N 120 26) /\
  length (lfn_entries (repeat_N 120 255) 7) = 20%nat /\
  lfn_assemble (lfn_entries (repeat_N 120 255) (lfn_checksum sfn)) sfn = Ok (repeat_N 120 255).
Proof. vm_compute. repeat split. Qed.

(* Lossless storage through Dir::write_entry and the directory iterator. KnownClass = the two dot names (D21):
   they pass validation but write_entry gives them no long-name slots. *)
Theorem C15_lossless_storage : forall n sfn,
  validate_long_name n = Ok tt -> is_dot_name n = false ->
  lfn_assemble (write_entry_lfn_slots n sfn) sfn = Ok (utf16_encode n).
Proof. exact lossless_storage. Qed.
Theorem C15_lossless_storage_refuted :
  exists n sfn, validate_long_name n = Ok tt /\
                lfn_assemble (write_entry_lfn_slots n sfn) sfn <> Ok (utf16_encode n).
Proof. exact lossless_storage_refuted. Qed.
Example C15_lossless_ex :
  validate_long_name [46; 46; 46] = Ok tt /\ is_dot_name [46; 46; 46] = false /\ is_dot_name [46; 46] = true.
Proof. vm_compute. repeat split. Qed.

(* Lookup, for every case-folding function [upper] (char::to_uppercase, or to_ascii_uppercase without the `unicode`
   feature) and every OEM decoder.  An entry = (long-name units, raw 11-byte short name). *)
Section Lookup.
  Variable upper : N -> list N.
  Variable oem_decode : N -> N.

  (* exact characterisation of DirEntry::eq_name *)
  Theorem C15_eq_name_spec : forall lfn raw name,
    eq_name upper oem_decode lfn raw name = true <->
    (lfn <> [] /\ exists s, utf16_decode lfn = map Some s /\ fold_upper upper name = fold_upper upper s) \/
    fold_upper upper name = fold_upper upper (short_name_chars oem_decode raw).
  Proof. exact (eq_name_spec upper oem_decode). Qed.

  (* an entry matches its own long name and its own alias string *)
  Theorem C15_lookup_self : forall n raw, str_valid n = true -> n <> [] ->
    eq_name upper oem_decode (utf16_encode n) raw n = true /\
    eq_name upper oem_decode (utf16_encode n) raw (short_name_chars oem_decode raw) = true.
  Proof. exact (lookup_self upper oem_decode). Qed.

  (* names with the same folding as the long name, or as the alias string, match *)
  Theorem C15_lookup_fold : forall n n' raw, str_valid n = true -> n <> [] ->
    fold_upper upper n' = fold_upper upper n -> eq_name upper oem_decode (utf16_encode n) raw n' = true.
  Proof. exact (lookup_fold upper oem_decode). Qed.
  Theorem C15_lookup_alias_fold : forall lfn raw n',
    fold_upper upper n' = fold_upper upper (short_name_chars oem_decode raw) -> eq_name upper oem_decode lfn raw n' = true.
  Proof. exact (lookup_alias_fold upper oem_decode). Qed.

  (* and nothing else matches *)
  Theorem C15_lookup_sound : forall n raw n', str_valid n = true ->
    eq_name upper oem_decode (utf16_encode n) raw n' = true ->
    fold_upper upper n' = fold_upper upper n \/
    fold_upper upper n' = fold_upper upper (short_name_chars oem_decode raw).
  Proof. exact (lookup_sound upper oem_decode). Qed.
End Lookup.

(* a folding with a multi-character expansion: U+00DF -> "SS" *)
Definition upper_demo (c : N) : list N := if c =? 223 then [83; 83] else [ascii_upper c].
Example C15_lookup_ex :
  let raw := [95; 126; 49; 32; 32; 32; 32; 32; 84; 88; 84] in
  eq_name upper_demo oem_decode_lossy (utf16_encode [223; 46; 116; 120; 116]) raw [115; 83; 46; 84; 88; 116] = true /\
  eq_name upper_demo oem_decode_lossy (utf16_encode [223; 46; 116; 120; 116]) raw [95; 126; 49; 46; 116; 120; 116] = true /\
  eq_name upper_demo oem_decode_lossy (utf16_encode [223; 46; 116; 120; 116]) raw [115; 46; 116; 120; 116] = false /\
  eq_name upper_ascii oem_decode_lossy (utf16_encode [223; 46; 116; 120; 116]) raw [115; 83; 46; 84; 88; 116] = false /\
  short_name_chars oem_decode_lossy [5; 66; 32; 32; 32; 32; 32; 32; 67; 32; 32] = [65533; 66; 46; 67].
Proof. vm_compute. repeat split. Qed.

Print Assumptions C15_validate_spec.
Print Assumptions C15_name_pipeline_total.
Print Assumptions C15_invalid_name_no_effect_partial.
Print Assumptions C15_utf16_roundtrip.
Print Assumptions C15_lfn_roundtrip.
Print Assumptions C15_lfn_roundtrip_units.
Print Assumptions C15_lossless_storage.
Print Assumptions C15_lossless_storage_refuted.
Print Assumptions C15_eq_name_spec.
Print Assumptions C15_lookup_self.
Print Assumptions C15_lookup_fold.
Print Assumptions C15_lookup_alias_fold.
Print Assumptions C15_lookup_sound.
