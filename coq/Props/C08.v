(* C08 - any specification-valid volume made by someone else is read faithfully.
   The region classification is Spec/Regions.v (extracted and evaluated on every device write of the
   implementation).  Theorems so far: the frame of image writes (nothing outside a write's range changes). *)
From Coq Require Import NArith List.
From FatVerif Require Import Model.Base Spec.Image Proofs.ImageProofs.
Open Scope N_scope.

Theorem C08_write_frame : forall bs im off o,
  (o < off \/ off + N.of_nat (length bs) <= o) -> img_get (img_write im off bs) o = img_get im o.
Proof. exact img_write_outside. Qed.

Print Assumptions C08_write_frame.
