(* C08 - any specification-valid volume made by someone else is read faithfully and modified conservatively.
   Codec-level theorems: the MODEL of the library's readers agrees with the INDEPENDENT specification decoder
   (Spec/Abs.v) on every encoding freedom the format leaves open at that level; updates keep what they must keep.
   The whole-volume statement is checked on the implementation (tools/props/c08.py, independent image builder). *)
From Coq Require Import NArith List.
From FatVerif Require Import Model.Base Model.Table Model.Fat Model.Name Spec.Image Spec.Abs
  Proofs.ImageProofs Proofs.FatProofs Proofs.CrossProofs.
Open Scope N_scope.

Theorem C08_write_frame : forall bs im off o,
  (o < off \/ off + N.of_nat (length bs) <= o) -> img_get (img_write im off bs) o = img_get im o.
Proof. exact img_write_outside. Qed.

(* every raw table value - any legal end-of-chain marker (..F8-..FF), the bad-cluster mark, free, link - is read the
   same way by the library and by the specification, for each width *)
Theorem C08_fat12_values_agree : forall g v, g_bits g = 12 -> fatv_of (fat_classify g v) = classify12 v.
Proof. exact classify12_agrees. Qed.
Theorem C08_fat16_values_agree : forall g v, g_bits g = 16 -> fatv_of (fat_classify g v) = classify16 v.
Proof. exact classify16_agrees. Qed.
Theorem C08_fat32_values_agree : forall g c v, g_bits g = 32 -> c < 268435447 ->
  fatv_of (fat_classify g v) = classify32 c v.
Proof. exact classify32_agrees. Qed.

(* short names: padding, extension dot and the 0x05 lead byte are rendered as the specification says *)
Theorem C08_short_name_render_agrees : forall raw, length raw = 11%nat -> short_name_string raw = sfn_render raw.
Proof. exact short_name_render_agrees. Qed.

(* conservative modification at the table level: a FAT32 update keeps the reserved top four bits and stores exactly
   the 28-bit value; an update touches only the bytes of that entry in the mirrored copies *)
Theorem C08_fat32_update_keeps_reserved_bits : forall s c v s',
  (1 <= fs_mirrors s)%nat -> bytes_ok (fs_img s) -> okc32 s c -> raw32 v < 268435456 -> set32 s c v = Ok s' ->
  word32 s' c / 268435456 = word32 s c / 268435456 /\ word32 s' c mod 268435456 = raw32 v.
Proof. exact fat32_set_keeps_high_nibble. Qed.

Theorem C08_table_update_confined : forall ft s c v s' a,
  okc_ft ft s c -> fat_set ft s c v = Ok s' ->
  (a < fs_base s \/ fs_base s + N.of_nat (fs_mirrors s) * fs_size s <= a) ->
  img_get (fs_img s') a = img_get (fs_img s) a.
Proof. exact fat_update_inside_fat_copies. Qed.

Print Assumptions C08_write_frame.
Print Assumptions C08_fat12_values_agree.
Print Assumptions C08_fat16_values_agree.
Print Assumptions C08_fat32_values_agree.
Print Assumptions C08_short_name_render_agrees.
Print Assumptions C08_fat32_update_keeps_reserved_bits.
Print Assumptions C08_table_update_confined.
