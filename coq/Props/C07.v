(* C07 - Mounting is total: garbage is rejected, never trusted and never a panic.
   Property theorems only: each is closed by [exact] of a lemma of Proofs/BpbProofs.v.

   Inputs: [bs] = the bytes the device delivers at offset 0 (any list, any length, every element < 256),
   [fsi] = the bytes it delivers at the FS-information position (ANY list of numbers, any length),
   [strict] = FsOptions::strict, [p] = build profile (Debug: overflow panics, Release: overflow wraps).
   [mount] is Model/Bpb.v (FileSystem::new up to the construction of the FileSystem value);
   [coherent], [spec_geometry], [layout_ok] are Spec/BpbSpec.v (unbounded Z arithmetic, Microsoft document). *)
From Coq Require Import NArith ZArith List Bool.
From FatVerif Require Import Model.Base Model.Bpb Spec.BpbSpec Proofs.BpbProofs Proofs.BpbSamples.
Import ListNotations.
Open Scope N_scope.

(* 1. never a panic, an overflow or a hang, whatever the bytes; both profiles, both strict values *)
Theorem C07_mount_total : forall p bs fsi strict, bytes bs ->
  mount p bs fsi strict <> Panic /\ mount p bs fsi strict <> OutOfFuel.
Proof. exact mount_total. Qed.

(* ... and the only outcomes are: mounted, CorruptedFileSystem, or Io when the device is too short *)
Theorem C07_mount_outcomes : forall p bs fsi strict, bytes bs ->
  (exists g, mount p bs fsi strict = Ok g) \/ mount p bs fsi strict = Err ECorruptedFileSystem \/
  (mount p bs fsi strict = Err EIo /\ ((length bs < 512)%nat \/ (length fsi < 512)%nat)).
Proof. exact mount_outcomes. Qed.

(* no u32/u64 operation executed by mount leaves its range: debug and release builds behave identically *)
Theorem C07_profiles_agree : forall bs fsi strict, bytes bs ->
  mount Release bs fsi strict = mount Debug bs fsi strict.
Proof. exact mount_profile_irrelevant. Qed.

(* 2. accepted => every coherence clause of the property, in Z (no wrap-around) *)
Theorem C07_mount_ok_coherent : forall p bs fsi strict g, bytes bs ->
  mount p bs fsi strict = Ok g -> coherent bs.
Proof. exact mount_ok_coherent. Qed.

(* [coherent] unfolded, so that the statement can be read here *)
Theorem C07_coherent_unfolded : forall bs, coherent bs <->
  (In (BPB_BytsPerSec bs) [512; 1024; 2048; 4096] /\
   In (BPB_SecPerClus bs) [1; 2; 4; 8; 16; 32; 64; 128] /\
   0 < BPB_NumFATs bs /\ 0 < FATSz bs /\ 0 < BPB_RsvdSecCnt bs /\
   BPB_RsvdSecCnt bs + BPB_NumFATs bs * FATSz bs + RootDirSectors bs < TotSec bs /\ TotSec bs < 2 ^ 32 /\
   (BPB_FATSz16 bs = 0 <-> fat_bits_of_count (CountofClusters bs) = 32) /\
   (fat_bits_of_count (CountofClusters bs) = 32 ->
      CountofClusters bs <= 0x0FFFFFFF /\ 2 <= BPB_RootClus bs < CountofClusters bs + 2 /\
      BPB_FSInfo bs < BPB_RsvdSecCnt bs /\ BPB_BkBootSec bs < BPB_RsvdSecCnt bs))%Z.
Proof. exact coherent_unfolded. Qed.

(* the executable test used on the real library's verdicts is the same predicate *)
Theorem C07_coherentb_iff : forall bs, coherentb bs = true <-> coherent bs.
Proof. exact coherentb_iff. Qed.

(* 3. accepted => FAT width, cluster size, cluster count (and the two cached sector numbers) are what the
      independent parse derives *)
Theorem C07_mount_ok_agrees_spec : forall p bs fsi strict g, bytes bs ->
  mount p bs fsi strict = Ok g ->
  spec_geometry bs =
    (Z.of_N (bits_per_fat_entry (m_fat_type g)), Z.of_N (m_cluster_size g), Z.of_N (m_total_clusters g)) /\
  MetaSec bs = Z.of_N (m_first_data_sector g) /\ RootDirSectors bs = Z.of_N (m_root_dir_sectors g).
Proof. exact mount_ok_agrees_spec. Qed.

(* what the code checks beyond the clauses listed by the property *)
Theorem C07_mount_ok_layout : forall p bs fsi strict g, bytes bs ->
  mount p bs fsi strict = Ok g ->
  (strict = true -> byte_at bs 510 = 0x55 /\ byte_at bs 511 = 0xAA) /\ layout_ok bs.
Proof. exact mount_ok_layout. Qed.

(* converse: nothing else is rejected (so the theorems above are not about an empty set, and the model's
   verdict is a function of the specification predicates alone) *)
Theorem C07_mount_complete : forall p bs fsi strict, bytes bs -> (length bs >= 512)%nat ->
  coherent bs -> layout_ok bs ->
  (strict = true -> byte_at bs 510 = 0x55 /\ byte_at bs 511 = 0xAA) ->
  (fat_bits_of_count (CountofClusters bs) = 32%Z -> fsinfo_sigs_ok fsi) ->
  exists g, mount p bs fsi strict = Ok g.
Proof. exact mount_complete. Qed.

(* 4. FS-information values: exactly which are kept.
   The free count is kept iff the volume is FAT32, the dirty bit is clear and count <= total clusters.
   The next-free hint is kept iff 2 <= hint <= total + 2.  NOTE: total + 2 is one past the last valid
   cluster number (valid: 2 .. total + 1); that is what validate_and_fix guarantees, no more
   (alloc_cluster treats such a hint like "no hint", see tools/props/c07.py). *)
Theorem C07_fsinfo_bounds : forall p bs fsi strict g, bytes bs ->
  mount p bs fsi strict = Ok g ->
  let total := m_total_clusters g in
  (m_fat_type g <> Fat32 -> m_free g = None /\ m_next g = None) /\
  (m_fat_type g = Fat32 ->
     (length fsi >= 512)%nat /\
     u32_at fsi 0 = 0x41615252 /\ u32_at fsi 484 = 0x61417272 /\ u32_at fsi 508 = 0xAA550000 /\
     m_free g = (if m_dirty g then None
                 else if u32_at fsi 488 <=? total then Some (u32_at fsi 488) else None) /\
     m_next g = (if (2 <=? u32_at fsi 492) && (u32_at fsi 492 <=? total + 2) then Some (u32_at fsi 492) else None)) /\
  (forall n, m_free g = Some n -> n <= total /\ m_dirty g = false) /\
  (forall n, m_next g = Some n -> 2 <= n <= total + 2) /\
  total + 2 <= 0xFFFFFFFF.
Proof. exact mount_fsinfo_bounds. Qed.

(* ---------------------------------------------------------------- non-trivial instances *)
(* boot sectors written by the real library's format_volume are bytes, and are accepted *)
Example C07_ex_samples_are_bytes :
  bytes sample_fat12_bs /\ bytes sample_fat16_bs /\ bytes sample_fat32_bs /\ bytes sample_fat32_fsinfo.
Proof. repeat split; apply bytes_of_forallb; vm_compute; reflexivity. Qed.

Example C07_ex_fat12_accepted :
  mount Debug sample_fat12_bs [] true =
  Ok {| m_fat_type := Fat12; m_cluster_size := 512; m_total_clusters := 2003; m_first_data_sector := 45;
        m_root_dir_sectors := 32; m_free := None; m_next := None; m_dirty := false; m_io_error := false;
        m_volume_id := 0x12345678 |}.
Proof. vm_compute. reflexivity. Qed.

Example C07_ex_fat16_accepted :
  mount Debug sample_fat16_bs [] false =
  Ok {| m_fat_type := Fat16; m_cluster_size := 512; m_total_clusters := 16223; m_first_data_sector := 161;
        m_root_dir_sectors := 32; m_free := None; m_next := None; m_dirty := false; m_io_error := false;
        m_volume_id := 0x12345678 |}.
Proof. vm_compute. reflexivity. Qed.

Example C07_ex_fat32_accepted :
  mount Release sample_fat32_bs sample_fat32_fsinfo true =
  Ok {| m_fat_type := Fat32; m_cluster_size := 512; m_total_clusters := 76915; m_first_data_sector := 1210;
        m_root_dir_sectors := 0; m_free := Some 76914; m_next := Some 3; m_dirty := false; m_io_error := false;
        m_volume_id := 0x12345678 |}.
Proof. vm_compute. reflexivity. Qed.

Example C07_ex_fat32_spec :
  spec_geometry sample_fat32_bs = (32, 512, 76915)%Z /\ coherentb sample_fat32_bs = true /\
  fsinfo_offset sample_fat32_bs = 512.
Proof. vm_compute. repeat split; reflexivity. Qed.

(* replace bytes [off, off + length v) of a sector *)
Definition patch (l : list N) (off : nat) (v : list N) : list N := firstn off l ++ v ++ skipn (off + length v) l.

(* rejected garbage: sectors_per_cluster = 3; fats = 255 with 2^25 sectors per FAT (D7: used to overflow);
   root cluster 1 (D17: used to be accepted); all 0xFF; all zero *)
Example C07_ex_rejected :
  mount Debug (patch sample_fat12_bs 13 [3]) [] false = Err ECorruptedFileSystem /\
  mount Debug (patch (patch sample_fat32_bs 16 [255]) 36 [0; 0; 0; 2]) sample_fat32_fsinfo false = Err ECorruptedFileSystem /\
  mount Debug (patch sample_fat32_bs 44 [1; 0; 0; 0]) sample_fat32_fsinfo false = Err ECorruptedFileSystem /\
  mount Debug (repeat_N 255 512) (repeat_N 255 512) false = Err ECorruptedFileSystem /\
  mount Debug (repeat_N 0 512) [] false = Err ECorruptedFileSystem /\
  mount Debug (firstn 511 sample_fat12_bs) [] false = Err EIo.
Proof. vm_compute. repeat split; reflexivity. Qed.

(* the FS-info bounds are tight: free = total is kept, total + 1 is dropped; hint = total + 2 (one past the
   last cluster) is kept, total + 3 is dropped; the dirty bit (byte 65 bit 0) drops the free count only *)
Example C07_ex_fsinfo_edges :
  let fs free next := patch (patch sample_fat32_fsinfo 488 (le_encode 4 free)) 492 (le_encode 4 next) in
  let r bs free next := match mount Debug bs (fs free next) true with Ok g => Some (m_free g, m_next g) | _ => None end in
  r sample_fat32_bs 76915 76917 = Some (Some 76915, Some 76917) /\
  r sample_fat32_bs 76916 76918 = Some (None, None) /\
  r sample_fat32_bs 0 2 = Some (Some 0, Some 2) /\
  r sample_fat32_bs 0xFFFFFFFF 1 = Some (None, None) /\
  r (patch sample_fat32_bs 65 [1]) 5 7 = Some (None, Some 7) /\
  mount Debug sample_fat32_bs (patch sample_fat32_fsinfo 0 [0]) true = Err ECorruptedFileSystem /\
  mount Debug sample_fat32_bs (firstn 500 sample_fat32_fsinfo) true = Err EIo.
Proof. vm_compute. repeat split; reflexivity. Qed.

(* a FAT32 volume with 0x0FFFFFFF clusters is accepted (cluster numbers up to 2^28, and a FAT of 601 sectors):
   the bound of [coherent] on the cluster count is the one the code enforces, not the document's 0x0FFFFFF5 *)
Example C07_ex_max_clusters :
  match mount Debug (patch sample_fat32_bs 32 (le_encode 4 (1210 + 0x0FFFFFFF))) sample_fat32_fsinfo true with
  | Ok g => m_total_clusters g = 0x0FFFFFFF /\ m_fat_type g = Fat32
  | _ => False end.
Proof. vm_compute. split; reflexivity. Qed.

Print Assumptions C07_mount_total.
Print Assumptions C07_mount_outcomes.
Print Assumptions C07_profiles_agree.
Print Assumptions C07_mount_ok_coherent.
Print Assumptions C07_coherent_unfolded.
Print Assumptions C07_coherentb_iff.
Print Assumptions C07_mount_ok_agrees_spec.
Print Assumptions C07_mount_ok_layout.
Print Assumptions C07_mount_complete.
Print Assumptions C07_fsinfo_bounds.
