(* C18 - Timestamps round-trip at documented resolution and follow stamping rules.
   This file contains property theorems only: each is closed by [exact] of a lemma proved
   elsewhere, so that a statement can never be weakened silently. *)
From Coq Require Import NArith.
From FatVerif Require Import Model.Base Model.Time Proofs.TimeProofs.
Open Scope N_scope.

(* every representable date 1980-01-01 .. 2107-12-31 survives encode/decode unchanged *)
Theorem C18_date_roundtrip : forall d, date_valid d = true ->
  exists w, date_encode d = Ok w /\ w < 65536 /\ date_decode w = d.
Proof. exact date_roundtrip. Qed.

(* creation time: 10 ms resolution, for every time of day *)
Theorem C18_time_roundtrip_created : forall t, time_valid t = true ->
  let '(w, hi) := time_encode t in
  w < 65536 /\ hi < 200 /\ time_decode w hi = round_created t.
Proof. exact time_roundtrip_created. Qed.

(* modification time: 2 s resolution *)
Theorem C18_time_roundtrip_modified : forall t, time_valid t = true ->
  let '(w, _) := time_encode t in time_decode w 0 = round_modified t.
Proof. exact time_roundtrip_modified. Qed.

(* set through the entry editor, read back (whether or not the editor decided to rewrite) *)
Theorem C18_editor_created : forall e dt, datetime_valid dt = true ->
  exists e', ed_set_created e dt = Ok e' /\
    st_created (ed_st e') = {| dt_date := dt_date dt; dt_time := round_created (dt_time dt) |}.
Proof. exact editor_set_created_readback. Qed.

Theorem C18_editor_modified : forall e dt, datetime_valid dt = true ->
  exists e', ed_set_modified e dt = Ok e' /\
    st_modified (ed_st e') = {| dt_date := dt_date dt; dt_time := round_modified (dt_time dt) |}.
Proof. exact editor_set_modified_readback. Qed.

Theorem C18_editor_accessed : forall e d, date_valid d = true ->
  exists e', ed_set_accessed e d = Ok e' /\ st_accessed (ed_st e') = d.
Proof. exact editor_set_accessed_readback. Qed.

(* frame: setting one stamp leaves the raw words of the other two untouched *)
Theorem C18_set_created_frame : forall s dt, datetime_valid dt = true ->
  exists s', st_set_created s dt = Ok s' /\
    st_created s' = {| dt_date := dt_date dt; dt_time := round_created (dt_time dt) |} /\
    access_date s' = access_date s /\ modify_time s' = modify_time s /\ modify_date s' = modify_date s.
Proof. exact set_created_spec. Qed.

Theorem C18_set_modified_frame : forall s dt, datetime_valid dt = true ->
  exists s', st_set_modified s dt = Ok s' /\
    st_modified s' = {| dt_date := dt_date dt; dt_time := round_modified (dt_time dt) |} /\
    access_date s' = access_date s /\ create_time_0 s' = create_time_0 s /\
    create_time_1 s' = create_time_1 s /\ create_date s' = create_date s.
Proof. exact set_modified_spec. Qed.

Theorem C18_set_accessed_frame : forall s d, date_valid d = true ->
  exists s', st_set_accessed s d = Ok s' /\ st_accessed s' = d /\
    create_time_0 s' = create_time_0 s /\ create_time_1 s' = create_time_1 s /\
    create_date s' = create_date s /\ modify_time s' = modify_time s /\ modify_date s' = modify_date s.
Proof. exact set_accessed_spec. Qed.

(* decoding is total on any 16-bit word (C17 also relies on this) *)
Theorem C18_date_decode_total : forall w, w < 65536 ->
  1980 <= year (date_decode w) <= 2107 /\ month (date_decode w) < 16 /\ day (date_decode w) < 32.
Proof. exact date_decode_total. Qed.

(* stamping rules: creation stamps all three from the clock; a write restamps modification only;
   a read restamps the access date only, and only when the option is on *)
Theorem C18_stamp_create : forall now, datetime_valid now = true ->
  exists s, stamp_create now = Ok s /\
    st_created s = {| dt_date := dt_date now; dt_time := round_created (dt_time now) |} /\
    st_modified s = {| dt_date := dt_date now; dt_time := round_modified (dt_time now) |} /\
    st_accessed s = dt_date now.
Proof. exact stamp_create_spec. Qed.

Theorem C18_stamp_write : forall e now, datetime_valid now = true ->
  exists e', stamp_write e now = Ok e' /\
    st_modified (ed_st e') = {| dt_date := dt_date now; dt_time := round_modified (dt_time now) |} /\
    st_created (ed_st e') = st_created (ed_st e) /\ st_accessed (ed_st e') = st_accessed (ed_st e).
Proof. exact stamp_write_spec. Qed.

Theorem C18_stamp_read : forall e upd today, date_valid today = true ->
  exists e', stamp_read e upd today = Ok e' /\
    st_accessed (ed_st e') = (if upd then today else st_accessed (ed_st e)) /\
    st_created (ed_st e') = st_created (ed_st e) /\ st_modified (ed_st e') = st_modified (ed_st e) /\
    (upd = false -> e' = e).
Proof. exact stamp_read_spec. Qed.

Print Assumptions C18_date_roundtrip.
Print Assumptions C18_time_roundtrip_created.
Print Assumptions C18_time_roundtrip_modified.
Print Assumptions C18_editor_created.
Print Assumptions C18_editor_modified.
Print Assumptions C18_editor_accessed.
Print Assumptions C18_set_created_frame.
Print Assumptions C18_set_modified_frame.
Print Assumptions C18_set_accessed_frame.
Print Assumptions C18_date_decode_total.
Print Assumptions C18_stamp_create.
Print Assumptions C18_stamp_write.
Print Assumptions C18_stamp_read.
