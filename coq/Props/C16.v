(* C16 - Generated 8.3 aliases are legal, unique and tied to their long name.
   Property theorems only: each is stated in full and closed by [exact] of a lemma proved in Proofs/.
   [alias_for name existing fuel] is the loop of Dir::check_for_existence: [existing] are the raw 11-byte short names of
   all entries find_entry visited (every live entry of the directory, none of which matched the name). *)
From Coq Require Import NArith List Bool Arith.
From FatVerif Require Import Model.Base Model.Str Model.Slot Model.Name Model.ShortName
  Proofs.NameProofs Proofs.ShortNameProofs.
Import ListNotations.
Open Scope N_scope.

(* Legality, as precisely as the code guarantees it (sfn_legal_b): 11 bytes; base (8) and extension (3) are each a run
   of legal non-space bytes - upper-case letters, digits, ! # $ % & ' ( ) - @ ^ _ ` { } ~ : no lower case, no '.', nothing
   >= 0x80 - followed only by padding spaces (no embedded space); the first byte is not a space, so the base is never empty
   (names made only of dots and spaces get "~1", "<hash>~1", ...). *)
Theorem C16_sfn_legal : forall n existing fuel a,
  alias_for n existing fuel = Ok a -> sfn_legal_b a = true.
Proof. exact sfn_legal. Qed.
Example C16_sfn_legal_ex :
  alias_for [70; 111; 111; 43; 49; 46; 98; 97; 82] [] 1 = Ok [70; 79; 79; 95; 49; 126; 49; 32; 66; 65; 82] /\
  alias_for [46; 46; 46] [] 1 = Ok [126; 49; 32; 32; 32; 32; 32; 32; 32; 32; 32] /\
  alias_for [32; 32; 46] [[126; 49; 32; 32; 32; 32; 32; 32; 32; 32; 32]] 1 = Ok [126; 50; 32; 32; 32; 32; 32; 32; 32; 32; 32] /\
  alias_for [233] [] 1 = Ok [95; 126; 49; 32; 32; 32; 32; 32; 32; 32; 32] /\
  alias_for [97; 46] [[65; 32; 32; 32; 32; 32; 32; 32; 32; 32; 32]] 1 = Ok [65; 126; 49; 32; 32; 32; 32; 32; 32; 32; 32] /\
  sfn_legal_b [32; 65; 32; 32; 32; 32; 32; 32; 32; 32; 32] = false /\ sfn_legal_b [65; 32; 66; 32; 32; 32; 32; 32; 32; 32; 32] = false /\
  sfn_legal_b [97; 32; 32; 32; 32; 32; 32; 32; 32; 32; 32] = false /\ sfn_legal_b [65; 46; 32; 32; 32; 32; 32; 32; 32; 32; 32] = false.
Proof. vm_compute. repeat split. Qed.

(* Uniqueness: the alias differs from the raw short name of every entry of the directory, for every directory
   content (also foreign, arbitrary byte strings) and every fuel. *)
Theorem C16_sfn_unique : forall n existing fuel a,
  alias_for n existing fuel = Ok a -> ~ In a existing.
Proof. exact sfn_unique. Qed.

(* Termination with the true bound: a failed iteration needs nine existing names carrying that iteration's checksum in
   their hex field, and no name serves two iterations, so with K existing entries the loop ends within K/9 + 1
   iterations - as long as K < 9 * 65536 = 589824 (the library does not cap directory sizes; beyond that bound all
   65536 checksum values can be exhausted and the loop of check_for_existence would not end).  More fuel never
   changes the result. *)
Theorem C16_gen_terminates : forall n existing,
  validate_long_name n = Ok tt -> N.of_nat (length existing) < 589824 ->
  exists a, alias_for n existing (S (length existing / 9)%nat) = Ok a.
Proof. exact gen_terminates. Qed.
Theorem C16_fuel_mono : forall n existing fuel fuel' a,
  alias_for n existing fuel = Ok a -> (fuel <= fuel')%nat -> alias_for n existing fuel' = Ok a.
Proof. exact alias_for_fuel_mono. Qed.
(* 4 numeric tails and 9 hash tails taken: the second iteration (checksum + 1) is needed and succeeds *)
Definition C16_ex_existing : list (list N) :=
  [[67; 79; 76; 76; 73; 68; 126; 49; 68; 65; 84];
   [67; 79; 76; 76; 73; 68; 126; 50; 68; 65; 84];
   [67; 79; 76; 76; 73; 68; 126; 51; 68; 65; 84];
   [67; 79; 76; 76; 73; 68; 126; 52; 68; 65; 84];
   [67; 79; 52; 52; 69; 67; 126; 49; 68; 65; 84];
   [67; 79; 52; 52; 69; 67; 126; 50; 68; 65; 84];
   [67; 79; 52; 52; 69; 67; 126; 51; 68; 65; 84];
   [67; 79; 52; 52; 69; 67; 126; 52; 68; 65; 84];
   [67; 79; 52; 52; 69; 67; 126; 53; 68; 65; 84];
   [67; 79; 52; 52; 69; 67; 126; 54; 68; 65; 84];
   [67; 79; 52; 52; 69; 67; 126; 55; 68; 65; 84];
   [67; 79; 52; 52; 69; 67; 126; 56; 68; 65; 84];
   [67; 79; 52; 52; 69; 67; 126; 57; 68; 65; 84]].
Example C16_gen_terminates_ex :
  let n := [99; 111; 108; 108; 105; 100; 101; 43; 46; 100; 97; 116] in
  alias_for n C16_ex_existing 1 = OutOfFuel /\
  alias_for n C16_ex_existing (S (length C16_ex_existing / 9)%nat) = Ok [67; 79; 52; 52; 69; 68; 126; 49; 68; 65; 84].
Proof. vm_compute. split; reflexivity. Qed.

(* Every long-name slot written for an entry carries the checksum it was generated with (write_entry passes
   lfn_checksum of the alias), the LFN attribute byte and zero type/cluster fields; there are ceil(len/13) slots and
   their order bytes are n, n-1, .., 1 with 0x40 set on the first one emitted. *)
Theorem C16_lfn_slots_checksum : forall u ck,
  let es := lfn_entries u ck in
  (forall e, In e es -> le_checksum e = ck /\ le_attrs e = ATTR_LFN /\ le_entry_type e = 0 /\ le_reserved_0 e = 0) /\
  N.of_nat (length es) = (len_N u + LFN_PART_LEN - 1) / LFN_PART_LEN /\
  map le_order es =
    map (fun i => let o := (N.of_nat (length es) - N.of_nat i) mod 256 in
                  if (i =? 0)%nat then N.lor o LFN_LAST_FLAG else o) (seq 0 (length es)).
Proof. exact lfn_slots_checksum. Qed.
(* the slots write_entry puts in front of a short entry carry the checksum of that entry's name *)
Theorem C16_entry_slots_checksum : forall n sfn e,
  In e (write_entry_lfn_slots n sfn) -> le_checksum e = lfn_checksum sfn.
Proof. exact entry_slots_checksum. Qed.
Example C16_lfn_slots_ex :
  map le_order (lfn_entries (repeat_N 120 30) 9) = [67; 2; 1] /\ map le_checksum (lfn_entries (repeat_N 120 30) 9) = [9; 9; 9] /\
  lfn_checksum [70; 79; 79; 95; 49; 126; 49; 32; 66; 65; 82] = 150.
Proof. vm_compute. repeat split. Qed.

Print Assumptions C16_sfn_legal.
Print Assumptions C16_sfn_unique.
Print Assumptions C16_gen_terminates.
Print Assumptions C16_fuel_mono.
Print Assumptions C16_lfn_slots_checksum.
Print Assumptions C16_entry_slots_checksum.
