(* C13 - read-only use never writes to the storage.
   Proved per layer: reading and seeking leave the FAT and every data cluster untouched (Model/FileM.v), the
   directory reader is a pure function of the slots (Model/Lfn.v read_dir takes no store), and unmounting a volume on
   which nothing structural happened does not write the status byte (Model/Flags.v).  Every device write of
   read-only sessions on the implementation is counted by tools/props/c13.py. *)
From Coq Require Import NArith ZArith List Lia.
From FatVerif Require Import Model.Base Model.Table Model.FileM Model.Flags Spec.Image Spec.ByteFile
  Proofs.ImageProofs Proofs.TableProofs Proofs.FileProofs Proofs.CrossProofs.
Open Scope N_scope.

Theorem C13_write_frame : forall bs im off o,
  (o < off \/ off + N.of_nat (length bs) <= o) -> img_get (img_write im off bs) o = img_get im o.
Proof. exact img_write_outside. Qed.

(* mount followed by unmount/drop with no structural change: the status byte is not written, for any byte value *)
Theorem C13_unmount_clean_no_write : forall b, status_writes (set_dirty_flag (st_mount b) false) = 0.
Proof. exact unmount_clean_no_write. Qed.

Section C13.
Variable T : Type.
Variable get : T -> N -> res fatv.
Variable set : T -> N -> fatv -> res T.
Variable val : T -> N -> fatv.
Variable okc : N -> Prop.
Variable okv : fatv -> Prop.
Variable inv : T -> Prop.
Hypothesis get_val : forall t c, inv t -> okc c -> get t c = Ok (val t c).
Hypothesis set_ok : forall t c v, inv t -> okc c -> okv v ->
  exists t', set t c v = Ok t' /\ inv t' /\ val t' c = v /\ forall c', c' <> c -> okc c' -> val t' c' = val t c'.
Hypothesis okv_free : okv Free.
Hypothesis okv_eoc : okv Eoc.
Variable cs total : N.
Hypothesis Hcs : 0 < cs.
Hypothesis Hokc : forall x, 2 <= x < total + 2 -> okc x.
Hypothesis Hokd : forall n, 2 <= n < total + 2 -> okv (Data n).

(* File::read and File::seek return the world (FAT store, free-space latch, cluster data) exactly as it was *)
Theorem C13_read_leaves_world : forall w h sz l n,
  WorldInv T val inv cs total w -> FileInv T val cs total w h sz l ->
  exists h' bs, file_read T get cs w h n = Ok (w, h', bs).
Proof.
  intros w h sz l n Hw Hf.
  destruct (file_read_spec T get set val okc okv inv get_val set_ok cs total Hcs Hokc Hokd w h sz l n Hw Hf) as (h' & bs & E & _).
  exists h', bs. exact E.
Qed.

Theorem C13_seek_leaves_world : forall w h sz l pos,
  WorldInv T val inv cs total w -> FileInv T val cs total w h sz l ->
  (0 <= seek_target sz (h_off h) pos)%Z ->
  exists h' p, file_seek T get cs w h pos = Ok (w, h', p).
Proof.
  intros w h sz l pos Hw Hf Hpos.
  pose proof (file_seek_spec T get set val okc okv inv get_val set_ok cs total Hcs Hokc Hokd w h sz l pos Hw Hf) as H.
  cbv zeta in H. destruct (seek_target sz (h_off h) pos <? 0)%Z eqn:E; [apply Z.ltb_lt in E; lia|].
  destruct H as (h' & E' & _). eexists _, _. exact E'.
Qed.
End C13.

Print Assumptions C13_write_frame.
Print Assumptions C13_unmount_clean_no_write.
Print Assumptions C13_read_leaves_world.
Print Assumptions C13_seek_leaves_world.
