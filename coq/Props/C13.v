(* C13 - read-only use never writes to the storage.
   Proved per layer: reading and seeking leave the FAT and every data cluster untouched (Model/FileM.v), the
   directory reader is a pure function of the slots (Model/Lfn.v read_dir takes no store), and unmounting a volume on
   which nothing structural happened does not write the status byte (Model/Flags.v).  Every device write of
   read-only sessions on the implementation is counted by tools/props/c13.py. *)
From Coq Require Import NArith ZArith List Lia.
From FatVerif Require Import Model.Base Model.Table Model.FileM Model.Flags Spec.Image Spec.ByteFile
  Proofs.ImageProofs Proofs.TableProofs Proofs.FileProofs Proofs.CrossProofs.
Open Scope N_scope.

Theorem C13_write_frame : forall bs im off o,
  (o < off \/ off + N.of_nat (length bs) <= o) -> img_get (img_write im off bs) o = img_get im o.
Proof. exact img_write_outside. Qed.

(* mount followed by unmount/drop with no structural change: the status byte is not written, for any byte value *)
Theorem C13_unmount_clean_no_write : forall b, status_writes (set_dirty_flag (st_mount b) false) = 0.
Proof. exact unmount_clean_no_write. Qed.

Section C13.
Variable T : Type.
Variable get : T -> N -> res fatv.
Variable set : T -> N -> fatv -> res T.
Variable val : T -> N -> fatv.
Variable okc : N -> Prop.
Variable okv : fatv -> Prop.
Variable inv : T -> Prop.
Hypothesis get_val : forall t c, inv t -> okc c -> get t c = Ok (val t c).
Hypothesis set_ok : forall t c v, inv t -> okc c -> okv v ->
  exists t', set t c v = Ok t' /\ inv t' /\ val t' c = v /\ forall c', c' <> c -> okc c' -> val t' c' = val t c'.
Hypothesis okv_free : okv Free.
Hypothesis okv_eoc : okv Eoc.
Variable cs total : N.
Hypothesis Hcs : 0 < cs.
Hypothesis Hokc : forall x, 2 <= x < total + 2 -> okc x.
Hypothesis Hokd : forall n, 2 <= n < total + 2 -> okv (Data n).

(* File::read and File::seek return the world (FAT store, free-space latch, cluster data) exactly as it was *)
Theorem C13_read_leaves_world : forall w h sz l n,
  WorldInv T val inv cs total w -> FileInv T val cs total w h sz l ->
  exists h' bs, file_read T get cs w h n = Ok (w, h', bs).
Proof.
  intros w h sz l n Hw Hf.
  destruct (file_read_spec T get set val okc okv inv get_val set_ok cs total Hcs Hokc Hokd w h sz l n Hw Hf) as (h' & bs & E & _).
  exists h', bs. exact E.
Qed.

Theorem C13_seek_leaves_world : forall w h sz l pos,
  WorldInv T val inv cs total w -> FileInv T val cs total w h sz l ->
  (0 <= seek_target sz (h_off h) pos)%Z ->
  exists h' p, file_seek T get cs w h pos = Ok (w, h', p).
Proof.
  intros w h sz l pos Hw Hf Hpos.
  pose proof (file_seek_spec T get set val okc okv inv get_val set_ok cs total Hcs Hokc Hokd w h sz l pos Hw Hf) as H.
  cbv zeta in H. destruct (seek_target sz (h_off h) pos <? 0)%Z eqn:E; [apply Z.ltb_lt in E; lia|].
  destruct H as (h' & E' & _). eexists _, _. exact E'.
Qed.
End C13.

Print Assumptions C13_write_frame.
Print Assumptions C13_unmount_clean_no_write.
Print Assumptions C13_read_leaves_world.
Print Assumptions C13_seek_leaves_world.

(* ================================================================================================================
   WHOLE IMAGES (Proofs/VolFrameProofs.v section 5): a mounted read-only session hands back the image it mounted.
   The session machine [ro_run] is built from the model functions only: VolDir.root_lookup (path resolution / exists / metadata:
   a function of the image, it returns no image), VolSession.sess_open (a File on an existing entry), VolStatus.sesss_step with
   update_accessed_date = false (the mounted call on a handle) restricted to read / seek, VolStatus.sesss_flush (flush / drop of a
   handle), between VolStatus.vol_mount_status and VolStatus.vol_unmount.  State: image, FS-info latch, handles, status latch. *)

From Coq Require Import FMapPositive.
From FatVerif Require Import Spec.Abs Spec.Regions Model.Str Model.Slot Model.Time Model.FileM Model.Name Model.ShortName Model.DirSlots Model.Flags
  Model.VolDir Model.VolChainDir Model.VolFile Model.FlushM Model.VolSession Model.VolSession2 Model.VolRemove Model.VolStatus
  Spec.ByteFile Proofs.TableProofs Proofs.FileProofs Proofs.DirSlotsProofs Proofs.VolDirProofs Proofs.VolDirFormat
  Proofs.VolFileProofs Proofs.VolSessionProofs Proofs.VolSession2Proofs Proofs.VolRemoveProofs Proofs.VolStatusProofs
  Proofs.VolChainDirProofs Proofs.VolSessionExamples Proofs.VolSession2Examples Proofs.VolRemoveExamples
  Proofs.VolStatusExamples Proofs.VolFrameProofs Proofs.VolFrameExamples.
From FatVerif Require Spec.Wf Model.Lfn Proofs.TimeProofs.
Import ListNotations.

(* File::read / File::seek: the world (FAT store, latch, data) AND the handle's DirEntryEditor are returned as they were - any store,
   any arguments, any outcome, no premise *)
Theorem C13_read_seek_leave_world_and_editor :
    forall (T : Type) (get : T -> N -> res fatv) (set : T -> N -> fatv -> res T) (cs total : N) 
      (w : fworld T) (h : fhandle) (o : fop) (w' : fworld T) (h' : fhandle) (r : fresult),
    file_step T get set cs total w h o = (w', h', r) -> read_only_op o = true -> w' = w /\ h_entry h' = h_entry h.
Proof. exact file_step_ro_entry. Qed.

(* one call of a read-only session: image, FS-info latch, status latch equal (=); every handle still clean *)
Theorem C13_vol_ro_step_untouched :
    forall (g : geom) (upper : N -> list N) (oem : N -> N) (st : rostate) (c : ro_call),
    ro_ok c = true ->
    Forall (fun x : shandle => s2_dirty x = false) (ro_hs st) ->
    let st' := fst (ro_step g upper oem st c) in
    ro_im st' = ro_im st /\
    ro_fi st' = ro_fi st /\ ro_s st' = ro_s st /\ Forall (fun x : shandle => s2_dirty x = false) (ro_hs st').
Proof. exact ro_step_untouched. Qed.

Theorem C13_vol_ro_run_untouched :
    forall (g : geom) (upper : N -> list N) (oem : N -> N) (cs : list ro_call) (st : rostate),
    forallb ro_ok cs = true ->
    Forall (fun x : shandle => s2_dirty x = false) (ro_hs st) ->
    let st' := fst (ro_run g upper oem st cs) in
    ro_im st' = ro_im st /\ ro_fi st' = ro_fi st /\ ro_s st' = ro_s st.
Proof. exact ro_run_untouched. Qed.

(* unmount of a volume on which nothing was marked: no write, for every mount-time status byte (dirty or not) and any geometry *)
Theorem C13_vol_unmount_after_mount_is_identity :
    forall (g : geom) (im : image), vol_unmount g im (vol_mount_status g im) = (im, vol_mount_status g im).
Proof. exact unmount_after_mount. Qed.

(* THE READ-ONLY SESSION: mount ; lookups, opens, reads, seeks on any handles with any arguments and outcomes, drops, in any order ;
   unmount => the image is the mounted image (Leibniz equal: not one write, not even of an equal byte), the latch is unchanged.
   No premise on the image at all (any geometry, any content, clean or dirty) *)
Theorem C13_vol_read_only_session_no_write :
    forall (g : geom) (upper : N -> list N) (oem : N -> N) (im : image) (fi : fsinfo) (cs : list ro_call),
    forallb ro_ok cs = true ->
    fst (fst (ro_session g upper oem im fi cs)) = im /\ snd (fst (ro_session g upper oem im fi cs)) = fi.
Proof. exact ro_session_no_write. Qed.

(* non-vacuity on the 64-sector image with a.txt (515 bytes): the reads return the file, the image is untouched *)
Example C13_vol_example_read_only_session :
    forallb ro_ok exf_ro_calls = true /\
    (let
     '(im', fi', outs) := ro_session ex_g ex_U ex_O ex_rm_im ex_rm_fi exf_ro_calls in
      im' = ex_rm_im /\
      fi' = ex_rm_fi /\
      (exists ev : Lfn.entry_view,
         outs =
         [OLookup (Ok ev); OLookup (Err ENotFound); OOpen true; OCall (RBytes (repeat 7 509 ++ [1; 2; 3]));
          OCall (RPos 3); OCall (RBytes [7; 7; 7; 7; 7]); ONone; ONone; OOpen false])).
Proof. exact exf_read_only_session. Qed.

Print Assumptions C13_read_seek_leave_world_and_editor.
Print Assumptions C13_vol_ro_step_untouched.
Print Assumptions C13_vol_ro_run_untouched.
Print Assumptions C13_vol_unmount_after_mount_is_identity.
Print Assumptions C13_vol_read_only_session_no_write.
Print Assumptions C13_vol_example_read_only_session.
(* ================================================================ FAT32 at image level (Model/VolFsInfo.v, Proofs/VolFsInfoProofs.v):
   mount ; non-mutating calls (statistics, reads, seeks) ; unmount, with the device writes of unmount listed
   ([vol32_unmount_writes]: the serialised FS-info sector if the latch is dirty, then the status byte if the flags changed).
   Two classes decide whether mount latches a free count ([w] the stored word, [total] the cluster count, [b] the status byte):
     lacks_count w total = (w = 0xFFFFFFFF) || (total < w)       - the property's own exception: the sector lacks a usable count
     d16_class b w total = odd b && not lacks_count              - the KNOWN FINDING D16 (dirty-mount-stats-writes-fsinfo):
                                                                    the sector HAS a count, the dirty status byte makes mount drop it *)
From FatVerif Require Import Model.Fat Model.VolFile Model.VolStatus Model.FormatImage Model.VolFsInfo Spec.Abs Proofs.FatProofs
  Proofs.VolFileProofs Proofs.VolFsInfoProofs Proofs.VolFsInfoExamples.
Import ListNotations.

(* the latch holds no count after mount exactly in the two classes *)
Theorem C13_vol32_latch_unknown_iff : forall g im, g_clusters g < UNKNOWN32 ->
  (mount_free g im = None <->
   (lacks_count (fsi_free_word g im) (g_clusters g) = true \/ d16_class (img_get im 65) (fsi_free_word g im) (g_clusters g) = true)).
Proof. exact mount_free_classes. Qed.

(* (a) READ-ONLY USE NEVER WRITES, outside the two classes: mount (any bytes < 256, FAT32 width) ; statistics, reads, seeks with
   any arguments and outcomes ; unmount - no device write is issued and the image is the image that was mounted.  Also without
   looking at the classes: whenever mount latched a count, image, FS-info latch and status latch are untouched. *)
Theorem C13_vol32_read_only_no_write : forall strict im cs fi s h,
  let g := parse_geom im in
  bytes_ok im -> g_bits g = 32 -> vol32_mount strict im = Ok (fi, s) ->
  lacks_count (fsi_free_word g im) (g_clusters g) = false ->
  d16_class (img_get im 65) (fsi_free_word g im) (g_clusters g) = false ->
  forallb read_only_call cs = true ->
  let stL := fst (v32_run g {| v_im := im; v_fi := fi; v_h := h; v_s := s |} cs) in
  vol32_unmount_writes g (v_fi stL) (v_s stL) = [] /\
  fst (fst (vol32_unmount g (v_im stL) (v_fi stL) (v_s stL))) = im /\ v_im stL = im.
Proof. exact vol32_read_only_no_write. Qed.

Theorem C13_vol32_read_only_writes_nothing : forall strict im cs fi s h, vol32_mount strict im = Ok (fi, s) ->
  fi_free fi <> None -> forallb read_only_call cs = true ->
  let g := parse_geom im in
  let stL := fst (v32_run g {| v_im := im; v_fi := fi; v_h := h; v_s := s |} cs) in
  v_im stL = im /\ v_fi stL = fi /\ v_s stL = s /\
  vol32_unmount_writes g (v_fi stL) (v_s stL) = [] /\
  vol32_unmount g (v_im stL) (v_fi stL) (v_s stL) = (im, fi, s).
Proof. exact vol32_read_only_writes_nothing. Qed.

(* (b) BOTH CLASSES, characterised exactly: mount without a latched count ; stats ; unmount issues exactly ONE device write - the
   512 serialised bytes at the FS-info sector with the decoder's count of free entries and the mount-time hint (unknown if the
   stored hint was 0, 1 or above total+2).  Nothing outside the sector changes; of a well-formed sector nothing but the two words;
   the image really differs whenever the stored word was not already the decoder's count. *)
Theorem C13_vol32_stats_unknown_count_writes_fsinfo : forall strict im fi s h,
  let g := parse_geom im in
  bytes_ok im -> Vol32 g -> vol32_mount strict im = Ok (fi, s) -> fi_free fi = None ->
  let st0 := {| v_im := im; v_fi := fi; v_h := h; v_s := s |} in
  let stL := fst (v32_run g st0 [CStats]) in
  let im' := fst (fst (vol32_unmount g (v_im stL) (v_fi stL) (v_s stL))) in
  let sector := fsinfo_bytes (count_free g im) (word_of (mount_next g im)) in
  snd (v32_run g st0 [CStats]) = [RStats (Ok (g_cluster_size g, g_clusters g, count_free g im))] /\
  v_im stL = im /\
  vol32_unmount_writes g (v_fi stL) (v_s stL) = [(fsi_off g, sector)] /\
  im' = img_write im (fsi_off g) sector /\
  fsi_free_word g im' = count_free g im /\ fsi_next_word g im' = word_of (mount_next g im) /\
  (forall a, ~ in_fsi g a -> img_get im' a = img_get im a) /\
  (sector_wf g im -> forall a, ~ in_fsi_words g a -> img_get im' a = img_get im a) /\
  (fsi_free_word g im <> count_free g im -> im' <> im).
Proof. exact vol32_stats_unknown_count_writes_fsinfo. Qed.

(* "read-only use never writes" is FALSE of the faithful model inside the known class: a FAT32 volume mounted with status byte 1
   whose sector carries a count (5); mount ; stats ; unmount rewrites the sector (count 65578).  D16, known_findings.json
   dirty-mount-stats-writes-fsinfo; the statistics exception (no usable count) is the example below it. *)
Theorem C13_vol32_read_only_never_writes_refuted :
  exists strict im cs fi s h,
    let g := parse_geom im in
    vol32_mount strict im = Ok (fi, s) /\ forallb read_only_call cs = true /\
    lacks_count (fsi_free_word g im) (g_clusters g) = false /\
    d16_class (img_get im 65) (fsi_free_word g im) (g_clusters g) = true /\
    let stL := fst (v32_run g {| v_im := im; v_fi := fi; v_h := h; v_s := s |} cs) in
    vol32_unmount_writes g (v_fi stL) (v_s stL) <> [] /\
    fsi_free_word g (fst (fst (vol32_unmount g (v_im stL) (v_fi stL) (v_s stL)))) <> fsi_free_word g im.
Proof.
  exists false, ex32_d16, [CStats], {| fi_free := None; fi_next := Some 3; fi_dirty := false |}, (st_mount 1), fresh_handle.
  destruct ex32_d16_witness as (Eg & D & L & M & R & W & F & F0). cbv zeta in *. rewrite Eg.
  refine (conj M (conj R (conj L (conj D (conj _ _))))).
  - rewrite W. discriminate.
  - rewrite F, F0. discriminate.
Qed.

Example C13_vol32_example_unknown_count :
  lacks_count (fsi_free_word ex32_g ex32_unknown) 65579 = true /\
  vol32_mount false ex32_unknown = Ok ({| fi_free := None; fi_next := Some 3; fi_dirty := false |}, st_mount 0) /\
  let st := fst (v32_run ex32_g {| v_im := ex32_unknown; v_fi := {| fi_free := None; fi_next := Some 3; fi_dirty := false |};
                                   v_h := fresh_handle; v_s := st_mount 0 |} [CStats]) in
  vol32_unmount_writes ex32_g (v_fi st) (v_s st) = [(512, fsinfo_bytes 65578 3)] /\
  on_ok (vol32_session false ex32_unknown [CStats]) (fun '(im', rs) =>
    rs = [RStats (Ok (512, 65579, 65578))] /\ fsi_free_word ex32_g im' = 65578 /\ fsi_next_word ex32_g im' = 3).
Proof. exact ex32_unknown_stats. Qed.

Print Assumptions C13_vol32_latch_unknown_iff.
Print Assumptions C13_vol32_read_only_no_write.
Print Assumptions C13_vol32_read_only_writes_nothing.
Print Assumptions C13_vol32_stats_unknown_count_writes_fsinfo.
Print Assumptions C13_vol32_read_only_never_writes_refuted.
