(* C05 - free-space accounting is exact and space is fully reclaimed.
   Theorems over Model/Table.v for ANY FAT store satisfying the get/set laws (the byte-level FAT12/16/32 stores
   are shown to satisfy them in Proofs/FatProofs.v).  [count_spec t 2 total] is the number of free entries
   among the data clusters 2..total+1; [fi_inv] says the cached count (when present) equals it and the
   next-free hint is >= 2. *)
From Coq Require Import NArith List.
From FatVerif Require Import Model.Base Model.Table Model.Slot Model.DirSlots Proofs.TableProofs Proofs.DirSlotsProofs Proofs.FindFreeProofs.
Import ListNotations.
Open Scope N_scope.

Section C05.
Variable T : Type.
Variable get : T -> N -> res fatv.
Variable set : T -> N -> fatv -> res T.
Variable val : T -> N -> fatv.
Variable okc : N -> Prop.
Variable okv : fatv -> Prop.
Variable inv : T -> Prop.     (* store invariant kept by [set] (byte-level stores: slice geometry, bytes < 256) *)
Hypothesis get_val : forall t c, inv t -> okc c -> get t c = Ok (val t c).
Hypothesis set_ok : forall t c v, inv t -> okc c -> okv v ->
  exists t', set t c v = Ok t' /\ inv t' /\ val t' c = v /\ forall c', c' <> c -> okc c' -> val t' c' = val t c'.
Hypothesis okv_free : okv Free.
Hypothesis okv_eoc : okv Eoc.

Let count_spec := count_spec T val.
Let fi_inv := fi_inv T val.
Let chain := chain T val.

(* the statistics call reports exactly the number of free table entries, cached or recomputed *)
Theorem C05_stats_exact : forall t fi total,
  inv t -> fi_inv t fi total -> (forall x, 2 <= x < total + 2 -> okc x) ->
  exists fi', fs_stats T get t fi total = Ok (fi', count_spec t 2 (N.to_nat total)) /\ fi_inv t fi' total.
Proof. exact (fs_stats_exact T get val okc inv get_val). Qed.

(* allocation: keeps the cached count exact (never underflows), leaves an in-range hint, hands out only a
   free data cluster, and reports out-of-space only when no data cluster is free *)
Theorem C05_alloc_accounting : forall t fi prev total,
  inv t -> fi_inv t fi total ->
  (forall x, 2 <= x < total + 2 -> okc x) ->
  (match prev with
   | Some p => okc p /\ (forall n, 2 <= n < total + 2 -> okv (Data n)) /\ val t p <> Free
   | None => True end) ->
  match fs_alloc T get set t fi prev total with
  | Ok (t', fi', c) => inv t' /\ fi_inv t' fi' total /\ 2 <= c < total + 2 /\ val t c = Free /\
                       (exists h, fi_next fi' = Some h /\ 2 <= h < total + 2)
  | Err e => e = ENotEnoughSpace /\ forall x, 2 <= x < total + 2 -> val t x <> Free
  | Panic => False
  | OutOfFuel => False
  end.
Proof. exact (fs_alloc_inv T get set val okc okv inv get_val set_ok okv_eoc). Qed.

(* removing a file gives back every cluster of its chain: each becomes free, nothing else changes, the count
   of free entries and the cached count grow by exactly the chain length *)
Theorem C05_remove_reclaims_all : forall t fi total c l fuel,
  inv t -> (forall x, 2 <= x < total + 2 -> okc x) ->
  fi_inv t fi total -> chain t c l -> NoDup l ->
  (forall x, In x l -> okc x /\ 2 <= x < total + 2 /\ val t x <> Free) -> (length l < fuel)%nat ->
  exists t' fi', fs_free_chain T get set t fi c fuel = Ok (t', fi') /\ inv t' /\ fi_inv t' fi' total /\
    count_spec t' 2 (N.to_nat total) = count_spec t 2 (N.to_nat total) + N.of_nat (length l) /\
    (forall x, In x l -> val t' x = Free) /\ (forall x, ~ In x l -> okc x -> val t' x = val t x).
Proof. exact (fs_free_chain_inv T get set val okc okv inv get_val set_ok okv_free). Qed.

(* truncating: the cluster at the cut becomes the end of the chain, everything after it is given back *)
Theorem C05_truncate_reclaims : forall t fi total c l fuel,
  inv t -> (forall x, 2 <= x < total + 2 -> okc x) ->
  fi_inv t fi total -> chain t c (c :: l) -> NoDup (c :: l) ->
  (forall x, In x (c :: l) -> okc x /\ 2 <= x < total + 2 /\ val t x <> Free) -> (length l < fuel)%nat ->
  exists t' fi', fs_truncate_chain T get set t fi c fuel = Ok (t', fi') /\ inv t' /\ fi_inv t' fi' total /\
    val t' c = Eoc /\ (forall x, In x l -> val t' x = Free) /\
    (forall x, ~ In x (c :: l) -> okc x -> val t' x = val t x) /\
    count_spec t' 2 (N.to_nat total) = count_spec t 2 (N.to_nat total) + N.of_nat (length l).
Proof. exact (fs_truncate_chain_inv T get set val okc okv inv get_val set_ok okv_free okv_eoc). Qed.
End C05.

(* non-vacuity on the pure store: a 6-cluster table with a 3-cluster chain 2 -> 4 -> 3 *)
Example C05_example :
  let t : pfat := fun c => if c =? 2 then Data 4 else if c =? 4 then Data 3 else if c =? 3 then Eoc else Free in
  let fi := {| fi_free := Some 3; fi_next := Some 5; fi_dirty := false |} in
  match fs_free_chain pfat pget pset t fi 2 10 with
  | Ok (t', fi') => fi_free fi' = Some 6 /\ t' 2 = Free /\ t' 3 = Free /\ t' 4 = Free
  | _ => False
  end.
Proof. vm_compute. repeat split. Qed.

(* ---- "... or, in a fixed-size root directory, no sufficient run of free slots actually remains" (Model/DirSlots.v
   find_free_entries = Dir::find_free_entries; [has_room ss num]: a run of [num] deleted slots before the end of the used
   part, or deleted slots directly before the end marker plus everything from the marker to the end of the region) *)
Theorem C05_root_nospace_only_without_room : forall k ss num, 1 <= num -> len_N ss < 134217728 ->
  find_free_entries k ss num = Err ENotEnoughSpace -> is_fixed k = true /\ ~ has_room ss num.
Proof. exact find_free_entries_nospace_no_room. Qed.

Theorem C05_chain_directory_never_refused : forall cs ss num, 1 <= num -> len_N ss < 134217728 ->
  find_free_entries (Chained cs) ss num <> Err ENotEnoughSpace.
Proof. exact find_free_entries_chained_never_nospace. Qed.

(* and the search is first fit: the first run of [num] deleted slots, else the deleted slots in front of the end marker *)
Theorem C05_find_free_first_fit : forall k ss num p, 1 <= num -> len_N ss < 134217728 ->
  find_free_entries k ss num = Ok p ->
  exists pre mid post, ss = pre ++ mid ++ post /\ len_N pre = p /\ Forall nonend pre /\ Forall isdel mid /\ boundary pre /\
    ((len_N mid = num /\ no_del_run (pre ++ removelast mid) num) \/
     (len_N mid < num /\ endhead post /\ no_del_run (pre ++ mid) num /\ (is_fixed k = true -> p + num <= len_N ss))).
Proof. exact find_free_entries_first_fit. Qed.

(* non-vacuity: a 6-slot root "U d U d d ." (U used, d deleted, . end marker): 3 slots fit at index 3 (two deleted slots
   plus the marker slot), 4 do not; the round-3 seeded change (capacity counted from the marker) would refuse 3 *)
Example C05_root_room_example :
  let u := 65 :: repeat_N 32 10 ++ [32] ++ repeat_N 0 20 in
  let d := 229 :: repeat_N 32 10 ++ [32] ++ repeat_N 0 20 in
  let z := repeat_N 0 32 in
  let ss := [u; d; u; d; d; z] in
  find_free_entries FixedRoot ss 3 = Ok 3 /\ find_free_entries FixedRoot ss 4 = Err ENotEnoughSpace /\
  find_free_entries FixedRoot ss 1 = Ok 1 /\ find_free_entries (Chained 1) ss 4 = Ok 3.
Proof. vm_compute. repeat split. Qed.

Print Assumptions C05_stats_exact.
Print Assumptions C05_alloc_accounting.
Print Assumptions C05_remove_reclaims_all.
Print Assumptions C05_truncate_reclaims.
Print Assumptions C05_root_nospace_only_without_room.
Print Assumptions C05_chain_directory_never_refused.
Print Assumptions C05_find_free_first_fit.
