(* C05 - free-space accounting is exact and space is fully reclaimed.
   Theorems over Model/Table.v for ANY FAT store satisfying the get/set laws (the byte-level FAT12/16/32 stores
   are shown to satisfy them in Proofs/FatProofs.v).  [count_spec t 2 total] is the number of free entries
   among the data clusters 2..total+1; [fi_inv] says the cached count (when present) equals it and the
   next-free hint is >= 2. *)
From Coq Require Import NArith List.
From FatVerif Require Import Model.Base Model.Table Model.Slot Model.DirSlots Proofs.TableProofs Proofs.DirSlotsProofs Proofs.FindFreeProofs.
Import ListNotations.
Open Scope N_scope.

Section C05.
Variable T : Type.
Variable get : T -> N -> res fatv.
Variable set : T -> N -> fatv -> res T.
Variable val : T -> N -> fatv.
Variable okc : N -> Prop.
Variable okv : fatv -> Prop.
Variable inv : T -> Prop.     (* store invariant kept by [set] (byte-level stores: slice geometry, bytes < 256) *)
Hypothesis get_val : forall t c, inv t -> okc c -> get t c = Ok (val t c).
Hypothesis set_ok : forall t c v, inv t -> okc c -> okv v ->
  exists t', set t c v = Ok t' /\ inv t' /\ val t' c = v /\ forall c', c' <> c -> okc c' -> val t' c' = val t c'.
Hypothesis okv_free : okv Free.
Hypothesis okv_eoc : okv Eoc.

Let count_spec := count_spec T val.
Let fi_inv := fi_inv T val.
Let chain := chain T val.

(* the statistics call reports exactly the number of free table entries, cached or recomputed *)
Theorem C05_stats_exact : forall t fi total,
  inv t -> fi_inv t fi total -> (forall x, 2 <= x < total + 2 -> okc x) ->
  exists fi', fs_stats T get t fi total = Ok (fi', count_spec t 2 (N.to_nat total)) /\ fi_inv t fi' total.
Proof. exact (fs_stats_exact T get val okc inv get_val). Qed.

(* allocation: keeps the cached count exact (never underflows), leaves an in-range hint, hands out only a
   free data cluster, and reports out-of-space only when no data cluster is free *)
Theorem C05_alloc_accounting : forall t fi prev total,
  inv t -> fi_inv t fi total ->
  (forall x, 2 <= x < total + 2 -> okc x) ->
  (match prev with
   | Some p => okc p /\ (forall n, 2 <= n < total + 2 -> okv (Data n)) /\ val t p <> Free
   | None => True end) ->
  match fs_alloc T get set t fi prev total with
  | Ok (t', fi', c) => inv t' /\ fi_inv t' fi' total /\ 2 <= c < total + 2 /\ val t c = Free /\
                       (exists h, fi_next fi' = Some h /\ 2 <= h < total + 2)
  | Err e => e = ENotEnoughSpace /\ forall x, 2 <= x < total + 2 -> val t x <> Free
  | Panic => False
  | OutOfFuel => False
  end.
Proof. exact (fs_alloc_inv T get set val okc okv inv get_val set_ok okv_eoc). Qed.

(* removing a file gives back every cluster of its chain: each becomes free, nothing else changes, the count
   of free entries and the cached count grow by exactly the chain length *)
Theorem C05_remove_reclaims_all : forall t fi total c l fuel,
  inv t -> (forall x, 2 <= x < total + 2 -> okc x) ->
  fi_inv t fi total -> chain t c l -> NoDup l ->
  (forall x, In x l -> okc x /\ 2 <= x < total + 2 /\ val t x <> Free) -> (length l < fuel)%nat ->
  exists t' fi', fs_free_chain T get set t fi c fuel = Ok (t', fi') /\ inv t' /\ fi_inv t' fi' total /\
    count_spec t' 2 (N.to_nat total) = count_spec t 2 (N.to_nat total) + N.of_nat (length l) /\
    (forall x, In x l -> val t' x = Free) /\ (forall x, ~ In x l -> okc x -> val t' x = val t x).
Proof. exact (fs_free_chain_inv T get set val okc okv inv get_val set_ok okv_free). Qed.

(* truncating: the cluster at the cut becomes the end of the chain, everything after it is given back *)
Theorem C05_truncate_reclaims : forall t fi total c l fuel,
  inv t -> (forall x, 2 <= x < total + 2 -> okc x) ->
  fi_inv t fi total -> chain t c (c :: l) -> NoDup (c :: l) ->
  (forall x, In x (c :: l) -> okc x /\ 2 <= x < total + 2 /\ val t x <> Free) -> (length l < fuel)%nat ->
  exists t' fi', fs_truncate_chain T get set t fi c fuel = Ok (t', fi') /\ inv t' /\ fi_inv t' fi' total /\
    val t' c = Eoc /\ (forall x, In x l -> val t' x = Free) /\
    (forall x, ~ In x (c :: l) -> okc x -> val t' x = val t x) /\
    count_spec t' 2 (N.to_nat total) = count_spec t 2 (N.to_nat total) + N.of_nat (length l).
Proof. exact (fs_truncate_chain_inv T get set val okc okv inv get_val set_ok okv_free okv_eoc). Qed.
End C05.

(* non-vacuity on the pure store: a 6-cluster table with a 3-cluster chain 2 -> 4 -> 3 *)
Example C05_example :
  let t : pfat := fun c => if c =? 2 then Data 4 else if c =? 4 then Data 3 else if c =? 3 then Eoc else Free in
  let fi := {| fi_free := Some 3; fi_next := Some 5; fi_dirty := false |} in
  match fs_free_chain pfat pget pset t fi 2 10 with
  | Ok (t', fi') => fi_free fi' = Some 6 /\ t' 2 = Free /\ t' 3 = Free /\ t' 4 = Free
  | _ => False
  end.
Proof. vm_compute. repeat split. Qed.

(* ---- "... or, in a fixed-size root directory, no sufficient run of free slots actually remains" (Model/DirSlots.v
   find_free_entries = Dir::find_free_entries; [has_room ss num]: a run of [num] deleted slots before the end of the used
   part, or deleted slots directly before the end marker plus everything from the marker to the end of the region) *)
Theorem C05_root_nospace_only_without_room : forall k ss num, 1 <= num -> len_N ss < 134217728 ->
  find_free_entries k ss num = Err ENotEnoughSpace -> is_fixed k = true /\ ~ has_room ss num.
Proof. exact find_free_entries_nospace_no_room. Qed.

Theorem C05_chain_directory_never_refused : forall cs ss num, 1 <= num -> len_N ss < 134217728 ->
  find_free_entries (Chained cs) ss num <> Err ENotEnoughSpace.
Proof. exact find_free_entries_chained_never_nospace. Qed.

(* and the search is first fit: the first run of [num] deleted slots, else the deleted slots in front of the end marker *)
Theorem C05_find_free_first_fit : forall k ss num p, 1 <= num -> len_N ss < 134217728 ->
  find_free_entries k ss num = Ok p ->
  exists pre mid post, ss = pre ++ mid ++ post /\ len_N pre = p /\ Forall nonend pre /\ Forall isdel mid /\ boundary pre /\
    ((len_N mid = num /\ no_del_run (pre ++ removelast mid) num) \/
     (len_N mid < num /\ endhead post /\ no_del_run (pre ++ mid) num /\ (is_fixed k = true -> p + num <= len_N ss))).
Proof. exact find_free_entries_first_fit. Qed.

(* non-vacuity: a 6-slot root "U d U d d ." (U used, d deleted, . end marker): 3 slots fit at index 3 (two deleted slots
   plus the marker slot), 4 do not; the round-3 seeded change (capacity counted from the marker) would refuse 3 *)
Example C05_root_room_example :
  let u := 65 :: repeat_N 32 10 ++ [32] ++ repeat_N 0 20 in
  let d := 229 :: repeat_N 32 10 ++ [32] ++ repeat_N 0 20 in
  let z := repeat_N 0 32 in
  let ss := [u; d; u; d; d; z] in
  find_free_entries FixedRoot ss 3 = Ok 3 /\ find_free_entries FixedRoot ss 4 = Err ENotEnoughSpace /\
  find_free_entries FixedRoot ss 1 = Ok 1 /\ find_free_entries (Chained 1) ss 4 = Ok 3.
Proof. vm_compute. repeat split. Qed.

(* ================================================================ whole device images (Model/VolRemove.v, Proofs/VolRemoveProofs.v)
   "removing a file gives back all of its clusters", on the image and for the independent decoder Spec/Abs.v:
   root_dir().remove(name) = the lookup, FileSystem::free_cluster_chain on the FAT slice of the image ([fs_free_chain], the
   function of C05_remove_reclaims_all, over the byte-level store with all mirrored copies), then the deletion loop. *)
From FatVerif Require Import Model.Str Model.Time Model.Fat Model.FileM Model.VolDir Model.VolFile Model.VolSession Model.VolRemove
  Spec.Image Spec.Abs Spec.ByteFile Proofs.FileProofs Proofs.VolDirProofs Proofs.VolFileProofs Proofs.VolSessionProofs
  Proofs.VolRemoveProofs Proofs.VolSessionExamples Proofs.VolRemoveExamples Proofs.VolDirFormat.
From FatVerif Require Spec.Wf Model.Lfn Model.Name Proofs.TimeProofs Proofs.FatProofs Proofs.VolRemoveFormat Model.Format Spec.FormatSpec
  Model.FormatImage Spec.FormatImageSpec Proofs.FormatImageProofs.

(* free_cluster_chain on the image: a chain the decoder can walk ([chain_from] = Some l) without repetition is freed entirely -
   every cluster of it FFree for the decoder, every other entry as before, no byte outside the mirrored FAT copies touched,
   count_free grown by exactly its length, the FS-info latch map_free(+length) and consistent with the new table *)
Theorem C05_vol_free_chain_reclaims_all : forall g, vgeom_ok g -> forall im fi c l,
  FatProofs.bytes_ok im -> fi_inv fstore (val_ft (ft_of g)) (store_of g im) fi (g_clusters g) ->
  c <> 0 -> chain_from g im c (Abs.chain_fuel g) = Some l -> NoDup l ->
  exists im1, vol_free_chain g im fi c = Ok (im1, map_free fi (fun n => n + N.of_nat (length l))) /\
    FatProofs.bytes_ok im1 /\
    fi_inv fstore (val_ft (ft_of g)) (store_of g im1) (map_free fi (fun n => n + N.of_nat (length l))) (g_clusters g) /\
    (forall a, ~ in_store_area g a -> img_get im1 a = img_get im a) /\
    (forall x, In x l -> fat_val g im1 x = FFree) /\
    (forall x, 2 <= x < g_clusters g + 2 -> ~ In x l -> fat_val g im1 x = fat_val g im x) /\
    (forall x, In x l -> 2 <= x < g_clusters g + 2 /\ fat_val g im x <> FFree) /\
    count_free g im1 = count_free g im + N.of_nat (length l).
Proof. exact vol_free_chain_spec. Qed.

(* THE IMAGE-LEVEL THEOREM.  A well-formed FAT12/16 volume (no issue of Spec/Wf.v, any folding), root slots [attrs_sane] (as in
   C01_vol_remove_decodes); [name] resolves by the library's own lookup to a file [ev] not stored under a dot short name
   (necessary: such an entry is decoded as a dot entry whose cluster field Spec/Wf.v does not judge).  Then remove succeeds and
   (a) the decoded root loses exactly the node of that file, every other node is there exactly as decoded before;
   (b) every cluster of the file's chain [l] is FFree for the decoder, every other FAT entry and every data byte is as before,
       count_free grows by exactly length l ("all of its clusters are given back"), the FS-info latch is that of
       C05_remove_reclaims_all (untouched when the entry had no first cluster: free_cluster_chain is not called);
   (c) no issue of Spec/Wf.v afterwards;  (d) only bytes of the FAT copies and of the entry's root slots change. *)
Theorem C05_vol_remove_reclaims_all : forall upper oem fold im fi name ev,
  let g := parse_geom im in
  fixed_root_geom g -> FatProofs.bytes_ok im ->
  fi_inv fstore (val_ft (ft_of g)) (store_of g im) fi (g_clusters g) ->
  Wf.wf_issues fold im = [] -> Forall attrs_sane (root_region_slots g im) ->
  root_lookup upper oem im name = Ok ev -> Lfn.ev_is_dir ev = false ->
  list_eqb (Lfn.ev_raw_name ev) DOT || list_eqb (Lfn.ev_raw_name ev) DOTDOT = false ->
  exists im' ns1 e l content ns2,
    vol_remove_file_root upper oem im fi name = Some (Ok tt, im', fi_after_remove fi (e_cluster e) (length l)) /\
    v_root (abs im) = ns1 ++ NFile e (if e_cluster e =? 0 then None else Some l) content :: ns2 /\
    v_root (abs im') = ns1 ++ ns2 /\
    matches upper oem name ev = true /\ e_sfn e = Lfn.ev_raw_name ev /\ e_cluster e = Lfn.ev_cluster_lo ev /\
    e_size e = Lfn.ev_size ev /\
    (e_cluster e = 0 -> l = []) /\
    (e_cluster e <> 0 -> chain_from g im (e_cluster e) (Abs.chain_fuel g) = Some l) /\
    len_N l = Wf.ceil_div (e_size e) (g_cluster_size g) /\
    v_root_issues (abs im') = [] /\ v_labels (abs im') = v_labels (abs im) /\ v_geom (abs im') = v_geom (abs im) /\
    v_root_chain (abs im') = v_root_chain (abs im) /\ v_status (abs im') = v_status (abs im) /\ parse_geom im' = g /\
    NoDup l /\
    (forall x, In x l -> 2 <= x < g_clusters g + 2 /\ fat_val g im x <> FFree /\ fat_val g im' x = FFree) /\
    (forall x, 2 <= x < g_clusters g + 2 -> ~ In x l -> fat_val g im' x = fat_val g im x) /\
    (forall c, 2 <= c -> cluster_bytes g im' c = cluster_bytes g im c) /\
    count_free g im' = count_free g im + N.of_nat (length l) /\
    FatProofs.bytes_ok im' /\
    fi_inv fstore (val_ft (ft_of g)) (store_of g im') (fi_after_remove fi (e_cluster e) (length l)) (g_clusters g) /\
    Wf.wf_issues fold im' = [] /\
    (forall a, ~ in_store_area g a -> (a < g_root_off g \/ g_root_off g + root_bytes g <= a) -> img_get im' a = img_get im a) /\
    (forall i, (N.of_nat i < e_first_slot e \/ e_sfn_slot e < N.of_nat i) ->
       nth i (root_region_slots g im') [] = nth i (root_region_slots g im) []) /\
    Forall attrs_sane (root_region_slots g im').
Proof. exact vol_remove_file_decodes. Qed.

(* the other outcomes.  The lookup fails (NotFound, ...): that error is the answer and image and latch are handed back as they
   were.  The model answers None exactly for a directory (outside this model: emptiness check, "." / "..") or when the chain
   walk itself fails (corrupt table; excluded by well-formedness above). *)
Theorem C05_vol_remove_failed_unchanged : forall upper oem im fi name r im' fi',
  vol_remove_file_root upper oem im fi name = Some (r, im', fi') -> r <> Ok tt ->
  im' = im /\ fi' = fi /\ (forall ev, root_lookup upper oem im name <> Ok ev) /\
  match r with Err e => root_lookup upper oem im name = Err e | Panic => root_lookup upper oem im name = Panic
             | OutOfFuel => root_lookup upper oem im name = OutOfFuel | Ok _ => False end.
Proof. exact vol_remove_file_failed_unchanged. Qed.

Theorem C05_vol_remove_none_iff : forall upper oem im fi name,
  vol_remove_file_root upper oem im fi name = None <->
  exists ev, root_lookup upper oem im name = Ok ev /\
    (Lfn.ev_is_dir ev = true \/
     (Lfn.ev_is_dir ev = false /\ forall x, vol_free_chain (parse_geom im) im fi (root_entry_cluster ev) <> Ok x)).
Proof. exact vol_remove_file_none. Qed.

(* it extends the cluster-less remove of Model/VolDir.v (C01_vol_remove_decodes): same answer, same image *)
Theorem C05_vol_remove_extends_empty : forall upper oem im fi name r im',
  vol_remove_empty_file_root upper oem im name = Some (r, im') ->
  vol_remove_file_root upper oem im fi name = Some (r, im', fi) \/
  ((forall ev, root_lookup upper oem im name <> Ok ev) /\ img_same im im' /\
   exists r0, vol_remove_file_root upper oem im fi name = Some (r0, im, fi)).
Proof. exact vol_remove_file_extends_empty. Qed.

(* ---- one fill / delete cycle on an empty volume ([EmptyVol g im fi]: geometry g, bytes < 256, consistent latch, no root node,
   no root issue, attrs_sane slots, every cluster free - e.g. a freshly formatted volume, C05_vol_formatted_is_empty):
   create_file(name) ; any calls under any clock ; flush ; remove(name).  The remove SUCCEEDS (the library's lookup finds the
   entry just written: decoder -> library listing C03_decoded_lfn_is_listed, name matching C15_lookup_self), the session's
   image is well formed with count_free = all - ceil(len / cluster size), and afterwards the volume is an EmptyVol again *)
Theorem C05_vol_cycle_step : forall upper oem fold acc g im fi name now ops range im1,
  fixed_root_geom g -> EmptyVol g im fi ->
  TimeProofs.datetime_valid now = true -> Forall op_ok (map fst ops) -> clocks_ok ops ->
  str_valid name = true -> name <> [] -> Name.is_dot_name name = false ->
  vol_create_empty_file_root upper oem im name now = (Ok (Some range), im1) ->
  exists st rs content pos (l : list N) im' fi',
    vol_session upper oem acc im fi name now ops = Some (st, rs) /\
    bf_run ([], 0) (map fst ops) rs = Some (content, pos) /\
    N.of_nat (length l) = cdiv (g_cluster_size g) (len_N content) /\
    count_free g (s_im st) + N.of_nat (length l) = g_clusters g /\
    Wf.wf_issues fold (s_im st) = [] /\
    vol_remove_file_root upper oem (s_im st) (s_fi st) name = Some (Ok tt, im', fi') /\
    EmptyVol g im' fi' /\ v_labels (abs im') = v_labels (abs im) /\ Wf.wf_issues fold im' = [] /\
    (forall c, 2 <= c -> cluster_bytes g im' c = cluster_bytes g (s_im st) c).
Proof. exact cycle_step. Qed.

(* [vol_cycle] runs iff create_file creates the entry, and then leaves an EmptyVol *)
Theorem C05_vol_cycle_spec : forall upper oem fold acc g im fi c,
  fixed_root_geom g -> EmptyVol g im fi -> cycle_ok c ->
  (forall im2 fi2, vol_cycle upper oem acc im fi c = Some (im2, fi2) ->
     EmptyVol g im2 fi2 /\ v_labels (abs im2) = v_labels (abs im) /\ Wf.wf_issues fold im2 = []) /\
  (forall range im1, vol_create_empty_file_root upper oem im (cy_name c) (cy_now c) = (Ok (Some range), im1) ->
     exists im2 fi2, vol_cycle upper oem acc im fi c = Some (im2, fi2)).
Proof. exact vol_cycle_spec. Qed.

(* FILL / DELETE CYCLES NEVER SHRINK CAPACITY (n cycles, by induction): whatever was created, written and removed, the volume
   is empty, well formed and EVERY cluster is free again *)
Theorem C05_vol_cycles_keep_capacity : forall upper oem fold acc g, fixed_root_geom g -> forall cs im fi im' fi',
  EmptyVol g im fi -> Forall cycle_ok cs -> vol_cycles upper oem acc im fi cs = Some (im', fi') ->
  EmptyVol g im' fi' /\ count_free g im' = g_clusters g /\ v_root (abs im') = [] /\
  v_labels (abs im') = v_labels (abs im) /\ Wf.wf_issues fold im' = [].
Proof. exact vol_cycles_keep_capacity. Qed.

(* ---- from ANY device content (composition with C06_image_decodes_empty / C04_session_format_decodes) *)
Theorem C05_vol_formatted_is_empty : forall o ts im0 bs t im fi, FormatSpec.builder_range o -> ts < 4294967296 -> FatProofs.bytes_ok im0 ->
  Format.format_boot_sector_validated o ts = Ok (bs, t) -> t <> Format.Fat32 ->
  (Format.o_max_root_dir_entries o * 32) mod Format.o_bytes_per_sector o = 0 -> FormatImage.format_image o ts im0 = Ok im ->
  let g := FormatImageSpec.geom_of (Format.fbs_bpb bs) in
  fi_inv fstore (val_ft (ft_of g)) (store_of g im) fi (g_clusters g) ->
  fixed_root_geom g /\ EmptyVol g im fi /\ g_clusters g = FormatSpec.sp_clusters (Format.fbs_bpb bs) /\
  v_labels (abs im) = FormatImageProofs.expected_labels o.
Proof. exact VolRemoveFormat.formatted_empty_vol. Qed.

(* format ; create ; any writes ; flush ; remove: the image decodes like the freshly formatted one *)
Theorem C05_vol_format_session_remove_decodes : forall upper oem fold acc o ts im0 bs t im fi name now ops range im1,
  FormatSpec.builder_range o -> ts < 4294967296 -> FatProofs.bytes_ok im0 ->
  Format.format_boot_sector_validated o ts = Ok (bs, t) -> t <> Format.Fat32 ->
  (Format.o_max_root_dir_entries o * 32) mod Format.o_bytes_per_sector o = 0 -> FormatImage.format_image o ts im0 = Ok im ->
  let g := FormatImageSpec.geom_of (Format.fbs_bpb bs) in
  fi_inv fstore (val_ft (ft_of g)) (store_of g im) fi (g_clusters g) ->
  TimeProofs.datetime_valid now = true -> Forall op_ok (map fst ops) -> clocks_ok ops ->
  str_valid name = true -> name <> [] -> Name.is_dot_name name = false ->
  vol_create_empty_file_root upper oem im name now = (Ok (Some range), im1) ->
  exists st rs content pos im' fi',
    vol_session upper oem acc im fi name now ops = Some (st, rs) /\
    bf_run ([], 0) (map fst ops) rs = Some (content, pos) /\
    count_free g (s_im st) = FormatSpec.sp_clusters (Format.fbs_bpb bs) - cdiv (g_cluster_size g) (len_N content) /\
    vol_remove_file_root upper oem (s_im st) (s_fi st) name = Some (Ok tt, im', fi') /\
    v_root (abs im') = [] /\ v_root_issues (abs im') = [] /\ v_labels (abs im') = FormatImageProofs.expected_labels o /\
    parse_geom im' = g /\ count_free g im' = FormatSpec.sp_clusters (Format.fbs_bpb bs) /\ Wf.wf_issues fold im' = [] /\
    fi_inv fstore (val_ft (ft_of g)) (store_of g im') fi' (g_clusters g) /\
    (forall c, 2 <= c -> cluster_bytes g im' c = cluster_bytes g (s_im st) c).
Proof. exact VolRemoveFormat.format_session_remove_decodes. Qed.

Theorem C05_vol_format_cycles_keep_capacity : forall upper oem fold acc o ts im0 bs t im fi cs im' fi',
  FormatSpec.builder_range o -> ts < 4294967296 -> FatProofs.bytes_ok im0 ->
  Format.format_boot_sector_validated o ts = Ok (bs, t) -> t <> Format.Fat32 ->
  (Format.o_max_root_dir_entries o * 32) mod Format.o_bytes_per_sector o = 0 -> FormatImage.format_image o ts im0 = Ok im ->
  let g := FormatImageSpec.geom_of (Format.fbs_bpb bs) in
  fi_inv fstore (val_ft (ft_of g)) (store_of g im) fi (g_clusters g) ->
  Forall cycle_ok cs -> vol_cycles upper oem acc im fi cs = Some (im', fi') ->
  v_root (abs im') = [] /\ v_labels (abs im') = FormatImageProofs.expected_labels o /\ parse_geom im' = g /\
  count_free g im' = FormatSpec.sp_clusters (Format.fbs_bpb bs) /\ Wf.wf_issues fold im' = [] /\
  fi_inv fstore (val_ft (ft_of g)) (store_of g im') fi' (g_clusters g).
Proof. exact VolRemoveFormat.format_cycles_keep_capacity. Qed.

(* non-vacuity and the concrete picture: the 64-sector FAT12 image after the session of C04_session_example ("a.txt", 515 bytes,
   clusters 2 -> 3); the premises hold; remove("a.txt"): no root node, 58 -> 60 free clusters, FAT bytes of clusters 2, 3 zero in
   both copies, data bytes in place, slots 1, 2 marked 0xE5, label slot untouched; NotFound for another name and for the same
   name again; two whole cycles from the formatted image *)
Example C05_vol_remove_example_hyps :
  let g := parse_geom ex_rm_im in
  fixed_root_geom g /\ FatProofs.bytes_ok ex_rm_im /\
  fi_inv fstore (val_ft (ft_of g)) (store_of g ex_rm_im) ex_rm_fi (g_clusters g) /\
  Wf.wf_issues (fun l => l) ex_rm_im = [] /\ Forall attrs_sane (root_region_slots g ex_rm_im) /\
  (exists ev, root_lookup ex_U ex_O ex_rm_im ex_sname = Ok ev /\ Lfn.ev_is_dir ev = false /\
     list_eqb (Lfn.ev_raw_name ev) DOT || list_eqb (Lfn.ev_raw_name ev) DOTDOT = false /\
     Lfn.ev_cluster_lo ev = 2 /\ Lfn.ev_size ev = 515) /\
  (exists ev, root_lookup ex_U ex_O ex_rm_im [65; 46; 84; 88; 84] = Ok ev /\ Lfn.ev_is_dir ev = false).
Proof. exact ex_remove_hyps. Qed.

Example C05_vol_remove_example :
  match vol_remove_file_root ex_U ex_O ex_rm_im ex_rm_fi ex_sname with
  | Some (Ok _, im', fi') =>
    v_root (abs im') = [] /\ v_root_issues (abs im') = [] /\
    v_labels (abs im') = [[65; 66; 67; 68; 69; 70; 71; 72; 73; 74; 75]] /\
    Wf.wf_issues (fun l => l) im' = [] /\
    count_free (parse_geom ex_rm_im) ex_rm_im = 58 /\ count_free (parse_geom ex_rm_im) im' = 60 /\
    img_read ex_rm_im 515 3 = [3; 240; 255] /\ img_read im' 515 3 = [0; 0; 0] /\ img_read im' 1027 3 = [0; 0; 0] /\
    img_read im' (2048 + 509) 6 = [1; 2; 3; 4; 5; 6] /\
    map (fun k => img_get im' (1536 + 32 * k)) [0; 1; 2; 3] = [65; 229; 229; 0] /\
    fi' = ex_rm_fi
  | _ => False
  end.
Proof. exact ex_remove_result. Qed.

Example C05_vol_remove_example_not_found :
  vol_remove_file_root ex_U ex_O ex_rm_im ex_rm_fi [98] = Some (Err ENotFound, ex_rm_im, ex_rm_fi) /\
  match vol_remove_file_root ex_U ex_O ex_rm_im ex_rm_fi ex_sname with
  | Some (_, im', fi') => fst (fst (match vol_remove_file_root ex_U ex_O im' fi' ex_sname with Some x => x | None => (Ok tt, im', fi') end))
                          = Err ENotFound
  | None => False
  end.
Proof. exact ex_remove_not_found. Qed.

Example C05_vol_cycles_example :
  Forall cycle_ok ex_cycles /\
  match vol_cycles ex_U ex_O false ex_vol_im ex_sfi ex_cycles with
  | Some (im', fi') => v_root (abs im') = [] /\ count_free (parse_geom ex_vol_im) im' = 60 /\ Wf.wf_issues (fun l => l) im' = []
  | None => False
  end.
Proof. exact ex_cycles_run. Qed.

Print Assumptions C05_stats_exact.
Print Assumptions C05_alloc_accounting.
Print Assumptions C05_remove_reclaims_all.
Print Assumptions C05_truncate_reclaims.
Print Assumptions C05_root_nospace_only_without_room.
Print Assumptions C05_chain_directory_never_refused.
Print Assumptions C05_find_free_first_fit.
Print Assumptions C05_vol_free_chain_reclaims_all.
Print Assumptions C05_vol_remove_reclaims_all.
Print Assumptions C05_vol_remove_failed_unchanged.
Print Assumptions C05_vol_remove_none_iff.
Print Assumptions C05_vol_remove_extends_empty.
Print Assumptions C05_vol_cycle_step.
Print Assumptions C05_vol_cycle_spec.
Print Assumptions C05_vol_cycles_keep_capacity.
Print Assumptions C05_vol_formatted_is_empty.
Print Assumptions C05_vol_format_session_remove_decodes.
Print Assumptions C05_vol_format_cycles_keep_capacity.

(* ================================================================ a chain-backed directory that GROWS, on whole images
   (Model/VolChainGrow.v vol_create_file_grow; Proofs/VolChainGrowProofs.v; FAT12/16, a directory referenced from the fixed root).
   EVERY outcome of dir.create_file(name): the chain afterwards is the old one plus clusters [news] that were FFree for the
   independent decoder and are allocated now; every other FAT entry is free exactly if it was; count_free dropped by exactly
   length news (nothing is allocated on the side, nothing leaks on the failure path - a cluster taken before a later allocation
   fails stays in the directory's chain); the FS-info latch is consistent with the new table.  And the out-of-space clause: behind
   a passed existence check NotEnoughSpace is answered only when NO cluster is free (find_free_entries never refuses a chain
   directory: C05_chain_directory_never_refused; the refusal comes from the allocator alone: C05_alloc_accounting). *)
From FatVerif Require Import Spec.Abs Model.VolChainDir Model.VolChainGrow Proofs.VolDirProofs Proofs.VolFileProofs Proofs.VolChainDirProofs
  Proofs.VolChainGrowProofs Proofs.VolChainGrowExamples.
Theorem C05_volchain_grow_accounting : forall fold upper oem im fi l name now r im' fi' l' ra ed children labels rb,
  let g := parse_geom im in
  fixed_root_geom g /\ g_cluster_size g mod 32 = 0 -> FatProofs.bytes_ok im ->
  fi_inv fstore (val_ft (ft_of g)) (store_of g im) fi (g_clusters g) ->
  Wf.wf_issues fold im = [] -> v_root (abs im) = ra ++ NDir ed (Some l) children [] labels :: rb ->
  N.of_nat (cluster_slots g * length l) < 134217728 -> TimeProofs.datetime_valid now = true ->
  vol_create_file_grow upper oem im fi l name now = (r, (im', fi', l')) ->
  exists news,
    l' = l ++ news /\ NoDup news /\
    (forall x, In x news -> 2 <= x < g_clusters g + 2 /\ fat_val g im x = FFree /\ fat_val g im' x <> FFree) /\
    (forall x, 2 <= x < g_clusters g + 2 -> ~ In x news -> (fat_val g im' x = FFree <-> fat_val g im x = FFree)) /\
    Abs.count_free g im' + N.of_nat (length news) = Abs.count_free g im /\
    fi_inv fstore (val_ft (ft_of g)) (store_of g im') fi' (g_clusters g) /\
    (news = [] -> fi' = fi) /\
    (forall a, check_for_existence upper oem (chain_dir_slots g im l) name (Some false) = Ok (Fresh a) -> r = Err ENotEnoughSpace ->
       Abs.count_free g im' = 0).
Proof.
  intros fold upper oem im fi l name now r im' fi' l' ra ed children labels rb g Hg Hb Hfi Hwf Hroot Hsm Hnow H.
  destruct (vol_grow_accounting upper oem fold im fi l name now r im' fi' l' ra ed children labels rb Hg Hb Hfi Hwf Hroot Hsm Hnow H)
    as (news & A1 & A2 & A3 & A4 & A5 & _ & A7 & A8 & A9 & _).
  exists news. repeat (split; [assumption|]). exact A9.
Qed.
(* both cases on the 64-sector volume: growth by one cluster (59 -> 58 free, hint 4 afterwards); no cluster free: NotEnoughSpace,
   still 0 free, latch untouched *)
Example C05_volchain_grow_accounting_ex :
  (match vol_create_file_grow Name.upper_ascii Name.oem_decode_lossy ex_sub_im ex_fi0 [2] ex_long_name VolDirFormat.ex_vol_now with
   | (r, (im', fi', l')) => r = Ok (Some (2, 19)) /\ l' = [2; 3] /\ fi_next fi' = Some 4 /\
                            Abs.count_free (parse_geom ex_sub_im) ex_sub_im = 59 /\ Abs.count_free (parse_geom ex_sub_im) im' = 58
   end) /\
  (match vol_create_file_grow Name.upper_ascii Name.oem_decode_lossy ex_full_im ex_fi0 [2] ex_long_name VolDirFormat.ex_vol_now with
   | (r, (im', fi', l')) => r = Err ENotEnoughSpace /\ l' = [2] /\ fi' = ex_fi0 /\
                            Abs.count_free (parse_geom ex_full_im) ex_full_im = 0 /\ Abs.count_free (parse_geom ex_full_im) im' = 0
   end).
Proof. split; vm_compute; repeat split. Qed.

Print Assumptions C05_volchain_grow_accounting.

(* ---- "a create that fails does not consume a cluster" is FALSE of the faithful model (and of the library: replayed through the
   executor, see the report) when the run needs TWO new clusters and exactly ONE is free: the first allocation succeeds - cluster
   zeroed, linked, 16 long-name slots written into it -, the second one fails, create_file answers NotEnoughSpace and the
   directory KEEPS the new cluster (the only one that was free), holding nothing but an orphan run.  The witness on the 64-sector
   volume (Proofs/VolChainGrowExamples.v ex_part_im: D with 14 of 16 slots in use, clusters 4 .. 61 owned by F, cluster 3 free; a
   255-character name = 21 slots): every premise of C05_volchain_grow_accounting holds; NotEnoughSpace; chain [2] -> [2; 3];
   count_free 1 -> 0; the one finding of Spec/Wf.v: OrphanLfn(D, 32).  (No cluster is LOST: it belongs to the directory's chain.) *)
Theorem C05_volchain_grow_nospace_keeps_count_refuted :
  exists im fi l name now im' fi' l',
    (fixed_root_geom (parse_geom im) /\ g_cluster_size (parse_geom im) mod 32 = 0) /\ FatProofs.bytes_ok im /\
    fi_inv fstore (val_ft (ft_of (parse_geom im))) (store_of (parse_geom im) im) fi (g_clusters (parse_geom im)) /\
    Wf.wf_issues (fun x => x) im = [] /\ N.of_nat (cluster_slots (parse_geom im) * length l) < 134217728 /\
    TimeProofs.datetime_valid now = true /\
    (exists ra ed children labels rb, v_root (abs im) = ra ++ NDir ed (Some l) children [] labels :: rb) /\
    vol_create_file_grow Name.upper_ascii Name.oem_decode_lossy im fi l name now = (Err ENotEnoughSpace, (im', fi', l')) /\
    Abs.count_free (parse_geom im) im = 1 /\ Abs.count_free (parse_geom im) im' = 0 /\ l' = l ++ [3] /\
    Wf.wf_issues (fun x => x) im' = [Wf.WOrphanLfn 2 32].
Proof. exact grow_nospace_keeps_count_refuted. Qed.

Print Assumptions C05_volchain_grow_nospace_keeps_count_refuted.
(* ================================================================ the FS-INFORMATION SECTOR of a FAT32 volume inside the image model
   (Model/VolFsInfo.v, Proofs/VolFsInfoProofs.v): mount (the latch read from the sector: a DIRTY status byte discards the stored count,
   a count above the cluster count and a hint outside 2 .. total+2 are dropped) ; any admissible calls - statistics, allocations,
   frees, calls on a file handle, each with the status mark of C12 - ; unmount (flush_fs_info if the latch is dirty: all 512 bytes
   of the serialised sector, then set_dirty_flag(false)).
   [fsi_free_word] / [fsi_next_word]: the two words of the sector (offsets 488 / 492); [count_free]: Spec/Abs.v's count of free
   entries; [Vol32 g]: VolFileProofs.vgeom_ok, FAT32 width, 1 <= FS-info sector < reserved sectors, 512-byte sectors or larger;
   [mount_coherent]: IF mount latches a count it is the decoder's; [run_ok]: every call is admissible where it is issued
   ([call_ok]: statistics always; an allocation behind a cluster in use; the release of a chain the decoder walks; a handle call
   while the file layer's invariant VolInv holds); [sector_wf]: signatures intact and reserved bytes zero. *)
From FatVerif Require Import Model.Flags Model.FormatImage Model.VolStatus Model.VolFsInfo Proofs.FatProofs Proofs.VolFileProofs
  Proofs.VolStatusProofs Proofs.VolFsInfoProofs Proofs.VolFsInfoExamples.

(* what a successful mount read, in terms of the image *)
Theorem C05_vol32_mount_latch : forall strict im fi s,
  let g := parse_geom im in
  bytes_ok im -> g_bits g = 32 -> vol32_mount strict im = Ok (fi, s) ->
  s = st_mount (img_get im 65) /\ img_get im 65 < 256 /\
  fi = {| fi_free := (if N.odd (img_get im 65) then None
                      else if fsi_free_word g im <=? g_clusters g then Some (fsi_free_word g im) else None);
          fi_next := (if (2 <=? fsi_next_word g im) && (fsi_next_word g im <=? g_clusters g + 2) then Some (fsi_next_word g im) else None);
          fi_dirty := false |} /\
  sigs_ok g im /\ g_fsinfo_sector g < g_reserved g /\ 512 <= g_bps g /\ g_bps g <= 4096 /\ img_u16 im 22 = 0 /\
  g_clusters g + 2 <= 4294967295.
Proof. exact vol32_mount_facts. Qed.

(* THE FS-INFO CLAUSE: a volume mounted clean whose stored count is unknown or right; any admissible session; unmount.
   The free-count word is unknown EXACTLY when it was unknown at mount and statistics were never asked for, otherwise it is the
   decoder's count of the final image; the hint is unknown, a cluster number, or the word found at mount; the signatures are
   intact; the status byte is the mount-time byte; unmount changes nothing but the status byte and the sector - of a well-formed
   sector only its two words - and the geometry and the table of the final image are those before unmount *)
Theorem C05_vol32_session_fsinfo : forall strict im cs fi s h,
  let g := parse_geom im in
  bytes_ok im -> Vol32 g -> vol32_mount strict im = Ok (fi, s) ->
  N.odd (img_get im 65) = false ->
  (fsi_free_word g im = UNKNOWN32 \/ fsi_free_word g im = count_free g im) ->
  let st0 := {| v_im := im; v_fi := fi; v_h := h; v_s := s |} in
  run_ok g st0 cs ->
  let stL := fst (v32_run g st0 cs) in
  let im' := fst (fst (vol32_unmount g (v_im stL) (v_fi stL) (v_s stL))) in
  parse_geom im' = g /\
  (fsi_free_word g im' = UNKNOWN32 <-> fsi_free_word g im = UNKNOWN32 /\ existsb is_stats cs = false) /\
  (fsi_free_word g im' <> UNKNOWN32 -> fsi_free_word g im' = count_free g im') /\
  (fsi_next_word g im' = UNKNOWN32 \/ 2 <= fsi_next_word g im' < g_clusters g + 2 \/ fsi_next_word g im' = fsi_next_word g im) /\
  sigs_ok g im' /\ img_get im' 65 = img_get im 65 /\
  (forall a, a <> 65 -> ~ in_fsi g a -> img_get im' a = img_get (v_im stL) a) /\
  (sector_wf g im -> forall a, a <> 65 -> ~ in_fsi_words g a -> img_get im' a = img_get (v_im stL) a) /\
  count_free g im' = count_free g (v_im stL).
Proof. exact vol32_session_fsinfo_clean. Qed.

(* ... for EVERY mount byte and stored word under the weakest premise (a latched count is right): the word after unmount is the
   decoder's count, or unknown, or - the latch never became dirty, nothing was latched at mount - the untouched word found at mount
   (a volume mounted dirty whose sector is never written keeps its words and its dirty bit); when the sector is written the word
   is the latch's: the decoder's count if a count is latched, unknown otherwise; a count is latched iff one was at mount or
   statistics were asked for *)
Theorem C05_vol32_session_fsinfo_any_mount : forall strict im cs fi s h,
  let g := parse_geom im in
  bytes_ok im -> Vol32 g -> vol32_mount strict im = Ok (fi, s) -> mount_coherent g im ->
  let st0 := {| v_im := im; v_fi := fi; v_h := h; v_s := s |} in
  run_ok g st0 cs ->
  let stL := fst (v32_run g st0 cs) in
  let imL := v_im stL in let fiL := v_fi stL in
  let im' := fst (fst (vol32_unmount g imL fiL (v_s stL))) in
  parse_geom im' = g /\ img_get im' 65 = img_get im 65 /\ sigs_ok g im' /\ bytes_ok im' /\
  (fsi_free_word g im' = count_free g im' \/ fsi_free_word g im' = UNKNOWN32 \/
   (fsi_free_word g im' = fsi_free_word g im /\ mount_free g im = None /\ fi_dirty fiL = false)) /\
  (fi_dirty fiL = true ->
     fsi_free_word g im' = match fi_free fiL with Some _ => count_free g im' | None => UNKNOWN32 end) /\
  (fi_free fiL = None <-> (mount_free g im = None /\ existsb is_stats cs = false)) /\
  (fi_dirty fiL = false ->
     fsi_free_word g im' = fsi_free_word g im /\ fsi_next_word g im' = fsi_next_word g im /\ fiL = mount_latch g im) /\
  (fsi_next_word g im' = UNKNOWN32 \/ 2 <= fsi_next_word g im' < g_clusters g + 2 \/ fsi_next_word g im' = fsi_next_word g im) /\
  (forall a, a <> 65 -> ~ in_fsi g a -> img_get im' a = img_get imL a) /\
  (fi_dirty fiL = false -> forall a, a <> 65 -> img_get im' a = img_get imL a) /\
  (sector_wf g im -> forall a, a <> 65 -> ~ in_fsi_words g a -> img_get im' a = img_get imL a) /\
  (forall a, in_fsi g a -> img_get imL a = img_get im a) /\
  count_free g im' = count_free g imL.
Proof. exact vol32_session_fsinfo_any. Qed.

(* stats at ANY point of such a session answers exactly (cluster size, cluster count, the decoder's count of free entries of the
   image at that point), touching neither image nor status latch *)
Theorem C05_vol32_stats_exact : forall strict im cs fi s h,
  let g := parse_geom im in
  bytes_ok im -> Vol32 g -> vol32_mount strict im = Ok (fi, s) -> mount_coherent g im ->
  let st0 := {| v_im := im; v_fi := fi; v_h := h; v_s := s |} in
  run_ok g st0 cs ->
  let stL := fst (v32_run g st0 cs) in
  exists fi', v32_step g stL CStats =
    ({| v_im := v_im stL; v_fi := fi'; v_h := v_h stL; v_s := v_s stL |},
     RStats (Ok (g_cluster_size g, g_clusters g, count_free g (v_im stL)))).
Proof. exact vol32_stats_exact. Qed.

(* flush_fs_info byte by byte: nothing outside the 512 bytes; no write when the latch is clean; otherwise the sector IS the
   serialisation of the latch - the reserved bytes of the sector are written as zeros, not preserved *)
Theorem C05_vol32_flush_fs_info : forall g im fi,
  let im' := fst (vol32_flush_fs_info g im fi) in
  (forall a, ~ in_fsi g a -> img_get im' a = img_get im a) /\
  (flushes g fi = false -> vol32_flush_fs_info g im fi = (im, fi)) /\
  (flushes g fi = true -> img_read im' (fsi_off g) 512 = fsinfo_sector_bytes fi /\
                          snd (vol32_flush_fs_info g im fi) = fi_clean fi) /\
  (bytes_ok im -> bytes_ok im').
Proof. exact flush_spec. Qed.

(* the premise run_ok is satisfiable: any list of statistics calls and file calls (with byte data) on the fresh handle *)
Theorem C05_vol32_session_premises : forall strict im fi s cs,
  let g := parse_geom im in
  bytes_ok im -> Vol32 g -> vol32_mount strict im = Ok (fi, s) -> mount_coherent g im -> Forall fs_call cs ->
  run_ok g {| v_im := im; v_fi := fi; v_h := fresh_handle; v_s := s |} cs.
Proof. exact session_premises. Qed.

(* non-vacuity and the concrete picture on the formatted 65579-cluster volume: every premise holds; the session
   write / stats / seek / read / truncate / stats answers 65577 twice and leaves count 65577, hint 4, status byte 0 *)
Example C05_vol32_example_hyps :
  bytes_ok ex32_im /\ Vol32 (parse_geom ex32_im) /\
  vol32_mount false ex32_im = Ok ({| fi_free := Some 65578; fi_next := Some 3; fi_dirty := false |}, st_mount 0) /\
  N.odd (img_get ex32_im 65) = false /\ fsi_free_word (parse_geom ex32_im) ex32_im = count_free (parse_geom ex32_im) ex32_im /\
  mount_coherent (parse_geom ex32_im) ex32_im /\ sector_wf (parse_geom ex32_im) ex32_im /\
  run_ok (parse_geom ex32_im)
    {| v_im := ex32_im; v_fi := {| fi_free := Some 65578; fi_next := Some 3; fi_dirty := false |}; v_h := fresh_handle; v_s := st_mount 0 |}
    ex32_calls.
Proof. exact ex32_session_hyps. Qed.
Example C05_vol32_example_result :
  on_ok (vol32_session false ex32_im ex32_calls) (fun '(im', rs) =>
      rs = [RFile (RCount 3); RStats (Ok (512, 65579, 65577)); RFile (RPos 0); RFile (RBytes [1; 2]); RFile RDone;
            RStats (Ok (512, 65579, 65577))] /\
      fsi_free_word ex32_g im' = 65577 /\ count_free ex32_g im' = 65577 /\ fsi_next_word ex32_g im' = 4 /\ img_get im' 65 = 0 /\
      img_read im' 512 512 = fsinfo_bytes 65577 4 /\ parse_geom im' = ex32_g) /\
  img_get (v_im (fst (v32_run ex32_g {| v_im := ex32_im; v_fi := {| fi_free := Some 65578; fi_next := Some 3; fi_dirty := false |};
                                      v_h := fresh_handle; v_s := st_mount 0 |} [CFile (FWrite [1; 2; 3])]))) 65 = 1.
Proof. exact ex32_session_result. Qed.

(* OBSERVATION (not a violation of a listed clause; no check reports it): why [Vol32] asks 1 <= FS-info sector - the library's
   mount does NOT.  A boot sector that doubles as FS-info sector (BPB_FSInfo = 0,
   "RRaA" / "rrAa" / 00 00 55 AA in place) is mounted; statistics then unmount serialise the sector over the boot sector: the BPB is
   zeroed and the volume does not mount again (replayed on the library: see the report / cfsinfo_corr.py) *)
Theorem C05_vol32_observation_fsinfo_sector_zero :
  exists im, g_fsinfo_sector (parse_geom im) = 0 /\ vgeom_okb (parse_geom im) = true /\
    vol32_mount false im = Ok ({| fi_free := None; fi_next := None; fi_dirty := false |}, st_mount 0) /\
    on_ok (vol32_session false im [CStats]) (fun '(im', rs) =>
      rs = [RStats (Ok (512, 65579, 65578))] /\ g_bps (parse_geom im') = 0 /\ vol32_mount false im' = Err ECorruptedFileSystem).
Proof. exists ex32_fsi0. destruct ex32_fsi0_destroys_boot_sector as (A & _ & B & C & D). exact (conj A (conj B (conj C D))). Qed.

(* ---- ANY stored count (D28, repaired: FsInfoSector::map_free_clusters takes Fn(u32) -> Option<u32>; alloc_cluster uses
   checked_sub(1), the frees checked_add(n); a None result FORGETS the count).  Without the latch invariant - a FAT32 volume whose
   FS-info count was written by another implementation and is wrong - allocation never panics, succeeds exactly when a data
   cluster is free, decrements a positive count and forgets a count of 0; once the count is unknown the statistics call counts the
   table: exact whatever had been stored. *)
Theorem C05_alloc_any_count_never_panics : forall (T : Type) (get : T -> N -> res fatv) (set : T -> N -> fatv -> res T)
    (val : T -> N -> fatv) (okc : N -> Prop) (okv : fatv -> Prop) (inv : T -> Prop),
  (forall t c, inv t -> okc c -> get t c = Ok (val t c)) ->
  (forall t c v, inv t -> okc c -> okv v ->
     exists t', set t c v = Ok t' /\ inv t' /\ val t' c = v /\ forall c', c' <> c -> okc c' -> val t' c' = val t c') ->
  okv Eoc ->
  forall t fi prev total,
  inv t -> hint_ok (fi_next fi) ->
  (forall x, 2 <= x < total + 2 -> okc x) ->
  (match prev with Some p => okc p /\ (forall n, 2 <= n < total + 2 -> okv (Data n)) | None => True end) ->
  match fs_alloc T get set t fi prev total with
  | Ok (t', fi', c) => inv t' /\ 2 <= c < total + 2 /\ val t c = Free /\ hint_ok (fi_next fi') /\
                       fi_free fi' = match fi_free fi with Some n => if n =? 0 then None else Some (n - 1) | None => None end
  | Err e => e = ENotEnoughSpace /\ forall x, 2 <= x < total + 2 -> val t x <> Free
  | Panic => False
  | OutOfFuel => False
  end.
Proof. exact fs_alloc_any_count. Qed.

Theorem C05_stats_exact_after_forget : forall (T : Type) (get : T -> N -> res fatv) (val : T -> N -> fatv) (okc : N -> Prop)
    (inv : T -> Prop),
  (forall t c, inv t -> okc c -> get t c = Ok (val t c)) ->
  forall t fi total,
  inv t -> fi_free fi = None -> (forall x, 2 <= x < total + 2 -> okc x) ->
  fs_stats T get t fi total =
    Ok ({| fi_free := Some (count_spec T val t 2 (N.to_nat total)); fi_next := fi_next fi; fi_dirty := true |},
        count_spec T val t 2 (N.to_nat total)).
Proof. exact fs_stats_exact_unknown. Qed.

Print Assumptions C05_alloc_any_count_never_panics.
Print Assumptions C05_stats_exact_after_forget.
Print Assumptions C05_vol32_mount_latch.
Print Assumptions C05_vol32_session_fsinfo.
Print Assumptions C05_vol32_session_fsinfo_any_mount.
Print Assumptions C05_vol32_stats_exact.
Print Assumptions C05_vol32_flush_fs_info.
Print Assumptions C05_vol32_session_premises.
Print Assumptions C05_vol32_observation_fsinfo_sector_zero.

(* ==================================================================================================================
   THE DIRECTORY ALLOCATION ON WHOLE IMAGES (Model/VolDirTree.v vol_alloc_new_cluster = FileSystem::alloc_cluster(None, zero = true),
   the call create_dir makes).  PROVED IN GENERAL: exactly one cluster, free before, end-of-chain after; no other FAT entry changes;
   bytes change only in the FAT copies and in that cluster, which is zero afterwards; count_free drops by exactly one; the latch stays
   consistent with the table; the only failure is NotEnoughSpace on a table without a free entry (no panic, fuel suffices). *)
From FatVerif Require Import Model.VolDirTree Proofs.VolDirTreeProofs Proofs.VolDirTreeExamples.

Theorem C05_vol_alloc_new_cluster_accounting : forall g, fixed_root_geom g -> forall im fi,
  FatProofs.bytes_ok im -> fi_inv fstore (val_ft (ft_of g)) (store_of g im) fi (g_clusters g) ->
  match vol_alloc_new_cluster g im fi with
  | Ok (im1, fi1, c) =>
    2 <= c < g_clusters g + 2 /\ fat_val g im c = FFree /\ fat_val g im1 c = FEoc /\
    (forall x, 2 <= x < g_clusters g + 2 -> x <> c -> fat_val g im1 x = fat_val g im x) /\
    (forall a, ~ in_store_area g a -> ~ in_cluster g c a -> img_get im1 a = img_get im a) /\
    cluster_bytes g im1 c = repeat_N 0 (N.to_nat (g_cluster_size g)) /\
    FatProofs.bytes_ok im1 /\ fi_inv fstore (val_ft (ft_of g)) (store_of g im1) fi1 (g_clusters g) /\
    Abs.count_free g im1 + 1 = Abs.count_free g im
  | Err e => e = ENotEnoughSpace /\ (forall x, 2 <= x < g_clusters g + 2 -> fat_val g im x <> FFree)
  | Panic => False
  | OutOfFuel => False
  end.
Proof. exact vol_alloc_new_cluster_spec. Qed.

(* NOT PROVED IN GENERAL (C05_vol_dir_accounting: created -> Abs.count_free g im' + 1 = Abs.count_free g im; removed an empty directory with
   chain l -> Abs.count_free g im' = Abs.count_free g im + length l; missing: the frame of the three entry writes against the FAT copies,
   which VolDirProofs.put_root_slots_changes / VolChainDirProofs.put_chain_slots_changes provide byte-wise).  PROVED on the concrete
   volume: 60 -> 59 with the directory, no issue before or after (and 60 again after remove: C01_vol_create_then_remove_dir_partial) *)
Theorem C05_vol_dir_accounting_partial :
  Abs.count_free ex_g ex_vol_im = 60 /\ Abs.count_free ex_g ex_mk_im = 59 /\
  Wf.wf_issues (fun l => l) ex_vol_im = [] /\ Wf.wf_issues (fun l => l) ex_mk_im = [].
Proof. exact ex_mkdir_accounting. Qed.

Print Assumptions C05_vol_alloc_new_cluster_accounting.
Print Assumptions C05_vol_dir_accounting_partial.

(* remove of an EMPTY DIRECTORY of the fixed root reclaims its whole chain (the image-level C05 clause, PROVED IN GENERAL): the name
   resolves to a directory entry with chain l (distinct clusters) that is empty for the code; then remove succeeds, every cluster of
   l was allocated and is free afterwards, no other FAT entry changes, count_free grows by exactly length l, nothing changes outside
   the FAT copies and the root region, the latch is map_free (+ length l), consistent with the new table.
   (Premises satisfiable: Proofs/VolDirTreeExamples.ex_rmdir_hyps.) *)
Theorem C05_vol_remove_dir_reclaims_all : forall upper oem im fi name ev l,
  let g := parse_geom im in
  fixed_root_geom g -> FatProofs.bytes_ok im -> fi_inv fstore (val_ft (ft_of g)) (store_of g im) fi (g_clusters g) ->
  root_lookup upper oem im name = Ok ev -> Lfn.ev_is_dir ev = true -> is_special ev = false ->
  root_entry_cluster ev <> 0 -> chain_from g im (root_entry_cluster ev) (Abs.chain_fuel g) = Some l -> NoDup l ->
  dir_is_empty oem g im l = Ok true ->
  exists im',
    vol_remove_dir_root upper oem im fi name = Some (Ok tt, im', map_free fi (fun n => n + N.of_nat (length l))) /\
    (forall x, In x l -> 2 <= x < g_clusters g + 2 /\ fat_val g im x <> FFree /\ fat_val g im' x = FFree) /\
    (forall x, 2 <= x < g_clusters g + 2 -> ~ In x l -> fat_val g im' x = fat_val g im x) /\
    Abs.count_free g im' = Abs.count_free g im + N.of_nat (length l) /\
    (forall o, ~ in_store_area g o -> (o < g_root_off g \/ g_root_off g + root_bytes g <= o) -> img_get im' o = img_get im o) /\
    fi_inv fstore (val_ft (ft_of g)) (store_of g im') (map_free fi (fun n => n + N.of_nat (length l))) (g_clusters g).
Proof. exact vol_remove_dir_empty_reclaims. Qed.

Print Assumptions C05_vol_remove_dir_reclaims_all.
