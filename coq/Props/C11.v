(* C11 - writes stay inside the volume and inside what the operation may change.
   Proved at the layers that compute device offsets; the per-operation footprint on the implementation is
   classified by the extracted Spec/Regions.v (tools/props/c11.py). *)
From Coq Require Import NArith List.
From FatVerif Require Import Model.Base Model.Table Model.Fat Model.Offsets Spec.Image Spec.Abs Spec.Regions
  Proofs.ImageProofs Proofs.FatProofs Proofs.OffsetsProofs Proofs.CrossProofs Proofs.RegionsProofs.
Open Scope N_scope.

Theorem C11_write_frame : forall bs im off o,
  (o < off \/ off + N.of_nat (length bs) <= o) -> img_get (img_write im off bs) o = img_get im o.
Proof. exact img_write_outside. Qed.

(* a table update (any width, any number of mirrored copies) changes no byte outside the FAT copies *)
Theorem C11_table_update_inside_fat_copies : forall ft s c v s' a,
  okc_ft ft s c -> fat_set ft s c v = Ok s' ->
  (a < fs_base s \/ fs_base s + N.of_nat (fs_mirrors s) * fs_size s <= a) ->
  img_get (fs_img s') a = img_get (fs_img s) a.
Proof. exact fat_update_inside_fat_copies. Qed.

(* with mirroring disabled the store is the active copy alone: nothing outside that entry's bytes changes *)
Theorem C11_single_copy_update_confined : forall ft s c v s' a, okc_ft ft s c -> fat_set ft s c v = Ok s' ->
  fs_mirrors s = 1%nat ->
  (a < fs_base s + entry_off ft c \/ fs_base s + entry_off ft c + entry_len ft <= a) ->
  img_get (fs_img s') a = img_get (fs_img s) a.
Proof.
  exact (fun ft s c v s' a Hc E => single_copy_frame s s' (entry_off ft c) (entry_len ft) a (fat_set_mirrored ft s c v s' Hc E)).
Qed.

(* data: every cluster of an accepted volume lies completely inside the declared volume, without address wrap-around *)
Theorem C11_cluster_inside_volume : forall g c, ogeom_ok g -> 2 <= c < o_clusters g + 2 ->
  exists off, offset_from_cluster g c = Ok off /\
    off = (o_first_data g + (c - 2) * o_spc g) * o_bps g /\
    off + cluster_size g <= o_total_sectors g * o_bps g /\
    off + cluster_size g <= 4294967295 * 4096.
Proof. exact offset_arith_exact. Qed.

(* ---- the classifier that names the structure of every device write of the implementation (Spec/Regions.v, extracted,
   tools/props/c11.py) is sound and complete for the layout, for every geometry with non-zero sector and cluster sizes
   whose data area starts inside the declared volume (every mounted volume: C07_mount_ok_coherent) *)
(* a byte is classified "cluster c" exactly when it lies in the byte range of data cluster c *)
Theorem C11_classify_cluster_complete : forall g im m c i, geom_sane g -> 2 <= c < g_clusters g + 2 -> i < g_cluster_size g ->
  classify g im m (g_cluster_off g c + i) = RCluster c (cluster_owner g im m c).
Proof. exact classify_cluster_bytes. Qed.
Theorem C11_classify_cluster_sound : forall g im m off c o, geom_sane g -> classify g im m off = RCluster c o ->
  2 <= c < g_clusters g + 2 /\ g_cluster_off g c <= off < g_cluster_off g c + g_cluster_size g /\
  off < g_volume_bytes g /\ o = cluster_owner g im m c.
Proof. exact classify_cluster_inv. Qed.
(* and that is the offset at which the library addresses cluster c (u32 sector arithmetic of fs.rs, no wrap) *)
Theorem C11_library_cluster_offset_classified : forall g im m c i,
  ogeom_ok (ogeom_of g) -> g_first_data g <= g_total_sectors g -> 2 <= c < g_clusters g + 2 -> i < g_cluster_size g ->
  exists off, offset_from_cluster (ogeom_of g) c = Ok off /\
    classify g im m (off + i) = RCluster c (cluster_owner g im m c).
Proof. exact library_cluster_offset_classified. Qed.
(* FAT copy k, the fixed root, the outside *)
Theorem C11_classify_fat_complete : forall g im m k j, geom_sane g -> k < g_fats g -> j < g_fat_bytes g ->
  classify g im m (g_fat_off g k + j) = RFat k.
Proof. exact classify_fat_bytes. Qed.
Theorem C11_classify_fat_sound : forall g im m off k, geom_sane g -> classify g im m off = RFat k ->
  0 < g_fat_bytes g -> k < g_fats g /\ g_fat_off g k <= off < g_fat_off g k + g_fat_bytes g.
Proof. exact classify_fat_inv. Qed.
Theorem C11_classify_root_complete : forall g im m j, geom_sane g -> j < g_root_sectors g * g_bps g ->
  classify g im m (g_root_off g + j) = RRoot.
Proof. exact classify_root_bytes. Qed.
Theorem C11_classify_outside_iff : forall g im m off, g_volume_bytes g <= off <-> classify g im m off = ROutside.
Proof. exact classify_outside. Qed.

(* non-vacuity: the smallest test volume (64 sectors of 512 bytes, 1 reserved, 2 FATs of 1 sector, 16 root entries) *)
Example C11_geom_example :
  let g := {| g_bps := 512; g_spc := 1; g_reserved := 1; g_fats := 2; g_root_entries := 16; g_total_sectors := 64;
              g_spf := 1; g_ext_flags := 0; g_root_cluster := 0; g_fsinfo_sector := 0; g_backup_sector := 0; g_media := 248 |} in
  geom_sane g /\ g_clusters g = 60 /\ ogeom_ok (ogeom_of g) /\
  classify g (img_empty 0) (FMapPositive.PositiveMap.empty owner) (g_cluster_off g 61 + 511) = RCluster 61 OFree /\
  classify g (img_empty 0) (FMapPositive.PositiveMap.empty owner) (512 + 512 + 5) = RFat 1 /\
  classify g (img_empty 0) (FMapPositive.PositiveMap.empty owner) (64 * 512) = ROutside.
Proof. vm_compute. repeat split; try discriminate; try reflexivity; intros C; discriminate C. Qed.

Print Assumptions C11_write_frame.
Print Assumptions C11_table_update_inside_fat_copies.
Print Assumptions C11_single_copy_update_confined.
Print Assumptions C11_cluster_inside_volume.
Print Assumptions C11_classify_cluster_complete.
Print Assumptions C11_classify_cluster_sound.
Print Assumptions C11_library_cluster_offset_classified.
Print Assumptions C11_classify_fat_complete.
Print Assumptions C11_classify_fat_sound.
Print Assumptions C11_classify_root_complete.
Print Assumptions C11_classify_outside_iff.

(* ================================================================================================================
   WHOLE IMAGES (FAT12/16, fixed root: [fixed_root_geom]): "every device write of an operation lands inside the volume's own
   structures", after every API call and over whole runs (Proofs/VolFrameProofs.v).

   Vocabulary.
     touchable g im0 own x    = cluster x is FREE for the independent decoder in im0 (fat_val g im0 x = FFree) or x is in [own]
     Touch g im0 own status im = (a) every cluster that is not touchable keeps its FAT value (decoder's view);
                                (b) a byte that is not the status byte, not in the mirrored FAT copies ([in_store_area]), not in
                                    the root region and not in a touchable cluster is the byte of im0;
                                (c) status = false -> the status byte is the byte of im0.
     FatKept g im0 im          = (all FAT copies equal in im0 -> all equal in im) /\ the bytes of FAT entries 0 and 1 of every
                                copy are those of im0                                           (C10; Props/C10.v)
     Confined g im0 own status im = Touch g im0 own status im /\ FatKept g im0 im.
   [im0] is the image BEFORE the call or the run, [own] the chain(s), as of im0, of the file(s) / directory operated on, [status]
   says whether the operation is one of the mounted ones (Model/VolStatus.v) that may write the status byte.
   C11_vol_confined_means spells [Confined] out through the EXTRACTED classifier Spec/Regions.classify applied to im0: a byte
   that differs is classified status byte / FAT copy k / root region / data cluster c with c free in im0 or in [own]; never boot
   sector, FS-info, tail or outside; plus the byte-level consequences.  Every theorem below concludes [Confined]. *)

From Coq Require Import FMapPositive.
From FatVerif Require Import Spec.Abs Spec.Regions Model.Str Model.Slot Model.Time Model.FileM Model.Name Model.ShortName Model.DirSlots Model.Flags
  Model.VolDir Model.VolChainDir Model.VolFile Model.FlushM Model.VolSession Model.VolSession2 Model.VolRemove Model.VolStatus
  Spec.ByteFile Proofs.TableProofs Proofs.FileProofs Proofs.DirSlotsProofs Proofs.VolDirProofs Proofs.VolDirFormat
  Proofs.VolFileProofs Proofs.VolSessionProofs Proofs.VolSession2Proofs Proofs.VolRemoveProofs Proofs.VolStatusProofs
  Proofs.VolChainDirProofs Proofs.VolSessionExamples Proofs.VolSession2Examples Proofs.VolRemoveExamples
  Proofs.VolStatusExamples Proofs.VolFrameProofs Proofs.VolFrameExamples.
From FatVerif Require Spec.Wf Model.Lfn Proofs.TimeProofs.
Import ListNotations.

Theorem C11_vol_confined_means :
    forall (g : geom) (im0 : image) (own : list N) (status : bool) (im : image),
    fixed_root_geom g ->
    Confined g im0 own status im ->
    (forall (m : PositiveMap.t owner) (o : N),
     img_get im o <> img_get im0 o ->
     match classify g im0 m o with
     | RStatus => status = true
     | RFat k => k < g_fats g
     | RRoot => True
     | RCluster c _ => 2 <= c < g_clusters g + 2 /\ (fat_val g im0 c = FFree \/ In c own)
     | _ => False
     end) /\
    (forall o : N, g_volume_bytes g <= o -> img_get im o = img_get im0 o) /\
    (forall o : N, o < g_reserved g * g_bps g -> o <> g_status_off g -> img_get im o = img_get im0 o) /\
    (status = false -> img_get im (g_status_off g) = img_get im0 (g_status_off g)) /\
    (forall c o : N,
     2 <= c < g_clusters g + 2 ->
     in_cluster g c o -> fat_val g im0 c <> FFree -> ~ In c own -> img_get im o = img_get im0 o) /\
    (forall (o : N) (m : PositiveMap.t owner), classify g im0 m o = RTail -> img_get im o = img_get im0 o) /\
    (forall x : N,
     2 <= x < g_clusters g + 2 -> fat_val g im0 x <> FFree -> ~ In x own -> fat_val g im x = fat_val g im0 x) /\
    (fat_copies_equal g im0 = true -> fat_copies_equal g im = true) /\ reserved_kept g im0 im.
Proof. exact confined_means. Qed.

(* ... and with the judge's OWN ownership map of the image before (Regions.owners (abs im0)): a changed data byte lies in a cluster
   that map calls FREE, or in a cluster of [own] *)
Theorem C11_vol_confined_classified_by_owner_map :
    forall (g : geom) (im0 : image) (own : list N) (status : bool) (im : image),
    fixed_root_geom g ->
    parse_geom im0 = g ->
    Confined g im0 own status im ->
    forall o : N,
    img_get im o <> img_get im0 o ->
    match classify g im0 (owners (abs im0)) o with
    | RStatus => status = true
    | RFat k => k < g_fats g
    | RRoot => True
    | RCluster c ow => 2 <= c < g_clusters g + 2 /\ (ow = OFree /\ fat_val g im0 c = FFree \/ In c own)
    | _ => False
    end.
Proof. exact confined_classified_owner. Qed.

(* (the ownership map never names a cluster that is free for the decoder: any image, any width) *)
Theorem C11_vol_owner_map_free_cluster :
    forall (im : image) (c : N),
    fat_val (parse_geom im) im c = FFree -> cluster_owner (parse_geom im) im (owners (abs im)) c = OFree.
Proof. exact free_cluster_owner. Qed.

(* COMPOSITION: a step from [im] that touches [own'] - all of it touchable from im0 - after a run from im0.  This is what lifts the
   per-call theorems to runs with the classification still taken against the image before the RUN *)
Theorem C11_vol_confined_transitive :
    forall (g : geom) (im0 : image) (own : list N) (status : bool) (im : image) (own' : list N) 
      (status' : bool) (im' : image),
    Confined g im0 own status im ->
    Confined g im own' status' im' ->
    (forall x : N, In x own' -> touchable g im0 own x) ->
    (status' = true -> status = true) -> Confined g im0 own status im'.
Proof. exact confined_step. Qed.

(* ---------------------------------------------------------------- every operation of the image-level models *)
(* root_dir().create_file / remove (file without clusters) / rename of a file - EVERY outcome, no premise but the geometry *)
Theorem C11_vol_create_confined :
    forall (upper : N -> list N) (oem : N -> N) (im : image) (name : str) (now : datetime)
      (r : res (option (N * N))) (im' : image),
    fixed_root_geom (parse_geom im) ->
    vol_create_empty_file_root upper oem im name now = (r, im') -> Confined (parse_geom im) im [] false im'.
Proof. exact vol_create_confined2. Qed.

Theorem C11_vol_remove_empty_confined :
    forall (upper : N -> list N) (oem : N -> N) (im : image) (name : str) (r : res unit) (im' : image),
    fixed_root_geom (parse_geom im) ->
    vol_remove_empty_file_root upper oem im name = Some (r, im') -> Confined (parse_geom im) im [] false im'.
Proof. exact vol_remove_empty_confined. Qed.

Theorem C11_vol_rename_confined :
    forall (upper : N -> list N) (oem : N -> N) (im : image) (src dst : str) (r : res unit) (im' : image),
    fixed_root_geom (parse_geom im) ->
    vol_rename_in_root upper oem im src dst = Some (r, im') -> Confined (parse_geom im) im [] false im'.
Proof. exact vol_rename_confined2. Qed.

(* the same, mounted (Model/VolStatus.v): the status byte may be written *)
Theorem C11_vol_create_mounted_confined :
    forall (upper : N -> list N) (oem : N -> N) (im : image) (s : fstat) (name : str) 
      (now : datetime) (r : res (option (N * N))) (im' : image) (s' : fstat),
    fixed_root_geom (parse_geom im) ->
    StatInv (parse_geom im) im s ->
    vols_create_empty_file_root upper oem im s name now = (r, im', s') ->
    Confined (parse_geom im) im [] true im' /\ StatInv (parse_geom im) im' s'.
Proof. exact vols_create_confined. Qed.

Theorem C11_vol_remove_empty_mounted_confined :
    forall (upper : N -> list N) (oem : N -> N) (im : image) (s : fstat) (name : str) 
      (r : res unit) (im' : image) (s' : fstat),
    fixed_root_geom (parse_geom im) ->
    StatInv (parse_geom im) im s ->
    vols_remove_empty_file_root upper oem im s name = Some (r, im', s') ->
    Confined (parse_geom im) im [] true im' /\ StatInv (parse_geom im) im' s'.
Proof. exact vols_remove_empty_confined. Qed.

Theorem C11_vol_rename_mounted_confined :
    forall (upper : N -> list N) (oem : N -> N) (im : image) (s : fstat) (src dst : str) 
      (r : res unit) (im' : image) (s' : fstat),
    fixed_root_geom (parse_geom im) ->
    StatInv (parse_geom im) im s ->
    vols_rename_in_root upper oem im s src dst = Some (r, im', s') ->
    Confined (parse_geom im) im [] true im' /\ StatInv (parse_geom im) im' s'.
Proof. exact vols_rename_confined. Qed.

(* File::{read,write,seek,truncate} on a handle with chain [l]: the FAT copies and clusters that were free or in [l] *)
Theorem C11_vol_file_step_confined :
    forall g : geom,
    fixed_root_geom g ->
    forall (im : image) (fi : fsinfo) (h : fhandle) (sz : N) (l : list N) (op : fop),
    op_ok op ->
    VolInv g im fi h sz l ->
    exists (im' : image) (fi' : fsinfo) (h' : fhandle) (r : fresult) (sz' : N) (l' : list N),
      vol_step g (im, fi, h) op = (im', fi', h', r) /\
      VolInv g im' fi' h' sz' l' /\
      OpFrame g im im' l l' /\ Confined g im l false im' /\ (forall x : N, In x l' -> touchable g im l x).
Proof. exact vol_step_confined. Qed.

Theorem C11_vol_file_step_mounted_confined :
    forall g : geom,
    fixed_root_geom g ->
    forall (im : image) (fi : fsinfo) (h : fhandle) (sz : N) (l : list N) (s : fstat) (op : fop),
    op_ok op ->
    VolInv g im fi h sz l ->
    StatInv g im s ->
    exists (im' : image) (fi' : fsinfo) (h' : fhandle) (s' : fstat) (r : fresult) (sz' : N) 
    (l' : list N),
      vols_step g (im, fi, h) s op = (im', fi', h', s', r) /\
      VolInv g im' fi' h' sz' l' /\
      StatInv g im' s' /\
      Confined g im l true im' /\
      (forall x : N, In x l' -> touchable g im l x) /\ (forall x : N, In x l' -> 2 <= x < g_clusters g + 2).
Proof. exact vols_step_confined. Qed.

(* root_dir().remove of a file that owns the chain [l] (premises of C05_vol_remove_reclaims_all): FAT copies and root region *)
Theorem C11_vol_remove_file_confined :
    forall (upper : N -> list N) (oem : N -> N) (fold : list N -> list N) (im : image) 
      (fi : fsinfo) (name : str) (ev : Lfn.entry_view),
    let g := parse_geom im in
    fixed_root_geom g ->
    FatProofs.bytes_ok im ->
    fi_inv fstore (val_ft (ft_of g)) (store_of g im) fi (g_clusters g) ->
    Wf.wf_issues fold im = [] ->
    Forall attrs_sane (root_region_slots g im) ->
    root_lookup upper oem im name = Ok ev ->
    Lfn.ev_is_dir ev = false ->
    list_eqb (Lfn.ev_raw_name ev) DOT || list_eqb (Lfn.ev_raw_name ev) DOTDOT = false ->
    exists (im' : image) (fi' : fsinfo) (l : list N),
      vol_remove_file_root upper oem im fi name = Some (Ok tt, im', fi') /\
      (Lfn.ev_cluster_lo ev = 0 -> l = []) /\
      (Lfn.ev_cluster_lo ev <> 0 -> chain_from g im (Lfn.ev_cluster_lo ev) (Abs.chain_fuel g) = Some l) /\
      Confined g im l false im'.
Proof. exact vol_remove_file_confined. Qed.

Theorem C11_vol_remove_file_failed_confined :
    forall (upper : N -> list N) (oem : N -> N) (im : image) (fi : fsinfo) (name : str) 
      (r : res unit) (im' : image) (fi' : fsinfo) (own : list N),
    vol_remove_file_root upper oem im fi name = Some (r, im', fi') ->
    r <> Ok tt -> Confined (parse_geom im) im own false im'.
Proof. exact vol_remove_file_failed_confined. Qed.

Theorem C11_vol_remove_file_mounted_confined :
    forall (upper : N -> list N) (oem : N -> N) (fold : list N -> list N) (im : image) 
      (fi : fsinfo) (s : fstat) (name : str) (ev : Lfn.entry_view),
    let g := parse_geom im in
    fixed_root_geom g ->
    FatProofs.bytes_ok im ->
    fi_inv fstore (val_ft (ft_of g)) (store_of g im) fi (g_clusters g) ->
    Wf.wf_issues fold im = [] ->
    Forall attrs_sane (root_region_slots g im) ->
    root_lookup upper oem im name = Ok ev ->
    Lfn.ev_is_dir ev = false ->
    list_eqb (Lfn.ev_raw_name ev) DOT || list_eqb (Lfn.ev_raw_name ev) DOTDOT = false ->
    StatInv g im s ->
    exists (im' : image) (fi' : fsinfo) (s' : fstat) (l : list N),
      vols_remove_file_root upper oem im fi s name = Some (Ok tt, im', fi', s') /\
      (Lfn.ev_cluster_lo ev = 0 -> l = []) /\
      (Lfn.ev_cluster_lo ev <> 0 -> chain_from g im (Lfn.ev_cluster_lo ev) (Abs.chain_fuel g) = Some l) /\
      Confined g im l true im' /\ StatInv g im' s'.
Proof. exact vols_remove_file_confined. Qed.

(* create / remove / rename inside a chain-backed directory with chain [l] (Model/VolChainDir.v): clusters of that directory *)
Theorem C11_volchain_create_confined :
    forall (upper : N -> list N) (oem : N -> N) (im : image) (l : list N) (name : str) 
      (now : datetime) (r : res (option (N * N))) (im' : image),
    chain_geom (parse_geom im) ->
    chain_ok (parse_geom im) l ->
    vol_create_empty_file_chain upper oem im l name now = Some (r, im') -> Confined (parse_geom im) im l false im'.
Proof. exact vol_chain_create_confined2. Qed.

Theorem C11_volchain_remove_confined :
    forall (upper : N -> list N) (oem : N -> N) (im : image) (l : list N) (name : str) 
      (r : res unit) (im' : image),
    chain_geom (parse_geom im) ->
    chain_ok (parse_geom im) l ->
    vol_remove_empty_file_chain upper oem im l name = Some (r, im') -> Confined (parse_geom im) im l false im'.
Proof. exact vol_chain_remove_confined2. Qed.

Theorem C11_volchain_rename_confined :
    forall (upper : N -> list N) (oem : N -> N) (im : image) (l : list N) (src dst : str) 
      (r : res unit) (im' : image),
    chain_geom (parse_geom im) ->
    chain_ok (parse_geom im) l ->
    vol_rename_in_chain upper oem im l src dst = Some (r, im') -> Confined (parse_geom im) im l false im'.
Proof. exact vol_chain_rename_confined2. Qed.

(* File::flush / drop (the entry write-back), set_dirty_flag, unmount, create_file with its handle *)
Theorem C11_vol_flush_confined :
    forall g : geom,
    fixed_root_geom g ->
    forall st : sstate,
    (N.to_nat (en_slot (s_en st)) < root_slot_count g)%nat ->
    length (se_name (en_data (s_en st))) = 11%nat -> Confined g (s_im st) [] false (s_im (vol_flush_entry g st)).
Proof. exact vol_flush_confined. Qed.

Theorem C11_vol_flush_mounted_confined :
    forall g : geom,
    fixed_root_geom g ->
    forall (st : sstate) (s : fstat),
    (N.to_nat (en_slot (s_en st)) < root_slot_count g)%nat ->
    length (se_name (en_data (s_en st))) = 11%nat ->
    Confined g (s_im st) [] false (s_im (fst (sesss_flush g st s))) /\ snd (sesss_flush g st s) = s.
Proof. exact sesss_flush_confined. Qed.

Theorem C11_vol_set_dirty_flag_confined :
    forall g : geom,
    fixed_root_geom g ->
    forall (im : image) (s : fstat) (d : bool),
    StatInv g im s ->
    Confined g im [] true (fst (vol_set_dirty_flag g im s d)) /\
    StatInv g (fst (vol_set_dirty_flag g im s d)) (snd (vol_set_dirty_flag g im s d)).
Proof. exact set_dirty_flag_confined. Qed.

Theorem C11_vol_unmount_confined :
    forall g : geom,
    fixed_root_geom g ->
    forall (im : image) (s : fstat), StatInv g im s -> Confined g im [] true (fst (vol_unmount g im s)).
Proof. exact unmount_confined. Qed.

Theorem C11_vol_create_handle_confined :
    forall g : geom,
    fixed_root_geom g ->
    forall (upper : N -> list N) (oem : N -> N) (im : image) (fi : fsinfo) (name : str) 
      (now : datetime) (st : sstate),
    parse_geom im = g -> sess_create upper oem im fi name now = Some st -> Confined g im [] false (s_im st).
Proof. exact sess_create_confined. Qed.

Theorem C11_vol_create_handle_mounted_confined :
    forall g : geom,
    fixed_root_geom g ->
    forall (upper : N -> list N) (oem : N -> N) (im : image) (fi : fsinfo) (s : fstat) 
      (name : str) (now : datetime) (st : sstate) (s' : fstat),
    parse_geom im = g ->
    StatInv g im s ->
    sesss_create upper oem im fi s name now = Some (st, s') ->
    Confined g im [] true (s_im st) /\ StatInv g (s_im st) s'.
Proof. exact sesss_create_confined. Qed.

(* ---------------------------------------------------------------- WHOLE RUNS, classified against the image before the run *)
(* any history of calls on one handle *)
Theorem C11_vol_file_run_confined :
    forall g : geom,
    fixed_root_geom g ->
    forall (ops : list fop) (im : image) (fi : fsinfo) (h : fhandle) (sz : N) (l : list N),
    Forall op_ok ops ->
    VolInv g im fi h sz l ->
    exists (im' : image) (fi' : fsinfo) (h' : fhandle) (rs : list fresult) (sz' : N) (l' : list N),
      vol_run g (im, fi, h) ops = (im', fi', h', rs) /\
      VolInv g im' fi' h' sz' l' /\ Confined g im l false im' /\ (forall x : N, In x l' -> touchable g im l x).
Proof. exact vol_run_confined. Qed.

Theorem C11_vol_file_run_mounted_confined :
    forall g : geom,
    fixed_root_geom g ->
    forall (ops : list fop) (im : image) (fi : fsinfo) (h : fhandle) (sz : N) (l : list N) (s : fstat),
    Forall op_ok ops ->
    VolInv g im fi h sz l ->
    StatInv g im s ->
    exists (im' : image) (fi' : fsinfo) (h' : fhandle) (s' : fstat) (rs : list fresult) 
    (sz' : N) (l' : list N),
      vols_run g (im, fi, h) s ops = (im', fi', h', s', rs) /\
      VolInv g im' fi' h' sz' l' /\
      StatInv g im' s' /\ Confined g im l true im' /\ (forall x : N, In x l' -> touchable g im l x).
Proof. exact vols_run_confined. Qed.

(* the same with the time stamps of the handle's editor (Model/VolSession.v) *)
Theorem C11_vol_session_run_confined :
    forall g : geom,
    fixed_root_geom g ->
    forall (acc : bool) (ops : list (fop * datetime)) (st st' : sstate) (rs : list fresult) (sz : N) (l : list N),
    Forall op_ok (map fst ops) ->
    clocks_ok ops ->
    VolInv g (s_im st) (s_fi st) (s_h st) sz l ->
    sess_run g acc st ops = (st', rs) ->
    exists (sz' : N) (l' : list N),
      VolInv g (s_im st') (s_fi st') (s_h st') sz' l' /\
      Confined g (s_im st) l false (s_im st') /\ (forall x : N, In x l' -> touchable g (s_im st) l x).
Proof. exact sess_run_confined. Qed.

Theorem C11_vol_session_run_mounted_confined :
    forall g : geom,
    fixed_root_geom g ->
    forall (acc : bool) (ops : list (fop * datetime)) (st : sstate) (s : fstat) (st' : sstate) 
      (s' : fstat) (rs : list fresult) (sz : N) (l : list N),
    Forall op_ok (map fst ops) ->
    clocks_ok ops ->
    VolInv g (s_im st) (s_fi st) (s_h st) sz l ->
    StatInv g (s_im st) s ->
    sesss_run g acc st s ops = (st', s', rs) ->
    exists (sz' : N) (l' : list N),
      VolInv g (s_im st') (s_fi st') (s_h st') sz' l' /\
      StatInv g (s_im st') s' /\
      Confined g (s_im st) l true (s_im st') /\ (forall x : N, In x l' -> touchable g (s_im st) l x).
Proof. exact sesss_run_confined. Qed.

(* create_file ; any calls ; flush - the one-file session of Model/VolSession.v: clusters that were free, FAT copies, root region *)
Theorem C11_vol_session_confined :
    forall g : geom,
    fixed_root_geom g ->
    forall (upper : N -> list N) (oem : N -> N) (acc : bool) (im : image) (fi : fsinfo) 
      (name : str) (now : datetime) (ops : list (fop * datetime)) (st : sstate) (rs : list fresult),
    parse_geom im = g ->
    FatProofs.bytes_ok im ->
    fi_inv fstore (val_ft (ft_of g)) (store_of g im) fi (g_clusters g) ->
    v_root_issues (abs im) = [] ->
    TimeProofs.datetime_valid now = true ->
    Forall op_ok (map fst ops) ->
    clocks_ok ops ->
    vol_session upper oem acc im fi name now ops = Some (st, rs) -> Confined g im [] false (s_im st).
Proof. exact vol_session_confined. Qed.

(* any interleaving of calls on any number of handles (file layer alone) *)
Theorem C11_vol_multi_run_confined :
    forall g : geom,
    fixed_root_geom g ->
    forall (ops : list (nat * fop)) (im : image) (fi : fsinfo) (hs : list fhandle) (gs : list (N * list N)),
    Forall (fun io : nat * fop => op_ok (snd io)) ops ->
    MVolInv g im fi hs gs ->
    exists (im' : image) (fi' : fsinfo) (hs' : list fhandle) (rs : list fresult) (gs' : list (N * list N)),
      mvol_run g (im, fi, hs) ops = (im', fi', hs', rs) /\
      MVolInv g im' fi' hs' gs' /\ Confined g im (concat (map snd gs)) false im'.
Proof. exact mvol_run_confined. Qed.

(* several files per session (Model/VolSession2.v): one call / flush / drop, inside a run that started from im0 *)
Theorem C11_session2_step_confined :
    forall g : geom,
    fixed_root_geom g ->
    forall (acc : bool) (im0 : image) (own : list N) (st : s2state) (gs : list ghost) 
      (es : list entry) (ls : list (list N)) (op : s2op),
    s2op_ok op ->
    Sess2Inv g st gs es ls ->
    Confined g im0 own false (s2_im st) ->
    chains_touchable g im0 own gs ->
    exists (gs' : list ghost) (es' : list entry),
      Sess2Inv g (fst (s2_step g acc st op)) gs' es' ls /\
      Confined g im0 own false (s2_im (fst (s2_step g acc st op))) /\ chains_touchable g im0 own gs'.
Proof. exact s2_step_confined. Qed.

(* any run from any state of a session: the chains the handles have now, clusters free now, FAT copies, root region *)
Theorem C11_session2_run_confined :
    forall g : geom,
    fixed_root_geom g ->
    forall (acc : bool) (ops : list s2op) (st : s2state) (gs : list ghost) (es : list entry) (ls : list (list N)),
    Forall s2op_ok ops ->
    Sess2Inv g st gs es ls ->
    exists (gs' : list ghost) (es' : list entry),
      Sess2Inv g (fst (s2_run g acc st ops)) gs' es' ls /\
      Confined g (s2_im st) (concat (map gh_l gs)) false (s2_im (fst (s2_run g acc st ops))).
Proof. exact s2_run_confined. Qed.

(* ... after EVERY call of the run *)
Theorem C11_session2_every_call_confined :
    forall g : geom,
    fixed_root_geom g ->
    forall (acc : bool) (ops : list s2op) (st : s2state) (gs : list ghost) (es : list entry) 
      (ls : list (list N)) (n : nat),
    Forall s2op_ok ops ->
    Sess2Inv g st gs es ls ->
    Confined g (s2_im st) (concat (map gh_l gs)) false (s2_im (fst (s2_run g acc st (firstn n ops)))).
Proof. exact s2_run_confined_every_call. Qed.

Theorem C11_session2_create_confined :
    forall g : geom,
    fixed_root_geom g ->
    forall (upper : N -> list N) (oem : N -> N) (im0 : image) (own : list N) (st : s2state) 
      (gs : list ghost) (es : list entry) (ls : list (list N)) (name : str) (now : datetime) 
      (st' : s2state),
    TimeProofs.datetime_valid now = true ->
    Sess2Inv g st gs es ls ->
    Confined g im0 own false (s2_im st) ->
    chains_touchable g im0 own gs ->
    s2_create upper oem st name now = Some st' ->
    exists (gs' : list ghost) (es' : list entry),
      Sess2Inv g st' gs' es' ls /\ Confined g im0 own false (s2_im st') /\ chains_touchable g im0 own gs'.
Proof. exact s2_create_confined. Qed.

Theorem C11_session2_creates_confined :
    forall g : geom,
    fixed_root_geom g ->
    forall (upper : N -> list N) (oem : N -> N) (im0 : image) (own : list N) (reqs : list (str * datetime))
      (st : s2state) (gs : list ghost) (es : list entry) (ls : list (list N)) (st' : s2state),
    Forall (fun q : str * datetime => TimeProofs.datetime_valid (snd q) = true) reqs ->
    Sess2Inv g st gs es ls ->
    Confined g im0 own false (s2_im st) ->
    chains_touchable g im0 own gs ->
    s2_creates upper oem st reqs = Some st' ->
    exists (gs' : list ghost) (es' : list entry),
      Sess2Inv g st' gs' es' ls /\ Confined g im0 own false (s2_im st') /\ chains_touchable g im0 own gs'.
Proof. exact s2_creates_confined. Qed.

(* THE WHOLE SESSION from mount: create_file k times ; any steps - every data cluster written was FREE before the session *)
Theorem C11_session2_confined :
    forall g : geom,
    fixed_root_geom g ->
    forall (acc : bool) (upper : N -> list N) (oem : N -> N) (im : image) (fi : fsinfo)
      (reqs : list (str * datetime)) (ops : list s2op) (st : s2state) (rs : list fresult),
    parse_geom im = g ->
    FatProofs.bytes_ok im ->
    fi_inv fstore (val_ft (ft_of g)) (store_of g im) fi (g_clusters g) ->
    v_root_issues (abs im) = [] ->
    Forall (fun q : str * datetime => TimeProofs.datetime_valid (snd q) = true) reqs ->
    Forall s2op_ok ops ->
    vol_session2 upper oem acc im fi reqs ops = Some (st, rs) -> Confined g im [] false (s2_im st).
Proof. exact vol_session2_confined. Qed.

(* ONE MOUNTED SESSION of Model/VolStatus.v: mount ; create_file ; any calls ; flush / drop ; unmount - after every stage *)
Theorem C11_vol_mounted_session_confined :
    forall g : geom,
    fixed_root_geom g ->
    forall (upper : N -> list N) (oem : N -> N) (acc : bool) (im : image) (fi : fsinfo) 
      (name : str) (now : datetime) (ops : list (fop * datetime)) (st1 : sstate) (s1 : fstat) 
      (st2 : sstate) (s2 : fstat) (rs : list fresult),
    parse_geom im = g ->
    FatProofs.bytes_ok im ->
    fi_inv fstore (val_ft (ft_of g)) (store_of g im) fi (g_clusters g) ->
    v_root_issues (abs im) = [] ->
    TimeProofs.datetime_valid now = true ->
    Forall op_ok (map fst ops) ->
    clocks_ok ops ->
    sesss_create upper oem im fi (vol_mount_status g im) name now = Some (st1, s1) ->
    sesss_run g acc st1 s1 ops = (st2, s2, rs) ->
    let st3 := fst (sesss_flush g st2 s2) in
    let im4 := fst (vol_unmount g (s_im st3) s2) in
    Confined g im [] true (s_im st1) /\
    Confined g im [] true (s_im st2) /\ Confined g im [] true (s_im st3) /\ Confined g im [] true im4.
Proof. exact mounted_session_confined. Qed.

(* ---------------------------------------------------------------- the 64-sector FAT12 image: hypotheses hold, and the classes the
   extracted classifier really returns for the bytes that differ (Proofs/VolFrameExamples.v) *)
Example C11_vol_example_session2_confined :
    Confined (parse_geom ex_vol_im) ex_vol_im [] false ex2_final.
Proof. exact exf_session2_confined. Qed.

Example C11_vol_example_session2_regions :
    changed_regions ex_vol_im ex2_final =
    [RFat 0; RFat 1; RRoot; RCluster 2 OFree; RCluster 3 OFree; RCluster 4 OFree; RCluster 5 OFree] /\
    length
      (changed_offs ex_vol_im ex2_final
         (Init.Nat.of_num_uint
            (Number.UIntDecimal (Decimal.D3 (Decimal.D5 (Decimal.D0 (Decimal.D0 (Decimal.D0 Decimal.Nil)))))))) =
    1133%nat /\
    fat_copies_equal (parse_geom ex_vol_im) ex_vol_im = true /\
    fat_copies_equal (parse_geom ex_vol_im) ex2_final = true /\
    img_read ex2_final 512 3 = img_read ex_vol_im 512 3 /\
    img_read ex2_final 1024 3 = img_read ex_vol_im 1024 3 /\
    g_volume_bytes (parse_geom ex_vol_im) = 32768 /\ reserved_len (ft_of (parse_geom ex_vol_im)) = 3.
Proof. exact exf_session2_regions. Qed.

Example C11_vol_example_session_confined :
    match vol_session ex_U ex_O false ex_vol_im ex_sfi ex_sname ex_vol_now ex_sops with
    | Some (st, _) => Confined (parse_geom ex_vol_im) ex_vol_im [] false (s_im st)
    | None => False
    end.
Proof. exact exf_session_confined. Qed.

Example C11_vol_example_open_files_confined :
    exists (gs : list ghost) (es : list entry) (ls : list (list N)),
      Sess2Inv (parse_geom ex_vol_im) exf_st1 gs es ls /\
      Forall s2op_ok exf_more /\
      map gh_l gs = [[2; 4]; [3; 5]] /\
      Confined (parse_geom ex_vol_im) (s2_im exf_st1) [2; 4; 3; 5] false
        (s2_im (fst (s2_run (parse_geom ex_vol_im) false exf_st1 exf_more))).
Proof. exact exf_open_files_confined. Qed.

Example C11_vol_example_open_files_regions :
    changed_regions (s2_im exf_st1) (s2_im (fst (s2_run (parse_geom ex_vol_im) false exf_st1 exf_more))) =
    [RFat 0; RFat 1; RRoot; RCluster 4 OUnowned; RCluster 6 OFree].
Proof. exact exf_open_files_regions. Qed.

Example C11_vol_example_mounted_confined :
    match exf_mounted ex_vol_im with
    | Some (a, b, c, d) =>
        Confined ex_g ex_vol_im [] true a /\
        Confined ex_g ex_vol_im [] true b /\
        Confined ex_g ex_vol_im [] true c /\ Confined ex_g ex_vol_im [] true d
    | None => False
    end.
Proof. exact exf_mounted_confined. Qed.

Example C11_vol_example_mounted_regions :
    match exf_mounted ex_vol_im with
    | Some (a, b, c, d) =>
        changed_regions ex_vol_im a = [RStatus; RRoot] /\
        changed_regions ex_vol_im b = [RStatus; RFat 0; RFat 1; RRoot; RCluster 2 OFree; RCluster 3 OFree] /\
        changed_regions ex_vol_im c = [RStatus; RFat 0; RFat 1; RRoot; RCluster 2 OFree; RCluster 3 OFree] /\
        changed_regions ex_vol_im d = [RFat 0; RFat 1; RRoot; RCluster 2 OFree; RCluster 3 OFree]
    | None => False
    end.
Proof. exact exf_mounted_regions. Qed.

Example C11_vol_example_existing_file_regions :
    match exf_over with
    | Some im1 =>
        changed_regions ex_rm_im im1 =
        [RStatus; RFat 0; RFat 1; RCluster 2 (OFile 2); RCluster 3 (OFile 2); RCluster 4 OFree]
    | None => False
    end /\
    match vol_remove_file_root ex_U ex_O ex_rm_im ex_rm_fi ex_sname with
    | Some (Ok _, im', _) => changed_regions ex_rm_im im' = [RFat 0; RFat 1; RRoot]
    | _ => False
    end.
Proof. exact exf_existing_file_regions. Qed.

Example C11_vol_example_remove_confined :
    exists (im' : image) (fi' : fsinfo) (l : list N),
      vol_remove_file_root ex_U ex_O ex_rm_im ex_rm_fi ex_sname = Some (Ok tt, im', fi') /\
      chain_from (parse_geom ex_rm_im) ex_rm_im 2 (Abs.chain_fuel (parse_geom ex_rm_im)) = Some l /\
      Confined (parse_geom ex_rm_im) ex_rm_im l false im'.
Proof. exact exf_remove_confined. Qed.

Print Assumptions C11_vol_confined_means.
Print Assumptions C11_vol_confined_classified_by_owner_map.
Print Assumptions C11_vol_owner_map_free_cluster.
Print Assumptions C11_vol_confined_transitive.
Print Assumptions C11_vol_create_confined.
Print Assumptions C11_vol_remove_empty_confined.
Print Assumptions C11_vol_rename_confined.
Print Assumptions C11_vol_create_mounted_confined.
Print Assumptions C11_vol_remove_empty_mounted_confined.
Print Assumptions C11_vol_rename_mounted_confined.
Print Assumptions C11_vol_file_step_confined.
Print Assumptions C11_vol_file_step_mounted_confined.
Print Assumptions C11_vol_remove_file_confined.
Print Assumptions C11_vol_remove_file_failed_confined.
Print Assumptions C11_vol_remove_file_mounted_confined.
Print Assumptions C11_volchain_create_confined.
Print Assumptions C11_volchain_remove_confined.
Print Assumptions C11_volchain_rename_confined.
Print Assumptions C11_vol_flush_confined.
Print Assumptions C11_vol_flush_mounted_confined.
Print Assumptions C11_vol_set_dirty_flag_confined.
Print Assumptions C11_vol_unmount_confined.
Print Assumptions C11_vol_create_handle_confined.
Print Assumptions C11_vol_create_handle_mounted_confined.
Print Assumptions C11_vol_file_run_confined.
Print Assumptions C11_vol_file_run_mounted_confined.
Print Assumptions C11_vol_session_run_confined.
Print Assumptions C11_vol_session_run_mounted_confined.
Print Assumptions C11_vol_session_confined.
Print Assumptions C11_vol_multi_run_confined.
Print Assumptions C11_session2_step_confined.
Print Assumptions C11_session2_run_confined.
Print Assumptions C11_session2_every_call_confined.
Print Assumptions C11_session2_create_confined.
Print Assumptions C11_session2_creates_confined.
Print Assumptions C11_session2_confined.
Print Assumptions C11_vol_mounted_session_confined.
Print Assumptions C11_vol_example_session2_confined.
Print Assumptions C11_vol_example_session2_regions.
Print Assumptions C11_vol_example_session_confined.
Print Assumptions C11_vol_example_open_files_confined.
Print Assumptions C11_vol_example_open_files_regions.
Print Assumptions C11_vol_example_mounted_confined.
Print Assumptions C11_vol_example_mounted_regions.
Print Assumptions C11_vol_example_existing_file_regions.
Print Assumptions C11_vol_example_remove_confined.
