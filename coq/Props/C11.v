(* C11 - writes stay inside the volume and inside what the operation may change.
   Proved at the layers that compute device offsets; the per-operation footprint on the implementation is
   classified by the extracted Spec/Regions.v (tools/props/c11.py). *)
From Coq Require Import NArith List.
From FatVerif Require Import Model.Base Model.Table Model.Fat Model.Offsets Spec.Image
  Proofs.ImageProofs Proofs.FatProofs Proofs.OffsetsProofs Proofs.CrossProofs.
Open Scope N_scope.

Theorem C11_write_frame : forall bs im off o,
  (o < off \/ off + N.of_nat (length bs) <= o) -> img_get (img_write im off bs) o = img_get im o.
Proof. exact img_write_outside. Qed.

(* a table update (any width, any number of mirrored copies) changes no byte outside the FAT copies *)
Theorem C11_table_update_inside_fat_copies : forall ft s c v s' a,
  okc_ft ft s c -> fat_set ft s c v = Ok s' ->
  (a < fs_base s \/ fs_base s + N.of_nat (fs_mirrors s) * fs_size s <= a) ->
  img_get (fs_img s') a = img_get (fs_img s) a.
Proof. exact fat_update_inside_fat_copies. Qed.

(* with mirroring disabled the store is the active copy alone: nothing outside that entry's bytes changes *)
Theorem C11_single_copy_update_confined : forall ft s c v s' a, okc_ft ft s c -> fat_set ft s c v = Ok s' ->
  fs_mirrors s = 1%nat ->
  (a < fs_base s + entry_off ft c \/ fs_base s + entry_off ft c + entry_len ft <= a) ->
  img_get (fs_img s') a = img_get (fs_img s) a.
Proof.
  exact (fun ft s c v s' a Hc E => single_copy_frame s s' (entry_off ft c) (entry_len ft) a (fat_set_mirrored ft s c v s' Hc E)).
Qed.

(* data: every cluster of an accepted volume lies completely inside the declared volume, without address wrap-around *)
Theorem C11_cluster_inside_volume : forall g c, ogeom_ok g -> 2 <= c < o_clusters g + 2 ->
  exists off, offset_from_cluster g c = Ok off /\
    off = (o_first_data g + (c - 2) * o_spc g) * o_bps g /\
    off + cluster_size g <= o_total_sectors g * o_bps g /\
    off + cluster_size g <= 4294967295 * 4096.
Proof. exact offset_arith_exact. Qed.

Print Assumptions C11_write_frame.
Print Assumptions C11_table_update_inside_fat_copies.
Print Assumptions C11_single_copy_update_confined.
Print Assumptions C11_cluster_inside_volume.
