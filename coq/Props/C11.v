(* C11 - writes stay inside the volume and inside what the operation may change.
   Proved at the layers that compute device offsets; the per-operation footprint on the implementation is
   classified by the extracted Spec/Regions.v (tools/props/c11.py). *)
From Coq Require Import NArith List.
From FatVerif Require Import Model.Base Model.Table Model.Fat Model.Offsets Spec.Image Spec.Abs Spec.Regions
  Proofs.ImageProofs Proofs.FatProofs Proofs.OffsetsProofs Proofs.CrossProofs Proofs.RegionsProofs.
Open Scope N_scope.

Theorem C11_write_frame : forall bs im off o,
  (o < off \/ off + N.of_nat (length bs) <= o) -> img_get (img_write im off bs) o = img_get im o.
Proof. exact img_write_outside. Qed.

(* a table update (any width, any number of mirrored copies) changes no byte outside the FAT copies *)
Theorem C11_table_update_inside_fat_copies : forall ft s c v s' a,
  okc_ft ft s c -> fat_set ft s c v = Ok s' ->
  (a < fs_base s \/ fs_base s + N.of_nat (fs_mirrors s) * fs_size s <= a) ->
  img_get (fs_img s') a = img_get (fs_img s) a.
Proof. exact fat_update_inside_fat_copies. Qed.

(* with mirroring disabled the store is the active copy alone: nothing outside that entry's bytes changes *)
Theorem C11_single_copy_update_confined : forall ft s c v s' a, okc_ft ft s c -> fat_set ft s c v = Ok s' ->
  fs_mirrors s = 1%nat ->
  (a < fs_base s + entry_off ft c \/ fs_base s + entry_off ft c + entry_len ft <= a) ->
  img_get (fs_img s') a = img_get (fs_img s) a.
Proof.
  exact (fun ft s c v s' a Hc E => single_copy_frame s s' (entry_off ft c) (entry_len ft) a (fat_set_mirrored ft s c v s' Hc E)).
Qed.

(* data: every cluster of an accepted volume lies completely inside the declared volume, without address wrap-around *)
Theorem C11_cluster_inside_volume : forall g c, ogeom_ok g -> 2 <= c < o_clusters g + 2 ->
  exists off, offset_from_cluster g c = Ok off /\
    off = (o_first_data g + (c - 2) * o_spc g) * o_bps g /\
    off + cluster_size g <= o_total_sectors g * o_bps g /\
    off + cluster_size g <= 4294967295 * 4096.
Proof. exact offset_arith_exact. Qed.

(* ---- the classifier that names the structure of every device write of the implementation (Spec/Regions.v, extracted,
   tools/props/c11.py) is sound and complete for the layout, for every geometry with non-zero sector and cluster sizes
   whose data area starts inside the declared volume (every mounted volume: C07_mount_ok_coherent) *)
(* a byte is classified "cluster c" exactly when it lies in the byte range of data cluster c *)
Theorem C11_classify_cluster_complete : forall g im m c i, geom_sane g -> 2 <= c < g_clusters g + 2 -> i < g_cluster_size g ->
  classify g im m (g_cluster_off g c + i) = RCluster c (cluster_owner g im m c).
Proof. exact classify_cluster_bytes. Qed.
Theorem C11_classify_cluster_sound : forall g im m off c o, geom_sane g -> classify g im m off = RCluster c o ->
  2 <= c < g_clusters g + 2 /\ g_cluster_off g c <= off < g_cluster_off g c + g_cluster_size g /\
  off < g_volume_bytes g /\ o = cluster_owner g im m c.
Proof. exact classify_cluster_inv. Qed.
(* and that is the offset at which the library addresses cluster c (u32 sector arithmetic of fs.rs, no wrap) *)
Theorem C11_library_cluster_offset_classified : forall g im m c i,
  ogeom_ok (ogeom_of g) -> g_first_data g <= g_total_sectors g -> 2 <= c < g_clusters g + 2 -> i < g_cluster_size g ->
  exists off, offset_from_cluster (ogeom_of g) c = Ok off /\
    classify g im m (off + i) = RCluster c (cluster_owner g im m c).
Proof. exact library_cluster_offset_classified. Qed.
(* FAT copy k, the fixed root, the outside *)
Theorem C11_classify_fat_complete : forall g im m k j, geom_sane g -> k < g_fats g -> j < g_fat_bytes g ->
  classify g im m (g_fat_off g k + j) = RFat k.
Proof. exact classify_fat_bytes. Qed.
Theorem C11_classify_fat_sound : forall g im m off k, geom_sane g -> classify g im m off = RFat k ->
  0 < g_fat_bytes g -> k < g_fats g /\ g_fat_off g k <= off < g_fat_off g k + g_fat_bytes g.
Proof. exact classify_fat_inv. Qed.
Theorem C11_classify_root_complete : forall g im m j, geom_sane g -> j < g_root_sectors g * g_bps g ->
  classify g im m (g_root_off g + j) = RRoot.
Proof. exact classify_root_bytes. Qed.
Theorem C11_classify_outside_iff : forall g im m off, g_volume_bytes g <= off <-> classify g im m off = ROutside.
Proof. exact classify_outside. Qed.

(* non-vacuity: the smallest test volume (64 sectors of 512 bytes, 1 reserved, 2 FATs of 1 sector, 16 root entries) *)
Example C11_geom_example :
  let g := {| g_bps := 512; g_spc := 1; g_reserved := 1; g_fats := 2; g_root_entries := 16; g_total_sectors := 64;
              g_spf := 1; g_ext_flags := 0; g_root_cluster := 0; g_fsinfo_sector := 0; g_backup_sector := 0; g_media := 248 |} in
  geom_sane g /\ g_clusters g = 60 /\ ogeom_ok (ogeom_of g) /\
  classify g (img_empty 0) (FMapPositive.PositiveMap.empty owner) (g_cluster_off g 61 + 511) = RCluster 61 OFree /\
  classify g (img_empty 0) (FMapPositive.PositiveMap.empty owner) (512 + 512 + 5) = RFat 1 /\
  classify g (img_empty 0) (FMapPositive.PositiveMap.empty owner) (64 * 512) = ROutside.
Proof. vm_compute. repeat split; try discriminate; try reflexivity; intros C; discriminate C. Qed.

Print Assumptions C11_write_frame.
Print Assumptions C11_table_update_inside_fat_copies.
Print Assumptions C11_single_copy_update_confined.
Print Assumptions C11_cluster_inside_volume.
Print Assumptions C11_classify_cluster_complete.
Print Assumptions C11_classify_cluster_sound.
Print Assumptions C11_library_cluster_offset_classified.
Print Assumptions C11_classify_fat_complete.
Print Assumptions C11_classify_fat_sound.
Print Assumptions C11_classify_root_complete.
Print Assumptions C11_classify_outside_iff.
