(* C06 - Formatting yields a specification-valid empty volume for every accepted request.
   Property theorems only: each is closed by [exact] of a lemma proved in Proofs/FormatProofs.v.

   Objects:  Model/Format.v      format_boot_sector_validated o ts  = the sizing code of src/boot_sector.rs
                                 (format_boot_sector) followed by the strict validate step of format_volume,
                                 debug-build arithmetic (every overflow / division by zero / failed assert = Panic)
             Spec/FormatSpec.v   builder_range (what the public builder can construct), the validity clauses
                                 (fmt_clauses / valid_format_geometry), written from the FAT specification
   Scope:    the boot sector / geometry.  NOT covered here: the image-level statement (FAT copies, root directory,
             FS-info, backup boot sector as written by format_volume decode to the empty volume); that part is
             checked only on the implementation (tools/props/c06.py: format, mount, stats, list, dump). *)
From Coq Require Import NArith List.
From FatVerif Require Import Model.Base Model.Format Spec.FormatSpec Proofs.FormatProofs.
Import ListNotations.
Open Scope N_scope.

(* formatting never panics: for every request the builder can construct and every 32-bit sector count *)
Theorem C06_format_total : forall o ts, builder_range o -> ts < 4294967296 ->
  format_boot_sector_validated o ts <> Panic /\ format_boot_sector_validated o ts <> OutOfFuel.
Proof. exact format_total. Qed.

(* a refused request is refused with InvalidInput *)
Theorem C06_format_err_kind : forall o ts e, builder_range o -> ts < 4294967296 ->
  format_boot_sector_validated o ts = Err e -> e = EInvalidInput.
Proof. exact format_err_kind. Qed.

(* an accepted request yields a valid geometry (no clause of Spec/FormatSpec.v is violated: sector and cluster
   sizes are powers of two in range, the declared size is the requested one, all regions fit, the FAT type follows
   from the cluster count and equals the requested one, each FAT copy addresses every cluster, FAT32 backup (6) and
   FS-info (1) sectors lie in the reserved area, cluster count within the limits of the type, labels) and stores
   the caller's values unchanged *)
Theorem C06_format_ok_valid : forall o ts bs t, builder_range o -> ts < 4294967296 ->
  format_boot_sector_validated o ts = Ok (bs, t) ->
  boot_violations bs ts t (o_fat_type o) = [] /\
  fb_bytes_per_sector (fbs_bpb bs) = o_bytes_per_sector o /\
  fb_fats (fbs_bpb bs) = o_fats o /\
  fb_media (fbs_bpb bs) = o_media o /\
  fb_sectors_per_track (fbs_bpb bs) = o_sectors_per_track o /\
  fb_heads (fbs_bpb bs) = o_heads o /\
  fb_volume_id (fbs_bpb bs) = o_volume_id o /\
  fb_volume_label (fbs_bpb bs) = match o_volume_label o with Some l => l | None => label_no_name end /\
  fb_drive_num (fbs_bpb bs) = match o_drive_num o with Some d => d | None => if fat_type_eqb t Fat12 then 0 else 128 end /\
  fb_root_entries (fbs_bpb bs) = (if fat_type_eqb t Fat32 then 0 else o_max_root_dir_entries o) /\
  (forall b, o_bytes_per_cluster o = Some b -> fb_sectors_per_cluster (fbs_bpb bs) * fb_bytes_per_sector (fbs_bpb bs) = b).
Proof. exact format_ok_valid. Qed.

(* what "no violated clause" says, as one proposition over the decoded fields *)
Theorem C06_violations_nil_iff : forall b ts chosen req,
  fmt_violations b ts chosen req = [] <->
  let clusters := sp_clusters b in
  ((exists k, fb_bytes_per_sector b = 2 ^ k) /\ 512 <= fb_bytes_per_sector b <= 4096) /\
  ((exists k, fb_sectors_per_cluster b = 2 ^ k) /\ fb_sectors_per_cluster b <= 128) /\
  (1 <= fb_reserved_sectors b /\ 1 <= fb_fats b <= 2) /\
  (sp_total_sectors b = ts /\ (fb_total_sectors_16 b = 0 \/ fb_total_sectors_32 b = 0) /\ fb_hidden_sectors b = 0) /\
  (sp_meta_sectors b < ts /\ sp_meta_sectors b + clusters * fb_sectors_per_cluster b <= ts) /\
  sp_type_of_clusters clusters = chosen /\
  (forall t, req = Some t -> t = chosen) /\
  clusters + 2 <= sp_fat_entries b chosen /\
  (if sp_is32 chosen then
     fb_sectors_per_fat_16 b = 0 /\ fb_sectors_per_fat_32 b <> 0 /\
     fb_backup_boot_sector b = 6 /\ fb_fs_info_sector b = 1 /\
     fb_backup_boot_sector b < fb_reserved_sectors b /\ fb_fs_info_sector b < fb_reserved_sectors b /\
     fb_root_entries b = 0 /\ fb_total_sectors_16 b = 0 /\ fb_fs_version b = 0 /\ fb_extended_flags b = 0 /\
     2 <= fb_root_dir_first_cluster b /\ fb_root_dir_first_cluster b < clusters + 2
   else fb_sectors_per_fat_16 b <> 0 /\ fb_root_entries b <> 0) /\
  (sp_min_clusters chosen <= clusters /\ clusters <= sp_max_clusters chosen) /\
  (fb_ext_sig b = 41 /\ fb_fs_type_label b = sp_label chosen /\ length (fb_volume_label b) = 11%nat).
Proof. exact violations_nil_iff. Qed.

(* default options: every size from 42 sectors up to 2^32-1 sectors of 512 bytes is accepted ... *)
Theorem C06_format_default_succeeds : forall ts, 42 <= ts < 4294967296 ->
  exists r, format_boot_sector_validated default_options ts = Ok r.
Proof. exact format_default_succeeds. Qed.

(* ... and nothing smaller is *)
Theorem C06_format_default_rejects_small : forall ts, ts < 42 ->
  format_boot_sector_validated default_options ts = Err EInvalidInput.
Proof. exact format_default_rejects_small. Qed.

(* the closed form used by all proofs above is the model itself on the builder's range (so the exact acceptance
   condition of the library is [layout_pure o ts = Ok lay /\ late_reject ... = false]) *)
Theorem C06_format_closed_form : forall o ts, builder_range o -> ts <= 4294967295 ->
  format_boot_sector_validated o ts = format_pure o ts.
Proof. exact format_eq. Qed.

(* observation (not a violation of the property text): a request can be accepted although no data cluster fits *)
Theorem C06_format_zero_clusters_witness :
  builder_range zero_cluster_request /\
  exists bs, format_boot_sector_validated zero_cluster_request 100 = Ok (bs, Fat12) /\ sp_clusters (fbs_bpb bs) = 0.
Proof. exact format_zero_clusters_witness. Qed.

(* ---------------------------------------------------------------- examples (hypotheses are satisfiable, values are the
   bytes the real library produces: `fatfs-exec fmtbs`) *)
Definition ex_1mib_fat12_bytes : list N :=
  [235; 60; 144; 77; 83; 87; 73; 78; 52; 46; 49; 0; 2; 1; 1; 0; 2; 0; 2; 0; 8; 248; 6; 0; 32; 0; 64; 0; 0; 0; 0; 0; 0; 0; 0; 0; 0; 0; 41; 120; 86; 52; 18; 78; 79; 32; 78; 65; 77; 69; 32; 32; 32; 32; 70; 65; 84; 49; 50; 32; 32; 32; 14; 31; 190; 91; 124; 172; 34; 192; 116; 11; 86; 180; 14; 187; 7; 0; 205; 16; 94; 235; 240; 50; 228; 205; 22; 205; 25; 235; 254; 84; 104; 105; 115; 32; 105; 115; 32; 110; 111; 116; 32; 97; 32; 98; 111; 111; 116; 97; 98; 108; 101; 32; 100; 105; 115; 107; 46; 32; 32; 80; 108; 101; 97; 115; 101; 32; 105; 110; 115; 101; 114; 116; 32; 97; 32; 98; 111; 111; 116; 97; 98; 108; 101; 32; 102; 108; 111; 112; 112; 121; 32; 97; 110; 100; 13; 10; 112; 114; 101; 115; 115; 32; 97; 110; 121; 32; 107; 101; 121; 32; 116; 111; 32; 116; 114; 121; 32; 97; 103; 97; 105; 110; 32; 46; 46; 46; 32; 13; 10]
  ++ repeat_N 0 319 ++ [85; 170].

Example ex_1mib_fat12 : format_boot_sector_bytes default_options 2048 = Ok (ex_1mib_fat12_bytes, 12).
Proof. vm_compute. reflexivity. Qed.

Definition ex_64mib_fat16_bytes : list N :=
  [235; 60; 144; 77; 83; 87; 73; 78; 52; 46; 49; 0; 2; 4; 1; 0; 2; 0; 2; 0; 0; 248; 128; 0; 32; 0; 64; 0; 0; 0; 0; 0; 0; 0; 2; 0; 128; 0; 41; 120; 86; 52; 18; 78; 79; 32; 78; 65; 77; 69; 32; 32; 32; 32; 70; 65; 84; 49; 54; 32; 32; 32; 14; 31; 190; 91; 124; 172; 34; 192; 116; 11; 86; 180; 14; 187; 7; 0; 205; 16; 94; 235; 240; 50; 228; 205; 22; 205; 25; 235; 254; 84; 104; 105; 115; 32; 105; 115; 32; 110; 111; 116; 32; 97; 32; 98; 111; 111; 116; 97; 98; 108; 101; 32; 100; 105; 115; 107; 46; 32; 32; 80; 108; 101; 97; 115; 101; 32; 105; 110; 115; 101; 114; 116; 32; 97; 32; 98; 111; 111; 116; 97; 98; 108; 101; 32; 102; 108; 111; 112; 112; 121; 32; 97; 110; 100; 13; 10; 112; 114; 101; 115; 115; 32; 97; 110; 121; 32; 107; 101; 121; 32; 116; 111; 32; 116; 114; 121; 32; 97; 103; 97; 105; 110; 32; 46; 46; 46; 32; 13; 10]
  ++ repeat_N 0 319 ++ [85; 170].

Example ex_64mib_fat16 : format_boot_sector_bytes default_options 131072 = Ok (ex_64mib_fat16_bytes, 16).
Proof. vm_compute. reflexivity. Qed.

Definition ex_1gib_fat32_bytes : list N :=
  [235; 88; 144; 77; 83; 87; 73; 78; 52; 46; 49; 0; 2; 8; 8; 0; 2; 0; 0; 0; 0; 248; 0; 0; 32; 0; 64; 0; 0; 0; 0; 0; 0; 0; 32; 0; 253; 7; 0; 0; 0; 0; 0; 0; 2; 0; 0; 0; 1; 0; 6; 0; 0; 0; 0; 0; 0; 0; 0; 0; 0; 0; 0; 0; 128; 0; 41; 120; 86; 52; 18; 78; 79; 32; 78; 65; 77; 69; 32; 32; 32; 32; 70; 65; 84; 51; 50; 32; 32; 32; 14; 31; 190; 119; 124; 172; 34; 192; 116; 11; 86; 180; 14; 187; 7; 0; 205; 16; 94; 235; 240; 50; 228; 205; 22; 205; 25; 235; 254; 84; 104; 105; 115; 32; 105; 115; 32; 110; 111; 116; 32; 97; 32; 98; 111; 111; 116; 97; 98; 108; 101; 32; 100; 105; 115; 107; 46; 32; 32; 80; 108; 101; 97; 115; 101; 32; 105; 110; 115; 101; 114; 116; 32; 97; 32; 98; 111; 111; 116; 97; 98; 108; 101; 32; 102; 108; 111; 112; 112; 121; 32; 97; 110; 100; 13; 10; 112; 114; 101; 115; 115; 32; 97; 110; 121; 32; 107; 101; 121; 32; 116; 111; 32; 116; 114; 121; 32; 97; 103; 97; 105; 110; 32; 46; 46; 46; 32; 13; 10]
  ++ repeat_N 0 291 ++ [85; 170].

Example ex_1gib_fat32 : format_boot_sector_bytes default_options 2097152 = Ok (ex_1gib_fat32_bytes, 32).
Proof. vm_compute. reflexivity. Qed.

(* a non-default request inside builder_range: 4096-byte sectors, 32 KiB clusters, forced FAT16, one FAT, 240 root
   entries, label "ABCDEFGHIJK" *)
Definition ex_request : fmt_options :=
  {| o_bytes_per_sector := 4096; o_total_sectors := None; o_bytes_per_cluster := Some 32768; o_fat_type := Some Fat16;
     o_max_root_dir_entries := 240; o_fats := 1; o_media := 240; o_sectors_per_track := 63; o_heads := 255;
     o_drive_num := Some 129; o_volume_id := 3735928559;
     o_volume_label := Some [65; 66; 67; 68; 69; 70; 71; 72; 73; 74; 75] |}.
Example ex_request_in_range : builder_range ex_request.
Proof.
  unfold builder_range; cbn [ex_request o_bytes_per_sector o_bytes_per_cluster o_max_root_dir_entries o_fats o_media
    o_sectors_per_track o_heads o_drive_num o_volume_id o_volume_label].
  repeat split; intros; try Lia.lia; try discriminate; try reflexivity;
    match goal with H : Some _ = Some _ |- _ => injection H as <- end; try reflexivity; try Lia.lia.
  repeat constructor; Lia.lia.
Qed.
Example ex_request_accepted :
  exists bs, format_boot_sector_validated ex_request 100000 = Ok (bs, Fat16) /\
             boot_violations bs 100000 Fat16 (Some Fat16) = [] /\ sp_clusters (fbs_bpb bs) = 12498.
Proof. eexists. split; [vm_compute; reflexivity|split; vm_compute; reflexivity]. Qed.
Example ex_request_refused : format_boot_sector_validated ex_request 1000000 = Err EInvalidInput.
Proof. vm_compute. reflexivity. Qed.
Example ex_default_41_refused : format_boot_sector_validated default_options 41 = Err EInvalidInput.
Proof. vm_compute. reflexivity. Qed.
Example ex_default_42_accepted : exists bs, format_boot_sector_validated default_options 42 = Ok (bs, Fat12).
Proof. eexists. vm_compute. reflexivity. Qed.
Example ex_default_max_accepted : exists bs, format_boot_sector_validated default_options 4294967295 = Ok (bs, Fat32).
Proof. eexists. vm_compute. reflexivity. Qed.

(* the decoder used to evaluate the Spec clauses on the implementation's bytes inverts the serializer on these sectors *)
Example ex_decode_fat12 : exists bs, format_boot_sector_validated default_options 2048 = Ok (bs, Fat12) /\
                                     fmt_deserialize_boot ex_1mib_fat12_bytes = bs.
Proof. eexists. split; vm_compute; reflexivity. Qed.
Example ex_decode_fat16 : exists bs, format_boot_sector_validated default_options 131072 = Ok (bs, Fat16) /\
                                     fmt_deserialize_boot ex_64mib_fat16_bytes = bs.
Proof. eexists. split; vm_compute; reflexivity. Qed.
Example ex_decode_fat32 : exists bs, format_boot_sector_validated default_options 2097152 = Ok (bs, Fat32) /\
                                     fmt_deserialize_boot ex_1gib_fat32_bytes = bs.
Proof. eexists. split; vm_compute; reflexivity. Qed.

Print Assumptions C06_format_total.
Print Assumptions C06_format_err_kind.
Print Assumptions C06_format_ok_valid.
Print Assumptions C06_violations_nil_iff.
Print Assumptions C06_format_default_succeeds.
Print Assumptions C06_format_default_rejects_small.
Print Assumptions C06_format_closed_form.
Print Assumptions C06_format_zero_clusters_witness.
