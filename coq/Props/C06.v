(* C06 - Formatting yields a specification-valid empty volume for every accepted request.
   Property theorems only: each is closed by [exact] of a lemma proved in Proofs/FormatProofs.v (part 1),
   Proofs/FormatImageProofs.v and Proofs/FormatImageAbs.v (part 2).

   Objects:  Model/Format.v      format_boot_sector_validated o ts  = the sizing code of src/boot_sector.rs
                                 (format_boot_sector) followed by the strict validate step of format_volume,
                                 debug-build arithmetic (every overflow / division by zero / failed assert = Panic)
             Spec/FormatSpec.v   builder_range (what the public builder can construct), the validity clauses
                                 (fmt_clauses / valid_format_geometry), written from the FAT specification
             Model/FormatImage.v  format_image o ts im0 = the device image after format_volume on a device holding im0
                                 (every write of src/fs.rs format_volume in order, through the byte-level FAT stores of
                                 Model/Fat.v); Spec/FormatImageSpec.v = where the structures lie
   Scope:    part 1: the boot sector / geometry.  part 2 (theorems C06_image_...): the image-level clauses - boot-sector
             copies agree, FAT contents, root directory empty apart from the label, free space, FS-info, frame, no panic -
             for EVERY request of the builder, every 32-bit sector count and every initial device content.
             At the very top of the FAT32 range (more than 0x0FFFFFF0 - 2 clusters, the 6 largest counts) format_fat marks
             the clusters 0x0FFFFFF0.. Bad; the FS-info count excludes them (fix 9c17e57 of format_volume; before it the
             sector counted them as free). *)
From Coq Require Import NArith List.
From FatVerif Require Import Model.Base Model.Slot Model.Table Spec.Image Model.Fat Model.Format Spec.FormatSpec
  Model.FormatImage Spec.FormatImageSpec Proofs.TableProofs Proofs.FatProofs Proofs.FormatProofs Proofs.FormatImageProofs
  Proofs.FormatImageAbs.
From FatVerif Require Spec.Abs Spec.Wf.
Import ListNotations.
Open Scope N_scope.

(* formatting never panics: for every request the builder can construct and every 32-bit sector count *)
Theorem C06_format_total : forall o ts, builder_range o -> ts < 4294967296 ->
  format_boot_sector_validated o ts <> Panic /\ format_boot_sector_validated o ts <> OutOfFuel.
Proof. exact format_total. Qed.

(* a refused request is refused with InvalidInput *)
Theorem C06_format_err_kind : forall o ts e, builder_range o -> ts < 4294967296 ->
  format_boot_sector_validated o ts = Err e -> e = EInvalidInput.
Proof. exact format_err_kind. Qed.

(* an accepted request yields a valid geometry (no clause of Spec/FormatSpec.v is violated: sector and cluster
   sizes are powers of two in range, the declared size is the requested one, all regions fit, the FAT type follows
   from the cluster count and equals the requested one, each FAT copy addresses every cluster, FAT32 backup (6) and
   FS-info (1) sectors lie in the reserved area, cluster count within the limits of the type, labels) and stores
   the caller's values unchanged *)
Theorem C06_format_ok_valid : forall o ts bs t, builder_range o -> ts < 4294967296 ->
  format_boot_sector_validated o ts = Ok (bs, t) ->
  boot_violations bs ts t (o_fat_type o) = [] /\
  fb_bytes_per_sector (fbs_bpb bs) = o_bytes_per_sector o /\
  fb_fats (fbs_bpb bs) = o_fats o /\
  fb_media (fbs_bpb bs) = o_media o /\
  fb_sectors_per_track (fbs_bpb bs) = o_sectors_per_track o /\
  fb_heads (fbs_bpb bs) = o_heads o /\
  fb_volume_id (fbs_bpb bs) = o_volume_id o /\
  fb_volume_label (fbs_bpb bs) = match o_volume_label o with Some l => l | None => label_no_name end /\
  fb_drive_num (fbs_bpb bs) = match o_drive_num o with Some d => d | None => if fat_type_eqb t Fat12 then 0 else 128 end /\
  fb_root_entries (fbs_bpb bs) = (if fat_type_eqb t Fat32 then 0 else o_max_root_dir_entries o) /\
  (forall b, o_bytes_per_cluster o = Some b -> fb_sectors_per_cluster (fbs_bpb bs) * fb_bytes_per_sector (fbs_bpb bs) = b).
Proof. exact format_ok_valid. Qed.

(* what "no violated clause" says, as one proposition over the decoded fields *)
Theorem C06_violations_nil_iff : forall b ts chosen req,
  fmt_violations b ts chosen req = [] <->
  let clusters := sp_clusters b in
  ((exists k, fb_bytes_per_sector b = 2 ^ k) /\ 512 <= fb_bytes_per_sector b <= 4096) /\
  ((exists k, fb_sectors_per_cluster b = 2 ^ k) /\ fb_sectors_per_cluster b <= 128) /\
  (1 <= fb_reserved_sectors b /\ 1 <= fb_fats b <= 2) /\
  (sp_total_sectors b = ts /\ (fb_total_sectors_16 b = 0 \/ fb_total_sectors_32 b = 0) /\ fb_hidden_sectors b = 0) /\
  (sp_meta_sectors b < ts /\ sp_meta_sectors b + clusters * fb_sectors_per_cluster b <= ts) /\
  sp_type_of_clusters clusters = chosen /\
  (forall t, req = Some t -> t = chosen) /\
  clusters + 2 <= sp_fat_entries b chosen /\
  (if sp_is32 chosen then
     fb_sectors_per_fat_16 b = 0 /\ fb_sectors_per_fat_32 b <> 0 /\
     fb_backup_boot_sector b = 6 /\ fb_fs_info_sector b = 1 /\
     fb_backup_boot_sector b < fb_reserved_sectors b /\ fb_fs_info_sector b < fb_reserved_sectors b /\
     fb_root_entries b = 0 /\ fb_total_sectors_16 b = 0 /\ fb_fs_version b = 0 /\ fb_extended_flags b = 0 /\
     2 <= fb_root_dir_first_cluster b /\ fb_root_dir_first_cluster b < clusters + 2
   else fb_sectors_per_fat_16 b <> 0 /\ fb_root_entries b <> 0) /\
  (sp_min_clusters chosen <= clusters /\ clusters <= sp_max_clusters chosen) /\
  (fb_ext_sig b = 41 /\ fb_fs_type_label b = sp_label chosen /\ length (fb_volume_label b) = 11%nat).
Proof. exact violations_nil_iff. Qed.

(* default options: every size from 42 sectors up to 2^32-1 sectors of 512 bytes is accepted ... *)
Theorem C06_format_default_succeeds : forall ts, 42 <= ts < 4294967296 ->
  exists r, format_boot_sector_validated default_options ts = Ok r.
Proof. exact format_default_succeeds. Qed.

(* ... and nothing smaller is *)
Theorem C06_format_default_rejects_small : forall ts, ts < 42 ->
  format_boot_sector_validated default_options ts = Err EInvalidInput.
Proof. exact format_default_rejects_small. Qed.

(* the closed form used by all proofs above is the model itself on the builder's range (so the exact acceptance
   condition of the library is [layout_pure o ts = Ok lay /\ late_reject ... = false]) *)
Theorem C06_format_closed_form : forall o ts, builder_range o -> ts <= 4294967295 ->
  format_boot_sector_validated o ts = format_pure o ts.
Proof. exact format_eq. Qed.

(* observation (not a violation of the property text): a request can be accepted although no data cluster fits *)
Theorem C06_format_zero_clusters_witness :
  builder_range zero_cluster_request /\
  exists bs, format_boot_sector_validated zero_cluster_request 100 = Ok (bs, Fat12) /\ sp_clusters (fbs_bpb bs) = 0.
Proof. exact format_zero_clusters_witness. Qed.

(* ---------------------------------------------------------------- examples (hypotheses are satisfiable, values are the
   bytes the real library produces: `fatfs-exec fmtbs`) *)
Definition ex_1mib_fat12_bytes : list N :=
  [235; 60; 144; 77; 83; 87; 73; 78; 52; 46; 49; 0; 2; 1; 1; 0; 2; 0; 2; 0; 8; 248; 6; 0; 32; 0; 64; 0; 0; 0; 0; 0; 0; 0; 0; 0; 0; 0; 41; 120; 86; 52; 18; 78; 79; 32; 78; 65; 77; 69; 32; 32; 32; 32; 70; 65; 84; 49; 50; 32; 32; 32; 14; 31; 190; 91; 124; 172; 34; 192; 116; 11; 86; 180; 14; 187; 7; 0; 205; 16; 94; 235; 240; 50; 228; 205; 22; 205; 25; 235; 254; 84; 104; 105; 115; 32; 105; 115; 32; 110; 111; 116; 32; 97; 32; 98; 111; 111; 116; 97; 98; 108; 101; 32; 100; 105; 115; 107; 46; 32; 32; 80; 108; 101; 97; 115; 101; 32; 105; 110; 115; 101; 114; 116; 32; 97; 32; 98; 111; 111; 116; 97; 98; 108; 101; 32; 102; 108; 111; 112; 112; 121; 32; 97; 110; 100; 13; 10; 112; 114; 101; 115; 115; 32; 97; 110; 121; 32; 107; 101; 121; 32; 116; 111; 32; 116; 114; 121; 32; 97; 103; 97; 105; 110; 32; 46; 46; 46; 32; 13; 10]
  ++ repeat_N 0 319 ++ [85; 170].

Example ex_1mib_fat12 : format_boot_sector_bytes default_options 2048 = Ok (ex_1mib_fat12_bytes, 12).
Proof. vm_compute. reflexivity. Qed.

Definition ex_64mib_fat16_bytes : list N :=
  [235; 60; 144; 77; 83; 87; 73; 78; 52; 46; 49; 0; 2; 4; 1; 0; 2; 0; 2; 0; 0; 248; 128; 0; 32; 0; 64; 0; 0; 0; 0; 0; 0; 0; 2; 0; 128; 0; 41; 120; 86; 52; 18; 78; 79; 32; 78; 65; 77; 69; 32; 32; 32; 32; 70; 65; 84; 49; 54; 32; 32; 32; 14; 31; 190; 91; 124; 172; 34; 192; 116; 11; 86; 180; 14; 187; 7; 0; 205; 16; 94; 235; 240; 50; 228; 205; 22; 205; 25; 235; 254; 84; 104; 105; 115; 32; 105; 115; 32; 110; 111; 116; 32; 97; 32; 98; 111; 111; 116; 97; 98; 108; 101; 32; 100; 105; 115; 107; 46; 32; 32; 80; 108; 101; 97; 115; 101; 32; 105; 110; 115; 101; 114; 116; 32; 97; 32; 98; 111; 111; 116; 97; 98; 108; 101; 32; 102; 108; 111; 112; 112; 121; 32; 97; 110; 100; 13; 10; 112; 114; 101; 115; 115; 32; 97; 110; 121; 32; 107; 101; 121; 32; 116; 111; 32; 116; 114; 121; 32; 97; 103; 97; 105; 110; 32; 46; 46; 46; 32; 13; 10]
  ++ repeat_N 0 319 ++ [85; 170].

Example ex_64mib_fat16 : format_boot_sector_bytes default_options 131072 = Ok (ex_64mib_fat16_bytes, 16).
Proof. vm_compute. reflexivity. Qed.

Definition ex_1gib_fat32_bytes : list N :=
  [235; 88; 144; 77; 83; 87; 73; 78; 52; 46; 49; 0; 2; 8; 8; 0; 2; 0; 0; 0; 0; 248; 0; 0; 32; 0; 64; 0; 0; 0; 0; 0; 0; 0; 32; 0; 253; 7; 0; 0; 0; 0; 0; 0; 2; 0; 0; 0; 1; 0; 6; 0; 0; 0; 0; 0; 0; 0; 0; 0; 0; 0; 0; 0; 128; 0; 41; 120; 86; 52; 18; 78; 79; 32; 78; 65; 77; 69; 32; 32; 32; 32; 70; 65; 84; 51; 50; 32; 32; 32; 14; 31; 190; 119; 124; 172; 34; 192; 116; 11; 86; 180; 14; 187; 7; 0; 205; 16; 94; 235; 240; 50; 228; 205; 22; 205; 25; 235; 254; 84; 104; 105; 115; 32; 105; 115; 32; 110; 111; 116; 32; 97; 32; 98; 111; 111; 116; 97; 98; 108; 101; 32; 100; 105; 115; 107; 46; 32; 32; 80; 108; 101; 97; 115; 101; 32; 105; 110; 115; 101; 114; 116; 32; 97; 32; 98; 111; 111; 116; 97; 98; 108; 101; 32; 102; 108; 111; 112; 112; 121; 32; 97; 110; 100; 13; 10; 112; 114; 101; 115; 115; 32; 97; 110; 121; 32; 107; 101; 121; 32; 116; 111; 32; 116; 114; 121; 32; 97; 103; 97; 105; 110; 32; 46; 46; 46; 32; 13; 10]
  ++ repeat_N 0 291 ++ [85; 170].

Example ex_1gib_fat32 : format_boot_sector_bytes default_options 2097152 = Ok (ex_1gib_fat32_bytes, 32).
Proof. vm_compute. reflexivity. Qed.

(* a non-default request inside builder_range: 4096-byte sectors, 32 KiB clusters, forced FAT16, one FAT, 240 root
   entries, label "ABCDEFGHIJK" *)
Definition ex_request : fmt_options :=
  {| o_bytes_per_sector := 4096; o_total_sectors := None; o_bytes_per_cluster := Some 32768; o_fat_type := Some Fat16;
     o_max_root_dir_entries := 240; o_fats := 1; o_media := 240; o_sectors_per_track := 63; o_heads := 255;
     o_drive_num := Some 129; o_volume_id := 3735928559;
     o_volume_label := Some [65; 66; 67; 68; 69; 70; 71; 72; 73; 74; 75] |}.
Example ex_request_in_range : builder_range ex_request.
Proof.
  unfold builder_range; cbn [ex_request o_bytes_per_sector o_bytes_per_cluster o_max_root_dir_entries o_fats o_media
    o_sectors_per_track o_heads o_drive_num o_volume_id o_volume_label].
  repeat split; intros; try Lia.lia; try discriminate; try reflexivity;
    match goal with H : Some _ = Some _ |- _ => injection H as <- end; try reflexivity; try Lia.lia.
  repeat constructor; Lia.lia.
Qed.
Example ex_request_accepted :
  exists bs, format_boot_sector_validated ex_request 100000 = Ok (bs, Fat16) /\
             boot_violations bs 100000 Fat16 (Some Fat16) = [] /\ sp_clusters (fbs_bpb bs) = 12498.
Proof. eexists. split; [vm_compute; reflexivity|split; vm_compute; reflexivity]. Qed.
Example ex_request_refused : format_boot_sector_validated ex_request 1000000 = Err EInvalidInput.
Proof. vm_compute. reflexivity. Qed.
Example ex_default_41_refused : format_boot_sector_validated default_options 41 = Err EInvalidInput.
Proof. vm_compute. reflexivity. Qed.
Example ex_default_42_accepted : exists bs, format_boot_sector_validated default_options 42 = Ok (bs, Fat12).
Proof. eexists. vm_compute. reflexivity. Qed.
Example ex_default_max_accepted : exists bs, format_boot_sector_validated default_options 4294967295 = Ok (bs, Fat32).
Proof. eexists. vm_compute. reflexivity. Qed.

(* the decoder used to evaluate the Spec clauses on the implementation's bytes inverts the serializer on these sectors *)
Example ex_decode_fat12 : exists bs, format_boot_sector_validated default_options 2048 = Ok (bs, Fat12) /\
                                     fmt_deserialize_boot ex_1mib_fat12_bytes = bs.
Proof. eexists. split; vm_compute; reflexivity. Qed.
Example ex_decode_fat16 : exists bs, format_boot_sector_validated default_options 131072 = Ok (bs, Fat16) /\
                                     fmt_deserialize_boot ex_64mib_fat16_bytes = bs.
Proof. eexists. split; vm_compute; reflexivity. Qed.
Example ex_decode_fat32 : exists bs, format_boot_sector_validated default_options 2097152 = Ok (bs, Fat32) /\
                                     fmt_deserialize_boot ex_1gib_fat32_bytes = bs.
Proof. eexists. split; vm_compute; reflexivity. Qed.

(* ================================================================== part 2: the image format_volume writes
   Common premises: a request the builder can construct, a 32-bit sector count, any initial device content (bytes < 256),
   the request is accepted with boot sector [bs] and FAT type [t] (valid by part 1), and [im] is the device image
   afterwards. *)

(* a. sector 0 = the serialized boot sector, zero up to the end of the logical sector; FAT32: the backup sector
      (sector 6) is a byte-for-byte copy of sector 0 *)
Theorem C06_image_boot_sector : forall o ts im0 bs t im, builder_range o -> ts < 4294967296 -> bytes_ok im0 ->
  format_boot_sector_validated o ts = Ok (bs, t) -> format_image o ts im0 = Ok im ->
  img_read im 0 512 = fmt_serialize_boot bs /\
  (forall x, 512 <= x < fb_bytes_per_sector (fbs_bpb bs) -> img_get im x = 0) /\
  (t = Format.Fat32 -> forall i, i < fb_bytes_per_sector (fbs_bpb bs) ->
                         img_get im (fi_backup_pos (fbs_bpb bs) + i) = img_get im i).
Proof. exact image_boot_sector. Qed.

(* e. frame: every byte outside the boot sector, (FAT32) FS-info and backup sectors, the FAT copies and the root
      directory keeps the value the device held before: nothing else is written *)
Theorem C06_image_frame : forall o ts im0 bs t im, builder_range o -> ts < 4294967296 -> bytes_ok im0 ->
  format_boot_sector_validated o ts = Ok (bs, t) -> format_image o ts im0 = Ok im ->
  forall x, fi_written (fbs_bpb bs) t x = false -> img_get im x = img_get im0 x.
Proof. exact image_frame. Qed.

(* c. the root directory (FAT12/16: the whole fixed region; FAT32: the whole root cluster) is zero apart from the
      32-byte label entry at its start (name, attribute VOLUME_ID, everything else 0), whatever the device held; the
      independent decoder Spec/Abs.v finds no entry, no issue and exactly the label - unless the label starts with
      0x00 (end marker) or 0xE5 (deleted marker), in which case it finds no label *)
Theorem C06_image_root_dir : forall o ts im0 bs t im, builder_range o -> ts < 4294967296 -> bytes_ok im0 ->
  format_boot_sector_validated o ts = Ok (bs, t) -> format_image o ts im0 = Ok im ->
  (forall i, i < fi_root_len (fbs_bpb bs) t ->
     img_get im (fi_root_pos (fbs_bpb bs) + i) = nth (N.to_nat i) (label_bytes o) 0) /\
  (forall n fat32, (32 <= n)%nat -> N.of_nat n <= fi_root_len (fbs_bpb bs) t ->
     Abs.dir_scan (Abs.slots_of (img_read im (fi_root_pos (fbs_bpb bs)) n)) 0 [] fat32 = ([], expected_labels o, [])).
Proof. exact image_root_dir. Qed.

(* b. the FAT copies are byte-identical; entry 0 = media byte with all higher bits set, entry 1 = all ones; every data
      cluster 2 .. clusters+1 is free - except the FAT32 root cluster 2 (end of chain) and except cluster numbers
      >= 0x0FFFFFF0, which are Bad (data_val; they exist only on FAT32 volumes of more than 268435438 clusters); the
      spare entries after the last cluster up to the end of the table are end-of-chain, or Bad inside
      0x0FFFFFF0..0x0FFFFFFF (spare_val), so no scan can take them for free clusters *)
Theorem C06_image_fat : forall o ts im0 bs t im, builder_range o -> ts < 4294967296 -> bytes_ok im0 ->
  format_boot_sector_validated o ts = Ok (bs, t) -> format_image o ts im0 = Ok im ->
  let s := fi_fat_store im (fbs_bpb bs) in
  copies_equal s /\ reserved_entries_ok t s (o_media o) /\
  (forall x, 2 <= x < sp_clusters (fbs_bpb bs) + 2 ->
     val_ft (to_fat_type t) s x = if sp_is32 t && (x =? 2) then Eoc else data_val x) /\
  (forall x, sp_clusters (fbs_bpb bs) + 2 <= x < sp_fat_entries (fbs_bpb bs) t -> val_ft (to_fat_type t) s x = spare_val x).
Proof. exact image_fat. Qed.

(* data_val / spare_val are Free / EndOfChain below 0x0FFFFFF0, and a FAT12/16 table never reaches that number *)
Theorem C06_image_fat_values_small : forall x, x < 268435440 -> data_val x = Free /\ spare_val x = Eoc.
Proof. exact fat_values_small. Qed.
Theorem C06_image_fat1216_small : forall o ts bs t, builder_range o -> ts < 4294967296 ->
  format_boot_sector_validated o ts = Ok (bs, t) -> t <> Format.Fat32 -> sp_fat_entries (fbs_bpb bs) t <= 268435440.
Proof. exact small_fat_entries. Qed.

(* d. free space, counted over the table itself = all clusters, minus the root cluster on FAT32, minus the clusters in
      the BAD range (bad_range_clusters total = total + 2 - 0x0FFFFFF0, i.e. 0 up to 268435438 clusters, at most 6); the
      FS-info sector carries exactly this count, the hint 3 (a data cluster) and its signatures, zero padded to the
      sector end *)
Theorem C06_image_free_space : forall o ts im0 bs t im, builder_range o -> ts < 4294967296 -> bytes_ok im0 ->
  format_boot_sector_validated o ts = Ok (bs, t) -> format_image o ts im0 = Ok im ->
  let b := fbs_bpb bs in
  let total := sp_clusters b in
  let free := count_spec fstore (val_ft (to_fat_type t)) (fi_fat_store im b) 2 (N.to_nat total) in
  free = (if sp_is32 t then total - 1 else total) - bad_range_clusters total /\
  (t <> Format.Fat32 -> bad_range_clusters total = 0) /\
  (t = Format.Fat32 ->
     img_read im (fi_fsinfo_pos b) 512 = fsinfo_bytes free 3 /\
     (forall x, 512 <= x < fb_bytes_per_sector b -> img_get im (fi_fsinfo_pos b + x) = 0) /\
     img_u32 im (fi_fsinfo_pos b + 488) = free /\ img_u32 im (fi_fsinfo_pos b + 492) = 3 /\ 3 < total + 2).
Proof. exact image_free_space. Qed.

(* in particular: the FS-info count is the table's count on every FAT32 volume ... *)
Theorem C06_image_fsinfo_count_exact : forall o ts im0 bs im, builder_range o -> ts < 4294967296 -> bytes_ok im0 ->
  format_boot_sector_validated o ts = Ok (bs, Format.Fat32) -> format_image o ts im0 = Ok im ->
  img_u32 im (fi_fsinfo_pos (fbs_bpb bs) + 488) =
    count_spec fstore val32 (fi_fat_store im (fbs_bpb bs)) 2 (N.to_nat (sp_clusters (fbs_bpb bs))).
Proof. exact image_fsinfo_count_exact. Qed.

(* ... including the largest one (270532604 sectors of 512 bytes, 512-byte clusters, one FAT: 268435444 clusters, the 6
   clusters 0x0FFFFFF0..0x0FFFFFF5 are Bad, FS-info and table both say 268435437; before the fix of format_volume
   (free_cluster_count = total - 1) the FS-info sector said 268435443) *)
Theorem C06_image_bad_range_volume_counts :
  exists bs, format_boot_sector_validated bad_range_request 270532604 = Ok (bs, Format.Fat32) /\
    sp_clusters (fbs_bpb bs) = 268435444 /\ bad_range_clusters (sp_clusters (fbs_bpb bs)) = 6 /\
    forall im0, bytes_ok im0 ->
      exists im, format_image bad_range_request 270532604 im0 = Ok im /\
        img_u32 im (fi_fsinfo_pos (fbs_bpb bs) + 488) = 268435437 /\
        count_spec fstore val32 (fi_fat_store im (fbs_bpb bs)) 2 (N.to_nat (sp_clusters (fbs_bpb bs))) = 268435437 /\
        (forall x, 268435440 <= x < 268435446 -> val32 (fi_fat_store im (fbs_bpb bs)) x = Bad).
Proof. exact bad_range_volume_counts. Qed.

(* f. the writes never panic: format_volume as a whole succeeds exactly when the sizing/validation step accepts, and
      fails only with InvalidInput (before the first write) *)
Theorem C06_image_total : forall o ts im0, builder_range o -> ts < 4294967296 -> bytes_ok im0 ->
  format_image o ts im0 <> Panic /\ format_image o ts im0 <> OutOfFuel /\
  (forall e, format_image o ts im0 = Err e -> e = EInvalidInput) /\
  ((exists im, format_image o ts im0 = Ok im) <-> (exists r, format_boot_sector_validated o ts = Ok r)).
Proof. exact image_total. Qed.

(* g. tie to the independent decoder (Spec/Abs.v, written from the FAT specification): the image decodes to the geometry
      of its boot sector - in particular to the cluster count and FAT width of part 1 - and to the EMPTY volume: no root
      entry, no decode issue, the label, the root chain [2] on FAT32, FS-info free word = the decoder's own count of free
      clusters (hint 3), and no well-formedness issue of Spec/Wf.v (no lost cluster, cross link, bad chain, ...) for any
      case folding *)
Theorem C06_image_decodes_empty : forall o ts im0 bs t im fold, builder_range o -> ts < 4294967296 -> bytes_ok im0 ->
  format_boot_sector_validated o ts = Ok (bs, t) -> format_image o ts im0 = Ok im ->
  let b := fbs_bpb bs in
  let total := sp_clusters b in
  let v := Abs.abs im in
  Abs.parse_geom im = geom_of b /\
  Abs.g_clusters (geom_of b) = total /\ Abs.g_bits (geom_of b) = bits_per_fat_entry t /\
  Abs.v_root v = [] /\ Abs.v_root_issues v = [] /\ Abs.v_labels v = expected_labels o /\
  Abs.v_root_chain v = (if sp_is32 t then Some [2] else None) /\
  (t = Format.Fat32 -> Abs.v_fsinfo_free v = Abs.count_free (Abs.parse_geom im) im /\ Abs.v_fsinfo_next v = 3) /\
  Abs.count_free (Abs.parse_geom im) im = (if sp_is32 t then total - 1 else total) - bad_range_clusters total /\
  Wf.wf_issues fold im = [].
Proof. exact image_decodes_empty. Qed.

(* ---------------------------------------------------------------- examples: the hypotheses are satisfiable and the bytes
   are the expected ones.  64 sectors, FAT12, 16 root entries, label "ABCDEFGHIJK", on a device filled with 0xD1. *)
Definition ex_img_request : fmt_options :=
  {| o_bytes_per_sector := 512; o_total_sectors := None; o_bytes_per_cluster := None; o_fat_type := None;
     o_max_root_dir_entries := 16; o_fats := 2; o_media := 248; o_sectors_per_track := 32; o_heads := 64;
     o_drive_num := None; o_volume_id := 305419896;
     o_volume_label := Some [65; 66; 67; 68; 69; 70; 71; 72; 73; 74; 75] |}.
Example ex_img_request_in_range : builder_range ex_img_request.
Proof.
  unfold builder_range; cbn [ex_img_request o_bytes_per_sector o_bytes_per_cluster o_max_root_dir_entries o_fats o_media
    o_sectors_per_track o_heads o_drive_num o_volume_id o_volume_label].
  repeat split; intros; try Lia.lia; try discriminate; try reflexivity;
    match goal with H : Some _ = Some _ |- _ => injection H as <- end; try reflexivity; try Lia.lia.
  repeat constructor; Lia.lia.
Qed.
Example ex_img_fat12 :
  exists bs, format_boot_sector_validated ex_img_request 64 = Ok (bs, Format.Fat12) /\
    bytes_ok (img_empty 209) /\
    sp_clusters (fbs_bpb bs) = 60 /\ fi_fat_pos (fbs_bpb bs) = 512 /\ fi_root_pos (fbs_bpb bs) = 1536 /\
    fi_root_len (fbs_bpb bs) Format.Fat12 = 512 /\
    match format_image ex_img_request 64 (img_empty 209) with
    | Ok im =>
        img_read im 510 5 = [85; 170; 248; 255; 255] /\              (* signature, then FAT copy 0: F8 FF FF *)
        img_read im 1024 4 = [248; 255; 255; 0] /\                   (* FAT copy 1 *)
        img_read im 602 6 = [0; 0; 0; 255; 255; 255] /\              (* entries 60, 61 free; 62, 63 end of chain *)
        img_read im 1536 13 = [65; 66; 67; 68; 69; 70; 71; 72; 73; 74; 75; 8; 0] /\
        img_read im 2046 4 = [0; 0; 209; 209] /\                     (* end of the root region, then untouched data area *)
        Abs.v_labels (Abs.abs im) = [[65; 66; 67; 68; 69; 70; 71; 72; 73; 74; 75]] /\
        Abs.v_root (Abs.abs im) = [] /\ Wf.wf_issues (fun l => l) im = [] /\
        Abs.count_free (Abs.parse_geom im) im = 60
    | _ => False
    end.
Proof.
  eexists. split; [vm_compute; reflexivity|].
  split; [apply img_empty_bytes_ok; Lia.lia|]. vm_compute. repeat (split; [reflexivity|]). reflexivity.
Qed.

(* a FAT32 example (66100 sectors, 512-byte clusters, one FAT, device filled with 0xD1, decoded by Spec/Abs.v and checked by
   Spec/Wf.v) is in Proofs/FormatImageExamples.v: its evaluation takes ~40 s and is therefore not repeated at every check *)

Print Assumptions C06_format_total.
Print Assumptions C06_format_err_kind.
Print Assumptions C06_format_ok_valid.
Print Assumptions C06_violations_nil_iff.
Print Assumptions C06_format_default_succeeds.
Print Assumptions C06_format_default_rejects_small.
Print Assumptions C06_format_closed_form.
Print Assumptions C06_format_zero_clusters_witness.
Print Assumptions C06_image_boot_sector.
Print Assumptions C06_image_frame.
Print Assumptions C06_image_root_dir.
Print Assumptions C06_image_fat.
Print Assumptions C06_image_free_space.
Print Assumptions C06_image_fat_values_small.
Print Assumptions C06_image_fat1216_small.
Print Assumptions C06_image_fsinfo_count_exact.
Print Assumptions C06_image_bad_range_volume_counts.
Print Assumptions C06_image_total.
Print Assumptions C06_image_decodes_empty.
