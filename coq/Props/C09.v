(* C09 - storage errors surface as I/O errors: never swallowed, masked, a panic or a hang.
   Layer proved: the cluster-chain logic (Model/Table.v) over ANY store whose accesses may fail.  The other
   error-inspecting sites (DirIter latch, check_for_existence, deserialize's UnexpectedEof, read_exact/write_all)
   are covered by the exhaustive single-fault enumeration on the implementation (tools/props/c09.py). *)
From Coq Require Import NArith List.
From FatVerif Require Import Model.Base Model.Table Proofs.TableProofs Proofs.TableFaultProofs.
Open Scope N_scope.

Section C09.
Variable T : Type.
Variable get : T -> N -> res fatv.
Variable set : T -> N -> fatv -> res T.
Hypothesis get_kind : forall t c, match get t c with Ok _ => True | Err e => e = EIo | Panic => False | OutOfFuel => False end.
Hypothesis set_kind : forall t c v, match set t c v with Ok _ => True | Err e => e = EIo | Panic => False | OutOfFuel => False end.

(* allocation: an I/O error is never turned into NotEnoughSpace (the out-of-space answer requires that every
   entry of the data range was read successfully and found occupied) *)
Theorem C09_alloc_error_transparent : forall t prev hint total e,
  hint_ok hint ->
  alloc_cluster T get set t prev hint total = Err e ->
  e = EIo \/ (e = ENotEnoughSpace /\ all_occupied T get t 2 (total + 2)).
Proof. exact (alloc_error_transparent T get set get_kind set_kind). Qed.

Theorem C09_alloc_never_panics : forall t prev hint total,
  alloc_cluster T get set t prev hint total <> Panic /\ alloc_cluster T get set t prev hint total <> OutOfFuel.
Proof. exact (alloc_never_panics T get set get_kind set_kind). Qed.

(* chain free / truncate: a failing FAT read is returned immediately, whatever the fuel: no endless loop *)
Theorem C09_free_head_error : forall t c k e,
  get t c = Err e -> ci_free T get set t (ci_new c) (S k) = Err e.
Proof. exact (ci_free_head_error T get set). Qed.

Theorem C09_truncate_head_error : forall t c k e,
  get t c = Err e -> ci_truncate T get set t (ci_new c) k = Err e.
Proof. exact (ci_truncate_head_error T get set). Qed.

Theorem C09_free_error_kind : forall fuel t it e,
  ci_err it = false -> ci_free T get set t it fuel = Err e -> e = EIo.
Proof. exact (ci_free_error_kind T get set get_kind set_kind). Qed.
End C09.

Print Assumptions C09_alloc_error_transparent.
Print Assumptions C09_alloc_never_panics.
Print Assumptions C09_free_head_error.
Print Assumptions C09_truncate_head_error.
Print Assumptions C09_free_error_kind.
