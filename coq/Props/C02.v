(* C02 - a file is a growable byte array with a cursor.
   Theorems over Model/FileM.v (the model of src/file.rs) for ANY FAT store satisfying the get/set laws, EVERY
   cluster size cs > 0, every buffer and every offset (so offsets and lengths touching or straddling cluster
   boundaries are instances, not samples).

   Abstraction:  [content w l sz] = the first [sz] bytes of the concatenation of the data of the clusters [l].
   [FileInv w h sz l] (Proofs/FileProofs.v) is the comment of file.rs made formal: the entry holds size [sz] and the
   handle's first cluster; [l] is the FAT chain from the first cluster (empty iff there is none), duplicate-free,
   inside 2..total+1 and allocated; length l = ceil(sz/cs); offset <= sz; current_cluster is the
   ceil(offset/cs)-th cluster of the chain and None iff offset = 0.  [WorldInv]: the cached free count is exact
   (C05's fi_inv) and every cluster holds cs bytes.
   The specification machine is Spec/ByteFile.v: state (content, position), [bf_step] judges one outcome.

   Several open files: every step theorem is stated for one handle in a world shared with others; the frame clause
   of [C02_step_refines] says that any other handle whose chain is disjoint keeps its invariant and its content and
   stays disjoint (a newly allocated cluster was free, so it belongs to nobody), hence interleaved histories on
   different files are covered by induction ([C02_interleaved_refines]). *)
From Coq Require Import NArith ZArith List Lia.
From FatVerif Require Import Model.Base Model.Table Model.FileM Spec.ByteFile Spec.Image
  Model.Fat Proofs.ImageProofs Proofs.TableProofs Proofs.FatProofs Proofs.FileProofs Proofs.FileFatProofs.
From FatVerif Require Import Spec.Abs Model.VolFile Proofs.VolFileProofs Proofs.VolFileExamples.
From FatVerif Require Spec.Regions Model.Offsets Proofs.RegionsProofs.
Open Scope N_scope.

Theorem C02_image_write_frame : forall bs im off o,
  (o < off \/ off + N.of_nat (length bs) <= o) -> img_get (img_write im off bs) o = img_get im o.
Proof. exact img_write_outside. Qed.

Section C02.
Variable T : Type.
Variable get : T -> N -> res fatv.
Variable set : T -> N -> fatv -> res T.
Variable val : T -> N -> fatv.
Variable okc : N -> Prop.
Variable okv : fatv -> Prop.
Variable inv : T -> Prop.     (* store invariant kept by [set] (byte-level stores: slice geometry, bytes < 256) *)
Hypothesis get_val : forall t c, inv t -> okc c -> get t c = Ok (val t c).
Hypothesis set_ok : forall t c v, inv t -> okc c -> okv v ->
  exists t', set t c v = Ok t' /\ inv t' /\ val t' c = v /\ forall c', c' <> c -> okc c' -> val t' c' = val t c'.
Hypothesis okv_free : okv Free.
Hypothesis okv_eoc : okv Eoc.
Variable cs total : N.
Hypothesis Hcs : 0 < cs.
Hypothesis Hokc : forall x, 2 <= x < total + 2 -> okc x.
Hypothesis Hokd : forall n, 2 <= n < total + 2 -> okv (Data n).

Let FileInv := FileInv T val cs total.
Let WorldInv := WorldInv T val inv cs total.
Let content := content T.
Let count_spec := count_spec T val.

(* read: exactly the bytes at the cursor, never more than remain, progress unless nothing remains or n = 0;
   the cursor advances by the count; the world (FAT, free count, data) is returned unchanged *)
Theorem C02_read_spec : forall w h sz l n,
  WorldInv w -> FileInv w h sz l ->
  exists h' bs, file_read T get cs w h n = Ok (w, h', bs) /\
    let k := len_N bs in
    bs = firstn (N.to_nat k) (skipn (N.to_nat (h_off h)) (content w l sz)) /\
    k <= N.min n (sz - h_off h) /\ (0 < k \/ N.min n (sz - h_off h) = 0) /\
    h_off h' = h_off h + k /\ FileInv w h' sz l.
Proof. exact (file_read_spec T get set val okc okv inv get_val set_ok cs total Hcs Hokc Hokd). Qed.

(* seek: a negative target is rejected and nothing changes (the result carries no state); every other target,
   however far beyond the end, is clamped to the size; the invariant - in particular "current_cluster is the right
   element of the chain" - is re-established *)
Theorem C02_seek_spec : forall w h sz l pos,
  WorldInv w -> FileInv w h sz l ->
  let tg := seek_target sz (h_off h) pos in
  if (tg <? 0)%Z then file_seek T get cs w h pos = Err EInvalidInput
  else exists h', file_seek T get cs w h pos = Ok (w, h', N.min (Z.to_N tg) sz) /\
         h_off h' = N.min (Z.to_N tg) sz /\ FileInv w h' sz l.
Proof. exact (file_seek_spec T get set val okc okv inv get_val set_ok cs total Hcs Hokc Hokd). Qed.

(* truncate: the content is cut at the cursor, the clusters beyond the cut are free again and the number of free
   clusters grows by exactly their number, no entry outside the file's chain and no data byte changes *)
Theorem C02_truncate_spec : forall w h sz l,
  WorldInv w -> FileInv w h sz l ->
  let keep := N.to_nat (cdiv cs (h_off h)) in
  exists w' h', file_truncate T get set total w h = Ok (w', h') /\
    w_data T w' = w_data T w /\ h_off h' = h_off h /\
    FileInv w' h' (h_off h) (firstn keep l) /\ WorldInv w' /\
    content w' (firstn keep l) (h_off h) = firstn (N.to_nat (h_off h)) (content w l sz) /\
    (forall x, In x (skipn keep l) -> val (w_fat T w') x = Free) /\
    (forall x, ~ In x l -> okc x -> val (w_fat T w') x = val (w_fat T w) x) /\
    count_spec (w_fat T w') 2 (N.to_nat total)
    = count_spec (w_fat T w) 2 (N.to_nat total) + N.of_nat (length (skipn keep l)).
Proof. exact (file_truncate_spec T get set val okc okv inv get_val set_ok okv_free okv_eoc cs total Hcs Hokc Hokd). Qed.

(* write: never a panic; 0 < k <= n unless the buffer is empty or the cursor is at the largest file size;
   the content is overwritten / extended at the cursor by the first k bytes; the chain stays or grows by ONE cluster
   that was free; invariants (incl. the exact free count) are kept; FAT entries and data outside the file's (new)
   chain are untouched.  It fails only with NotEnoughSpace, only when a new cluster is needed (cursor at the end of
   the file on a cluster boundary) and no data cluster is free - and then nothing has been modified. *)
Theorem C02_write_spec : forall w h sz l buf,
  WorldInv w -> FileInv w h sz l ->
  match file_write T get set cs total w h buf with
  | Ok (w', h', k) =>
      k <= len_N buf /\ (0 < k \/ buf = [] \/ h_off h = u32_max) /\ h_off h' = h_off h + k /\
      exists l',
        (l' = l \/ exists c, l' = l ++ [c] /\ val (w_fat T w) c = Free /\ 2 <= c < total + 2) /\
        FileInv w' h' (N.max sz (h_off h + k)) l' /\ WorldInv w' /\
        content w' l' (N.max sz (h_off h + k))
        = write_at (content w l sz) (N.to_nat (h_off h)) (firstn (N.to_nat k) buf) /\
        (forall x, ~ In x l' -> okc x -> val (w_fat T w') x = val (w_fat T w) x) /\
        (forall x, ~ In x l' -> w_data T w' x = w_data T w x)
  | Err e => e = ENotEnoughSpace /\ (forall x, 2 <= x < total + 2 -> val (w_fat T w) x <> Free) /\
             h_off h = sz /\ sz mod cs = 0
  | Panic => False
  | OutOfFuel => False
  end.
Proof. exact (file_write_spec T get set val okc okv inv get_val set_ok okv_eoc cs total Hcs Hokc Hokd). Qed.

(* extents: the clusters of the chain in order, sizes <= cs summing to the file size, and the bytes found at those
   extents are the content *)
Theorem C02_extents_spec : forall w h sz l,
  WorldInv w -> FileInv w h sz l ->
  exists ex, file_extents T get cs total w h = Ok ex /\ map fst ex = l /\ ext_total ex = sz /\
             ext_bytes (w_data T w) ex = content w l sz /\ forall e, In e ex -> 0 <= snd e <= cs.
Proof. exact (file_extents_spec T get set val okc okv inv get_val set_ok cs total Hcs Hokc Hokd). Qed.

(* one operation of any kind: accepted by the byte-array machine, invariants kept, and every other open file
   (disjoint chain) keeps its invariant, its content, and stays disjoint *)
Theorem C02_step_refines : forall w h sz l op,
  WorldInv w -> FileInv w h sz l ->
  exists w' h' r sz' l', file_step T get set cs total w h op = (w', h', r) /\
    WorldInv w' /\ FileInv w' h' sz' l' /\
    bf_step (content w l sz, h_off h) op r = Some (content w' l' sz', h_off h') /\
    (forall h2 sz2 l2, FileInv w h2 sz2 l2 -> disjoint l l2 ->
       FileInv w' h2 sz2 l2 /\ content w' l2 sz2 = content w l2 sz2 /\ disjoint l' l2).
Proof. exact (file_step_refines T get set val okc okv inv get_val set_ok okv_free okv_eoc cs total Hcs Hokc Hokd). Qed.

(* any history on a new empty file: the model's outcomes are exactly a run of the byte-array machine from
   (empty, 0), and the final abstract state is the final content and position *)
Theorem C02_run_refines : forall ops w,
  WorldInv w ->
  exists w' h' rs sz' l', file_run T get set cs total w empty_file ops = (w', h', rs) /\
    WorldInv w' /\ FileInv w' h' sz' l' /\ bf_run ([], 0) ops rs = Some (content w' l' sz', h_off h').
Proof. exact (file_run_from_empty T get set val okc okv inv get_val set_ok okv_free okv_eoc cs total Hcs Hokc Hokd). Qed.

(* the same from any file in any state *)
Theorem C02_run_refines_from : forall ops w h sz l,
  WorldInv w -> FileInv w h sz l ->
  exists w' h' rs sz' l', file_run T get set cs total w h ops = (w', h', rs) /\
    WorldInv w' /\ FileInv w' h' sz' l' /\
    bf_run (content w l sz, h_off h) ops rs = Some (content w' l' sz', h_off h').
Proof. exact (file_run_refines T get set val okc okv inv get_val set_ok okv_free okv_eoc cs total Hcs Hokc Hokd). Qed.

(* several different files open and modified in interleaved order: [hs] are the open handles, [gs] their (size, chain)
   pairs, [MultiInv] = every handle satisfies FileInv and the chains are pairwise disjoint, [views] = the list of
   (content, position) pairs.  Every interleaving of operations (index of the handle, operation) is a run of the
   machine of independent byte arrays. *)
Theorem C02_interleaved_refines : forall ops w hs gs,
  WorldInv w -> MultiInv T val cs total w hs gs ->
  exists w' hs' rs gs', multi_run T get set cs total w hs ops = (w', hs', rs) /\
    WorldInv w' /\ MultiInv T val cs total w' hs' gs' /\
    bf_multi (views T w hs gs) ops rs = Some (views T w' hs' gs').
Proof. exact (multi_run_refines T get set val okc okv inv get_val set_ok okv_free okv_eoc cs total Hcs Hokc Hokd). Qed.
End C02.

(* ---- non-vacuity on the pure store: cluster size 4, 8 data clusters, all free ---- *)
Definition ex_world : fworld pfat :=
  {| w_fat := fun _ => Free; w_fi := {| fi_free := Some 8; fi_next := None; fi_dirty := false |};
     w_data := fun _ => [0; 0; 0; 0] |}.

Example C02_example_world : WorldInv pfat (fun t c => t c) (fun _ => True) 4 8 ex_world /\ FileInv pfat (fun t c => t c) 4 8 ex_world empty_file 0 [].
Proof.
  split; [split; [exact I|split; [split; [reflexivity|exact I]|reflexivity]]|].
  constructor; cbn; try reflexivity; try (intros _ []); try constructor.
  - eexists. repeat split.
  - discriminate.
Qed.

(* a non-trivial state satisfying the invariants: a 6-byte file in clusters 5 -> 3 (cluster size 4), cursor at 5,
   so current_cluster is the SECOND cluster of the chain *)
Definition ex_world2 : fworld pfat :=
  {| w_fat := fun c => if c =? 5 then Data 3 else if c =? 3 then Eoc else Free;
     w_fi := {| fi_free := Some 6; fi_next := Some 4; fi_dirty := true |};
     w_data := fun c => if c =? 5 then [1; 2; 3; 4] else if c =? 3 then [5; 6; 0; 0] else [0; 0; 0; 0] |}.
Definition ex_handle2 : fhandle :=
  {| h_first := Some 5; h_cur := Some 3; h_off := 5;
     h_entry := Some {| ed_first := Some 5; ed_size := Some 6; ed_dirty := true |} |}.

Example C02_example_inv :
  WorldInv pfat (fun t c => t c) (fun _ => True) 4 8 ex_world2 /\ FileInv pfat (fun t c => t c) 4 8 ex_world2 ex_handle2 6 [5; 3] /\
  content pfat ex_world2 [5; 3] 6 = [1; 2; 3; 4; 5; 6].
Proof.
  split; [split; [exact I|split; [split; [reflexivity|cbn; discriminate]|]]|split; [|reflexivity]].
  - intros c. cbn. destruct (c =? 5); [reflexivity|]. destruct (c =? 3); reflexivity.
  - constructor; cbn; try reflexivity.
    + eexists. repeat split.
    + discriminate.
    + apply chain_step with 3; [reflexivity|]. apply chain_end. intros n. discriminate.
    + constructor; [intros [H|[]]; discriminate|]. constructor; [intros []|constructor].
    + intros x [<-|[<-|[]]]; (split; [lia|cbn; discriminate]).
    + discriminate.
Qed.

(* a history straddling cluster boundaries: 6 bytes (two write calls: 4 + 2), seek into the first cluster,
   read up to the boundary, seek beyond the end (clamped), seek before the start (rejected), truncate *)
Example C02_example_run :
  let ops := [FWrite [1; 2; 3; 4; 5; 6]; FWrite [5; 6]; FSeek (FromStart 1); FRead 10; FRead 10; FSeek (FromEnd 7);
              FSeek (FromCurrent (-7)); FSeek (FromStart 5); FTruncate; FSeek (FromStart 0); FRead 3] in
  let '(w', h', rs) := file_run pfat pget pset 4 8 ex_world empty_file ops in
  rs = [RCount 4; RCount 2; RPos 1; RBytes [2; 3; 4]; RBytes [5; 6]; RPos 6; RFail EInvalidInput; RPos 5; RDone; RPos 0;
        RBytes [1; 2; 3]]
  /\ h_size h' = Some 5 /\ h_first h' = Some 2 /\ w_fat pfat w' 2 = Data 3 /\ w_fat pfat w' 3 = Eoc
  /\ fi_free (w_fi pfat w') = Some 6
  /\ bf_run ([], 0) ops rs = Some ([1; 2; 3; 4; 5], 3).
Proof. vm_compute. repeat split. Qed.

(* two new files written alternately: their clusters interleave on disk (2,4 and 3,5), their contents do not mix *)
Example C02_example_interleaved :
  let ops := [(O, FWrite [1; 2; 3; 4]); (S O, FWrite [9; 9; 9; 9]); (O, FWrite [5; 6]); (S O, FWrite [8]); (O, FSeek (FromStart 0));
              (S O, FSeek (FromStart 2)); (O, FRead 4); (O, FRead 4); (S O, FTruncate); (S O, FSeek (FromStart 0)); (S O, FRead 9)] in
  MultiInv pfat (fun t c => t c) 4 8 ex_world [empty_file; empty_file] [(0, []); (0, [])] /\
  let '(w', hs', rs) := multi_run pfat pget pset 4 8 ex_world [empty_file; empty_file] ops in
  rs = [RCount 4; RCount 4; RCount 2; RCount 1; RPos 0; RPos 2; RBytes [1; 2; 3; 4]; RBytes [5; 6]; RDone; RPos 0; RBytes [9; 9]]
  /\ map h_first hs' = [Some 2; Some 3] /\ w_fat pfat w' 2 = Data 4 /\ w_fat pfat w' 3 = Eoc /\ w_fat pfat w' 5 = Free
  /\ bf_multi [([], 0); ([], 0)] ops rs = Some [([1; 2; 3; 4; 5; 6], 6); ([9; 9], 2)].
Proof.
  split.
  - split; [reflexivity|]. split.
    + intros [|[|i]] h g Hh Hg; cbn in Hh, Hg; [| |destruct i; discriminate];
        injection Hh as <-; injection Hg as <-; apply C02_example_world.
    + intros [|[|i]] j g1 g2 _ H1 _; cbn in H1; [| |destruct i; discriminate]; injection H1 as <-; intros x [].
  - vm_compute. repeat split.
Qed.

(* why [FileInv] is a hypothesis of the seek theorem: on a (corrupt) volume whose chain is shorter than the size
   says, File::seek stops at the end of the last cluster ("cluster chain ends before the new position"), so the
   result is not min(target, size).  Size 10, cluster size 4, chain = [2] only: seek(Start(9)) = 4. *)
Example C02_seek_short_chain_witness :
  let w := {| w_fat := (fun c => if c =? 2 then Eoc else Free) : pfat;
              w_fi := {| fi_free := None; fi_next := None; fi_dirty := false |}; w_data := fun _ => [0; 0; 0; 0] |} in
  let h := file_new (Some 2) (Some {| ed_first := Some 2; ed_size := Some 10; ed_dirty := false |}) in
  match file_seek pfat pget 4 w h (FromStart 9) with Ok (_, h', p) => p = 4 /\ h_cur h' = Some 2 | _ => False end.
Proof. vm_compute. split; reflexivity. Qed.

(* ---- the same refinement on the bytes of the FAT region: the get/set laws assumed above are theorems for the
   FAT12, FAT16 and FAT32 codecs of src/table.rs (Proofs/FatProofs.v) for every slice geometry with at least one
   copy, so every history of every set of open files over a byte-level FAT (all copies written) is a run of
   independent byte arrays.  [inv_g base size mirrors]: the slice geometry and "every byte < 256". *)
Theorem C02_interleaved_refines_fat16 : forall base size mirrors cs total, (1 <= mirrors)%nat -> 0 < cs ->
  2 * (total + 2) <= size -> total + 2 <= 65527 ->
  forall ops w hs gs,
  WorldInv fstore val16 (inv_g base size mirrors) cs total w -> MultiInv fstore val16 cs total w hs gs ->
  exists w' hs' rs gs', multi_run fstore get16 set16 cs total w hs ops = (w', hs', rs) /\
    WorldInv fstore val16 (inv_g base size mirrors) cs total w' /\ MultiInv fstore val16 cs total w' hs' gs' /\
    bf_multi (views fstore w hs gs) ops rs = Some (views fstore w' hs' gs').
Proof. intros base size mirrors cs total Hm Hcs Hs Ht. exact (multi_run_refines16 base size mirrors Hm cs total Hcs Hs Ht). Qed.

Theorem C02_interleaved_refines_fat32 : forall base size mirrors cs total, (1 <= mirrors)%nat -> 0 < cs ->
  4 * (total + 2) <= size -> total + 2 <= 268435447 ->
  forall ops w hs gs,
  WorldInv fstore val32 (inv_g base size mirrors) cs total w -> MultiInv fstore val32 cs total w hs gs ->
  exists w' hs' rs gs', multi_run fstore get32 set32 cs total w hs ops = (w', hs', rs) /\
    WorldInv fstore val32 (inv_g base size mirrors) cs total w' /\ MultiInv fstore val32 cs total w' hs' gs' /\
    bf_multi (views fstore w hs gs) ops rs = Some (views fstore w' hs' gs').
Proof. intros base size mirrors cs total Hm Hcs Hs Ht. exact (multi_run_refines32 base size mirrors Hm cs total Hcs Hs Ht). Qed.

Theorem C02_interleaved_refines_fat12 : forall base size mirrors cs total, (1 <= mirrors)%nat -> 0 < cs ->
  off12 (total + 1) + 2 <= size -> total + 2 <= 4087 ->
  forall ops w hs gs,
  WorldInv fstore val12 (inv_g base size mirrors) cs total w -> MultiInv fstore val12 cs total w hs gs ->
  exists w' hs' rs gs', multi_run fstore get12 set12 cs total w hs ops = (w', hs', rs) /\
    WorldInv fstore val12 (inv_g base size mirrors) cs total w' /\ MultiInv fstore val12 cs total w' hs' gs' /\
    bf_multi (views fstore w hs gs) ops rs = Some (views fstore w' hs' gs').
Proof. intros base size mirrors cs total Hm Hcs Hs Ht. exact (multi_run_refines12 base size mirrors Hm cs total Hcs Hs Ht). Qed.

(* non-vacuity on bytes: a blank two-copy FAT16 of 8 data clusters at byte 512 (20 bytes per copy), cluster size 4;
   the history of [C02_example_run] gives the same results, and both copies of the table hold the chain 2 -> 3 *)
Definition ex_store16 : fstore := {| fs_img := img_empty 0; fs_base := 512; fs_size := 20; fs_mirrors := 2 |}.
Definition ex_world16 : fworld fstore :=
  {| w_fat := ex_store16; w_fi := {| fi_free := Some 8; fi_next := None; fi_dirty := false |};
     w_data := fun _ => [0; 0; 0; 0] |}.
Example C02_example_world16 :
  WorldInv fstore val16 (inv_g 512 20 2) 4 8 ex_world16 /\ MultiInv fstore val16 4 8 ex_world16 [empty_file] [(0, [])].
Proof.
  split.
  - split; [|split; [split; [reflexivity|exact I]|reflexivity]].
    split; [reflexivity|]. split; [reflexivity|]. split; [reflexivity|]. apply img_empty_bytes_ok. reflexivity.
  - split; [reflexivity|]. split.
    + intros [|i] h g Hh Hg; cbn in Hh, Hg; [|destruct i; discriminate]. injection Hh as <-. injection Hg as <-.
      constructor; cbn; try reflexivity; try (intros _ []); try constructor.
      * eexists. repeat split.
      * discriminate.
    + intros [|i] [|j] g1 g2 Hne H1 H2; cbn in H1, H2; try (destruct i; discriminate); try (destruct j; discriminate).
      congruence.
Qed.
Example C02_example_run16 :
  let ops := [FWrite [1; 2; 3; 4; 5; 6]; FWrite [5; 6]; FSeek (FromStart 1); FRead 10; FRead 10; FSeek (FromEnd 7);
              FSeek (FromCurrent (-7)); FSeek (FromStart 5); FTruncate; FSeek (FromStart 0); FRead 3] in
  let '(w', h', rs) := file_run fstore get16 set16 4 8 ex_world16 empty_file ops in
  rs = [RCount 4; RCount 2; RPos 1; RBytes [2; 3; 4]; RBytes [5; 6]; RPos 6; RFail EInvalidInput; RPos 5; RDone; RPos 0;
        RBytes [1; 2; 3]]
  /\ img_read (fs_img (w_fat fstore w')) (512 + 4) 4 = [3; 0; 255; 255]
  /\ img_read (fs_img (w_fat fstore w')) (512 + 20 + 4) 4 = [3; 0; 255; 255]
  /\ bf_run ([], 0) ops rs = Some ([1; 2; 3; 4; 5], 3).
Proof. vm_compute. repeat split. Qed.

(* ---------------------------------------------------------------- the file layer over ONE device image
   (Model/VolFile.v, Proofs/VolFileProofs.v; the decode side of these theorems is Props/C04.v, theorems C04_file_decodes_xxx).
   The state of the image-level machine is (image, FS-info latch, handle): the FAT store is the FAT slice of the image
   (all mirrored copies), the data of cluster c the bytes at g_cluster_off g c.  [VolInv g im fi h sz l] = the C02
   invariants for the world read off the image, every byte < 256, no bad-cluster mark inside the chain [l].
   The abstraction function is the INDEPENDENT DECODER's view: firstn sz (Abs.chain_bytes g im l). *)

(* one step refines the byte-array machine; the invariant is kept; every cluster of the new chain was in the old chain
   or free for the decoder; outside the mirrored FAT copies and the clusters of the new chain no byte of the image moves;
   other files are not disturbed *)
Theorem C02_image_step : forall g, vgeom_ok g -> forall im fi h sz l op,
  op_ok op -> VolInv g im fi h sz l ->
  exists im' fi' h' r sz' l', vol_step g (im, fi, h) op = ((im', fi', h'), r) /\
    VolInv g im' fi' h' sz' l' /\
    bf_step (firstn (N.to_nat sz) (chain_bytes g im l), h_off h) op r
      = Some (firstn (N.to_nat sz') (chain_bytes g im' l'), h_off h') /\
    (forall x, In x l' -> In x l \/ fat_val g im x = FFree) /\
    (forall a, ~ in_store_area g a -> (forall c, In c l' -> ~ in_cluster g c a) -> img_get im' a = img_get im a) /\
    (* several files: any OTHER file of the image with a disjoint chain keeps its invariant and its decoded content *)
    (forall h2 sz2 l2, VFileInv g (world_of g im fi) h2 sz2 l2 -> NoBad g (world_of g im fi) l2 -> disjoint l l2 ->
       VFileInv g (world_of g im' fi') h2 sz2 l2 /\ NoBad g (world_of g im' fi') l2 /\
       firstn (N.to_nat sz2) (chain_bytes g im' l2) = firstn (N.to_nat sz2) (chain_bytes g im l2) /\ disjoint l' l2).
Proof. exact vol_step_refines. Qed.

(* the frame of a step through the region classifier of Spec/Regions.v (the extracted classifier that judges every device
   write of the implementation in C11): a byte the step changes is "FAT copy k" (k < number of copies) or "cluster c" for a
   cluster c that was in the file's chain or free for the decoder before the step *)
Theorem C02_image_step_changes_classified : forall g, vgeom_ok g -> forall im fi h sz l op,
  op_ok op -> VolInv g im fi h sz l ->
  exists im' fi' h' r, vol_step g (im, fi, h) op = ((im', fi', h'), r) /\
    forall m a, img_get im' a <> img_get im a ->
      (exists k, k < g_fats g /\ Regions.classify g im m a = Regions.RFat k) \/
      (exists c, (In c l \/ fat_val g im c = FFree) /\
                 Regions.classify g im m a = Regions.RCluster c (Regions.cluster_owner g im m c)).
Proof. exact vol_step_changes_classified. Qed.

(* the data of cluster c is placed where the library's checked u32/u64 address arithmetic (Model/Offsets.v) puts it *)
Theorem C02_image_data_offset_is_library : forall g c,
  Offsets.ogeom_ok (RegionsProofs.ogeom_of g) -> 2 <= c < g_clusters g + 2 ->
  Offsets.offset_from_cluster (RegionsProofs.ogeom_of g) c = Ok (g_cluster_off g c).
Proof. exact data_offset_is_library. Qed.

(* any history on a new file, on any image with a sane geometry, bytes < 256 and a consistent free-count latch *)
Theorem C02_image_run_from_empty : forall g, vgeom_ok g -> forall ops im fi,
  bytes_ok im -> fi_inv fstore (val_ft (ft_of g)) (store_of g im) fi (g_clusters g) -> Forall op_ok ops ->
  exists im' fi' h' rs sz' l', vol_run g (im, fi, empty_file) ops = ((im', fi', h'), rs) /\
    VolInv g im' fi' h' sz' l' /\
    bf_run ([], 0) ops rs = Some (firstn (N.to_nat sz') (chain_bytes g im' l'), h_off h') /\
    match h_first h' with
    | Some f => forall fuel, (length l' <= fuel)%nat -> chain_from g im' f fuel = Some l'
    | None => l' = []
    end.
Proof. exact vol_run_from_empty. Qed.

(* every plain FileM step from ANY world embedded in an image ([Embeds], see Props/C04.v) can be replayed on the image:
   [img_effect] = the table area of the new store (all mirrored copies), then the data bytes at their cluster offset *)
Theorem C02_image_replay_step : forall g, vgeom_ok g -> forall im w h sz l op,
  Embeds g im w -> VWorldInv g w -> VFileInv g w h sz l -> NoBad g w l ->
  exists w' h' r sz' l',
    file_step fstore (fat_get (ft_of g)) (fat_set (ft_of g)) (g_cluster_size g) (g_clusters g) w h op = (w', h', r) /\
    VWorldInv g w' /\ VFileInv g w' h' sz' l' /\ NoBad g w' l' /\
    bf_step (content fstore w l sz, h_off h) op r = Some (content fstore w' l' sz', h_off h') /\
    Embeds g (img_effect g im w' h h' op r) w' /\
    (forall x, In x l' -> In x l \/ fat_val g im x = FFree) /\
    (forall a, ~ in_store_area g a -> (forall c, In c l' -> ~ in_cluster g c a) ->
       img_get (img_effect g im w' h h' op r) a = img_get im a).
Proof. exact embed_step. Qed.

(* an embedded world with its invariants is a state of the image-level machine *)
Theorem C02_image_embedded_state : forall g, vgeom_ok g -> forall im w h sz l,
  bytes_ok im -> Embeds g im w -> VWorldInv g w -> VFileInv g w h sz l -> NoBad g w l ->
  VolInv g im (w_fi fstore w) h sz l.
Proof. exact embeds_vol_inv. Qed.

(* non-vacuity: Proofs/VolFileExamples.v - a formatted 64-sector FAT12 image, 6 bytes written across clusters 2 and 3 *)
Example C02_image_example_hyps :
  vgeom_ok ex_g /\ bytes_ok ex_im /\ fi_inv fstore (val_ft (ft_of ex_g)) (store_of ex_g ex_im) ex_fi (g_clusters ex_g) /\
  Forall op_ok ex_ops /\ Embeds ex_g ex_im (world_of ex_g ex_im ex_fi).
Proof.
  split; [exact ex_geom_ok|]. split; [exact ex_bytes_ok|]. split; [split; exact I|]. split; [exact ex_ops_ok|].
  apply embeds_world_of.
Qed.
Example C02_image_example_replay :
  let w := world_of ex_g ex_im ex_fi in
  let '(w', h', rs) := file_run fstore (fat_get Fat12) (fat_set Fat12) 512 60 w empty_file ex_ops in
  let im' := img_run ex_g ex_im w empty_file ex_ops in
  rs = [RCount 509; RCount 3; RCount 3] /\
  chain_from ex_g im' 2 (Abs.chain_fuel ex_g) = Some [2; 3] /\
  skipn 509 (decode_file ex_g im' (first_field h') 515) = [1; 2; 3; 4; 5; 6] /\
  img_read im' (1024 + 3) 3 = [3; 240; 255].
Proof. exact ex_replay_decodes. Qed.


(* ---------------------------------------------------------------- SEVERAL OPEN FILES on one device image
   (Model/VolSession2.v, Proofs/VolSession2Proofs.v): the image-level form of C02_interleaved_refines.
   [MVolInv g im fi hs gs]: every byte < 256, the world read off the image is consistent, every handle [hs_i] satisfies the
   C02 invariant with ghost (size, chain) [gs_i] and no bad-cluster mark in its chain, and the chains are PAIRWISE DISJOINT.
   The abstraction [vviews] is, per file, what the INDEPENDENT DECODER reads: firstn sz (chain_bytes g im l), and the
   handle's position. *)
From FatVerif Require Import Model.Time Model.VolSession Model.VolSession2 Proofs.VolDirProofs Proofs.VolSessionProofs
  Proofs.VolSession2Proofs Proofs.VolDirFormat Proofs.VolSessionExamples Proofs.VolSession2Examples.

(* one call on handle [i]: it refines the byte-array machine on the decoder's content of file i; every other file keeps its
   decoded content; the invariant (in particular pairwise disjointness) is kept with the ghost of handle i updated; the
   image changes only in the FAT copies and in clusters of the new chain, each of which was in the old chain or free *)
Theorem C02_image_interleaved_step : forall g, vgeom_ok g -> forall im fi hs gs i h gh op,
  op_ok op -> MVolInv g im fi hs gs -> nth_error hs i = Some h -> nth_error gs i = Some gh ->
  exists im' fi' h' r sz' l', vol_step g (im, fi, h) op = ((im', fi', h'), r) /\
    MVolInv g im' fi' (list_set hs i h') (list_set gs i (sz', l')) /\
    bf_step (firstn (N.to_nat (fst gh)) (chain_bytes g im (snd gh)), h_off h) op r
      = Some (firstn (N.to_nat sz') (chain_bytes g im' l'), h_off h') /\
    (forall j gj, j <> i -> nth_error gs j = Some gj ->
       firstn (N.to_nat (fst gj)) (chain_bytes g im' (snd gj)) = firstn (N.to_nat (fst gj)) (chain_bytes g im (snd gj))) /\
    (forall x, In x l' -> In x (snd gh) \/ fat_val g im x = FFree) /\
    (forall a, ~ in_store_area g a -> (forall c, In c l' -> ~ in_cluster g c a) -> img_get im' a = img_get im a) /\
    (forall x, 2 <= x < g_clusters g + 2 -> ~ In x (snd gh) -> ~ In x l' -> fat_val g im' x = fat_val g im x) /\
    (forall x, In x (snd gh) -> ~ In x l' -> fat_val g im' x = FFree) /\
    emono (h_entry h) (h_entry h') /\ VolInv g im' fi' h' sz' l'.
Proof. exact mvol_step_refines. Qed.

(* ANY interleaving of calls on the handles of one image = a run of the multi-file byte-array machine (Spec/ByteFile.v
   bf_multi) over the decoder's contents; a call that addresses a missing handle is skipped on both sides *)
Theorem C02_image_interleaved_refines : forall g, vgeom_ok g -> forall ops im fi hs gs,
  Forall (fun io => op_ok (snd io)) ops -> MVolInv g im fi hs gs ->
  exists im' fi' hs' rs gs', mvol_run g (im, fi, hs) ops = ((im', fi', hs'), rs) /\
    MVolInv g im' fi' hs' gs' /\
    bf_multi (vviews g im hs gs) ops rs = Some (vviews g im' hs' gs').
Proof. exact mvol_run_refines. Qed.

(* the same for whole SESSIONS on a FAT12/16 volume: handles bound to their directory entries in the fixed root, every call
   under its own clock value (time stamps go to the handle's own editor), File::flush / drop of any handle at any point
   (the entry write-back changes no file content).  [RunInv g im0 es0 st gs es ls] = the session invariant [Sess2Inv]
   (MVolInv for the handles; every handle bound to ITS entry of the root scan [es]; a clean handle's entry on the device
   holds its first cluster and size), the frame [Frame2] relative to the image [im0] the session started from, and the
   entries that belong to no handle are the entries [es0] of the scan of [im0].  Kept by every run; names, short slots and
   the non-handle entries never change *)
Theorem C02_image_interleaved_session : forall g, fixed_root_geom g -> forall acc im0 es0 ops st gs es ls,
  Forall s2op_ok ops -> RunInv g im0 es0 st gs es ls ->
  exists st' rs gs' es', s2_run g acc st ops = (st', rs) /\ RunInv g im0 es0 st' gs' es' ls /\
    bf_multi (s2_views g st gs) (file_ops ops) rs = Some (s2_views g st' gs') /\
    gs_rel gs gs' /\ map hslot (s2_hs st') = map hslot (s2_hs st) /\
    map e_sfn es' = map e_sfn es /\ map e_lfn es' = map e_lfn es.
Proof. exact s2_run_inv. Qed.

(* non-vacuity: two new handles on the 64-sector FAT12 image written alternately - clusters 2 -> 4 and 3 -> 5 *)
Example C02_image_interleaved_example_hyps :
  vgeom_ok ex_g /\ MVolInv ex_g ex_im ex_fi [empty_file; empty_file] [(0, []); (0, [])] /\
  Forall (fun io => op_ok (snd io)) ex2_mops.
Proof. split; [exact ex_geom_ok|]. split; [exact ex2_mvol_inv|exact ex2_mops_ok]. Qed.

(* ... and the session invariant [RunInv]: it holds right after mount (Props/C04.v C04_session2_start) and is kept by every
   create_file (C04_session2_create_keeps_inv); here the state after the two creates on the 64-sector image of Props/C06.v *)
Example C02_image_interleaved_session_example_hyps :
  let g := parse_geom ex_vol_im in
  exists st1 gs es ls,
    s2_creates ex_U ex_O {| s2_im := ex_vol_im; s2_fi := ex_sfi; s2_hs := [] |} ex2_reqs = Some st1 /\
    RunInv g ex_vol_im [] st1 gs es ls /\ length gs = 2%nat /\ length (s2_hs st1) = 2%nat.
Proof. exact ex2_run_inv. Qed.

Example C02_image_interleaved_example :
  let '((im', fi', hs'), rs) := mvol_run ex_g (ex_im, ex_fi, [empty_file; empty_file]) ex2_mops in
  rs = [RCount 512; RCount 512; RCount 3; RCount 2; RPos 510; RBytes [7; 7]] /\
  map h_first hs' = [Some 2; Some 3] /\
  chain_from ex_g im' 2 (Abs.chain_fuel ex_g) = Some [2; 4] /\ chain_from ex_g im' 3 (Abs.chain_fuel ex_g) = Some [3; 5] /\
  vviews ex_g im' hs' [(515, [2; 4]); (514, [3; 5])] = [(ex2_a, 512); (ex2_b, 514)] /\
  bf_multi [([], 0); ([], 0)] ex2_mops rs = Some [(ex2_a, 512); (ex2_b, 514)].
Proof. exact ex2_mvol_run. Qed.

Print Assumptions C02_image_write_frame.
Print Assumptions C02_read_spec.
Print Assumptions C02_seek_spec.
Print Assumptions C02_truncate_spec.
Print Assumptions C02_write_spec.
Print Assumptions C02_extents_spec.
Print Assumptions C02_step_refines.
Print Assumptions C02_run_refines.
Print Assumptions C02_run_refines_from.
Print Assumptions C02_interleaved_refines.
Print Assumptions C02_interleaved_refines_fat16.
Print Assumptions C02_interleaved_refines_fat32.
Print Assumptions C02_interleaved_refines_fat12.
Print Assumptions C02_image_step.
Print Assumptions C02_image_step_changes_classified.
Print Assumptions C02_image_data_offset_is_library.
Print Assumptions C02_image_run_from_empty.
Print Assumptions C02_image_replay_step.
Print Assumptions C02_image_embedded_state.
Print Assumptions C02_image_interleaved_step.
Print Assumptions C02_image_interleaved_refines.
Print Assumptions C02_image_interleaved_session.
