(* C20 - large volumes: 64-bit addressing, last clusters, allocation wrap-around. *)
From Coq Require Import NArith List.
From FatVerif Require Import Model.Base Model.Offsets Model.Table Proofs.OffsetsProofs Proofs.TableProofs.
Open Scope N_scope.

(* every data cluster of an accepted volume (any size below 2^32 sectors of up to 4096 bytes) is addressed
   without 32/64-bit wrap-around, at the specification offset, and lies completely inside the declared volume *)
Theorem C20_offset_arith_exact : forall g c, ogeom_ok g -> 2 <= c < o_clusters g + 2 ->
  exists off, offset_from_cluster g c = Ok off /\
    off = (o_first_data g + (c - 2) * o_spc g) * o_bps g /\
    off + cluster_size g <= o_total_sectors g * o_bps g /\
    off + cluster_size g <= 4294967295 * 4096.
Proof. exact offset_arith_exact. Qed.

Theorem C20_fat_entry_offsets_exact : forall c, c <= 268435457 ->
  fat16_entry_offset c = Ok (2 * c) /\ fat32_entry_offset c = Ok (4 * c) /\ fat12_entry_offset c = Ok (c + c / 2).
Proof. exact fat_entry_offsets_exact. Qed.

(* allocation with a hint anywhere (at, before or past the last cluster): the scan [hint,end) followed by the
   wrap-around scan [2,hint) finds a free cluster whenever one exists, and never returns one outside 2..total+1 *)
Section Alloc.
Variable T : Type.
Variable get : T -> N -> res fatv.
Variable set : T -> N -> fatv -> res T.
Variable val : T -> N -> fatv.
Variable okc : N -> Prop.
Variable okv : fatv -> Prop.
Variable inv : T -> Prop.
Hypothesis get_val : forall t c, inv t -> okc c -> get t c = Ok (val t c).
Hypothesis set_ok : forall t c v, inv t -> okc c -> okv v ->
  exists t', set t c v = Ok t' /\ inv t' /\ val t' c = v /\ forall c', c' <> c -> okc c' -> val t' c' = val t c'.
Hypothesis okv_free : okv Free.
Hypothesis okv_eoc : okv Eoc.

Theorem C20_alloc_wraps : forall t hint total e,
  inv t -> hint_ok hint -> (forall x, 2 <= x < total + 2 -> okc x) ->
  alloc_cluster T get set t None hint total = Err e ->
  e = ENotEnoughSpace /\ forall x, 2 <= x < total + 2 -> val t x <> Free.
Proof.
  intros t hint total e Hi Hh Hokc. exact (alloc_err T get set val okc okv inv get_val set_ok okv_eoc t None hint total e Hi Hh Hokc I).
Qed.

Theorem C20_alloc_in_range : forall t hint total t' c,
  inv t -> hint_ok hint -> (forall x, 2 <= x < total + 2 -> okc x) ->
  alloc_cluster T get set t None hint total = Ok (t', c) ->
  2 <= c < total + 2 /\ val t c = Free.
Proof.
  intros t hint total t' c Hi Hh Hokc Ha.
  destruct (alloc_ok T get set val okc okv inv get_val set_ok okv_eoc t None hint total t' c Hi Hh Hokc I Ha) as (_ & H1 & H2 & _).
  split; assumption.
Qed.
End Alloc.

Print Assumptions C20_offset_arith_exact.
Print Assumptions C20_fat_entry_offsets_exact.
Print Assumptions C20_alloc_wraps.
Print Assumptions C20_alloc_in_range.
