(* C04 - what a session saw is what is on the disk: remount and independent decode agree.
   Layer theorems: (1) what the library WRITES for an entry is decoded by the independent specification decoder to
   exactly that entry (long name, alias, slot positions); (2) the library's READERS agree with the specification on
   table values and short-name rendering; (3) the byte ranges a file reports as extents hold exactly its content.
   The composition over whole volumes and sessions is checked on the implementation at every remount point
   (tools/props/c04.py). *)
From Coq Require Import NArith ZArith List.
From FatVerif Require Import Model.Base Model.Str Model.Slot Model.Table Model.Fat Model.Name Model.FileM Model.DirSlots
  Spec.Image Spec.Abs Spec.ByteFile
  Proofs.ImageProofs Proofs.TableProofs Proofs.FileProofs Proofs.DirSlotsProofs Proofs.CrossProofs.
Open Scope N_scope.

Theorem C04_image_write_frame : forall bs im off o,
  (o < off \/ off + N.of_nat (length bs) <= o) -> img_get (img_write im off bs) o = img_get im o.
Proof. exact img_write_outside. Qed.

(* (1) written entry -> independent decode *)
Theorem C04_written_entry_decodes : forall n e idx fat32,
  validate_long_name n = Ok tt -> is_dot_name n = false -> sfn_fields_ok e ->
  let lfn_slots := map lfn_encode (lfn_entries (utf16_encode n) (lfn_checksum (se_name e))) in
  let en := mk_entry (rev lfn_slots) (sfn_encode e) idx fat32 in
  run_valid (rev lfn_slots) (se_name e) = true /\ e_lfn en = utf16_encode n /\ e_lfn_ok en = true /\
  e_sfn en = se_name e /\ e_first_slot en = idx - len_N lfn_slots /\ e_sfn_slot en = idx.
Proof. exact written_run_valid. Qed.

(* (2) readers agree with the specification *)
Theorem C04_fat12_values_agree : forall g v, g_bits g = 12 -> fatv_of (fat_classify g v) = classify12 v.
Proof. exact classify12_agrees. Qed.
Theorem C04_fat16_values_agree : forall g v, g_bits g = 16 -> fatv_of (fat_classify g v) = classify16 v.
Proof. exact classify16_agrees. Qed.
Theorem C04_fat32_values_agree : forall g c v, g_bits g = 32 -> c < 268435447 ->
  fatv_of (fat_classify g v) = classify32 c v.
Proof. exact classify32_agrees. Qed.
Theorem C04_short_name_render_agrees : forall raw, length raw = 11%nat -> short_name_string raw = sfn_render raw.
Proof. exact short_name_render_agrees. Qed.

(* (3) extents reproduce the content *)
Section Extents.
Variable T : Type.
Variable get : T -> N -> res fatv.
Variable set : T -> N -> fatv -> res T.
Variable val : T -> N -> fatv.
Variable okc : N -> Prop.
Variable okv : fatv -> Prop.
Variable inv : T -> Prop.
Hypothesis get_val : forall t c, inv t -> okc c -> get t c = Ok (val t c).
Hypothesis set_ok : forall t c v, inv t -> okc c -> okv v ->
  exists t', set t c v = Ok t' /\ inv t' /\ val t' c = v /\ forall c', c' <> c -> okc c' -> val t' c' = val t c'.
Hypothesis okv_free : okv Free.
Hypothesis okv_eoc : okv Eoc.
Variable cs total : N.
Hypothesis Hcs : 0 < cs.
Hypothesis Hokc : forall x, 2 <= x < total + 2 -> okc x.
Hypothesis Hokd : forall n, 2 <= n < total + 2 -> okv (Data n).

Theorem C04_extents_reproduce_content : forall w h sz l,
  WorldInv T val inv cs total w -> FileInv T val cs total w h sz l ->
  exists ex, file_extents T get cs total w h = Ok ex /\ map fst ex = l /\ ext_total ex = sz /\
             ext_bytes (w_data T w) ex = content T w l sz /\ forall e, In e ex -> 0 <= snd e <= cs.
Proof. exact (file_extents_spec T get set val okc okv inv get_val set_ok cs total Hcs Hokc Hokd). Qed.
End Extents.

Print Assumptions C04_image_write_frame.
Print Assumptions C04_written_entry_decodes.
Print Assumptions C04_fat12_values_agree.
Print Assumptions C04_fat16_values_agree.
Print Assumptions C04_fat32_values_agree.
Print Assumptions C04_short_name_render_agrees.
Print Assumptions C04_extents_reproduce_content.
