(* C04 - what a session saw is what is on the disk: remount and independent decode agree.
   Layer theorems: (1) what the library WRITES for an entry is decoded by the independent specification decoder to
   exactly that entry (long name, alias, slot positions); (2) the library's READERS agree with the specification on
   table values and short-name rendering; (3) the byte ranges a file reports as extents hold exactly its content.
   (4) the file layer over ONE device image (Model/VolFile.v): what it leaves on the device is what the independent
   decoder reads back - chain walk, content, extents - after any history on a handle (Proofs/VolFileProofs.v).
   The composition over whole volumes (directories, several layers) and sessions is checked on the implementation at
   every remount point (tools/props/c04.py). *)
From Coq Require Import NArith ZArith List.
From FatVerif Require Import Model.Base Model.Str Model.Slot Model.Table Model.Fat Model.Name Model.FileM Model.DirSlots
  Spec.Image Spec.Abs Spec.ByteFile
  Proofs.ImageProofs Proofs.TableProofs Proofs.FileProofs Proofs.DirSlotsProofs Proofs.CrossProofs.
From FatVerif Require Import Model.VolFile Proofs.FatProofs Proofs.VolFileProofs Proofs.VolFileExamples.
Open Scope N_scope.

Theorem C04_image_write_frame : forall bs im off o,
  (o < off \/ off + N.of_nat (length bs) <= o) -> img_get (img_write im off bs) o = img_get im o.
Proof. exact img_write_outside. Qed.

(* (1) written entry -> independent decode *)
Theorem C04_written_entry_decodes : forall n e idx fat32,
  validate_long_name n = Ok tt -> is_dot_name n = false -> sfn_fields_ok e ->
  let lfn_slots := map lfn_encode (lfn_entries (utf16_encode n) (lfn_checksum (se_name e))) in
  let en := mk_entry (rev lfn_slots) (sfn_encode e) idx fat32 in
  run_valid (rev lfn_slots) (se_name e) = true /\ e_lfn en = utf16_encode n /\ e_lfn_ok en = true /\
  e_sfn en = se_name e /\ e_first_slot en = idx - len_N lfn_slots /\ e_sfn_slot en = idx.
Proof. exact written_run_valid. Qed.

(* (2) readers agree with the specification *)
Theorem C04_fat12_values_agree : forall g v, g_bits g = 12 -> fatv_of (fat_classify g v) = classify12 v.
Proof. exact classify12_agrees. Qed.
Theorem C04_fat16_values_agree : forall g v, g_bits g = 16 -> fatv_of (fat_classify g v) = classify16 v.
Proof. exact classify16_agrees. Qed.
Theorem C04_fat32_values_agree : forall g c v, g_bits g = 32 -> c < 268435447 ->
  fatv_of (fat_classify g v) = classify32 c v.
Proof. exact classify32_agrees. Qed.
Theorem C04_short_name_render_agrees : forall raw, length raw = 11%nat -> short_name_string raw = sfn_render raw.
Proof. exact short_name_render_agrees. Qed.

(* (3) extents reproduce the content *)
Section Extents.
Variable T : Type.
Variable get : T -> N -> res fatv.
Variable set : T -> N -> fatv -> res T.
Variable val : T -> N -> fatv.
Variable okc : N -> Prop.
Variable okv : fatv -> Prop.
Variable inv : T -> Prop.
Hypothesis get_val : forall t c, inv t -> okc c -> get t c = Ok (val t c).
Hypothesis set_ok : forall t c v, inv t -> okc c -> okv v ->
  exists t', set t c v = Ok t' /\ inv t' /\ val t' c = v /\ forall c', c' <> c -> okc c' -> val t' c' = val t c'.
Hypothesis okv_free : okv Free.
Hypothesis okv_eoc : okv Eoc.
Variable cs total : N.
Hypothesis Hcs : 0 < cs.
Hypothesis Hokc : forall x, 2 <= x < total + 2 -> okc x.
Hypothesis Hokd : forall n, 2 <= n < total + 2 -> okv (Data n).

Theorem C04_extents_reproduce_content : forall w h sz l,
  WorldInv T val inv cs total w -> FileInv T val cs total w h sz l ->
  exists ex, file_extents T get cs total w h = Ok ex /\ map fst ex = l /\ ext_total ex = sz /\
             ext_bytes (w_data T w) ex = content T w l sz /\ forall e, In e ex -> 0 <= snd e <= cs.
Proof. exact (file_extents_spec T get set val okc okv inv get_val set_ok cs total Hcs Hokc Hokd). Qed.
End Extents.

(* ---------------------------------------------------------------- (4) the file layer on ONE image
   Geometry [g] (Spec/Abs.v, e.g. [parse_geom im]) with [vgeom_ok g]: non-degenerate sizes, data area inside the volume,
   the active FAT copy exists, one copy holds an entry for every cluster.  [Embeds g im w]: the FAT store of the
   file-layer world [w] is the FAT slice of [g] (base = first / active copy, size = one copy, mirrors = all copies / 1)
   and agrees with [im] on the bytes of those copies; the data of every data cluster c is the [g_cluster_size g] bytes of
   [im] at [g_cluster_off g c].  [VFileInv]/[VWorldInv] = the C02 invariants at the byte-level store of the volume's
   width; [NoBad]: no cluster of the chain carries the bad-cluster mark. *)

(* a static embedded world: the decoder's chain walk from the first cluster is the chain of the invariant (any fuel
   covering its length), and the first [sz] bytes of the decoder's chain bytes are the content of the byte array *)
Theorem C04_file_decodes_static : forall g, vgeom_ok g -> forall im w h sz l,
  Embeds g im w -> VFileInv g w h sz l -> NoBad g w l ->
  match h_first h with
  | Some f => forall fuel, (length l <= fuel)%nat -> chain_from g im f fuel = Some l
  | None => l = []
  end /\
  firstn (N.to_nat sz) (chain_bytes g im l) = content fstore w l sz.
Proof. exact decode_static. Qed.

(* the same in the very expression Spec/Abs.v [decode_entries] computes for a file node from the directory entry's
   first-cluster field (0 = none) and size; the decoder follows at most 2^17 links *)
Theorem C04_file_decodes_entry : forall g, vgeom_ok g -> forall im w h sz l,
  Embeds g im w -> VWorldInv g w -> VFileInv g w h sz l -> NoBad g w l ->
  g_clusters g <= 131072 \/ N.of_nat (length l) <= 131072 ->
  decode_file g im (first_field h) sz = content fstore w l sz.
Proof. exact decode_file_static. Qed.

(* [decode_file] IS the content the tree decoder [Abs.decode_entries] attaches to a file entry with that first cluster and size *)
Theorem C04_file_decodes_node : forall g im d e,
  e_is_dot e = false -> e_is_dir e = false ->
  decode_entries g im (S d) [e] =
  [NFile e (if e_cluster e =? 0 then None else chain_from g im (e_cluster e) (Abs.chain_fuel g))
           (decode_file g im (e_cluster e) (e_size e))].
Proof. exact decode_file_is_node. Qed.

(* any history on a handle, run by the image-level machine [vol_run] (FileM over the FAT slice of the image, FAT entry
   writes in every mirrored copy at their device offsets, data written through at g_cluster_off g c + offset):
   the outcomes are a run of the byte-array machine whose state IS what the decoder reads from the image *)
Theorem C04_file_decodes_run : forall g, vgeom_ok g -> forall ops im fi h sz l,
  Forall op_ok ops -> VolInv g im fi h sz l ->
  exists im' fi' h' rs sz' l', vol_run g (im, fi, h) ops = ((im', fi', h'), rs) /\
    VolInv g im' fi' h' sz' l' /\
    bf_run (firstn (N.to_nat sz) (chain_bytes g im l), h_off h) ops rs
      = Some (firstn (N.to_nat sz') (chain_bytes g im' l'), h_off h') /\
    match h_first h' with
    | Some f => forall fuel, (length l' <= fuel)%nat -> chain_from g im' f fuel = Some l'
    | None => l' = []
    end.
Proof. exact vol_run_refines. Qed.

(* the same for plain FileM runs from ANY embedded world, the image effect replayed by [img_run] *)
Theorem C04_file_decodes_replay : forall g, vgeom_ok g -> forall ops im w h sz l,
  Embeds g im w -> VWorldInv g w -> VFileInv g w h sz l -> NoBad g w l ->
  exists w' h' rs sz' l',
    file_run fstore (fat_get (ft_of g)) (fat_set (ft_of g)) (g_cluster_size g) (g_clusters g) w h ops = (w', h', rs) /\
    VWorldInv g w' /\ VFileInv g w' h' sz' l' /\ NoBad g w' l' /\
    Embeds g (img_run g im w h ops) w' /\
    bf_run (firstn (N.to_nat sz) (chain_bytes g im l), h_off h) ops rs
      = Some (firstn (N.to_nat sz') (chain_bytes g (img_run g im w h ops) l'), h_off h') /\
    match h_first h' with
    | Some f => forall fuel, (length l' <= fuel)%nat -> chain_from g (img_run g im w h ops) f fuel = Some l'
    | None => l' = []
    end.
Proof. exact embed_run. Qed.

(* extents: File::extents on the image lists (g_cluster_off g c, min(cluster size, bytes left)) for the clusters c of
   the chain in order; those byte ranges, read straight from the image, concatenate to the content the decoder reads *)
Theorem C04_file_decodes_extents : forall g, vgeom_ok g -> forall im fi h sz l,
  VolInv g im fi h sz l ->
  exists ex,
    file_extents fstore (fat_get (ft_of g)) (g_cluster_size g) (g_clusters g) (world_of g im fi) h = Ok ex /\
    vol_extents g (im, fi, h) = Ok (map (fun e => (g_cluster_off g (fst e), snd e)) ex) /\
    map fst ex = l /\ ext_total ex = sz /\ (forall e, In e ex -> 0 <= snd e <= g_cluster_size g) /\
    read_ranges im (map (fun e => (g_cluster_off g (fst e), snd e)) ex) = firstn (N.to_nat sz) (chain_bytes g im l).
Proof. exact vol_extents_spec. Qed.

(* non-vacuity: the formatted 64-sector FAT12 image of Proofs/VolFileExamples.v satisfies the hypotheses with a new
   empty file, and a history that puts 6 bytes across clusters 2 and 3 is decoded from the raw bytes *)
Example C04_file_decodes_example_hyps : vgeom_ok ex_g /\ VolInv ex_g ex_im ex_fi empty_file 0 [] /\ Forall op_ok ex_ops.
Proof. exact (conj ex_geom_ok (conj ex_vol_inv ex_ops_ok)). Qed.
(* ... and on a non-trivial state: after that history the ghosts are size 515 and chain [2; 3] *)
Example C04_file_decodes_example_state :
  VolInv ex_g ex_im' ex_fi' ex_h' 515 [2; 3] /\ Embeds ex_g ex_im' (world_of ex_g ex_im' ex_fi').
Proof. exact (conj ex_vol_inv_final (embeds_world_of ex_g ex_im' ex_fi')). Qed.
Example C04_file_decodes_example :
  let '(st, rs) := vol_run ex_g (ex_im, ex_fi, empty_file) ex_ops in
  let '(im', fi', h') := st in
  rs = [RCount 509; RCount 3; RCount 3] /\ h_first h' = Some 2 /\ h_size h' = Some 515 /\
  chain_from ex_g im' 2 (Abs.chain_fuel ex_g) = Some [2; 3] /\
  skipn 509 (decode_file ex_g im' (first_field h') 515) = [1; 2; 3; 4; 5; 6] /\
  img_read im' (512 + 3) 3 = [3; 240; 255] /\ img_read im' (1024 + 3) 3 = [3; 240; 255] /\
  img_read im' (2048 + 509) 6 = [1; 2; 3; 4; 5; 6] /\
  vol_extents ex_g st = Ok [(2048, 512); (2560, 3)] /\
  skipn 509 (read_ranges im' [(2048, 512); (2560, 3)]) = [1; 2; 3; 4; 5; 6] /\
  bf_run ([], 0) ex_ops rs = Some (decode_file ex_g im' (first_field h') 515, 515).
Proof. exact ex_run_decodes. Qed.

(* ================================================================================================================
   (5) THE COMPOSITION THROUGH THE DIRECTORY ENTRY (Model/VolSession.v, Proofs/VolSessionProofs.v, VolSessionFormat.v):
   one file session on a whole FAT12/16 device image - root_dir().create_file(name) (Model/VolDir.v) ; any calls on the
   new handle (Model/VolFile.v; each under its own clock value: File::write re-stamps the modification time, File::read
   the access date when the mount option asks for it) ; File::flush / drop: the handle's DirEntryEditor serialises the
   32-byte short entry - with the first cluster and the size the handle has reached - at its slot in the root region, iff it
   is dirty.  Afterwards the independent decoder Spec/Abs.abs shows the file node WITH its content. *)
From FatVerif Require Import Model.Time Model.VolDir Model.FlushM Model.VolSession Model.Format Spec.FormatSpec
  Model.FormatImage Spec.FormatImageSpec Proofs.FormatProofs Proofs.FormatImageProofs Proofs.VolDirProofs Proofs.VolDirFormat
  Proofs.VolSessionProofs Proofs.VolSessionFormat Proofs.VolSessionExamples.
From FatVerif Require Spec.Wf Proofs.TimeProofs Model.ShortName.

(* create_file keeps the device a byte device (needed to run the file layer on the image it leaves) *)
Theorem C04_session_create_bytes_ok : forall upper oem im name now r im',
  TimeProofs.datetime_valid now = true -> FatProofs.bytes_ok im ->
  vol_create_empty_file_root upper oem im name now = (r, im') -> FatProofs.bytes_ok im'.
Proof. exact vol_create_bytes_ok. Qed.

(* the handle create_file builds from the record it has just serialised = the handle built from the device bytes *)
Theorem C04_session_open_is_created : forall e, sfn_fields_ok e -> N.land (se_attrs e) ATTR_LFN <> ATTR_LFN ->
  slot_decode (sfn_encode e) = SFile e.
Proof. exact sess_open_created. Qed.

(* File::flush on the image is the event shape of Model/FlushM.v (C14): the entry write iff dirty, then the device flush *)
Theorem C04_session_flush_shape : forall g st,
  s_im (vol_flush_entry g st) = apply_events (s_im st) (flush_events g st) /\
  flush_events g st =
    (if sess_dirty (s_h st) (s_en st)
     then [DWrite (root_slot_off g (en_slot (s_en st))) (sfn_encode (sess_entry g (s_h st) (s_en st)))] else []) ++ [DFlush] /\
  sess_dirty (s_h (vol_flush_entry g st)) (s_en (vol_flush_entry g st)) = false.
Proof.
  intros g st. split; [reflexivity|]. split; [reflexivity|].
  unfold vol_flush_entry, sess_dirty, clear_dirty. cbn [s_h s_en h_entry en_tdirty]. destruct (h_entry (s_h st)); reflexivity.
Qed.

(* (a) create_file(name) ; ANY calls on the new handle ; flush, on ANY FAT12/16 image whose root decodes without issue and
   whose tree has no broken chain ([node_intact]).  The decoder finds the old root nodes exactly as before and, at the
   position of the new entry, the FILE WITH ITS CONTENT = the byte array of the byte-array machine (Spec/ByteFile.v) after
   the same calls; size field = its length; chain = the decoder's own walk from the entry's first cluster (no cluster iff
   empty): ceil(size / cluster size) distinct clusters, each free before and allocated now; no decode issue; labels,
   geometry, status byte as before.  FRAME: no byte differs outside the root region, the FAT copies and clusters that were
   free before; every cluster that was not free keeps its FAT value and its data (so every other file and directory of the
   volume decodes as before - that is the "old nodes exactly as before" clause); a cluster that was free and is not in
   the chain is free. *)
Theorem C04_session_flush_decodes : forall upper oem acc im fi name now ops range im1,
  let g := parse_geom im in
  fixed_root_geom g -> FatProofs.bytes_ok im ->
  fi_inv fstore (VolFileProofs.val_ft (ft_of g)) (store_of g im) fi (g_clusters g) ->
  v_root_issues (abs im) = [] -> forallb node_intact (v_root (abs im)) = true ->
  TimeProofs.datetime_valid now = true -> Forall op_ok (map fst ops) -> clocks_ok ops ->
  vol_create_empty_file_root upper oem im name now = (Ok (Some range), im1) ->
  exists st rs content pos e l ns1 ns2,
    vol_session upper oem acc im fi name now ops = Some (st, rs) /\
    bf_run ([], 0) (map fst ops) rs = Some (content, pos) /\
    v_root (abs im) = ns1 ++ ns2 /\
    v_root (abs (s_im st)) = ns1 ++ NFile e (if e_cluster e =? 0 then None else Some l) content :: ns2 /\
    e_lfn e = stored_lfn name /\ e_lfn_ok e = true /\ e_attr e = 0 /\ ShortName.sfn_legal_b (e_sfn e) = true /\
    ~ In (e_sfn e) (map e_sfn (map node_entry (v_root (abs im)))) /\
    e_first_slot e = fst range /\ e_sfn_slot e + 1 = snd range /\
    e_size e = len_N content /\ (e_cluster e = 0 <-> content = []) /\
    (e_cluster e <> 0 -> chain_from g (s_im st) (e_cluster e) (Abs.chain_fuel g) = Some l /\ nth_error l 0 = Some (e_cluster e)) /\
    N.of_nat (length l) = cdiv (g_cluster_size g) (len_N content) /\ NoDup l /\
    (forall c, In c l -> 2 <= c < g_clusters g + 2 /\ fat_val g im c = FFree /\ fat_val g (s_im st) c <> FFree) /\
    v_root_issues (abs (s_im st)) = [] /\ v_labels (abs (s_im st)) = v_labels (abs im) /\
    v_geom (abs (s_im st)) = v_geom (abs im) /\ v_root_chain (abs (s_im st)) = v_root_chain (abs im) /\
    v_status (abs (s_im st)) = v_status (abs im) /\
    (forall a, (a < g_root_off g \/ g_root_off g + root_bytes g <= a) -> ~ in_store_area g a ->
       (forall c, 2 <= c < g_clusters g + 2 -> fat_val g im c = FFree -> ~ in_cluster g c a) ->
       img_get (s_im st) a = img_get im a) /\
    (forall c, 2 <= c < g_clusters g + 2 -> fat_val g im c <> FFree ->
       fat_val g (s_im st) c = fat_val g im c /\ cluster_bytes g (s_im st) c = cluster_bytes g im c) /\
    (forall c, 2 <= c < g_clusters g + 2 -> fat_val g im c = FFree -> ~ In c l -> fat_val g (s_im st) c = FFree) /\
    (forall i, (i < root_slot_count g)%nat -> (N.of_nat i < fst range \/ snd range <= N.of_nat i) ->
       nth i (root_region_slots g (s_im st)) [] = nth i (root_region_slots g im) []).
Proof. exact session_flush_decodes. Qed.

(* the two decode premises of C04_session_flush_decodes hold on every WELL-FORMED volume (Spec/Wf.wf_issues = [], the C03
   invariant): no root decode issue, no broken chain anywhere in the tree *)
Theorem C04_session_wf_premises : forall fold im, g_bits (parse_geom im) <> 32 -> Wf.wf_issues fold im = [] ->
  v_root_issues (abs im) = [] /\ forallb node_intact (v_root (abs im)) = true.
Proof. exact wf_session_premises. Qed.

(* the decode frame behind the "old nodes" clause, on its own: two images that agree on the FAT value and the data of every
   cluster that is NOT FREE in the first decode every tree without broken chains alike, to any depth *)
Theorem C04_session_decode_frame : forall g im im',
  (forall x, in_range g x = true -> fat_val g im x <> FFree ->
     fat_val g im' x = fat_val g im x /\ cluster_bytes g im' x = cluster_bytes g im x) ->
  forall d es, forallb node_intact (decode_entries g im d es) = true -> decode_entries g im' d es = decode_entries g im d es.
Proof. exact decode_entries_nonfree. Qed.

(* (b) END TO END from ANY device content: format_volume (FAT12/16 request, root filling its sectors) ; create_file(name) ;
   the bytes written in ANY split into write calls, with any seeks, truncates and reads in between ; flush.  The decoder
   finds exactly ONE root node: the file [name] with exactly the byte array; size field = its length; the chain has
   ceil(length / cluster size) clusters; free clusters = all minus those; the label of the request; and NO well-formedness
   issue of Spec/Wf.v, for any case folding: chain length matches the size, no lost cluster, no cross-link, no duplicate
   name, no orphan slot. *)
Theorem C04_session_format_decodes : forall fold upper oem acc o ts im0 bs t im fi name now ops range im1,
  builder_range o -> ts < 4294967296 -> FatProofs.bytes_ok im0 ->
  format_boot_sector_validated o ts = Ok (bs, t) -> t <> Format.Fat32 ->
  (o_max_root_dir_entries o * 32) mod o_bytes_per_sector o = 0 ->
  format_image o ts im0 = Ok im ->
  let g := geom_of (fbs_bpb bs) in
  fi_inv fstore (VolFileProofs.val_ft (ft_of g)) (store_of g im) fi (g_clusters g) ->
  TimeProofs.datetime_valid now = true -> Forall op_ok (map fst ops) -> clocks_ok ops ->
  vol_create_empty_file_root upper oem im name now = (Ok (Some range), im1) ->
  exists st rs content pos e l,
    vol_session upper oem acc im fi name now ops = Some (st, rs) /\
    bf_run ([], 0) (map fst ops) rs = Some (content, pos) /\
    v_root (abs (s_im st)) = [NFile e (if e_cluster e =? 0 then None else Some l) content] /\
    e_lfn e = stored_lfn name /\ e_lfn_ok e = true /\ e_attr e = 0 /\
    ShortName.sfn_legal_b (e_sfn e) = true /\
    e_size e = len_N content /\ (e_cluster e = 0 <-> content = []) /\
    (e_cluster e <> 0 -> chain_from g (s_im st) (e_cluster e) (Abs.chain_fuel g) = Some l) /\
    N.of_nat (length l) = cdiv (g_cluster_size g) (len_N content) /\
    v_root_issues (abs (s_im st)) = [] /\ v_labels (abs (s_im st)) = expected_labels o /\
    parse_geom (s_im st) = g /\
    count_free g (s_im st) = sp_clusters (fbs_bpb bs) - cdiv (g_cluster_size g) (len_N content) /\
    Wf.wf_issues fold (s_im st) = [].
Proof. exact format_session_decodes. Qed.

(* non-vacuity and the concrete picture: the 64-sector FAT12 image of Props/C06.v (ex_img_fat12 = ex_vol_im); "a.txt" ;
   509 + 3 + 3 bytes so that [1..6] straddle clusters 2 and 3, under an advancing clock ; flush *)
Example C04_session_example_hyps :
  let g := parse_geom ex_vol_im in
  fixed_root_geom g /\ FatProofs.bytes_ok ex_vol_im /\
  fi_inv fstore (VolFileProofs.val_ft (ft_of g)) (store_of g ex_vol_im) ex_sfi (g_clusters g) /\
  v_root_issues (abs ex_vol_im) = [] /\ forallb node_intact (v_root (abs ex_vol_im)) = true /\
  TimeProofs.datetime_valid ex_vol_now = true /\ Forall op_ok (map fst ex_sops) /\ clocks_ok ex_sops /\
  fst (vol_create_empty_file_root ex_U ex_O ex_vol_im ex_sname ex_vol_now) = Ok (Some (1, 3)).
Proof. exact ex_session_hyps. Qed.

Example C04_session_example :
  match vol_session ex_U ex_O false ex_vol_im ex_sfi ex_sname ex_vol_now ex_sops with
  | Some (st, rs) =>
    rs = [RCount 509; RCount 3; RCount 3] /\
    bf_run ([], 0) (map fst ex_sops) rs = Some (repeat 7 509 ++ [1; 2; 3; 4; 5; 6], 515) /\
    (exists e, v_root (abs (s_im st)) = [NFile e (Some [2; 3]) (repeat 7 509 ++ [1; 2; 3; 4; 5; 6])] /\
               e_lfn e = ex_sname /\ e_sfn e = [65; 32; 32; 32; 32; 32; 32; 32; 84; 88; 84] /\
               e_size e = 515 /\ e_cluster e = 2 /\ e_first_slot e = 1 /\ e_sfn_slot e = 2 /\
               e_mtime e = 20483 /\ e_mdate e = 22625 /\ e_cdate e = 22621) /\
    v_root_issues (abs (s_im st)) = [] /\ v_labels (abs (s_im st)) = [[65; 66; 67; 68; 69; 70; 71; 72; 73; 74; 75]] /\
    Wf.wf_issues (fun l => l) (s_im st) = [] /\ count_free (parse_geom ex_vol_im) (s_im st) = 58 /\
    img_read (s_im st) (1600 + 26) 6 = [2; 0; 3; 2; 0; 0] /\
    img_read (s_im st) (512 + 3) 3 = [3; 240; 255] /\ img_read (s_im st) (2048 + 509) 6 = [1; 2; 3; 4; 5; 6] /\
    sess_dirty (s_h st) (s_en st) = false
  | None => False
  end.
Proof. exact ex_session_flush. Qed.


(* ================================================================================================================
   (6) SEVERAL FILES PER SESSION at image level (Model/VolSession2.v, Proofs/VolSession2Proofs.v, VolSession2Format.v):
   k handles created by root_dir().create_file in the fixed root of one FAT12/16 image, sharing the image (FAT copies, data
   area, root region) and the FS-info latch; calls on the handles in ANY interleaving, each under its own clock value;
   File::flush / drop of the handles in ANY order, at any point.
   Ghost per handle [ghost]: size, chain, and the entry [gh_e] the decoder's root scan lists at the handle's short slot.
   [Sess2Inv g st gs es ls]: geometry; MVolInv (Props/C02.v: per-handle C02 invariant, chains pairwise disjoint); the root
   scan is [es] without issue; every handle is bound to its entry (same slot, name, attribute bytes; handle NOT dirty =>
   the entry on the device holds the handle's first cluster and size); the handles' slots are pairwise different.
   [RunInv g im0 es0 ..] adds the frame relative to the image [im0] before the session ([Frame2]: the session's chains
   consist of clusters free in im0; every other cluster keeps FAT value and data; no byte changes outside the FAT copies,
   the root region and those clusters; a cluster free in im0 and in no chain is free) and "the entries of no handle are
   the entries [es0] of im0".  [hnode g im gh] = NFile (gh_e gh) <chain gh_l gh, None iff no cluster> <the decoder's
   content>. *)
From FatVerif Require Import Model.VolSession2 Spec.WfFold Proofs.VolSession2Proofs Proofs.VolSession2Format Proofs.VolSession2Examples.
From Coq Require Import Permutation.

(* the state right after mount (no handle open) is in the invariant *)
Theorem C04_session2_start : forall g, fixed_root_geom g -> forall im fi es0 ls,
  parse_geom im = g -> FatProofs.bytes_ok im ->
  fi_inv fstore (VolFileProofs.val_ft (ft_of g)) (store_of g im) fi (g_clusters g) ->
  dir_scan (root_region_slots g im) 0 [] false = (es0, ls, []) ->
  RunInv g im es0 {| s2_im := im; s2_fi := fi; s2_hs := [] |} [] es0 ls.
Proof. exact run_inv_start. Qed.

(* create_file WHILE other handles are open (dirty or not) keeps the invariant: a new clean handle on an empty file, its
   entry inserted into the scan, a fresh short name; nothing outside the root region changes *)
Theorem C04_session2_create_keeps_inv : forall g, fixed_root_geom g -> forall upper oem im0 es0 st gs es ls name now st',
  RunInv g im0 es0 st gs es ls -> TimeProofs.datetime_valid now = true -> s2_create upper oem st name now = Some st' ->
  exists gh es' x',
    RunInv g im0 es0 st' (gs ++ [gh]) es' ls /\ new_ghost (name, now) gh /\
    same_outside_root g (s2_im st) (s2_im st') /\ s2_fi st' = s2_fi st /\
    s2_hs st' = s2_hs st ++ [x'] /\ sh_h x' = empty_file /\ s2_dirty x' = false /\
    ~ In (e_sfn (gh_e gh)) (map e_sfn es) /\ (exists es1 es2, es = es1 ++ es2 /\ es' = es1 ++ gh_e gh :: es2).
Proof. exact s2_create_run_inv. Qed.

(* THE NODE OF A CLEAN HANDLE, in any state of any session: the decoder's root lists the handle's entry and decodes it to
   the file with exactly the content the byte-array machine holds for the handle ([s2_views]: vol_content of the ghost),
   size field = its length, chain = the decoder's walk (no cluster iff empty), ceil(size / cluster size) distinct
   allocated clusters *)
Theorem C04_session2_clean_handle_decodes : forall g, fixed_root_geom g -> forall st gs es ls i x gh,
  Sess2Inv g st gs es ls -> nth_error (s2_hs st) i = Some x -> nth_error gs i = Some gh -> s2_dirty x = false ->
  In (gh_e gh) es /\ node_of g (s2_im st) 23 (gh_e gh) = hnode g (s2_im st) gh /\
  e_size (gh_e gh) = gh_sz gh /\ len_N (vol_content g (s2_im st) (gh_l gh) (gh_sz gh)) = gh_sz gh /\
  (e_cluster (gh_e gh) = 0 <-> gh_sz gh = 0) /\
  (e_cluster (gh_e gh) <> 0 ->
     chain_from g (s2_im st) (e_cluster (gh_e gh)) (Abs.chain_fuel g) = Some (gh_l gh) /\ nth_error (gh_l gh) 0 = Some (e_cluster (gh_e gh))) /\
  N.of_nat (length (gh_l gh)) = cdiv (g_cluster_size g) (gh_sz gh) /\ NoDup (gh_l gh) /\
  (forall c, In c (gh_l gh) -> 2 <= c < g_clusters g + 2 /\ fat_val g (s2_im st) c <> FFree).
Proof. exact handle_node. Qed.

(* "flushed, and not modified again", read off the op list: [settled i ops c] = the last step of [ops] that addressed
   handle i was its flush / drop.  Then handle i is clean at the end - no invariant needed *)
Theorem C04_session2_settled_clean : forall g acc ops st i c,
  (c = true -> forall x, nth_error (s2_hs st) i = Some x -> s2_dirty x = false) -> settled i ops c = true ->
  forall x, nth_error (s2_hs (fst (s2_run g acc st ops))) i = Some x -> s2_dirty x = false.
Proof. exact settled_clean. Qed.

(* (a) mount of ANY FAT12/16 image whose root decodes without issue and whose tree has no broken chain ; create_file for
   each of the k requests ; ANY steps, after which every handle is clean.  The run is a run of the multi-file byte-array
   machine from k empty files; the decoder shows the OLD root nodes exactly as before and, besides them, ONE FILE NODE PER
   HANDLE (Permutation: the new entries sit in whatever free slots the root had) with exactly the machine's content for
   that file, its length in the size field, its chain - clusters that were free before, pairwise disjoint between the
   files; no decode issue; labels and geometry as before; the frame is in [RunInv] *)
Theorem C04_session2_flush_decodes : forall g, fixed_root_geom g -> forall acc upper oem im fi reqs ops st1 st2 rs,
  parse_geom im = g -> FatProofs.bytes_ok im ->
  fi_inv fstore (VolFileProofs.val_ft (ft_of g)) (store_of g im) fi (g_clusters g) ->
  v_root_issues (abs im) = [] -> forallb node_intact (v_root (abs im)) = true ->
  Forall (fun q => TimeProofs.datetime_valid (snd q) = true) reqs -> Forall s2op_ok ops ->
  s2_creates upper oem {| s2_im := im; s2_fi := fi; s2_hs := [] |} reqs = Some st1 ->
  s2_run g acc st1 ops = (st2, rs) ->
  Forall (fun x => s2_dirty x = false) (s2_hs st2) ->
  exists gs es1 es2 ls,
    RunInv g im (map node_entry (v_root (abs im))) st2 gs es2 ls /\
    bf_multi (map (fun _ => ([], 0)) reqs) (file_ops ops) rs = Some (s2_views g st2 gs) /\
    Permutation (v_root (abs (s2_im st2))) (v_root (abs im) ++ map (hnode g (s2_im st2)) gs) /\
    Forall2 (file_decoded g im (s2_im st2)) reqs gs /\ chains_disjoint gs /\
    v_root_issues (abs (s2_im st2)) = [] /\ v_labels (abs (s2_im st2)) = v_labels (abs im) /\ parse_geom (s2_im st2) = g /\
    (exists gs1, RunInv g im (map node_entry (v_root (abs im))) st1 gs1 es1 ls /\
                 map e_sfn es2 = map e_sfn es1 /\ map e_lfn es2 = map e_lfn es1 /\
                 same_outside_root g im (s2_im st1)).
Proof. exact session2_decodes. Qed.

(* what [file_decoded] says, spelled out (the clauses of C04_session_flush_decodes, per file) *)
Theorem C04_session2_file_decoded_means : forall g im0 im q gh, file_decoded g im0 im q gh <->
  (e_lfn (gh_e gh) = stored_lfn (fst q) /\ e_lfn_ok (gh_e gh) = true /\ e_attr (gh_e gh) = 0 /\
   ShortName.sfn_legal_b (e_sfn (gh_e gh)) = true /\
   e_size (gh_e gh) = len_N (vol_content g im (gh_l gh) (gh_sz gh)) /\
   (e_cluster (gh_e gh) = 0 <-> vol_content g im (gh_l gh) (gh_sz gh) = []) /\
   (e_cluster (gh_e gh) <> 0 ->
      chain_from g im (e_cluster (gh_e gh)) (Abs.chain_fuel g) = Some (gh_l gh) /\ nth_error (gh_l gh) 0 = Some (e_cluster (gh_e gh))) /\
   N.of_nat (length (gh_l gh)) = cdiv (g_cluster_size g) (len_N (vol_content g im (gh_l gh) (gh_sz gh))) /\ NoDup (gh_l gh) /\
   (forall c, In c (gh_l gh) -> 2 <= c < g_clusters g + 2 /\ fat_val g im0 c = FFree /\ fat_val g im c <> FFree)).
Proof. intros. reflexivity. Qed.

(* (b) END TO END from ANY device content: format_volume (FAT12/16 request, root filling its sectors) ; create_file for
   each of the k requests (valid scalar values; NO distinctness premise - the library's existence check provides it) ; ANY
   interleaving of calls on the k handles, flushes and drops after which every handle is clean.  The decoder finds EXACTLY
   k root nodes, one file per request, each with exactly the byte array of the multi-file machine, size field = its length,
   a chain of ceil(length / cluster size) clusters, chains pairwise disjoint; free clusters = all minus the sum of those;
   the label of the request; and NO well-formedness issue of Spec/Wf.v for any case folding that agrees with the
   library's name matching (Props/C03.v C03_fold_agrees_judge: the judge's folding does) *)
Theorem C04_session2_format_decodes : forall fold upper oem acc o ts im0 bs t im fi reqs ops st1 st2 rs,
  builder_range o -> ts < 4294967296 -> FatProofs.bytes_ok im0 ->
  format_boot_sector_validated o ts = Ok (bs, t) -> t <> Format.Fat32 ->
  (o_max_root_dir_entries o * 32) mod o_bytes_per_sector o = 0 ->
  format_image o ts im0 = Ok im ->
  let g := geom_of (fbs_bpb bs) in
  fi_inv fstore (VolFileProofs.val_ft (ft_of g)) (store_of g im) fi (g_clusters g) ->
  fold_agrees upper fold ->
  Forall (fun q => str_valid (fst q) = true /\ TimeProofs.datetime_valid (snd q) = true) reqs -> Forall s2op_ok ops ->
  s2_creates upper oem {| s2_im := im; s2_fi := fi; s2_hs := [] |} reqs = Some st1 ->
  s2_run g acc st1 ops = (st2, rs) ->
  Forall (fun x => s2_dirty x = false) (s2_hs st2) ->
  exists gs,
    bf_multi (map (fun _ => ([], 0)) reqs) (file_ops ops) rs = Some (s2_views g st2 gs) /\
    Permutation (v_root (abs (s2_im st2))) (map (hnode g (s2_im st2)) gs) /\
    Forall2 (file_decoded g im (s2_im st2)) reqs gs /\ chains_disjoint gs /\
    v_root_issues (abs (s2_im st2)) = [] /\ v_labels (abs (s2_im st2)) = expected_labels o /\
    parse_geom (s2_im st2) = g /\
    count_free g (s2_im st2) = sp_clusters (fbs_bpb bs) - total_clusters (g_cluster_size g) gs /\
    Wf.wf_issues fold (s2_im st2) = [].
Proof. exact format_session2_decodes. Qed.

(* [total_clusters cs gs] = the sum over the files of ceil(size / cluster size) *)
Theorem C04_session2_total_clusters_means : forall cs gs,
  total_clusters cs gs = fold_right (fun gh a => cdiv cs (gh_sz gh) + a) 0 gs.
Proof. reflexivity. Qed.

(* non-vacuity and the concrete picture: "a.txt" and "b.txt" on the 64-sector FAT12 image, written alternately (clusters
   2 -> 4 and 3 -> 5), flushed in reverse order *)
Example C04_session2_example_hyps :
  let g := parse_geom ex_vol_im in
  fixed_root_geom g /\ FatProofs.bytes_ok ex_vol_im /\
  fi_inv fstore (VolFileProofs.val_ft (ft_of g)) (store_of g ex_vol_im) ex_sfi (g_clusters g) /\
  v_root_issues (abs ex_vol_im) = [] /\ forallb node_intact (v_root (abs ex_vol_im)) = true /\
  Forall (fun q => str_valid (fst q) = true /\ TimeProofs.datetime_valid (snd q) = true) ex2_reqs /\ Forall s2op_ok ex2_ops /\
  settled 0 ex2_ops true = true /\ settled 1 ex2_ops true = true.
Proof. exact ex2_hyps. Qed.

Example C04_session2_example :
  match vol_session2 ex_U ex_O false ex_vol_im ex_sfi ex2_reqs ex2_ops with
  | Some (st, rs) =>
    rs = [RCount 512; RCount 512; RCount 3; RCount 2] /\
    bf_multi [([], 0); ([], 0)] (file_ops ex2_ops) rs = Some [(ex2_a, 515); (ex2_b, 514)] /\
    (exists ea eb, v_root (abs (s2_im st)) = [NFile ea (Some [2; 4]) ex2_a; NFile eb (Some [3; 5]) ex2_b] /\
                   e_lfn ea = ex_sname /\ e_size ea = 515 /\ e_cluster ea = 2 /\ e_sfn_slot ea = 2 /\
                   e_lfn eb = ex2_bname /\ e_size eb = 514 /\ e_cluster eb = 3 /\ e_sfn_slot eb = 4) /\
    v_root_issues (abs (s2_im st)) = [] /\ Wf.wf_issues (fun l => l) (s2_im st) = [] /\
    count_free (parse_geom ex_vol_im) (s2_im st) = 56 /\
    img_read (s2_im st) (512 + 3) 6 = [4; 80; 0; 255; 255; 255] /\
    map s2_dirty (s2_hs st) = [false; false]
  | None => False
  end.
Proof. exact ex2_session. Qed.

(* with only b flushed, a (still dirty) shows as an empty file and its clusters 2 and 4 - BETWEEN those of b - are lost *)
Example C04_session2_example_one_flushed :
  match vol_session2 ex_U ex_O false ex_vol_im ex_sfi ex2_reqs (ex2_writes ++ [SFlush 1]) with
  | Some (st, rs) =>
    (exists ea eb, v_root (abs (s2_im st)) = [NFile ea None []; NFile eb (Some [3; 5]) ex2_b] /\ e_size ea = 0 /\ e_size eb = 514) /\
    Wf.wf_issues (fun l => l) (s2_im st) = [Wf.WLost 2; Wf.WLost 4] /\
    map s2_dirty (s2_hs st) = [true; false]
  | None => False
  end.
Proof. exact ex2_one_flushed. Qed.


Print Assumptions C04_image_write_frame.
Print Assumptions C04_written_entry_decodes.
Print Assumptions C04_fat12_values_agree.
Print Assumptions C04_fat16_values_agree.
Print Assumptions C04_fat32_values_agree.
Print Assumptions C04_short_name_render_agrees.
Print Assumptions C04_extents_reproduce_content.
Print Assumptions C04_file_decodes_static.
Print Assumptions C04_file_decodes_entry.
Print Assumptions C04_file_decodes_node.
Print Assumptions C04_file_decodes_run.
Print Assumptions C04_file_decodes_replay.
Print Assumptions C04_file_decodes_extents.
Print Assumptions C04_session_create_bytes_ok.
Print Assumptions C04_session_open_is_created.
Print Assumptions C04_session_flush_shape.
Print Assumptions C04_session_flush_decodes.
Print Assumptions C04_session_wf_premises.
Print Assumptions C04_session_decode_frame.
Print Assumptions C04_session_format_decodes.
Print Assumptions C04_session2_start.
Print Assumptions C04_session2_create_keeps_inv.
Print Assumptions C04_session2_clean_handle_decodes.
Print Assumptions C04_session2_settled_clean.
Print Assumptions C04_session2_flush_decodes.
Print Assumptions C04_session2_file_decoded_means.
Print Assumptions C04_session2_format_decodes.
Print Assumptions C04_session2_total_clusters_means.

(* ================================================================ THE FAT32 ROOT DIRECTORY on whole images: the write-back of a
   file's directory entry (DirEntryEditor::flush) - Model/Vol32Root.v vol32_root_flush_entry, the record is
   Model/VolSession.sess_entry.  On FAT32 set_first_cluster writes BOTH 16-bit words (low: bytes 26-27, high: bytes 20-21). *)
From FatVerif Require Import Model.VolChainDir Model.Vol32Root Proofs.VolDirProofs Proofs.VolChainDirProofs
  Proofs.Vol32RootProofs Proofs.Vol32RootFormat Proofs.Vol32RootExamples.
From FatVerif Require Import Model.VolSession.
From FatVerif Require Proofs.DirSlotsProofs.
(* the record the write-back serialises on FAT32 carries the first cluster in BOTH words, whatever the slot held *)
Theorem C04_vol32_entry_both_words : forall g se fc sz,
  is32 g = true ->
  let n := match fc with Some c => c | None => 0 end in
  se_first_cluster_hi (flushed_entry g se fc sz) = (n / 65536) mod 65536 /\
  se_first_cluster_lo (flushed_entry g se fc sz) = n mod 65536 /\ se_size (flushed_entry g se fc sz) = sz.
Proof. exact flushed_entry_words32. Qed.

(* clearing / lowering the first cluster CLEARS the high word (the clause three seeded regressions broke) *)
Theorem C04_vol32_entry_clears_high_word : forall g se fc sz,
  is32 g = true ->
  (fc = None \/ exists c, fc = Some c /\ c < 65536) -> se_first_cluster_hi (flushed_entry g se fc sz) = 0.
Proof. exact flushed_entry_clears_high. Qed.

(* FAT12/16: the high word of the slot is left as it was *)
Theorem C04_vol16_entry_keeps_high_word : forall g se fc sz,
  is32 g = false ->
  se_first_cluster_hi (flushed_entry g se fc sz) = se_first_cluster_hi se.
Proof. exact flushed_entry_words16. Qed.

(* it IS the record of the session model (Model/VolSession.sess_entry) *)
Theorem C04_vol32_sess_entry_is_flushed_entry : forall g h k se b ed sz,
  h_entry h = Some ed -> ed_size ed = Some sz ->
  sess_entry g h {| en_slot := k; en_data := se; en_tdirty := b |} = flushed_entry g se (ed_first ed) sz.
Proof. exact sess_entry_flushed. Qed.

(* the write-back of the entry of a file of the FAT32 root, decoded by Abs.abs of the whole image: the entry's first cluster - read
   from both words - and size are the editor's, its node follows the chain from that cluster (>= 0x10000 included), every
   other node unchanged, only bytes of that one slot may change *)
Theorem C04_vol32_root_flush_entry_decodes : forall im l ls es1 e es2 h ed sz im',
  root32_ok im l (es1 ++ e :: es2) ls -> Forall (avoids l) (v_root (abs im)) ->
  e_is_dir e = false -> e_is_dot e = false ->
  DirSlotsProofs.bytes_ok (nth (N.to_nat (e_sfn_slot e)) (chain_dir_slots (parse_geom im) im l) []) ->
  byte_at (nth (N.to_nat (e_sfn_slot e)) (chain_dir_slots (parse_geom im) im l) []) 11 < 64 ->
  h_entry h = Some ed -> ed_size ed = Some sz -> sz < 4294967296 ->
  (forall c, ed_first ed = Some c -> c < 4294967296) ->
  vol32_root_flush_entry im (e_sfn_slot e) h = Some im' ->
  exists e' se',
    e_cluster e' = (match ed_first ed with Some c => c | None => 0 end) /\ e_size e' = sz /\
    e_lfn e' = e_lfn e /\ e_lfn_ok e' = e_lfn_ok e /\ e_sfn e' = e_sfn e /\ e_attr e' = e_attr e /\
    e_first_slot e' = e_first_slot e /\ e_sfn_slot e' = e_sfn_slot e /\
    root32_ok im' l (es1 ++ e' :: es2) ls /\
    nth (N.to_nat (e_sfn_slot e)) (chain_dir_slots (parse_geom im) im' l) [] = sfn_encode se' /\
    se_first_cluster_hi se' = ((match ed_first ed with Some c => c | None => 0 end) / 65536) mod 65536 /\
    se_first_cluster_lo se' = (match ed_first ed with Some c => c | None => 0 end) mod 65536 /\
    v_root (abs im') = map (node_of (parse_geom im) im 23) es1
                       ++ NFile e' (file_chain (parse_geom im) im e') (file_content (parse_geom im) im' e')
                       :: map (node_of (parse_geom im) im 23) es2 /\
    ((forall l', file_chain (parse_geom im) im e' = Some l' -> forall x, In x l' -> ~ In x l) ->
     file_content (parse_geom im) im' e' = file_content (parse_geom im) im e') /\
    v_labels (abs im') = v_labels (abs im) /\ v_root_issues (abs im') = [] /\ v_root_chain (abs im') = Some l /\
    chain_frame im im' l /\
    (forall o, img_get im' o <> img_get im o ->
       exists i s j, (i < length l)%nat /\ (s < cluster_slots (parse_geom im))%nat /\ (j < 32)%nat /\
         o = Abs.g_cluster_off (parse_geom im) (nth i l 0) + N.of_nat (32 * s + j) /\
         (cluster_slots (parse_geom im) * i + s)%nat = N.to_nat (e_sfn_slot e)).
Proof. exact vol32_root_flush_entry_decodes. Qed.

(* on the formatted 65579-cluster volume: first cluster 0x10004 -> words (1, 4), decoded with the chain [65540]; cleared -> both
   words zero, decoded as an empty file; a stale high word would decode as first cluster 0x10000 with a Wf issue *)
Example C04_vol32_high_word_example :
  slot_words ex32r_hi1 = ([1; 0], [4; 0], [5; 0; 0; 0]) /\
  root_nodes_view ex32r_hi1 = [(65540, 5, Some [65540], [209; 209; 209; 209; 209])] /\
  slot_words ex32r_hi2 = ([0; 0], [0; 0], [0; 0; 0; 0]) /\ root_nodes_view ex32r_hi2 = [(0, 0, None, [])] /\
  Wf.wf_issues (fun l => l) ex32r_hi1 = [] /\ Wf.wf_issues (fun l => l) ex32r_hi2 = [].
Proof.
  destruct ex32r_hi_set as (A1 & A2 & A3). destruct ex32r_hi_cleared as (B1 & B2 & B3).
  split; [exact A1|]. split; [exact A2|]. split; [exact B1|]. split; [exact B2|]. split; [exact A3|exact B3].
Qed.

Print Assumptions C04_vol32_entry_both_words.
Print Assumptions C04_vol32_entry_clears_high_word.
Print Assumptions C04_vol16_entry_keeps_high_word.
Print Assumptions C04_vol32_sess_entry_is_flushed_entry.
Print Assumptions C04_vol32_root_flush_entry_decodes.
