(* C04 - what a session saw is what is on the disk: remount and independent decode agree.
   Layer theorems: (1) what the library WRITES for an entry is decoded by the independent specification decoder to
   exactly that entry (long name, alias, slot positions); (2) the library's READERS agree with the specification on
   table values and short-name rendering; (3) the byte ranges a file reports as extents hold exactly its content.
   (4) the file layer over ONE device image (Model/VolFile.v): what it leaves on the device is what the independent
   decoder reads back - chain walk, content, extents - after any history on a handle (Proofs/VolFileProofs.v).
   The composition over whole volumes (directories, several layers) and sessions is checked on the implementation at
   every remount point (tools/props/c04.py). *)
From Coq Require Import NArith ZArith List.
From FatVerif Require Import Model.Base Model.Str Model.Slot Model.Table Model.Fat Model.Name Model.FileM Model.DirSlots
  Spec.Image Spec.Abs Spec.ByteFile
  Proofs.ImageProofs Proofs.TableProofs Proofs.FileProofs Proofs.DirSlotsProofs Proofs.CrossProofs.
From FatVerif Require Import Model.VolFile Proofs.FatProofs Proofs.VolFileProofs Proofs.VolFileExamples.
Open Scope N_scope.

Theorem C04_image_write_frame : forall bs im off o,
  (o < off \/ off + N.of_nat (length bs) <= o) -> img_get (img_write im off bs) o = img_get im o.
Proof. exact img_write_outside. Qed.

(* (1) written entry -> independent decode *)
Theorem C04_written_entry_decodes : forall n e idx fat32,
  validate_long_name n = Ok tt -> is_dot_name n = false -> sfn_fields_ok e ->
  let lfn_slots := map lfn_encode (lfn_entries (utf16_encode n) (lfn_checksum (se_name e))) in
  let en := mk_entry (rev lfn_slots) (sfn_encode e) idx fat32 in
  run_valid (rev lfn_slots) (se_name e) = true /\ e_lfn en = utf16_encode n /\ e_lfn_ok en = true /\
  e_sfn en = se_name e /\ e_first_slot en = idx - len_N lfn_slots /\ e_sfn_slot en = idx.
Proof. exact written_run_valid. Qed.

(* (2) readers agree with the specification *)
Theorem C04_fat12_values_agree : forall g v, g_bits g = 12 -> fatv_of (fat_classify g v) = classify12 v.
Proof. exact classify12_agrees. Qed.
Theorem C04_fat16_values_agree : forall g v, g_bits g = 16 -> fatv_of (fat_classify g v) = classify16 v.
Proof. exact classify16_agrees. Qed.
Theorem C04_fat32_values_agree : forall g c v, g_bits g = 32 -> c < 268435447 ->
  fatv_of (fat_classify g v) = classify32 c v.
Proof. exact classify32_agrees. Qed.
Theorem C04_short_name_render_agrees : forall raw, length raw = 11%nat -> short_name_string raw = sfn_render raw.
Proof. exact short_name_render_agrees. Qed.

(* (3) extents reproduce the content *)
Section Extents.
Variable T : Type.
Variable get : T -> N -> res fatv.
Variable set : T -> N -> fatv -> res T.
Variable val : T -> N -> fatv.
Variable okc : N -> Prop.
Variable okv : fatv -> Prop.
Variable inv : T -> Prop.
Hypothesis get_val : forall t c, inv t -> okc c -> get t c = Ok (val t c).
Hypothesis set_ok : forall t c v, inv t -> okc c -> okv v ->
  exists t', set t c v = Ok t' /\ inv t' /\ val t' c = v /\ forall c', c' <> c -> okc c' -> val t' c' = val t c'.
Hypothesis okv_free : okv Free.
Hypothesis okv_eoc : okv Eoc.
Variable cs total : N.
Hypothesis Hcs : 0 < cs.
Hypothesis Hokc : forall x, 2 <= x < total + 2 -> okc x.
Hypothesis Hokd : forall n, 2 <= n < total + 2 -> okv (Data n).

Theorem C04_extents_reproduce_content : forall w h sz l,
  WorldInv T val inv cs total w -> FileInv T val cs total w h sz l ->
  exists ex, file_extents T get cs total w h = Ok ex /\ map fst ex = l /\ ext_total ex = sz /\
             ext_bytes (w_data T w) ex = content T w l sz /\ forall e, In e ex -> 0 <= snd e <= cs.
Proof. exact (file_extents_spec T get set val okc okv inv get_val set_ok cs total Hcs Hokc Hokd). Qed.
End Extents.

(* ---------------------------------------------------------------- (4) the file layer on ONE image
   Geometry [g] (Spec/Abs.v, e.g. [parse_geom im]) with [vgeom_ok g]: non-degenerate sizes, data area inside the volume,
   the active FAT copy exists, one copy holds an entry for every cluster.  [Embeds g im w]: the FAT store of the
   file-layer world [w] is the FAT slice of [g] (base = first / active copy, size = one copy, mirrors = all copies / 1)
   and agrees with [im] on the bytes of those copies; the data of every data cluster c is the [g_cluster_size g] bytes of
   [im] at [g_cluster_off g c].  [VFileInv]/[VWorldInv] = the C02 invariants at the byte-level store of the volume's
   width; [NoBad]: no cluster of the chain carries the bad-cluster mark. *)

(* a static embedded world: the decoder's chain walk from the first cluster is the chain of the invariant (any fuel
   covering its length), and the first [sz] bytes of the decoder's chain bytes are the content of the byte array *)
Theorem C04_file_decodes_static : forall g, vgeom_ok g -> forall im w h sz l,
  Embeds g im w -> VFileInv g w h sz l -> NoBad g w l ->
  match h_first h with
  | Some f => forall fuel, (length l <= fuel)%nat -> chain_from g im f fuel = Some l
  | None => l = []
  end /\
  firstn (N.to_nat sz) (chain_bytes g im l) = content fstore w l sz.
Proof. exact decode_static. Qed.

(* the same in the very expression Spec/Abs.v [decode_entries] computes for a file node from the directory entry's
   first-cluster field (0 = none) and size; the decoder follows at most 2^17 links *)
Theorem C04_file_decodes_entry : forall g, vgeom_ok g -> forall im w h sz l,
  Embeds g im w -> VWorldInv g w -> VFileInv g w h sz l -> NoBad g w l ->
  g_clusters g <= 131072 \/ N.of_nat (length l) <= 131072 ->
  decode_file g im (first_field h) sz = content fstore w l sz.
Proof. exact decode_file_static. Qed.

(* [decode_file] IS the content the tree decoder [Abs.decode_entries] attaches to a file entry with that first cluster and size *)
Theorem C04_file_decodes_node : forall g im d e,
  e_is_dot e = false -> e_is_dir e = false ->
  decode_entries g im (S d) [e] =
  [NFile e (if e_cluster e =? 0 then None else chain_from g im (e_cluster e) (Abs.chain_fuel g))
           (decode_file g im (e_cluster e) (e_size e))].
Proof. exact decode_file_is_node. Qed.

(* any history on a handle, run by the image-level machine [vol_run] (FileM over the FAT slice of the image, FAT entry
   writes in every mirrored copy at their device offsets, data written through at g_cluster_off g c + offset):
   the outcomes are a run of the byte-array machine whose state IS what the decoder reads from the image *)
Theorem C04_file_decodes_run : forall g, vgeom_ok g -> forall ops im fi h sz l,
  Forall op_ok ops -> VolInv g im fi h sz l ->
  exists im' fi' h' rs sz' l', vol_run g (im, fi, h) ops = ((im', fi', h'), rs) /\
    VolInv g im' fi' h' sz' l' /\
    bf_run (firstn (N.to_nat sz) (chain_bytes g im l), h_off h) ops rs
      = Some (firstn (N.to_nat sz') (chain_bytes g im' l'), h_off h') /\
    match h_first h' with
    | Some f => forall fuel, (length l' <= fuel)%nat -> chain_from g im' f fuel = Some l'
    | None => l' = []
    end.
Proof. exact vol_run_refines. Qed.

(* the same for plain FileM runs from ANY embedded world, the image effect replayed by [img_run] *)
Theorem C04_file_decodes_replay : forall g, vgeom_ok g -> forall ops im w h sz l,
  Embeds g im w -> VWorldInv g w -> VFileInv g w h sz l -> NoBad g w l ->
  exists w' h' rs sz' l',
    file_run fstore (fat_get (ft_of g)) (fat_set (ft_of g)) (g_cluster_size g) (g_clusters g) w h ops = (w', h', rs) /\
    VWorldInv g w' /\ VFileInv g w' h' sz' l' /\ NoBad g w' l' /\
    Embeds g (img_run g im w h ops) w' /\
    bf_run (firstn (N.to_nat sz) (chain_bytes g im l), h_off h) ops rs
      = Some (firstn (N.to_nat sz') (chain_bytes g (img_run g im w h ops) l'), h_off h') /\
    match h_first h' with
    | Some f => forall fuel, (length l' <= fuel)%nat -> chain_from g (img_run g im w h ops) f fuel = Some l'
    | None => l' = []
    end.
Proof. exact embed_run. Qed.

(* extents: File::extents on the image lists (g_cluster_off g c, min(cluster size, bytes left)) for the clusters c of
   the chain in order; those byte ranges, read straight from the image, concatenate to the content the decoder reads *)
Theorem C04_file_decodes_extents : forall g, vgeom_ok g -> forall im fi h sz l,
  VolInv g im fi h sz l ->
  exists ex,
    file_extents fstore (fat_get (ft_of g)) (g_cluster_size g) (g_clusters g) (world_of g im fi) h = Ok ex /\
    vol_extents g (im, fi, h) = Ok (map (fun e => (g_cluster_off g (fst e), snd e)) ex) /\
    map fst ex = l /\ ext_total ex = sz /\ (forall e, In e ex -> 0 <= snd e <= g_cluster_size g) /\
    read_ranges im (map (fun e => (g_cluster_off g (fst e), snd e)) ex) = firstn (N.to_nat sz) (chain_bytes g im l).
Proof. exact vol_extents_spec. Qed.

(* non-vacuity: the formatted 64-sector FAT12 image of Proofs/VolFileExamples.v satisfies the hypotheses with a new
   empty file, and a history that puts 6 bytes across clusters 2 and 3 is decoded from the raw bytes *)
Example C04_file_decodes_example_hyps : vgeom_ok ex_g /\ VolInv ex_g ex_im ex_fi empty_file 0 [] /\ Forall op_ok ex_ops.
Proof. exact (conj ex_geom_ok (conj ex_vol_inv ex_ops_ok)). Qed.
(* ... and on a non-trivial state: after that history the ghosts are size 515 and chain [2; 3] *)
Example C04_file_decodes_example_state :
  VolInv ex_g ex_im' ex_fi' ex_h' 515 [2; 3] /\ Embeds ex_g ex_im' (world_of ex_g ex_im' ex_fi').
Proof. exact (conj ex_vol_inv_final (embeds_world_of ex_g ex_im' ex_fi')). Qed.
Example C04_file_decodes_example :
  let '(st, rs) := vol_run ex_g (ex_im, ex_fi, empty_file) ex_ops in
  let '(im', fi', h') := st in
  rs = [RCount 509; RCount 3; RCount 3] /\ h_first h' = Some 2 /\ h_size h' = Some 515 /\
  chain_from ex_g im' 2 (Abs.chain_fuel ex_g) = Some [2; 3] /\
  skipn 509 (decode_file ex_g im' (first_field h') 515) = [1; 2; 3; 4; 5; 6] /\
  img_read im' (512 + 3) 3 = [3; 240; 255] /\ img_read im' (1024 + 3) 3 = [3; 240; 255] /\
  img_read im' (2048 + 509) 6 = [1; 2; 3; 4; 5; 6] /\
  vol_extents ex_g st = Ok [(2048, 512); (2560, 3)] /\
  skipn 509 (read_ranges im' [(2048, 512); (2560, 3)]) = [1; 2; 3; 4; 5; 6] /\
  bf_run ([], 0) ex_ops rs = Some (decode_file ex_g im' (first_field h') 515, 515).
Proof. exact ex_run_decodes. Qed.

Print Assumptions C04_image_write_frame.
Print Assumptions C04_written_entry_decodes.
Print Assumptions C04_fat12_values_agree.
Print Assumptions C04_fat16_values_agree.
Print Assumptions C04_fat32_values_agree.
Print Assumptions C04_short_name_render_agrees.
Print Assumptions C04_extents_reproduce_content.
Print Assumptions C04_file_decodes_static.
Print Assumptions C04_file_decodes_entry.
Print Assumptions C04_file_decodes_node.
Print Assumptions C04_file_decodes_run.
Print Assumptions C04_file_decodes_replay.
Print Assumptions C04_file_decodes_extents.
