(* C14 - flushed file data survives a power cut.
   Proved: the device-level shape of File::flush (entry write-back iff dirty, then a device flush, as the last call)
   and that the flushed entry bytes survive every later log of writes that do not overlap them - in particular every
   prefix of such a log (the power-cut model).  That later operations on OTHER files never overlap the file's entry,
   table entries and clusters is the confinement property C11; the end-to-end statement is checked on the
   implementation for every crash point by the independent decoder (tools/props/c14.py). *)
From Coq Require Import NArith List.
From FatVerif Require Import Model.Base Model.FlushM Spec.Image Proofs.ImageProofs Proofs.FlushProofs.
Open Scope N_scope.

Theorem C14_write_frame : forall bs im off o,
  (o < off \/ off + N.of_nat (length bs) <= o) -> img_get (img_write im off bs) o = img_get im o.
Proof. exact img_write_outside. Qed.

Theorem C14_flush_shape : forall dirty pos entry,
  exists ws, fst (file_flush dirty pos entry) = ws ++ [DFlush] /\
             (forall e, In e ws -> exists o b, e = DWrite o b) /\ snd (file_flush dirty pos entry) = false /\
             (dirty = true -> ws = [DWrite pos entry]) /\ (dirty = false -> ws = []).
Proof. exact flush_shape. Qed.

Theorem C14_flushed_entry_survives : forall im pos entry later,
  (forall o b, In (DWrite o b) later -> o + N.of_nat (length b) <= pos \/ pos + N.of_nat (length entry) <= o) ->
  forall i, (i < length entry)%nat ->
  img_get (apply_events im (fst (file_flush true pos entry) ++ later)) (pos + N.of_nat i) = nth i entry 0.
Proof. exact flushed_entry_survives. Qed.

(* ---- write-back cache that honours flush ([cache_run]: current image, durable image) *)
(* what survives a power cut is the image after a prefix of the log of device writes *)
Theorem C14_durable_is_prefix_image : forall cur evs,
  exists pre post, evs = pre ++ post /\ snd (cache_run cur cur evs) = apply_events cur pre.
Proof. exact durable_is_prefix_image. Qed.

(* when flush / drop returns, everything handed to the storage before (data, table updates, the entry) is durable *)
Theorem C14_flush_makes_durable : forall cur dur before dirty pos entry,
  let r := cache_run cur dur (before ++ fst (file_flush dirty pos entry)) in
  snd r = fst r /\ fst r = apply_events cur (before ++ fst (file_flush dirty pos entry)).
Proof. exact flush_makes_durable. Qed.

(* and the flushed entry stays durable through every continuation that does not overlap it *)
Theorem C14_flushed_entry_durable : forall cur dur before pos entry later,
  (forall o b, In (DWrite o b) later -> o + N.of_nat (length b) <= pos \/ pos + N.of_nat (length entry) <= o) ->
  forall i, (i < length entry)%nat ->
  img_get (snd (cache_run cur dur (before ++ fst (file_flush true pos entry) ++ later))) (pos + N.of_nat i) = nth i entry 0.
Proof. exact flushed_entry_durable. Qed.

(* the shape matters: without the final device flush (the round-3 seeded change) the same log leaves the OLD bytes durable *)
Example C14_no_device_flush_loses_data :
  let im := img_write (img_empty 0) 100 [1; 1; 1; 1] in
  snd (cache_run im im [DWrite 100 [7; 7; 7; 7]]) = im /\
  img_get (snd (cache_run im im ([DWrite 100 [7; 7; 7; 7]] ++ fst (file_flush false 0 [])))) 100 = 7.
Proof. vm_compute. split; reflexivity. Qed.

Print Assumptions C14_write_frame.
Print Assumptions C14_flush_shape.
Print Assumptions C14_flushed_entry_survives.
Print Assumptions C14_durable_is_prefix_image.
Print Assumptions C14_flush_makes_durable.
Print Assumptions C14_flushed_entry_durable.
