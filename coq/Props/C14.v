(* C14 - flushed file data survives a power cut.
   Proved: the device-level shape of File::flush (entry write-back iff dirty, then a device flush, as the last call)
   and that the flushed entry bytes survive every later log of writes that do not overlap them - in particular every
   prefix of such a log (the power-cut model).  That later operations on OTHER files never overlap the file's entry,
   table entries and clusters is the confinement property C11; the end-to-end statement is checked on the
   implementation for every crash point by the independent decoder (tools/props/c14.py). *)
From Coq Require Import NArith List.
From FatVerif Require Import Model.Base Model.FlushM Spec.Image Proofs.ImageProofs Proofs.FlushProofs.
Open Scope N_scope.

Theorem C14_write_frame : forall bs im off o,
  (o < off \/ off + N.of_nat (length bs) <= o) -> img_get (img_write im off bs) o = img_get im o.
Proof. exact img_write_outside. Qed.

Theorem C14_flush_shape : forall dirty pos entry,
  exists ws, fst (file_flush dirty pos entry) = ws ++ [DFlush] /\
             (forall e, In e ws -> exists o b, e = DWrite o b) /\ snd (file_flush dirty pos entry) = false /\
             (dirty = true -> ws = [DWrite pos entry]) /\ (dirty = false -> ws = []).
Proof. exact flush_shape. Qed.

Theorem C14_flushed_entry_survives : forall im pos entry later,
  (forall o b, In (DWrite o b) later -> o + N.of_nat (length b) <= pos \/ pos + N.of_nat (length entry) <= o) ->
  forall i, (i < length entry)%nat ->
  img_get (apply_events im (fst (file_flush true pos entry) ++ later)) (pos + N.of_nat i) = nth i entry 0.
Proof. exact flushed_entry_survives. Qed.

(* ---- write-back cache that honours flush ([cache_run]: current image, durable image) *)
(* what survives a power cut is the image after a prefix of the log of device writes *)
Theorem C14_durable_is_prefix_image : forall cur evs,
  exists pre post, evs = pre ++ post /\ snd (cache_run cur cur evs) = apply_events cur pre.
Proof. exact durable_is_prefix_image. Qed.

(* when flush / drop returns, everything handed to the storage before (data, table updates, the entry) is durable *)
Theorem C14_flush_makes_durable : forall cur dur before dirty pos entry,
  let r := cache_run cur dur (before ++ fst (file_flush dirty pos entry)) in
  snd r = fst r /\ fst r = apply_events cur (before ++ fst (file_flush dirty pos entry)).
Proof. exact flush_makes_durable. Qed.

(* and the flushed entry stays durable through every continuation that does not overlap it *)
Theorem C14_flushed_entry_durable : forall cur dur before pos entry later,
  (forall o b, In (DWrite o b) later -> o + N.of_nat (length b) <= pos \/ pos + N.of_nat (length entry) <= o) ->
  forall i, (i < length entry)%nat ->
  img_get (snd (cache_run cur dur (before ++ fst (file_flush true pos entry) ++ later))) (pos + N.of_nat i) = nth i entry 0.
Proof. exact flushed_entry_durable. Qed.

(* the shape matters: without the final device flush (the round-3 seeded change) the same log leaves the OLD bytes durable *)
Example C14_no_device_flush_loses_data :
  let im := img_write (img_empty 0) 100 [1; 1; 1; 1] in
  snd (cache_run im im [DWrite 100 [7; 7; 7; 7]]) = im /\
  img_get (snd (cache_run im im ([DWrite 100 [7; 7; 7; 7]] ++ fst (file_flush false 0 [])))) 100 = 7.
Proof. vm_compute. split; reflexivity. Qed.

(* ---------------------------------------------------------------- C14 AT IMAGE LEVEL, several files per session
   (Model/VolSession2.v, Proofs/VolSession2Proofs.v; invariant [Sess2Inv] and [hnode]: Props/C04.v section 6).
   A handle that is CLEAN has been flushed / dropped after its last modification (C04_session2_settled_clean).  The fact
   the judge re-checks at every crash point - the decoder shows the file with the flushed content - as a theorem about
   every later image of the run. *)
From FatVerif Require Import Model.Time Model.FileM Model.VolSession Model.VolSession2 Spec.Abs Proofs.VolDirProofs
  Proofs.VolFileProofs Proofs.VolSessionProofs Proofs.VolSession2Proofs Proofs.VolDirFormat Proofs.VolSessionExamples
  Proofs.VolSession2Examples.
From FatVerif Require Proofs.TimeProofs Spec.Wf Model.Slot.
Import ListNotations.

(* once handle i is clean its node - entry, chain, content - is in the decoded root of the image after ANY later steps that
   are not calls on handle i: calls on the other handles (which allocate, free and write clusters and update the shared
   FAT), their flushes and drops (which rewrite other slots of the same root region), a second flush of handle i.
   The hypotheses are closed under prefixes of [ops]: the statement holds for the image after EVERY step of the run *)
Theorem C14_session2_flushed_survives : forall g, fixed_root_geom g -> forall acc ops st gs es ls i x gh,
  Sess2Inv g st gs es ls -> nth_error (s2_hs st) i = Some x -> nth_error gs i = Some gh -> s2_dirty x = false ->
  Forall s2op_ok ops -> Forall (not_op_on i) ops ->
  let im' := s2_im (fst (s2_run g acc st ops)) in
  hnode g im' gh = hnode g (s2_im st) gh /\ In (hnode g (s2_im st) gh) (v_root (abs im')) /\
  In (hnode g (s2_im st) gh) (v_root (abs (s2_im st))).
Proof. exact s2_flushed_survives. Qed.

(* one step that is not a call on handle i keeps handle i clean, its ghost and its decoded content *)
Theorem C14_session2_step_keeps_clean : forall g, fixed_root_geom g -> forall acc st gs es ls op i x gh,
  Sess2Inv g st gs es ls -> s2op_ok op -> not_op_on i op ->
  nth_error (s2_hs st) i = Some x -> nth_error gs i = Some gh -> s2_dirty x = false ->
  exists gs' es' x',
    Sess2Inv g (fst (s2_step g acc st op)) gs' es' ls /\
    nth_error (s2_hs (fst (s2_step g acc st op))) i = Some x' /\ nth_error gs' i = Some gh /\ s2_dirty x' = false /\
    vol_content g (s2_im (fst (s2_step g acc st op))) (gh_l gh) (gh_sz gh) = vol_content g (s2_im st) (gh_l gh) (gh_sz gh).
Proof. exact s2_step_keeps_clean. Qed.

(* WHICH image is durable.  The device is flushed by File::flush / drop only, as the last event of the call
   (C14_flush_shape), so at the granularity of calls the durable image [s2_durable] is the image the session had right
   after its last flush / drop step - one of the images of C14_session2_flushed_survives - or the one it started with *)
Theorem C14_session2_durable_is_flush_image : forall g acc ops st dur,
  (s2_durable g acc st dur ops = dur /\ Forall no_flush_step ops) \/
  (exists n j, (n < length ops)%nat /\ nth_error ops n = Some (SFlush j) /\ Forall no_flush_step (skipn (S n) ops) /\
               s2_durable g acc st dur ops = s2_im (fst (s2_run g acc st (firstn (S n) ops)))).
Proof. exact s2_durable_cases. Qed.

Theorem C14_session2_flushed_durable : forall g, fixed_root_geom g -> forall acc ops st gs es ls i x gh dur,
  Sess2Inv g st gs es ls -> nth_error (s2_hs st) i = Some x -> nth_error gs i = Some gh -> s2_dirty x = false ->
  Forall s2op_ok ops -> Forall (not_op_on i) ops ->
  In (hnode g (s2_im st) gh) (v_root (abs dur)) ->
  In (hnode g (s2_im st) gh) (v_root (abs (s2_durable g acc st dur ops))).
Proof. exact s2_flushed_durable. Qed.

(* ... and through the write-back cache of Model/FlushM.v ([cache_run], C14_durable_is_prefix_image).  A device log
   REALISES the steps ([log_realises]): one event list per step whose writes take the session's image to the image after
   the step, followed by a device flush exactly for flush / drop steps.  Then the cache's current image is the session's
   image and its DURABLE image is [s2_durable] *)
Theorem C14_session2_cache_is_durable : forall g acc ops logs st cur dur dur0,
  log_realises g acc st ops logs -> img_same (s2_im st) cur -> img_same dur0 dur ->
  img_same (s2_im (fst (s2_run g acc st ops))) (fst (cache_run cur dur (concat logs))) /\
  img_same (s2_durable g acc st dur0 ops) (snd (cache_run cur dur (concat logs))).
Proof. exact cache_run_realised. Qed.

(* the flush / drop of handle i has returned (current = durable = the session's image); after any realised log of later
   steps that are not calls on handle i, the DURABLE image - what a power cut then leaves - shows the file as flushed *)
Theorem C14_session2_flushed_durable_cache : forall g, fixed_root_geom g -> forall acc ops logs st gs es ls i x gh cur,
  Sess2Inv g st gs es ls -> nth_error (s2_hs st) i = Some x -> nth_error gs i = Some gh -> s2_dirty x = false ->
  Forall s2op_ok ops -> Forall (not_op_on i) ops -> log_realises g acc st ops logs -> img_same (s2_im st) cur ->
  In (hnode g (s2_im st) gh) (v_root (abs (snd (cache_run cur cur (concat logs))))).
Proof. exact s2_flushed_durable_cache. Qed.

(* what [log_realises] asks of a log, one step *)
Theorem C14_session2_log_realises_means : forall g acc st op ops evs logs,
  log_realises g acc st (op :: ops) (evs :: logs) <->
  ((exists ws, evs = ws ++ (if s2_flushes op then [DFlush] else []) /\ writes_only ws /\
               img_same (apply_events (s2_im st) ws) (s2_im (fst (s2_step g acc st op)))) /\
   log_realises g acc (fst (s2_step g acc st op)) ops logs).
Proof. intros. reflexivity. Qed.

(* non-vacuity: the flush step of the model is realised by its own event list (Model/VolSession.v flush_events) *)
Theorem C14_session2_flush_log_realises : forall g acc st i x, nth_error (s2_hs st) i = Some x ->
  log_realises g acc st [SFlush i] [flush_events g (sstate_of st x)].
Proof.
  intros g acc st i x Hx. cbn [log_realises]. split; [|exact I].
  exists (if sess_dirty (sh_h x) (sh_en x) then [DWrite (root_slot_off g (en_slot (sh_en x))) (Slot.sfn_encode (sess_entry g (sh_h x) (sh_en x)))] else []).
  split; [reflexivity|]. split.
  - intros e He. destruct (sess_dirty (sh_h x) (sh_en x)); [|destruct He]. destruct He as [<-|[]]. eauto.
  - cbn [s2_step]. rewrite Hx. cbn [fst s2_put s2_im]. rewrite flush_image_eq. cbn [sstate_of s_h s_en s_im].
    intros o. destruct (sess_dirty (sh_h x) (sh_en x)); reflexivity.
Qed.

(* the concrete picture (Proofs/VolSession2Examples.v): b is flushed; a keeps growing, is truncated and flushed - the node
   of b in the decoded root is the very same node before and after *)
Example C14_session2_example :
  match vol_session2 ex_U ex_O false ex_vol_im ex_sfi ex2_reqs (ex2_writes ++ [SFlush 1]),
        vol_session2 ex_U ex_O false ex_vol_im ex_sfi ex2_reqs
          (ex2_writes ++ [SFlush 1; SOp 0 (FWrite (repeat 8 1200)) ex_clock2; SOp 0 (FSeek (FromStart 600)) ex_clock2;
                          SOp 0 FTruncate ex_clock2; SFlush 0]) with
  | Some (st, _), Some (st', _) =>
    exists nb, nth_error (v_root (abs (s2_im st))) 1 = Some nb /\ nth_error (v_root (abs (s2_im st'))) 1 = Some nb /\
               (exists eb, nb = NFile eb (Some [3; 5]) ex2_b) /\
               (exists ea, nth_error (v_root (abs (s2_im st'))) 0 = Some (NFile ea (Some [2; 4]) (firstn 600 (ex2_a ++ repeat 8 1200)))) /\
               Wf.wf_issues (fun l => l) (s2_im st') = []
  | _, _ => False
  end.
Proof. exact ex2_flushed_survives. Qed.


Print Assumptions C14_write_frame.
Print Assumptions C14_flush_shape.
Print Assumptions C14_flushed_entry_survives.
Print Assumptions C14_durable_is_prefix_image.
Print Assumptions C14_flush_makes_durable.
Print Assumptions C14_flushed_entry_durable.
Print Assumptions C14_session2_flushed_survives.
Print Assumptions C14_session2_step_keeps_clean.
Print Assumptions C14_session2_durable_is_flush_image.
Print Assumptions C14_session2_flushed_durable.
Print Assumptions C14_session2_cache_is_durable.
Print Assumptions C14_session2_flushed_durable_cache.
Print Assumptions C14_session2_log_realises_means.
Print Assumptions C14_session2_flush_log_realises.
