(* C12 - the dirty bit brackets structural changes; clean unmount restores it.
   Model: Model/Flags.v (status byte handling of fs.rs).  The link "every structural device write passes
   set_dirty_flag(true)" is checked on the implementation by the correspondence check (tools/props/c12.py). *)
From Coq Require Import NArith List.
From FatVerif Require Import Model.Base Model.Flags Spec.Image Spec.Abs Spec.Regions Proofs.FlagsProofs Proofs.RegionsProofs.
Import ListNotations.
Open Scope N_scope.

(* after a structural change the byte on the device has the dirty bit and the session knows it *)
Theorem C12_dirty_after_structural : forall s, st_inv s ->
  let s' := set_dirty_flag s true in
  sf_dirty (current s') = true /\ N.odd (disk_byte s') = true.
Proof. exact dirty_after_structural. Qed.

(* every state reachable from a mount satisfies the invariant used above *)
Theorem C12_reachable_inv : forall b evs, st_inv (fold_left st_step evs (st_mount b)).
Proof. exact run_inv. Qed.

(* a clean unmount restores the status byte to its mount-time value, for every byte value and history *)
Theorem C12_unmount_restores : forall b evs, b < 256 ->
  disk_byte (set_dirty_flag (fold_left st_step evs (st_mount b)) false) = b.
Proof. exact unmount_restores. Qed.

(* status bits already set at mount time are never cleared while mounted (bits 2-7 kept verbatim) *)
Theorem C12_mount_bits_kept : forall b evs, b < 256 ->
  let s := fold_left st_step evs (st_mount b) in
  disk_byte s / 4 = b / 4 /\ (N.odd b = true -> N.odd (disk_byte s) = true) /\
  (N.odd (b / 2) = true -> N.odd (disk_byte s / 2) = true).
Proof. exact mount_bits_kept. Qed.

(* the boundary check reads "the status byte" and "structural write" off the extracted classifier of Spec/Regions.v:
   a byte is classified as the status byte exactly when it is the byte at 0x25 (FAT12/16) / 0x41 (FAT32) *)
Theorem C12_classify_status_iff : forall g im m off, geom_sane g -> g_status_off g < g_reserved g * g_bps g ->
  g_reserved g * g_bps g <= g_volume_bytes g ->
  (classify g im m off = RStatus <-> off = g_status_off g).
Proof. exact classify_status_iff. Qed.

(* ================================================================ the dirty bit INSIDE the image model (Model/VolStatus.v,
   Proofs/VolStatusProofs.v).  The status byte is the byte of the device image at g_status_off (0x25 on FAT12/16); the latch is
   Flags.fstat; [StatInv g im s]: the image carries the byte the latch believes is on the device (disk_byte), the latch is a
   reachable one (st_inv), the mount byte is a byte.  [status_only g im im']: every byte but the status byte is equal.
   The image-level operations of VolDir / VolFile / VolSession / VolRemove are wrapped ([vols_*], [sesss_*]): the unwrapped
   operation, then set_dirty_flag(true) exactly when the code passes it (FsIoAdapter::write after a device write; File::write
   before it, for every write of at least one byte; flush and entry write-back never). *)
From FatVerif Require Import Model.Str Model.Time Model.Table Model.Fat Model.FileM Model.DirSlots Model.VolDir Model.VolFile
  Model.VolSession Model.VolRemove Model.VolStatus Spec.ByteFile Proofs.TableProofs Proofs.FatProofs Proofs.DirSlotsProofs
  Proofs.VolDirProofs Proofs.VolFileProofs Proofs.VolSessionProofs Proofs.VolRemoveProofs Proofs.VolStatusProofs
  Proofs.VolSessionExamples Proofs.VolRemoveExamples Proofs.VolStatusExamples Proofs.VolDirFormat.
From FatVerif Require Spec.Wf Model.Lfn.

(* the byte written is the byte Model/Flags.v set_dirty_flag computes: encode(flags) | (mount_byte & !3) *)
Theorem C12_vol_status_value : forall s d, flags_change s d = true ->
  disk_byte (set_dirty_flag s d) = status_value (mount_byte s) d /\ mount_byte (set_dirty_flag s d) = mount_byte s.
Proof. exact flags_change_true. Qed.

(* FileSystem::set_dirty_flag on the image: only the status byte can change; the latch is Flags.set_dirty_flag's; bits 2-7 and
   bit 1 (io_error) are the mount byte's; with [true] the dirty bit is on the device; with [false] the byte IS the mount byte;
   when the flags are the current ones nothing is written *)
Theorem C12_vol_set_dirty_flag : forall g im s d, StatInv g im s ->
  let im' := fst (vol_set_dirty_flag g im s d) in let s' := snd (vol_set_dirty_flag g im s d) in
  status_only g im im' /\ StatInv g im' s' /\ mount_byte s' = mount_byte s /\ s' = set_dirty_flag s d /\
  img_get im' (g_status_off g) / 4 = mount_byte s / 4 /\
  N.odd (img_get im' (g_status_off g) / 2) = N.odd (mount_byte s / 2) /\
  (d = true -> N.odd (img_get im' (g_status_off g)) = true /\ sf_dirty (current s') = true) /\
  (d = false -> img_get im' (g_status_off g) = mount_byte s) /\
  (flags_change s d = false -> im' = im /\ s' = s).
Proof. exact vol_set_dirty_flag_spec. Qed.

Theorem C12_vol_mount_inv : forall g im, img_get im (g_status_off g) < 256 -> StatInv g im (vol_mount_status g im).
Proof. exact mount_stat_inv. Qed.

(* ANY wrapped operation ([im] before, [im1] the unwrapped result, [marks] = the code marks in it; the unwrapped operation leaves
   the status byte alone, and changes nothing when the code does not mark): only the status byte differs from the unwrapped
   image; whenever ANY byte changed - a FAT entry, a directory slot, file data - the dirty bit is set on the device and bits 1-7
   are those of the mount-time byte; without a mark nothing at all is written *)
Theorem C12_vol_marked : forall g marks im im1 s, StatInv g im s ->
  img_get im1 (g_status_off g) = img_get im (g_status_off g) -> (marks = false -> img_same im im1) ->
  let im2 := fst (marked g marks im1 s) in let s2 := snd (marked g marks im1 s) in
  status_only g im1 im2 /\ StatInv g im2 s2 /\ mount_byte s2 = mount_byte s /\
    img_get im2 (g_status_off g) / 4 = mount_byte s / 4 /\
    N.odd (img_get im2 (g_status_off g) / 2) = N.odd (mount_byte s / 2) /\
    ((exists a, img_get im1 a <> img_get im a) ->
       N.odd (img_get im2 (g_status_off g)) = true /\ sf_dirty (current s2) = true) /\
    (marks = true -> N.odd (img_get im2 (g_status_off g)) = true /\ sf_dirty (current s2) = true) /\
    (marks = false -> im2 = im1 /\ s2 = s).
Proof. exact marked_spec. Qed.

(* THE TRANSFER LEMMA: the independent decoder and the well-formedness check do not see the status byte - except v_status.  So
   every decode theorem about an unwrapped operation (the C01_vol_ / C04_session_ / C05_vol_ families) holds of the wrapped one, and the
   premises those theorems need (geometry, wf_issues = [], count_free, root slots, FAT values, data) hold of a dirty image iff
   they hold of the clean one.  [fatsz16_set im]: BPB_FATSz16 <> 0, as on every FAT12/16 volume (otherwise the decoder would
   read offset 0x25 as part of the 32-bit FAT size). *)
Theorem C12_vol_abs_ignores_status : forall im im' g, fixed_root_geom g -> status_only g im im' ->
  parse_geom im = g -> fatsz16_set im -> forall fold,
  parse_geom im' = parse_geom im /\
  v_root (abs im') = v_root (abs im) /\ v_root_issues (abs im') = v_root_issues (abs im) /\
  v_labels (abs im') = v_labels (abs im) /\ v_geom (abs im') = v_geom (abs im) /\
  v_root_chain (abs im') = v_root_chain (abs im) /\
  v_fsinfo_free (abs im') = v_fsinfo_free (abs im) /\ v_fsinfo_next (abs im') = v_fsinfo_next (abs im) /\
  v_status (abs im') = img_get im' (g_status_off g) /\ v_status (abs im) = img_get im (g_status_off g) /\
  Wf.wf_issues fold im' = Wf.wf_issues fold im /\ Abs.count_free g im' = Abs.count_free g im /\
  root_region_slots g im' = root_region_slots g im /\
  (forall c, fat_val g im' c = fat_val g im c) /\ (forall c, cluster_bytes g im' c = cluster_bytes g im c).
Proof. exact abs_status_only. Qed.

(* ... and the file-layer invariant and the decoder's view of an open file *)
Theorem C12_vol_file_inv_ignores_status : forall im im' g, fixed_root_geom g -> status_only g im im' -> forall fi h sz l,
  img_get im' (g_status_off g) < 256 -> VolInv g im fi h sz l ->
  VolInv g im' fi h sz l /\ vol_content g im' l sz = vol_content g im l sz.
Proof. exact so_vol_inv. Qed.

(* ---- the wrapped operations *)
(* create_file in the root: marked iff the entry was created *)
Theorem C12_vol_create : forall upper oem im s name now,
  let g := parse_geom im in
  fixed_root_geom g -> StatInv g im s ->
  exists r im1 im2 s2,
    vol_create_empty_file_root upper oem im name now = (r, im1) /\
    vols_create_empty_file_root upper oem im s name now = (r, im2, s2) /\
    status_only g im1 im2 /\ StatInv g im2 s2 /\ mount_byte s2 = mount_byte s /\
    img_get im2 (g_status_off g) / 4 = mount_byte s / 4 /\
    N.odd (img_get im2 (g_status_off g) / 2) = N.odd (mount_byte s / 2) /\
    ((exists a, img_get im1 a <> img_get im a) ->
       N.odd (img_get im2 (g_status_off g)) = true /\ sf_dirty (current s2) = true) /\
    (created r = true -> N.odd (img_get im2 (g_status_off g)) = true /\ sf_dirty (current s2) = true) /\
    (created r = false -> im2 = im1 /\ s2 = s).
Proof. exact vols_create_spec. Qed.

(* remove of a cluster-less file: marked iff Ok *)
Theorem C12_vol_remove_empty : forall upper oem im s name r im1,
  let g := parse_geom im in
  fixed_root_geom g -> StatInv g im s -> vol_remove_empty_file_root upper oem im name = Some (r, im1) ->
  exists im2 s2, vols_remove_empty_file_root upper oem im s name = Some (r, im2, s2) /\
    status_only g im1 im2 /\ StatInv g im2 s2 /\ mount_byte s2 = mount_byte s /\
    img_get im2 (g_status_off g) / 4 = mount_byte s / 4 /\
    N.odd (img_get im2 (g_status_off g) / 2) = N.odd (mount_byte s / 2) /\
    ((exists a, img_get im1 a <> img_get im a) ->
       N.odd (img_get im2 (g_status_off g)) = true /\ sf_dirty (current s2) = true) /\
    (res_ok r = true -> N.odd (img_get im2 (g_status_off g)) = true /\ sf_dirty (current s2) = true) /\
    (res_ok r = false -> im2 = im1 /\ s2 = s).
Proof. exact vols_remove_empty_spec. Qed.

(* rename in the root: marked iff the root region changed (not in the no-op branch, not on failure) *)
Theorem C12_vol_rename : forall upper oem im s src dst r im1,
  let g := parse_geom im in
  fixed_root_geom g -> StatInv g im s -> vol_rename_in_root upper oem im src dst = Some (r, im1) ->
  exists im2 s2 wrote, vols_rename_in_root upper oem im s src dst = Some (r, im2, s2) /\
    (status_only g im1 im2 /\ StatInv g im2 s2 /\ mount_byte s2 = mount_byte s /\
    img_get im2 (g_status_off g) / 4 = mount_byte s / 4 /\
    N.odd (img_get im2 (g_status_off g) / 2) = N.odd (mount_byte s / 2) /\
    ((exists a, img_get im1 a <> img_get im a) ->
       N.odd (img_get im2 (g_status_off g)) = true /\ sf_dirty (current s2) = true) /\
    (wrote = true -> N.odd (img_get im2 (g_status_off g)) = true /\ sf_dirty (current s2) = true) /\
    (wrote = false -> im2 = im1 /\ s2 = s)) /\
    wrote = negb (slots_eqb (root_region_slots g im) (root_region_slots g im1)).
Proof. exact vols_rename_spec. Qed.

(* remove of a file with clusters (premises of C05_vol_remove_reclaims_all): Ok, marked *)
Theorem C12_vol_remove_file : forall upper oem fold im fi s name ev,
  let g := parse_geom im in
  fixed_root_geom g -> FatProofs.bytes_ok im ->
  fi_inv fstore (val_ft (ft_of g)) (store_of g im) fi (g_clusters g) ->
  Wf.wf_issues fold im = [] -> Forall attrs_sane (root_region_slots g im) ->
  root_lookup upper oem im name = Ok ev -> Lfn.ev_is_dir ev = false ->
  list_eqb (Lfn.ev_raw_name ev) DOT || list_eqb (Lfn.ev_raw_name ev) DOTDOT = false ->
  StatInv g im s ->
  exists im1 fi1 im2 s2,
    vol_remove_file_root upper oem im fi name = Some (Ok tt, im1, fi1) /\
    vols_remove_file_root upper oem im fi s name = Some (Ok tt, im2, fi1, s2) /\
    status_only g im1 im2 /\ StatInv g im2 s2 /\ mount_byte s2 = mount_byte s /\
    img_get im2 (g_status_off g) / 4 = mount_byte s / 4 /\
    N.odd (img_get im2 (g_status_off g) / 2) = N.odd (mount_byte s / 2) /\
    ((exists a, img_get im1 a <> img_get im a) ->
       N.odd (img_get im2 (g_status_off g)) = true /\ sf_dirty (current s2) = true) /\
    (true = true -> N.odd (img_get im2 (g_status_off g)) = true /\ sf_dirty (current s2) = true) /\
    (true = false -> im2 = im1 /\ s2 = s).
Proof. exact vols_remove_file_spec. Qed.

(* ... every other outcome of it: no status write, nothing at all *)
Theorem C12_vol_remove_file_failed : forall upper oem im fi s name r im1 fi1,
  vol_remove_file_root upper oem im fi name = Some (r, im1, fi1) -> r <> Ok tt ->
  vols_remove_file_root upper oem im fi s name = Some (r, im, fi, s).
Proof. exact vols_remove_file_failed. Qed.

(* a file call the code does not mark (read, seek, a write of zero bytes, a truncate with nothing to cut, a failed truncate)
   leaves image and FS-info latch exactly as they were - no premise *)
Theorem C12_vol_step_unmarked : forall g im fi h o im' fi' h' r,
  vol_step g (im, fi, h) o = ((im', fi', h'), r) -> step_marks (g_cluster_size g) h o r = false -> im' = im /\ fi' = fi.
Proof. exact vol_step_unmarked. Qed.

(* ONE FILE CALL, mounted: C02_image_step with the status byte inside the image *)
Theorem C12_vol_file_step : forall g, fixed_root_geom g -> forall im fi h sz l s o,
  op_ok o -> VolInv g im fi h sz l -> StatInv g im s ->
  exists im1 fi1 h1 r im2 s2 sz' l',
    vol_step g (im, fi, h) o = ((im1, fi1, h1), r) /\
    vols_step g (im, fi, h) s o = ((im2, fi1, h1), s2, r) /\
    (status_only g im1 im2 /\ StatInv g im2 s2 /\ mount_byte s2 = mount_byte s /\
    img_get im2 (g_status_off g) / 4 = mount_byte s / 4 /\
    N.odd (img_get im2 (g_status_off g) / 2) = N.odd (mount_byte s / 2) /\
    ((exists a, img_get im1 a <> img_get im a) ->
       N.odd (img_get im2 (g_status_off g)) = true /\ sf_dirty (current s2) = true) /\
    (step_marks (g_cluster_size g) h o r = true -> N.odd (img_get im2 (g_status_off g)) = true /\ sf_dirty (current s2) = true) /\
    (step_marks (g_cluster_size g) h o r = false -> im2 = im1 /\ s2 = s)) /\
    VolInv g im2 fi1 h1 sz' l' /\
    bf_step (vol_content g im l sz, h_off h) o r = Some (vol_content g im2 l' sz', h_off h1) /\
    (step_marks (g_cluster_size g) h o r = false -> im2 = im /\ fi1 = fi /\ s2 = s).
Proof. exact vols_step_spec. Qed.

(* HISTORIES on a handle, mounted *)
Theorem C12_vol_file_run : forall g, fixed_root_geom g -> forall ops im fi h sz l s,
  Forall op_ok ops -> VolInv g im fi h sz l -> StatInv g im s ->
  exists im' fi' h' s' rs sz' l',
    vols_run g (im, fi, h) s ops = ((im', fi', h'), s', rs) /\
    VolInv g im' fi' h' sz' l' /\ StatInv g im' s' /\ mount_byte s' = mount_byte s /\
    bf_run (vol_content g im l sz, h_off h) ops rs = Some (vol_content g im' l' sz', h_off h') /\
    chain_decodes g im' (h_first h') l'.
Proof. exact vols_run_spec. Qed.

(* the session machine's mounted step is the mounted file call on the (image, FS-info, handle) part of its state *)
Theorem C12_vol_session_step : forall g acc st s on,
  let '(st1, s1, _) := sesss_step g acc st s on in
  let '((im2, fi2, h2), s2, _) := vols_step g (s_im st, s_fi st, s_h st) s (fst on) in
  s_im st1 = im2 /\ s_fi st1 = fi2 /\ s_h st1 = h2 /\ s1 = s2.
Proof. exact sesss_step_is_vols_step. Qed.

(* READ-ONLY sequences (reads and seeks with any arguments and outcomes): image, FS-info latch and status latch untouched *)
Theorem C12_vol_read_only_untouched : forall g ops im fi h s, forallb read_only_op ops = true ->
  exists h' rs, vols_run g (im, fi, h) s ops = ((im, fi, h'), s, rs).
Proof. exact vols_run_read_only. Qed.

(* EVERY HISTORY of wrapped operations from a mount with status byte b ([vreach]: mount, then operations that leave the status
   byte alone themselves, each with or without the mark): the invariant holds, bits 1-7 are always the mount byte's, the dirty
   bit is on the device from the first marked operation on, and before it the byte is the mount byte *)
Theorem C12_vol_reachable : forall g b dirty im s, vreach g b dirty im s ->
  StatInv g im s /\ mount_byte s = b /\ img_get im (g_status_off g) / 4 = b / 4 /\
  N.odd (img_get im (g_status_off g) / 2) = N.odd (b / 2) /\
  (dirty = true -> N.odd (img_get im (g_status_off g)) = true /\ sf_dirty (current s) = true) /\
  (dirty = false -> img_get im (g_status_off g) = b).
Proof. exact vreach_inv. Qed.

(* UNMOUNT restores the status byte EXACTLY, touches nothing else, and writes nothing after a history without a marked operation *)
Theorem C12_vol_unmount_restores : forall g b dirty im s, vreach g b dirty im s ->
  let im' := fst (vol_unmount g im s) in
  img_get im' (g_status_off g) = b /\ status_only g im im' /\ (dirty = false -> im' = im).
Proof. exact vol_unmount_restores. Qed.

(* non-vacuity and the concrete picture, 64-sector FAT12 image: mount ; create "a.txt" ; 3 writes ; flush ; remove ; unmount.
   Status byte after each stage, mounted clean / with reserved bits 0x84 / dirty; the final image is the image of the pipeline
   without status byte, map for map; a refused create and reads / seeks change nothing *)
Example C12_vol_example_hyps :
  fixed_root_geom ex_g /\ fatsz16_set ex_vol_im /\ StatInv ex_g ex_vol_im (vol_mount_status ex_g ex_vol_im) /\
  fatsz16_set ex_rm_im /\ StatInv ex_g ex_rm_im (vol_mount_status ex_g ex_rm_im).
Proof. exact ex_status_hyps. Qed.
Example C12_vol_example_clean_mount :
  match ex_status_trace ex_vol_im, ex_plain ex_vol_im with
  | Some (bytes, im5), Some im' => bytes = [0; 1; 1; 1; 1; 0] /\ img_eqb im5 im' = true
  | _, _ => False
  end.
Proof. exact ex_status_clean_mount. Qed.
Example C12_vol_example_reserved_bits :
  match ex_status_trace (img_set ex_vol_im 37 132), ex_plain (img_set ex_vol_im 37 132) with
  | Some (bytes, im5), Some im' => bytes = [132; 133; 133; 133; 133; 132] /\ img_eqb im5 im' = true
  | _, _ => False
  end.
Proof. exact ex_status_reserved_bits. Qed.
Example C12_vol_example_dirty_mount :
  match ex_status_trace (img_set ex_vol_im 37 1) with
  | Some (bytes, _) => bytes = [1; 1; 1; 1; 1; 1]
  | None => False
  end.
Proof. exact ex_status_dirty_mount. Qed.

Print Assumptions C12_dirty_after_structural.
Print Assumptions C12_reachable_inv.
Print Assumptions C12_unmount_restores.
Print Assumptions C12_mount_bits_kept.
Print Assumptions C12_classify_status_iff.
Print Assumptions C12_vol_status_value.
Print Assumptions C12_vol_set_dirty_flag.
Print Assumptions C12_vol_mount_inv.
Print Assumptions C12_vol_marked.
Print Assumptions C12_vol_abs_ignores_status.
Print Assumptions C12_vol_file_inv_ignores_status.
Print Assumptions C12_vol_create.
Print Assumptions C12_vol_remove_empty.
Print Assumptions C12_vol_rename.
Print Assumptions C12_vol_remove_file.
Print Assumptions C12_vol_remove_file_failed.
Print Assumptions C12_vol_step_unmarked.
Print Assumptions C12_vol_file_step.
Print Assumptions C12_vol_file_run.
Print Assumptions C12_vol_session_step.
Print Assumptions C12_vol_read_only_untouched.
Print Assumptions C12_vol_reachable.
Print Assumptions C12_vol_unmount_restores.

(* ================================================================ FAT32: the status byte at offset 0x41 (65) inside the image model
   (Model/VolFsInfo.v, Proofs/VolFsInfoProofs.v).  vol_set_dirty_flag / marked / vreach above are stated for any geometry through
   Abs.g_status_off; here they are instantiated at the FAT32 width and tied to the mounted FAT32 session machine v32_step
   (statistics, allocations, frees, file calls - each followed by set_dirty_flag(true) exactly when the code passes it) between
   vol32_mount and vol32_unmount (flush_fs_info, THEN set_dirty_flag(false)). *)
From FatVerif Require Import Model.FormatImage Model.VolFsInfo Proofs.VolFsInfoProofs Proofs.VolFsInfoExamples.

(* set_dirty_flag on a FAT32 image: only byte 0x41 can change; bits 1-7 are the mount byte's; with [false] the byte IS the mount byte *)
Theorem C12_vol32_set_dirty_flag : forall g im s d, g_bits g = 32 -> StatInv g im s ->
  let im' := fst (vol_set_dirty_flag g im s d) in let s' := snd (vol_set_dirty_flag g im s d) in
  (forall a, a <> 65 -> img_get im' a = img_get im a) /\ StatInv g im' s' /\ mount_byte s' = mount_byte s /\
  s' = set_dirty_flag s d /\
  img_get im' 65 / 4 = mount_byte s / 4 /\ N.odd (img_get im' 65 / 2) = N.odd (mount_byte s / 2) /\
  (d = true -> N.odd (img_get im' 65) = true /\ sf_dirty (current s') = true) /\
  (d = false -> img_get im' 65 = mount_byte s) /\
  (flags_change s d = false -> im' = im /\ s' = s).
Proof. exact vol32_set_dirty_flag_spec. Qed.

(* EVERY admissible history of a mounted FAT32 volume (FatProofs.bytes_ok im: bytes < 256; Vol32, mount_coherent, run_ok: see C05):
   the latch mirrors the device byte, bits 1-7 of byte 0x41 are the mount byte's, no reserved sector changes apart from that byte,
   and EITHER the dirty bit is on the device OR not a single byte has been written since mount *)
Theorem C12_vol32_reachable : forall strict im cs fi s h,
  let g := parse_geom im in
  FatProofs.bytes_ok im -> Vol32 g -> vol32_mount strict im = Ok (fi, s) -> mount_coherent g im ->
  let st0 := {| v_im := im; v_fi := fi; v_h := h; v_s := s |} in
  run_ok g st0 cs ->
  let stL := fst (v32_run g st0 cs) in
  StatInv g (v_im stL) (v_s stL) /\ mount_byte (v_s stL) = img_get im 65 /\
  img_get (v_im stL) 65 / 4 = img_get im 65 / 4 /\ N.odd (img_get (v_im stL) 65 / 2) = N.odd (img_get im 65 / 2) /\
  (forall a, reserved_area g a -> a <> 65 -> img_get (v_im stL) a = img_get im a) /\
  ((N.odd (img_get (v_im stL) 65) = true /\ sf_dirty (current (v_s stL)) = true) \/ (v_im stL = im /\ v_s stL = s)).
Proof. exact vol32_reachable. Qed.

(* UNMOUNT: byte 0x41 equals the mount-time byte EXACTLY, for every mount byte and history; nothing else changes outside the
   FS-info sector; the image is the image of the listed device writes (the sector first, then the status byte); no write at all
   when nothing was marked and the FS-info latch is clean *)
Theorem C12_vol32_unmount_restores : forall strict im cs fi s h,
  let g := parse_geom im in
  FatProofs.bytes_ok im -> Vol32 g -> vol32_mount strict im = Ok (fi, s) -> mount_coherent g im ->
  let st0 := {| v_im := im; v_fi := fi; v_h := h; v_s := s |} in
  run_ok g st0 cs ->
  let stL := fst (v32_run g st0 cs) in
  let im' := fst (fst (vol32_unmount g (v_im stL) (v_fi stL) (v_s stL))) in
  img_get im' 65 = img_get im 65 /\
  (forall a, a <> 65 -> ~ in_fsi g a -> img_get im' a = img_get (v_im stL) a) /\
  im' = apply_writes (v_im stL) (vol32_unmount_writes g (v_fi stL) (v_s stL)) /\
  (v_im stL = im -> v_s stL = s -> fi_dirty (v_fi stL) = false ->
     vol32_unmount_writes g (v_fi stL) (v_s stL) = [] /\ im' = im).
Proof. exact vol32_unmount_restores. Qed.

(* non-vacuity: the premises hold on the formatted 65579-cluster FAT32 volume with a six-call session (C05_vol32_example_hyps states
   them); status byte 1 after the first write, 0 after unmount (C05_vol32_example_result); mounted dirty (byte 1) it stays 1 *)
Example C12_vol32_example :
  FatProofs.bytes_ok ex32_im /\ Vol32 (parse_geom ex32_im) /\ mount_coherent (parse_geom ex32_im) ex32_im /\
  vol32_mount false ex32_d16 = Ok ({| fi_free := None; fi_next := Some 3; fi_dirty := false |}, st_mount 1).
Proof.
  split; [exact ex32_bytes|]. split; [exact ex32_vol32|]. split; [exact ex32_coherent|].
  destruct ex32_d16_witness as (_ & _ & _ & H & _). exact H.
Qed.

Print Assumptions C12_vol32_set_dirty_flag.
Print Assumptions C12_vol32_reachable.
Print Assumptions C12_vol32_unmount_restores.
