(* C12 - the dirty bit brackets structural changes; clean unmount restores it.
   Model: Model/Flags.v (status byte handling of fs.rs).  The link "every structural device write passes
   set_dirty_flag(true)" is checked on the implementation by the correspondence check (tools/props/c12.py). *)
From Coq Require Import NArith List.
From FatVerif Require Import Model.Base Model.Flags Spec.Image Spec.Abs Spec.Regions Proofs.FlagsProofs Proofs.RegionsProofs.
Import ListNotations.
Open Scope N_scope.

(* after a structural change the byte on the device has the dirty bit and the session knows it *)
Theorem C12_dirty_after_structural : forall s, st_inv s ->
  let s' := set_dirty_flag s true in
  sf_dirty (current s') = true /\ N.odd (disk_byte s') = true.
Proof. exact dirty_after_structural. Qed.

(* every state reachable from a mount satisfies the invariant used above *)
Theorem C12_reachable_inv : forall b evs, st_inv (fold_left st_step evs (st_mount b)).
Proof. exact run_inv. Qed.

(* a clean unmount restores the status byte to its mount-time value, for every byte value and history *)
Theorem C12_unmount_restores : forall b evs, b < 256 ->
  disk_byte (set_dirty_flag (fold_left st_step evs (st_mount b)) false) = b.
Proof. exact unmount_restores. Qed.

(* status bits already set at mount time are never cleared while mounted (bits 2-7 kept verbatim) *)
Theorem C12_mount_bits_kept : forall b evs, b < 256 ->
  let s := fold_left st_step evs (st_mount b) in
  disk_byte s / 4 = b / 4 /\ (N.odd b = true -> N.odd (disk_byte s) = true) /\
  (N.odd (b / 2) = true -> N.odd (disk_byte s / 2) = true).
Proof. exact mount_bits_kept. Qed.

(* the boundary check reads "the status byte" and "structural write" off the extracted classifier of Spec/Regions.v:
   a byte is classified as the status byte exactly when it is the byte at 0x25 (FAT12/16) / 0x41 (FAT32) *)
Theorem C12_classify_status_iff : forall g im m off, geom_sane g -> g_status_off g < g_reserved g * g_bps g ->
  g_reserved g * g_bps g <= g_volume_bytes g ->
  (classify g im m off = RStatus <-> off = g_status_off g).
Proof. exact classify_status_iff. Qed.

Print Assumptions C12_dirty_after_structural.
Print Assumptions C12_reachable_inv.
Print Assumptions C12_unmount_restores.
Print Assumptions C12_mount_bits_kept.
Print Assumptions C12_classify_status_iff.
