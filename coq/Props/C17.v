(* C17 - Directory decoding is total on arbitrary slot contents.
   Property theorems only: each is closed by [exact] of a lemma of Proofs/LfnProofs.v.
   Model: Model/Lfn.v ([read_dir] = DirIter over a list of raw 32-byte slots, both LfnBuffer variants).
   Spec:  Spec/LfnSpec.v ([lfn_spec]: the long name an entry should have, looking back from the short slot). *)
From Coq Require Import NArith List.
From FatVerif Require Import Model.Base Model.Str Model.Slot Model.Time Model.Lfn Spec.LfnSpec Proofs.LfnProofs.
Import ListNotations.
Open Scope N_scope.

(* read_dir_total: for EVERY list of slots (any length, any bytes), both buffer variants, any OEM decoder and
   both values of skip_volume the directory loop ends with a listing: no Panic (slice index), no OutOfFuel
   (the loop is structural in the slot list). *)
Theorem C17_read_dir_total : forall v oem skip_volume slots,
  exists l, read_dir v oem skip_volume slots = Ok l.
Proof. exact read_dir_total. Qed.

(* lfn_sound: the listing is exactly the specification's: same entries, and each entry's long name is
   [lfn_spec] of the slots before it - never a partial name, never units of an abandoned earlier run. *)
Theorem C17_lfn_sound : forall v oem skip_volume slots,
  read_dir v oem skip_volume slots = Ok (spec_dir oem skip_volume slots).
Proof. exact read_dir_sound. Qed.

(* the same by slot position, both directions: [e] is listed iff some slot that is not behind an end marker
   decodes to a live short entry (not deleted, not a skipped volume label) and [e] is the view of that slot
   with the long name [lfn_spec (slots before it, nearest first)] *)
Theorem C17_listed_iff : forall v oem skip_volume slots l,
  read_dir v oem skip_volume slots = Ok l ->
  forall e, In e l <->
    exists pre bs post se,
      slots = pre ++ bs :: post /\
      Forall (fun p => slot_is_end (slot_decode p) = false) pre /\
      slot_decode bs = SFile se /\ slot_is_end (SFile se) = false /\ is_entry skip_volume (SFile se) = true /\
      e = mk_view oem se (lfn_spec (rev (map slot_decode pre) ++ []) (se_name se))
            (32 * (len_N (rev (map slot_decode pre) ++ [])
                   - len_N (take_while is_live_lfn (rev (map slot_decode pre) ++ []))))
            (32 * (len_N (rev (map slot_decode pre) ++ []) + 1)).
Proof. exact read_dir_listed. Qed.

(* what [lfn_spec] means: there is a long name iff the slots directly before the short entry (nearest first:
   index 1, 2, ..., n) form a complete run - [run_ok]: none deleted, index k at distance k, 1 <= k <= 20, every
   checksum = checksum of the short name, the 0x40 flag exactly on the last (n-th) one - and then the name is
   the concatenation of the parts in index order cut at the first NUL, or nothing if that exceeds 255 units. *)
Theorem C17_lfn_spec_iff : forall back name us,
  lfn_spec back name = us <->
  (exists run older, back = map SLfn run ++ older /\ run_ok (lfn_checksum name) 1 run = true /\
                     us = cut_name (concat (map le_name run)))
  \/ ((forall run older, back = map SLfn run ++ older -> run_ok (lfn_checksum name) 1 run = false) /\ us = []).
Proof. exact lfn_spec_iff. Qed.

(* names returned never exceed 255 UTF-16 units *)
Theorem C17_lfn_len_le_255 : forall v oem skip_volume slots l,
  read_dir v oem skip_volume slots = Ok l -> Forall (fun e => len_N (ev_lfn e) <= 255) l.
Proof. exact lfn_len_le_255. Qed.

(* accessors_total: the accessors are total functions of the entry in the model; on slots of 32 arbitrary bytes
   every value they return lies in its machine range (month < 16, day < 32, hour < 32, min < 64, sec < 65,
   millis < 1000, year 1980..2107, attributes < 64, size < 2^32, short name <= 12 bytes, units < 2^16) *)
Theorem C17_accessors_total : forall v oem skip_volume slots l,
  Forall slot_ok slots -> read_dir v oem skip_volume slots = Ok l -> Forall view_in_range l.
Proof. exact accessors_total. Qed.

(* file_name() and short_file_name() are sequences of Unicode scalar values (valid Rust strings) whatever the
   units are (unpaired surrogates become U+FFFD), provided the OEM decoder returns chars *)
Theorem C17_file_names_valid : forall v oem skip_volume slots l,
  (forall b, b < 256 -> is_scalar (oem b) = true) ->
  Forall slot_ok slots -> read_dir v oem skip_volume slots = Ok l ->
  Forall (fun e => str_ok (ev_file_name e) /\ str_ok (ev_short_file_name e)) l.
Proof. exact file_names_valid. Qed.

(* ---- examples: the statements are about non-trivial inputs ------------------------------------- *)
Definition ex_name : list N := [70; 79; 79; 32; 32; 32; 32; 32; 84; 88; 84].     (* "FOO     TXT" *)
Definition ex_short : list N :=
  sfn_encode {| se_name := ex_name; se_attrs := 32; se_reserved_0 := 0; se_create_time_0 := 0; se_create_time_1 := 0;
                se_create_date := 65535; se_access_date := 0; se_first_cluster_hi := 0; se_modify_time := 65535;
                se_modify_date := 0; se_first_cluster_lo := 0; se_size := 7 |}.
Definition ex_lfn (order : N) (ch : N) : list N := lfn_encode (lfn_new order (lfn_checksum ex_name) (repeat_N ch 13)).

(* (D15) an orphan "last" slot with index 3 ('A's), then a complete 1-slot run ('b's): only the 'b's *)
Example C17_ex_orphan : forall v,
  match read_dir v oem_lossy true [ex_lfn 67 65; ex_lfn 65 98; ex_short] with
  | Ok [e] => ev_lfn e = repeat_N 98 13 /\ ev_begin e = 0 /\ ev_end e = 96
  | _ => False
  end.
Proof. intros v; destruct v; vm_compute; auto. Qed.

(* (D14) a complete run of 20 slots = 260 units without NUL: no long name, file_name() is the short name *)
Definition ex_run20 : list (list N) :=
  ex_lfn 84 97 :: map (fun i => ex_lfn (N.of_nat i) 97) (rev (seq 1 19)).
Example C17_ex_260_units : forall v,
  match read_dir v oem_lossy true (ex_run20 ++ [ex_short]) with
  | Ok [e] => ev_lfn e = [] /\ ev_file_name e = [70; 79; 79; 46; 84; 88; 84]
  | _ => False
  end.
Proof. intros v; destruct v; vm_compute; auto. Qed.

(* a broken run (wrong checksum in the middle) falls back to the short name; out-of-range stamps decode *)
Example C17_ex_broken : forall v,
  match read_dir v oem_lossy true
          [ex_lfn 67 97; lfn_encode (lfn_new 2 0 (repeat_N 98 13)); ex_lfn 1 99; ex_short] with
  | Ok [e] => ev_lfn e = [] /\ month (dt_date (ev_created e)) = 15 /\ hour (dt_time (ev_modified e)) = 31
  | _ => False
  end.
Proof. intros v; destruct v; vm_compute; auto. Qed.

Example C17_ex_slot_ok : Forall slot_ok [ex_lfn 67 65; ex_lfn 65 98; ex_short].
Proof. repeat (constructor; [split; [reflexivity|unfold bytes_ok; repeat (constructor; [reflexivity|]); constructor]|]). constructor. Qed.

Print Assumptions C17_read_dir_total.
Print Assumptions C17_lfn_sound.
Print Assumptions C17_listed_iff.
Print Assumptions C17_lfn_spec_iff.
Print Assumptions C17_lfn_len_le_255.
Print Assumptions C17_accessors_total.
Print Assumptions C17_file_names_valid.
