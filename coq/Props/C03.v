(* C03 - the on-disk structures stay consistent after every operation.
   The invariant itself is [Spec.Wf.wf_issues fold im = []] over the independent decoder [Spec.Abs.abs].
   Theorems proved so far concern the image layer the decoder reads through (frame of device writes). *)
From Coq Require Import NArith List.
From FatVerif Require Import Model.Base Spec.Image Proofs.ImageProofs.
Open Scope N_scope.

(* a device write changes exactly the bytes of its range: everything the decoder reads elsewhere is unchanged *)
Theorem C03_write_frame : forall bs im off o,
  (o < off \/ off + N.of_nat (length bs) <= o) -> img_get (img_write im off bs) o = img_get im o.
Proof. exact img_write_outside. Qed.

Theorem C03_write_effect : forall bs im off i,
  (i < length bs)%nat -> img_get (img_write im off bs) (off + N.of_nat i) = nth i bs 0.
Proof. exact img_write_inside. Qed.

Print Assumptions C03_write_frame.
Print Assumptions C03_write_effect.
