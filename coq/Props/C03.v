(* C03 - the on-disk structures stay consistent after every operation.
   The invariant itself is [Spec.Wf.wf_issues fold im = []] over the independent decoder [Spec.Abs.abs].
   This file: the image layer the decoder reads through (frame of device writes), and the directory SLOT clauses of the
   property - nothing follows the end-of-directory marker; every long-name run is complete, correctly ordered, padded and
   checksummed against its short entry; no duplicate short names - for the library's directory update code
   (Model/DirSlots.v) against the independent decoder Spec/Abs.dir_scan: [dir_scan ss 0 [] fat32 = (es, ls, [])] says
   the directory [ss] decodes to the entries [es] and labels [ls] with NO issue (DOrphanLfn / DAfterEnd).
   Property theorems only, each closed by [exact] of a lemma of Proofs/DirSlotsProofs.v. *)
From Coq Require Import NArith List Bool.
From FatVerif Require Import Model.Base Model.Str Model.Slot Model.Time Model.Name Model.ShortName Model.DirSlots
  Spec.Image Spec.Abs Proofs.ImageProofs Proofs.DirSlotsProofs.
From FatVerif Require Model.Lfn Proofs.TimeProofs.
Import ListNotations.
Open Scope N_scope.

(* a device write changes exactly the bytes of its range: everything the decoder reads elsewhere is unchanged *)
Theorem C03_write_frame : forall bs im off o,
  (o < off \/ off + N.of_nat (length bs) <= o) -> img_get (img_write im off bs) o = img_get im o.
Proof. exact img_write_outside. Qed.

Theorem C03_write_effect : forall bs im off i,
  (i < length bs)%nat -> img_get (img_write im off bs) (off + N.of_nat i) = nth i bs 0.
Proof. exact img_write_inside. Qed.

(* ---- the library's long-name WRITER against the specification's READER: the slots LfnEntriesGenerator emits for an
   accepted name, followed by the serialised short entry, are a valid run for Abs.run_valid (count 1..20, 0x40 on the first
   stored slot, orders n..1, checksum of the short name in every slot, NUL + 0xFFFF padding, 1..255 units) and decode to
   exactly the UTF-16 form of the name.  (Abs keeps pending long-name slots newest-first, hence [rev].) *)
Theorem C03_written_run_valid : forall n e idx fat32,
  validate_long_name n = Ok tt -> is_dot_name n = false -> sfn_fields_ok e ->
  let lfn_slots := map lfn_encode (lfn_entries (utf16_encode n) (lfn_checksum (se_name e))) in
  let en := mk_entry (rev lfn_slots) (sfn_encode e) idx fat32 in
  run_valid (rev lfn_slots) (se_name e) = true /\ e_lfn en = utf16_encode n /\ e_lfn_ok en = true /\
  e_sfn en = se_name e /\ e_first_slot en = idx - len_N lfn_slots /\ e_sfn_slot en = idx.
Proof. exact written_run_valid. Qed.
(* a 15-unit name: 2 slots, orders 0x42, 0x01; a 13-unit name ending in U+FFFF: 1 slot without terminator *)
Example C03_written_run_valid_ex :
  validate_long_name ex_name1 = Ok tt /\ is_dot_name ex_name1 = false /\ sfn_fields_ok (ex_sfn ex_alias1) /\
  map (fun s => byte_at s 0) (map lfn_encode (lfn_entries (utf16_encode ex_name1) (lfn_checksum ex_alias1))) = [66; 1] /\
  (let n := repeat_N 120 12 ++ [65535] in
   validate_long_name n = Ok tt /\
   run_valid (rev (map lfn_encode (lfn_entries (utf16_encode n) (lfn_checksum ex_alias1)))) ex_alias1 = true) /\
  run_valid (rev (map lfn_encode (lfn_entries (utf16_encode ex_name1) 0))) ex_alias1 = false.
Proof.
  split; [reflexivity|]. split; [reflexivity|]. split; [constructor; vm_compute; reflexivity|]. vm_compute. repeat split.
Qed.

(* ---- the decoder's RESTART rule (Spec/Abs.dir_scan: a long-name slot carrying 0x40 starts a run, as in every reader of the
   format).  An orphan partial run [orph] (live long-name slots, 0x40 at most on the first: what a write_entry that ran out
   of space leaves at the end of a directory cluster) directly followed by the complete run [run] of the short slot [s]
   (what the next successful write_entry appends): the entry of [s] is decoded from its own run - with its long name,
   e_first_slot at the first slot of [run] - and [orph] is reported exactly once, at the index where [run] starts.
   [pre] is a prefix that decodes without issue, [post] the rest of the directory. *)
Theorem C03_scan_orphan_then_entry : forall fat32 pre orph run s post es1 ls1 es2 ls2 iss2,
  Forall nonend pre -> dir_scan pre 0 [] fat32 = (es1, ls1, []) ->
  orph <> [] -> Forall lfn_like orph -> Forall nostart (tl orph) ->
  run <> [] -> Forall lfn_like run -> short_live s -> run_valid (rev run) (firstn 11 s) = true ->
  dir_scan post (len_N pre + len_N orph + len_N run + 1) [] fat32 = (es2, ls2, iss2) ->
  let e := mk_entry (rev run) s (len_N pre + len_N orph + len_N run) fat32 in
  dir_scan (pre ++ orph ++ run ++ s :: post) 0 [] fat32 =
    (es1 ++ e :: es2, ls1 ++ ls2, DOrphanLfn (len_N pre + len_N orph) :: iss2) /\
  e_lfn_ok e = true /\ e_lfn e = cut_nul (flat_map lfn_units (rev run)) /\
  e_first_slot e = len_N pre + len_N orph /\ e_sfn_slot e = len_N pre + len_N orph + len_N run.
Proof. exact scan_orphan_then_entry. Qed.
(* "hello world.txt" (slots 0-2), the first slot (0x42) of the run of a 14-character name, the run (0x41) and the short slot
   of "b", the end marker: "b" has its long name, the orphan slot 3 is reported at slot 4; the hypotheses hold.  Without
   the restart (0x42 and 0x41 taken as one run) "b" would lose its long name. *)
Example C03_scan_orphan_then_entry_ex :
  map (fun s => byte_at s 0) ex_dir_restart = [66; 1; 72; 66; 65; 66; 0] /\
  Forall nonend (firstn 3 ex_dir1) /\ snd (dir_scan (firstn 3 ex_dir1) 0 [] false) = [] /\
  Forall lfn_like ex_orph /\ Forall nostart (tl ex_orph) /\ Forall lfn_like ex_run_b /\ short_live ex_live /\
  run_valid (rev ex_run_b) (firstn 11 ex_live) = true /\ run_valid (rev (ex_orph ++ ex_run_b)) (firstn 11 ex_live) = false /\
  map e_lfn (fst (fst (dir_scan ex_dir_restart 0 [] false))) = [ex_name1; [98]] /\
  map e_lfn_ok (fst (fst (dir_scan ex_dir_restart 0 [] false))) = [true; true] /\
  map e_first_slot (fst (fst (dir_scan ex_dir_restart 0 [] false))) = [0; 4] /\
  snd (dir_scan ex_dir_restart 0 [] false) = [DOrphanLfn 4].
Proof.
  split; [vm_compute; reflexivity|]. split; [repeat constructor; vm_compute; discriminate|]. split; [vm_compute; reflexivity|].
  split; [repeat constructor; vm_compute; try reflexivity; discriminate|]. split; [constructor|].
  split; [repeat constructor; vm_compute; try reflexivity; discriminate|].
  split; [repeat split; vm_compute; try reflexivity; discriminate|].
  vm_compute. repeat split.
Qed.

(* ---- write_entry refines "insert one entry" (the long-name run is omitted for "." and "..").  If the directory decodes
   without issue, then after a successful write_entry it decodes to the same entries plus exactly one new entry, which sits
   at the position of the reused run (NOT necessarily last); the new entry carries the given name, alias, attributes,
   times, cluster and size; slots outside [p, q) are untouched and the slots inside were free. *)
Theorem C03_write_entry_refines : forall k free fat32 ss n e es ls p q ss',
  dir_scan ss 0 [] fat32 = (es, ls, []) -> len_N ss < 134217728 -> sfn_live e ->
  write_entry k free ss n e = (Ok (p, q), ss') ->
  exists es1 es2 ne,
    es = es1 ++ es2 /\ dir_scan ss' 0 [] fat32 = (es1 ++ ne :: es2, ls, []) /\
    e_lfn ne = (if is_dot_name n then [] else utf16_encode n) /\ e_lfn_ok ne = true /\
    e_sfn ne = se_name e /\ e_attr ne = se_attrs e /\ e_ntres ne = se_reserved_0 e /\
    e_ctime_ms ne = se_create_time_0 e /\ e_ctime ne = se_create_time_1 e /\ e_cdate ne = se_create_date e /\
    e_adate ne = se_access_date e /\ e_mtime ne = se_modify_time e /\ e_mdate ne = se_modify_date e /\
    e_cluster ne = (if fat32 then se_first_cluster_hi e * 65536 else 0) + se_first_cluster_lo e /\
    e_size ne = se_size e /\ e_first_slot ne = p /\ e_sfn_slot ne + 1 = q /\
    q = p + len_N (entry_run n e) /\
    (forall i, (i < length ss)%nat -> (N.of_nat i < p \/ q <= N.of_nat i) -> nth_error ss' i = nth_error ss i) /\
    (forall i s, p <= N.of_nat i < q -> nth_error ss i = Some s -> free_slot s) /\
    (length ss <= length ss')%nat /\ (k = FixedRoot -> length ss' = length ss).
Proof. exact write_entry_refines. Qed.
(* appended at the end marker; then, after the first entry is removed, a 2-slot entry goes INTO the freed run: it is
   decoded first although it was created last; a chain-backed directory grows by one zeroed cluster *)
Example C03_write_entry_refines_ex :
  dir_scan ex_dir1 0 [] false = ([mk_entry (rev (firstn 2 ex_dir1)) (nth 2 ex_dir1 []) 2 false], [], []) /\
  sfn_live (ex_sfn ex_alias2) /\
  fst (write_entry FixedRoot 0 ex_dir1 [98] (ex_sfn ex_alias2)) = Ok (3, 5) /\
  map e_sfn (fst (fst (dir_scan ex_dir2 0 [] false))) = [ex_alias1; ex_alias2] /\
  map e_lfn (fst (fst (dir_scan ex_dir2 0 [] false))) = [ex_name1; [98]] /\ snd (dir_scan ex_dir2 0 [] false) = [] /\
  (let d := mark_deleted ex_dir2 0 3 in
   let r := write_entry FixedRoot 0 d [99] (ex_sfn [67; 32; 32; 32; 32; 32; 32; 32; 32; 32; 32]) in
   fst r = Ok (0, 2) /\ map e_lfn (fst (fst (dir_scan (snd r) 0 [] false))) = [[99]; [98]] /\ snd (dir_scan (snd r) 0 [] false) = []) /\
  (let r := write_entry (Chained 16) 1 (firstn 5 ex_dir2) [99] (ex_sfn [67; 32; 32; 32; 32; 32; 32; 32; 32; 32; 32]) in
   fst r = Ok (5, 7) /\ length (snd r) = 21%nat /\ snd (dir_scan (snd r) 0 [] false) = []).
Proof.
  split; [vm_compute; reflexivity|]. split.
  { constructor; [constructor; vm_compute; reflexivity| | |]; vm_compute; try reflexivity; discriminate. }
  vm_compute. repeat split.
Qed.

(* ---- the deletion loop of remove / rename_internal refines "remove one entry": marking the slots of a decoded entry
   deleted removes exactly that entry and creates no issue; all other slots are untouched, the marked slots change as
   [mark_deleted_slot] says (first byte 0xE5; the codec round trip also clears bits 6-7 of the attribute byte). *)
Theorem C03_mark_deleted_refines : forall fat32 ss es ls e,
  dir_scan ss 0 [] fat32 = (es, ls, []) -> In e es ->
  let ss' := mark_deleted ss (e_first_slot e) (e_sfn_slot e + 1) in
  exists es1 es2,
    es = es1 ++ e :: es2 /\ dir_scan ss' 0 [] fat32 = (es1 ++ es2, ls, []) /\
    length ss' = length ss /\
    (forall i, (N.of_nat i < e_first_slot e \/ e_sfn_slot e < N.of_nat i) -> nth_error ss' i = nth_error ss i) /\
    (forall i s, e_first_slot e <= N.of_nat i <= e_sfn_slot e -> nth_error ss i = Some s ->
                 nth_error ss' i = Some (mark_deleted_slot s)).
Proof. exact mark_deleted_refines. Qed.
Example C03_mark_deleted_refines_ex :
  let e := nth 0 (fst (fst (dir_scan ex_dir2 0 [] false))) (mk_entry [] [] 0 false) in
  e_first_slot e = 0 /\ e_sfn_slot e = 2 /\
  map e_lfn (fst (fst (dir_scan (mark_deleted ex_dir2 0 3) 0 [] false))) = [[98]] /\
  snd (dir_scan (mark_deleted ex_dir2 0 3) 0 [] false) = [] /\
  map (fun s => byte_at s 0) (mark_deleted ex_dir2 0 3) = [229; 229; 229; 65; 66; 0; 0; 0].
Proof. vm_compute. repeat split. Qed.

(* ---- rename with the code's order (since d9f4de8: write the new entry, THEN delete the source slots): the decoding loses
   exactly the source entry and gains exactly the new one; the new entry never overlaps the slots of the source (they are
   still in use when it is written), and slots outside both entries are untouched *)
Theorem C03_rename_slots_refines : forall k free fat32 ss n se es ls e p q ss1,
  dir_scan ss 0 [] fat32 = (es, ls, []) -> len_N ss < 134217728 -> In e es -> sfn_live se ->
  write_entry k free ss n se = (Ok (p, q), ss1) ->
  let ss' := mark_deleted ss1 (e_first_slot e) (e_sfn_slot e + 1) in
  exists a b c d ne,
    es = a ++ e :: b /\ a ++ b = c ++ d /\ dir_scan ss' 0 [] fat32 = (c ++ ne :: d, ls, []) /\
    e_lfn ne = (if is_dot_name n then [] else utf16_encode n) /\ e_lfn_ok ne = true /\ e_sfn ne = se_name se /\
    e_attr ne = se_attrs se /\ e_size ne = se_size se /\
    e_cluster ne = (if fat32 then se_first_cluster_hi se * 65536 else 0) + se_first_cluster_lo se /\
    e_first_slot ne = p /\ e_sfn_slot ne + 1 = q /\
    (q <= e_first_slot e \/ e_sfn_slot e < p) /\
    (forall i, (i < length ss)%nat -> (N.of_nat i < p \/ q <= N.of_nat i) ->
               (N.of_nat i < e_first_slot e \/ e_sfn_slot e < N.of_nat i) -> nth_error ss' i = nth_error ss i).
Proof. exact rename_slots_refines. Qed.
(* the new short name may be the SOURCE'S OWN: a rename that only changes the spelling of the name (other case, or the
   entry's alias) keeps the raw short name (src/dir.rs after 46d26a5, D22); between the write and the deletion the
   directory holds two entries with that short name.  "b" (slots 3-4 of ex_dir2, alias B) rewritten as "B" with the same
   alias: the new entry goes to the free slots 5-6, then slots 3-4 are deleted - this is what the library's rename_in_dir
   does for "b" -> "B" *)
Example C03_rename_slots_refines_ex :
  let e := nth 1 (fst (fst (dir_scan ex_dir2 0 [] false))) (mk_entry [] [] 0 false) in
  In e (fst (fst (dir_scan ex_dir2 0 [] false))) /\
  e_first_slot e = 3 /\ e_sfn_slot e = 4 /\ e_sfn e = ex_alias2 /\ e_lfn e = [98] /\
  let w := write_entry FixedRoot 0 ex_dir2 [66] (ex_sfn ex_alias2) in
  fst w = Ok (5, 7) /\
  map e_sfn (fst (fst (dir_scan (snd w) 0 [] false))) = [ex_alias1; ex_alias2; ex_alias2] /\
  let ss' := mark_deleted (snd w) (e_first_slot e) (e_sfn_slot e + 1) in
  map e_lfn (fst (fst (dir_scan ss' 0 [] false))) = [ex_name1; [66]] /\
  map e_sfn (fst (fst (dir_scan ss' 0 [] false))) = [ex_alias1; ex_alias2] /\
  snd (dir_scan ss' 0 [] false) = [] /\
  map (fun s => byte_at s 0) ss' = [66; 1; 72; 229; 229; 65; 66; 0] /\
  rename_in_dir upper_ascii oem_decode_lossy FixedRoot 0 ex_dir2 [98] [66] = (Ok tt, ss').
Proof. cbn zeta. split; [right; left; reflexivity|]. vm_compute. repeat split. Qed.

(* ---- the slot clauses alone ([slots_wf fat32 ss] = the decoder reports no issue for ss): preserved by every successful
   write_entry (whatever the name, wherever the run goes, also when the directory grows) and by deleting any decoded entry;
   volume labels are untouched.  A write that fails in a FIXED root changes nothing (C01_failed_write_fixed_root_unchanged in
   Props/C01.v; D5/D20 fixed by 13fd5fe, d9f4de8); one that fails because a CHAIN cannot grow keeps all entries but may leave
   an orphan run at the end (finding "nospace during entry write": C01_failed_write_unchanged_chain_refuted). *)
Theorem C03_slot_clauses_preserved :
  (forall k free fat32 ss n e range ss',
     slots_wf fat32 ss -> len_N ss < 134217728 -> sfn_live e ->
     write_entry k free ss n e = (Ok range, ss') ->
     slots_wf fat32 ss' /\ snd (fst (dir_scan ss' 0 [] fat32)) = snd (fst (dir_scan ss 0 [] fat32))) /\
  (forall fat32 ss e,
     slots_wf fat32 ss -> In e (fst (fst (dir_scan ss 0 [] fat32))) ->
     slots_wf fat32 (mark_deleted ss (e_first_slot e) (e_sfn_slot e + 1)) /\
     snd (fst (dir_scan (mark_deleted ss (e_first_slot e) (e_sfn_slot e + 1)) 0 [] fat32)) = snd (fst (dir_scan ss 0 [] fat32))).
Proof. exact slot_clauses_preserved. Qed.
Example C03_keeps_wf_ex :
  slots_wf false ex_dir2 /\ slots_wf false (mark_deleted ex_dir2 0 3) /\
  ~ slots_wf false (mark_deleted ex_dir2 2 3) /\ ~ slots_wf false (zero_slot :: ex_dir2).
Proof. split; [reflexivity|]. split; [reflexivity|]. split; vm_compute; discriminate. Qed.


(* ================================================================== whole images (Model/VolDir.v, Proofs/VolDirProofs.v): the
   slot clauses above lifted to the invariant itself, [Wf.wf_issues fold im = []], for operations on the FIXED ROOT directory
   of a FAT12/16 volume.  [fixed_root_geom]: Props/C01.v (C01_vol_formatted_geom: what format_volume produces). *)
From FatVerif Require Import Model.VolDir Proofs.VolDirProofs.

(* ---- the bridge from slots to images: replace the root region of an image by ANY slots [ss] of the right shape.  The
   decoder reads the same geometry, and the decoded volume is: root entries = the scan of [ss], each entry decoded (chain,
   content, sub-directory) against the bytes of the OLD image - the FAT and the data area are not in the root region -,
   issues and labels of the scan of [ss], status byte as before. *)
Theorem C03_vol_decode_put_root : forall im ss es ls iss,
  fixed_root_geom (parse_geom im) ->
  length ss = N.to_nat (g_root_entries (parse_geom im)) -> Forall (fun s => length s = 32%nat) ss ->
  dir_scan ss 0 [] false = (es, ls, iss) ->
  parse_geom (put_root_slots (parse_geom im) im ss) = parse_geom im /\
  abs (put_root_slots (parse_geom im) im ss) =
    {| v_geom := parse_geom im; v_root_chain := None; v_root := decode_entries (parse_geom im) im MAX_DEPTH es;
       v_root_issues := iss; v_labels := ls; v_status := img_get im (g_status_off (parse_geom im));
       v_fsinfo_free := 0; v_fsinfo_next := 0 |}.
Proof. intros im ss es ls iss Hg H1 H2. exact (abs_put_root im ss es ls iss Hg (conj H1 H2)). Qed.
(* ... and an image is decoded from its own root region in the same way *)
Theorem C03_vol_decode_fixed_root : forall im es ls iss,
  g_bits (parse_geom im) <> 32 -> dir_scan (root_region_slots (parse_geom im) im) 0 [] false = (es, ls, iss) ->
  abs im =
    {| v_geom := parse_geom im; v_root_chain := None; v_root := decode_entries (parse_geom im) im MAX_DEPTH es;
       v_root_issues := iss; v_labels := ls; v_status := img_get im (g_status_off (parse_geom im));
       v_fsinfo_free := 0; v_fsinfo_next := 0 |}.
Proof. exact abs_fixed_root. Qed.

(* ---- create_file in the root of a well-formed volume leaves it well formed: no clause of Spec/Wf.v is violated afterwards
   (end marker, long-name runs, duplicate short names, chains, cross links, lost clusters, sizes, dot entries, depth),
   provided the new long name does not collide with an existing one under the folding [fold] the WDupLong clause is
   evaluated with (that the library's own matching implies this for its folding is the missing "WDupLong link") *)
Theorem C03_vol_create_keeps_wf : forall fold upper oem im name now range im',
  fixed_root_geom (parse_geom im) -> Wf.wf_issues fold im = [] -> TimeProofs.datetime_valid now = true ->
  vol_create_empty_file_root upper oem im name now = (Ok (Some range), im') ->
  (is_dot_name name = false ->
   ~ In (fold (utf16_encode name))
        (map fold (filter (fun l => negb (match l with [] => true | _ => false end))
                          (map e_lfn (map node_entry (v_root (abs im))))))) ->
  Wf.wf_issues fold im' = [].
Proof. exact vol_create_keeps_wf. Qed.
(* ... hence any sequence of creates that each made a new entry, with pairwise distinct folded names none of which is in
   use, keeps every intermediate and the final volume well formed *)
Theorem C03_vol_create_many_keeps_wf : forall fold upper oem reqs im im',
  fixed_root_geom (parse_geom im) -> Wf.wf_issues fold im = [] ->
  Forall (fun q => TimeProofs.datetime_valid (snd q) = true) reqs ->
  Forall (fun q => is_dot_name (fst q) = false) reqs ->
  NoDup (map (fun q => fold (utf16_encode (fst q))) reqs) ->
  (forall q, In q reqs ->
     ~ In (fold (utf16_encode (fst q)))
          (map fold (filter (fun l => negb (match l with [] => true | _ => false end))
                            (map e_lfn (map node_entry (v_root (abs im))))))) ->
  vol_create_many upper oem im reqs = Some im' -> Wf.wf_issues fold im' = [].
Proof. exact vol_create_many_keeps_wf. Qed.

(* ================================================================================================================
   The recorded known-finding class "deferred-entry-writeback" as a theorem (Model/VolSession.v, Proofs/VolSessionFormat.v):
   File::write allocates clusters and writes FAT entries and data at once, but the size and first-cluster fields of the
   directory entry only reach the device with File::flush / drop.  In between the device is NOT well formed. *)
From FatVerif Require Import Model.Table Model.Fat Model.FileM Model.VolFile Model.VolSession Model.Format Spec.FormatSpec
  Model.FormatImage Spec.FormatImageSpec Spec.ByteFile Proofs.TableProofs Proofs.FileProofs Proofs.FormatProofs Proofs.FormatImageProofs
  Proofs.VolDirFormat Proofs.VolFileProofs Proofs.VolSessionProofs Proofs.VolSessionFormat Proofs.VolSessionExamples.
From FatVerif Require Spec.Wf Proofs.FatProofs.

(* format ; create_file(name) ; ANY calls on the handle ; NO flush yet: the handle knows size = length of the byte array and
   a chain of ceil(size / cluster size) clusters; the decoder sees the entry as created - size 0, no first cluster - and the
   well-formedness findings are EXACTLY the clusters of that chain, each reported LOST.  Non-empty content => not well
   formed.  (Flush repairs it: C04_session_format_decodes.) *)
Theorem C03_session_deferred_writeback : forall fold upper oem acc o ts im0 bs t im fi name now ops range im1,
  builder_range o -> ts < 4294967296 -> FatProofs.bytes_ok im0 ->
  format_boot_sector_validated o ts = Ok (bs, t) -> t <> Format.Fat32 ->
  (o_max_root_dir_entries o * 32) mod o_bytes_per_sector o = 0 ->
  format_image o ts im0 = Ok im ->
  let g := geom_of (fbs_bpb bs) in
  fi_inv fstore (VolFileProofs.val_ft (ft_of g)) (store_of g im) fi (g_clusters g) ->
  TimeProofs.datetime_valid now = true -> Forall op_ok (map fst ops) -> clocks_ok ops ->
  vol_create_empty_file_root upper oem im name now = (Ok (Some range), im1) ->
  exists st1 st2 rs content pos ne l,
    sess_create upper oem im fi name now = Some st1 /\ sess_run g acc st1 ops = (st2, rs) /\
    bf_run ([], 0) (map fst ops) rs = Some (content, pos) /\
    h_size (s_h st2) = Some (len_N content) /\ N.of_nat (length l) = cdiv (g_cluster_size g) (len_N content) /\
    v_root (abs (s_im st2)) = [NFile ne None []] /\
    e_lfn ne = stored_lfn name /\ e_size ne = 0 /\ e_cluster ne = 0 /\
    (forall i, In i (Wf.wf_issues fold (s_im st2)) <-> exists c, i = Wf.WLost c /\ In c l) /\
    (content <> [] -> Wf.wf_issues fold (s_im st2) <> []).
Proof. exact format_session_unflushed. Qed.

(* the witness on the 64-sector FAT12 image of Props/C06.v: "a.txt", 515 bytes written, handle still open *)
Example C03_session_deferred_writeback_witness :
  match sess_create ex_U ex_O ex_vol_im ex_sfi ex_sname ex_vol_now with
  | Some st1 =>
    let '(st2, rs) := sess_run (parse_geom ex_vol_im) false st1 ex_sops in
    h_size (s_h st2) = Some 515 /\ h_first (s_h st2) = Some 2 /\ sess_dirty (s_h st2) (s_en st2) = true /\
    (exists e, v_root (abs (s_im st2)) = [NFile e None []] /\ e_lfn e = ex_sname /\ e_size e = 0 /\ e_cluster e = 0) /\
    Wf.wf_issues (fun l => l) (s_im st2) = [Wf.WLost 2; Wf.WLost 3] /\
    Abs.count_free (parse_geom ex_vol_im) (s_im st2) = 58
  | None => False
  end.
Proof. exact ex_session_unflushed. Qed.


Print Assumptions C03_write_frame.
Print Assumptions C03_write_effect.
Print Assumptions C03_written_run_valid.
Print Assumptions C03_scan_orphan_then_entry.
Print Assumptions C03_write_entry_refines.
Print Assumptions C03_mark_deleted_refines.
Print Assumptions C03_rename_slots_refines.
Print Assumptions C03_slot_clauses_preserved.
Print Assumptions C03_vol_decode_put_root.
Print Assumptions C03_vol_decode_fixed_root.
Print Assumptions C03_vol_create_keeps_wf.
Print Assumptions C03_vol_create_many_keeps_wf.
Print Assumptions C03_session_deferred_writeback.
