(* C03 - the on-disk structures stay consistent after every operation.
   The invariant itself is [Spec.Wf.wf_issues fold im = []] over the independent decoder [Spec.Abs.abs].
   This file: the image layer the decoder reads through (frame of device writes), and the directory SLOT clauses of the
   property - nothing follows the end-of-directory marker; every long-name run is complete, correctly ordered, padded and
   checksummed against its short entry; no duplicate short names - for the library's directory update code
   (Model/DirSlots.v) against the independent decoder Spec/Abs.dir_scan: [dir_scan ss 0 [] fat32 = (es, ls, [])] says
   the directory [ss] decodes to the entries [es] and labels [ls] with NO issue (DOrphanLfn / DAfterEnd).
   Property theorems only, each closed by [exact] of a lemma of Proofs/DirSlotsProofs.v. *)
From Coq Require Import NArith List Bool.
From FatVerif Require Import Model.Base Model.Str Model.Slot Model.Time Model.Name Model.ShortName Model.DirSlots
  Spec.Image Spec.Abs Proofs.ImageProofs Proofs.DirSlotsProofs.
From FatVerif Require Model.Lfn Proofs.TimeProofs.
Import ListNotations.
Open Scope N_scope.

(* a device write changes exactly the bytes of its range: everything the decoder reads elsewhere is unchanged *)
Theorem C03_write_frame : forall bs im off o,
  (o < off \/ off + N.of_nat (length bs) <= o) -> img_get (img_write im off bs) o = img_get im o.
Proof. exact img_write_outside. Qed.

Theorem C03_write_effect : forall bs im off i,
  (i < length bs)%nat -> img_get (img_write im off bs) (off + N.of_nat i) = nth i bs 0.
Proof. exact img_write_inside. Qed.

(* ---- the library's long-name WRITER against the specification's READER: the slots LfnEntriesGenerator emits for an
   accepted name, followed by the serialised short entry, are a valid run for Abs.run_valid (count 1..20, 0x40 on the first
   stored slot, orders n..1, checksum of the short name in every slot, NUL + 0xFFFF padding, 1..255 units) and decode to
   exactly the UTF-16 form of the name.  (Abs keeps pending long-name slots newest-first, hence [rev].) *)
Theorem C03_written_run_valid : forall n e idx fat32,
  validate_long_name n = Ok tt -> is_dot_name n = false -> sfn_fields_ok e ->
  let lfn_slots := map lfn_encode (lfn_entries (utf16_encode n) (lfn_checksum (se_name e))) in
  let en := mk_entry (rev lfn_slots) (sfn_encode e) idx fat32 in
  run_valid (rev lfn_slots) (se_name e) = true /\ e_lfn en = utf16_encode n /\ e_lfn_ok en = true /\
  e_sfn en = se_name e /\ e_first_slot en = idx - len_N lfn_slots /\ e_sfn_slot en = idx.
Proof. exact written_run_valid. Qed.
(* a 15-unit name: 2 slots, orders 0x42, 0x01; a 13-unit name ending in U+FFFF: 1 slot without terminator *)
Example C03_written_run_valid_ex :
  validate_long_name ex_name1 = Ok tt /\ is_dot_name ex_name1 = false /\ sfn_fields_ok (ex_sfn ex_alias1) /\
  map (fun s => byte_at s 0) (map lfn_encode (lfn_entries (utf16_encode ex_name1) (lfn_checksum ex_alias1))) = [66; 1] /\
  (let n := repeat_N 120 12 ++ [65535] in
   validate_long_name n = Ok tt /\
   run_valid (rev (map lfn_encode (lfn_entries (utf16_encode n) (lfn_checksum ex_alias1)))) ex_alias1 = true) /\
  run_valid (rev (map lfn_encode (lfn_entries (utf16_encode ex_name1) 0))) ex_alias1 = false.
Proof.
  split; [reflexivity|]. split; [reflexivity|]. split; [constructor; vm_compute; reflexivity|]. vm_compute. repeat split.
Qed.

(* ---- the decoder's RESTART rule (Spec/Abs.dir_scan: a long-name slot carrying 0x40 starts a run, as in every reader of the
   format).  An orphan partial run [orph] (live long-name slots, 0x40 at most on the first: what a write_entry that ran out
   of space leaves at the end of a directory cluster) directly followed by the complete run [run] of the short slot [s]
   (what the next successful write_entry appends): the entry of [s] is decoded from its own run - with its long name,
   e_first_slot at the first slot of [run] - and [orph] is reported exactly once, at the index where [run] starts.
   [pre] is a prefix that decodes without issue, [post] the rest of the directory. *)
Theorem C03_scan_orphan_then_entry : forall fat32 pre orph run s post es1 ls1 es2 ls2 iss2,
  Forall nonend pre -> dir_scan pre 0 [] fat32 = (es1, ls1, []) ->
  orph <> [] -> Forall lfn_like orph -> Forall nostart (tl orph) ->
  run <> [] -> Forall lfn_like run -> short_live s -> run_valid (rev run) (firstn 11 s) = true ->
  dir_scan post (len_N pre + len_N orph + len_N run + 1) [] fat32 = (es2, ls2, iss2) ->
  let e := mk_entry (rev run) s (len_N pre + len_N orph + len_N run) fat32 in
  dir_scan (pre ++ orph ++ run ++ s :: post) 0 [] fat32 =
    (es1 ++ e :: es2, ls1 ++ ls2, DOrphanLfn (len_N pre + len_N orph) :: iss2) /\
  e_lfn_ok e = true /\ e_lfn e = cut_nul (flat_map lfn_units (rev run)) /\
  e_first_slot e = len_N pre + len_N orph /\ e_sfn_slot e = len_N pre + len_N orph + len_N run.
Proof. exact scan_orphan_then_entry. Qed.
(* "hello world.txt" (slots 0-2), the first slot (0x42) of the run of a 14-character name, the run (0x41) and the short slot
   of "b", the end marker: "b" has its long name, the orphan slot 3 is reported at slot 4; the hypotheses hold.  Without
   the restart (0x42 and 0x41 taken as one run) "b" would lose its long name. *)
Example C03_scan_orphan_then_entry_ex :
  map (fun s => byte_at s 0) ex_dir_restart = [66; 1; 72; 66; 65; 66; 0] /\
  Forall nonend (firstn 3 ex_dir1) /\ snd (dir_scan (firstn 3 ex_dir1) 0 [] false) = [] /\
  Forall lfn_like ex_orph /\ Forall nostart (tl ex_orph) /\ Forall lfn_like ex_run_b /\ short_live ex_live /\
  run_valid (rev ex_run_b) (firstn 11 ex_live) = true /\ run_valid (rev (ex_orph ++ ex_run_b)) (firstn 11 ex_live) = false /\
  map e_lfn (fst (fst (dir_scan ex_dir_restart 0 [] false))) = [ex_name1; [98]] /\
  map e_lfn_ok (fst (fst (dir_scan ex_dir_restart 0 [] false))) = [true; true] /\
  map e_first_slot (fst (fst (dir_scan ex_dir_restart 0 [] false))) = [0; 4] /\
  snd (dir_scan ex_dir_restart 0 [] false) = [DOrphanLfn 4].
Proof.
  split; [vm_compute; reflexivity|]. split; [repeat constructor; vm_compute; discriminate|]. split; [vm_compute; reflexivity|].
  split; [repeat constructor; vm_compute; try reflexivity; discriminate|]. split; [constructor|].
  split; [repeat constructor; vm_compute; try reflexivity; discriminate|].
  split; [repeat split; vm_compute; try reflexivity; discriminate|].
  vm_compute. repeat split.
Qed.

(* ---- write_entry refines "insert one entry" (the long-name run is omitted for "." and "..").  If the directory decodes
   without issue, then after a successful write_entry it decodes to the same entries plus exactly one new entry, which sits
   at the position of the reused run (NOT necessarily last); the new entry carries the given name, alias, attributes,
   times, cluster and size; slots outside [p, q) are untouched and the slots inside were free. *)
Theorem C03_write_entry_refines : forall k free fat32 ss n e es ls p q ss',
  dir_scan ss 0 [] fat32 = (es, ls, []) -> len_N ss < 134217728 -> sfn_live e ->
  write_entry k free ss n e = (Ok (p, q), ss') ->
  exists es1 es2 ne,
    es = es1 ++ es2 /\ dir_scan ss' 0 [] fat32 = (es1 ++ ne :: es2, ls, []) /\
    e_lfn ne = (if is_dot_name n then [] else utf16_encode n) /\ e_lfn_ok ne = true /\
    e_sfn ne = se_name e /\ e_attr ne = se_attrs e /\ e_ntres ne = se_reserved_0 e /\
    e_ctime_ms ne = se_create_time_0 e /\ e_ctime ne = se_create_time_1 e /\ e_cdate ne = se_create_date e /\
    e_adate ne = se_access_date e /\ e_mtime ne = se_modify_time e /\ e_mdate ne = se_modify_date e /\
    e_cluster ne = (if fat32 then se_first_cluster_hi e * 65536 else 0) + se_first_cluster_lo e /\
    e_size ne = se_size e /\ e_first_slot ne = p /\ e_sfn_slot ne + 1 = q /\
    q = p + len_N (entry_run n e) /\
    (forall i, (i < length ss)%nat -> (N.of_nat i < p \/ q <= N.of_nat i) -> nth_error ss' i = nth_error ss i) /\
    (forall i s, p <= N.of_nat i < q -> nth_error ss i = Some s -> free_slot s) /\
    (length ss <= length ss')%nat /\ (k = FixedRoot -> length ss' = length ss).
Proof. exact write_entry_refines. Qed.
(* appended at the end marker; then, after the first entry is removed, a 2-slot entry goes INTO the freed run: it is
   decoded first although it was created last; a chain-backed directory grows by one zeroed cluster *)
Example C03_write_entry_refines_ex :
  dir_scan ex_dir1 0 [] false = ([mk_entry (rev (firstn 2 ex_dir1)) (nth 2 ex_dir1 []) 2 false], [], []) /\
  sfn_live (ex_sfn ex_alias2) /\
  fst (write_entry FixedRoot 0 ex_dir1 [98] (ex_sfn ex_alias2)) = Ok (3, 5) /\
  map e_sfn (fst (fst (dir_scan ex_dir2 0 [] false))) = [ex_alias1; ex_alias2] /\
  map e_lfn (fst (fst (dir_scan ex_dir2 0 [] false))) = [ex_name1; [98]] /\ snd (dir_scan ex_dir2 0 [] false) = [] /\
  (let d := mark_deleted ex_dir2 0 3 in
   let r := write_entry FixedRoot 0 d [99] (ex_sfn [67; 32; 32; 32; 32; 32; 32; 32; 32; 32; 32]) in
   fst r = Ok (0, 2) /\ map e_lfn (fst (fst (dir_scan (snd r) 0 [] false))) = [[99]; [98]] /\ snd (dir_scan (snd r) 0 [] false) = []) /\
  (let r := write_entry (Chained 16) 1 (firstn 5 ex_dir2) [99] (ex_sfn [67; 32; 32; 32; 32; 32; 32; 32; 32; 32; 32]) in
   fst r = Ok (5, 7) /\ length (snd r) = 21%nat /\ snd (dir_scan (snd r) 0 [] false) = []).
Proof.
  split; [vm_compute; reflexivity|]. split.
  { constructor; [constructor; vm_compute; reflexivity| | |]; vm_compute; try reflexivity; discriminate. }
  vm_compute. repeat split.
Qed.

(* ---- the deletion loop of remove / rename_internal refines "remove one entry": marking the slots of a decoded entry
   deleted removes exactly that entry and creates no issue; all other slots are untouched, the marked slots change as
   [mark_deleted_slot] says (first byte 0xE5; the codec round trip also clears bits 6-7 of the attribute byte). *)
Theorem C03_mark_deleted_refines : forall fat32 ss es ls e,
  dir_scan ss 0 [] fat32 = (es, ls, []) -> In e es ->
  let ss' := mark_deleted ss (e_first_slot e) (e_sfn_slot e + 1) in
  exists es1 es2,
    es = es1 ++ e :: es2 /\ dir_scan ss' 0 [] fat32 = (es1 ++ es2, ls, []) /\
    length ss' = length ss /\
    (forall i, (N.of_nat i < e_first_slot e \/ e_sfn_slot e < N.of_nat i) -> nth_error ss' i = nth_error ss i) /\
    (forall i s, e_first_slot e <= N.of_nat i <= e_sfn_slot e -> nth_error ss i = Some s ->
                 nth_error ss' i = Some (mark_deleted_slot s)).
Proof. exact mark_deleted_refines. Qed.
Example C03_mark_deleted_refines_ex :
  let e := nth 0 (fst (fst (dir_scan ex_dir2 0 [] false))) (mk_entry [] [] 0 false) in
  e_first_slot e = 0 /\ e_sfn_slot e = 2 /\
  map e_lfn (fst (fst (dir_scan (mark_deleted ex_dir2 0 3) 0 [] false))) = [[98]] /\
  snd (dir_scan (mark_deleted ex_dir2 0 3) 0 [] false) = [] /\
  map (fun s => byte_at s 0) (mark_deleted ex_dir2 0 3) = [229; 229; 229; 65; 66; 0; 0; 0].
Proof. vm_compute. repeat split. Qed.

(* ---- rename with the code's order (since d9f4de8: write the new entry, THEN delete the source slots): the decoding loses
   exactly the source entry and gains exactly the new one; the new entry never overlaps the slots of the source (they are
   still in use when it is written), and slots outside both entries are untouched *)
Theorem C03_rename_slots_refines : forall k free fat32 ss n se es ls e p q ss1,
  dir_scan ss 0 [] fat32 = (es, ls, []) -> len_N ss < 134217728 -> In e es -> sfn_live se ->
  write_entry k free ss n se = (Ok (p, q), ss1) ->
  let ss' := mark_deleted ss1 (e_first_slot e) (e_sfn_slot e + 1) in
  exists a b c d ne,
    es = a ++ e :: b /\ a ++ b = c ++ d /\ dir_scan ss' 0 [] fat32 = (c ++ ne :: d, ls, []) /\
    e_lfn ne = (if is_dot_name n then [] else utf16_encode n) /\ e_lfn_ok ne = true /\ e_sfn ne = se_name se /\
    e_attr ne = se_attrs se /\ e_size ne = se_size se /\
    e_cluster ne = (if fat32 then se_first_cluster_hi se * 65536 else 0) + se_first_cluster_lo se /\
    e_first_slot ne = p /\ e_sfn_slot ne + 1 = q /\
    (q <= e_first_slot e \/ e_sfn_slot e < p) /\
    (forall i, (i < length ss)%nat -> (N.of_nat i < p \/ q <= N.of_nat i) ->
               (N.of_nat i < e_first_slot e \/ e_sfn_slot e < N.of_nat i) -> nth_error ss' i = nth_error ss i).
Proof. exact rename_slots_refines. Qed.
(* the new short name may be the SOURCE'S OWN: a rename that only changes the spelling of the name (other case, or the
   entry's alias) keeps the raw short name (src/dir.rs after 46d26a5, D22); between the write and the deletion the
   directory holds two entries with that short name.  "b" (slots 3-4 of ex_dir2, alias B) rewritten as "B" with the same
   alias: the new entry goes to the free slots 5-6, then slots 3-4 are deleted - this is what the library's rename_in_dir
   does for "b" -> "B" *)
Example C03_rename_slots_refines_ex :
  let e := nth 1 (fst (fst (dir_scan ex_dir2 0 [] false))) (mk_entry [] [] 0 false) in
  In e (fst (fst (dir_scan ex_dir2 0 [] false))) /\
  e_first_slot e = 3 /\ e_sfn_slot e = 4 /\ e_sfn e = ex_alias2 /\ e_lfn e = [98] /\
  let w := write_entry FixedRoot 0 ex_dir2 [66] (ex_sfn ex_alias2) in
  fst w = Ok (5, 7) /\
  map e_sfn (fst (fst (dir_scan (snd w) 0 [] false))) = [ex_alias1; ex_alias2; ex_alias2] /\
  let ss' := mark_deleted (snd w) (e_first_slot e) (e_sfn_slot e + 1) in
  map e_lfn (fst (fst (dir_scan ss' 0 [] false))) = [ex_name1; [66]] /\
  map e_sfn (fst (fst (dir_scan ss' 0 [] false))) = [ex_alias1; ex_alias2] /\
  snd (dir_scan ss' 0 [] false) = [] /\
  map (fun s => byte_at s 0) ss' = [66; 1; 72; 229; 229; 65; 66; 0] /\
  rename_in_dir upper_ascii oem_decode_lossy FixedRoot 0 ex_dir2 [98] [66] = (Ok tt, ss').
Proof. cbn zeta. split; [right; left; reflexivity|]. vm_compute. repeat split. Qed.

(* ---- the slot clauses alone ([slots_wf fat32 ss] = the decoder reports no issue for ss): preserved by every successful
   write_entry (whatever the name, wherever the run goes, also when the directory grows) and by deleting any decoded entry;
   volume labels are untouched.  A write that fails in a FIXED root changes nothing (C01_failed_write_fixed_root_unchanged in
   Props/C01.v; D5/D20 fixed by 13fd5fe, d9f4de8); one that fails because a CHAIN cannot grow keeps all entries but may leave
   an orphan run at the end (finding "nospace during entry write": C01_failed_write_unchanged_chain_refuted). *)
Theorem C03_slot_clauses_preserved :
  (forall k free fat32 ss n e range ss',
     slots_wf fat32 ss -> len_N ss < 134217728 -> sfn_live e ->
     write_entry k free ss n e = (Ok range, ss') ->
     slots_wf fat32 ss' /\ snd (fst (dir_scan ss' 0 [] fat32)) = snd (fst (dir_scan ss 0 [] fat32))) /\
  (forall fat32 ss e,
     slots_wf fat32 ss -> In e (fst (fst (dir_scan ss 0 [] fat32))) ->
     slots_wf fat32 (mark_deleted ss (e_first_slot e) (e_sfn_slot e + 1)) /\
     snd (fst (dir_scan (mark_deleted ss (e_first_slot e) (e_sfn_slot e + 1)) 0 [] fat32)) = snd (fst (dir_scan ss 0 [] fat32))).
Proof. exact slot_clauses_preserved. Qed.
Example C03_keeps_wf_ex :
  slots_wf false ex_dir2 /\ slots_wf false (mark_deleted ex_dir2 0 3) /\
  ~ slots_wf false (mark_deleted ex_dir2 2 3) /\ ~ slots_wf false (zero_slot :: ex_dir2).
Proof. split; [reflexivity|]. split; [reflexivity|]. split; vm_compute; discriminate. Qed.


(* ================================================================== whole images (Model/VolDir.v, Proofs/VolDirProofs.v): the
   slot clauses above lifted to the invariant itself, [Wf.wf_issues fold im = []], for operations on the FIXED ROOT directory
   of a FAT12/16 volume.  [fixed_root_geom]: Props/C01.v (C01_vol_formatted_geom: what format_volume produces). *)
From FatVerif Require Import Model.VolDir Proofs.VolDirProofs.

(* ---- the bridge from slots to images: replace the root region of an image by ANY slots [ss] of the right shape.  The
   decoder reads the same geometry, and the decoded volume is: root entries = the scan of [ss], each entry decoded (chain,
   content, sub-directory) against the bytes of the OLD image - the FAT and the data area are not in the root region -,
   issues and labels of the scan of [ss], status byte as before. *)
Theorem C03_vol_decode_put_root : forall im ss es ls iss,
  fixed_root_geom (parse_geom im) ->
  length ss = N.to_nat (g_root_entries (parse_geom im)) -> Forall (fun s => length s = 32%nat) ss ->
  dir_scan ss 0 [] false = (es, ls, iss) ->
  parse_geom (put_root_slots (parse_geom im) im ss) = parse_geom im /\
  abs (put_root_slots (parse_geom im) im ss) =
    {| v_geom := parse_geom im; v_root_chain := None; v_root := decode_entries (parse_geom im) im MAX_DEPTH es;
       v_root_issues := iss; v_labels := ls; v_status := img_get im (g_status_off (parse_geom im));
       v_fsinfo_free := 0; v_fsinfo_next := 0 |}.
Proof. intros im ss es ls iss Hg H1 H2. exact (abs_put_root im ss es ls iss Hg (conj H1 H2)). Qed.
(* ... and an image is decoded from its own root region in the same way *)
Theorem C03_vol_decode_fixed_root : forall im es ls iss,
  g_bits (parse_geom im) <> 32 -> dir_scan (root_region_slots (parse_geom im) im) 0 [] false = (es, ls, iss) ->
  abs im =
    {| v_geom := parse_geom im; v_root_chain := None; v_root := decode_entries (parse_geom im) im MAX_DEPTH es;
       v_root_issues := iss; v_labels := ls; v_status := img_get im (g_status_off (parse_geom im));
       v_fsinfo_free := 0; v_fsinfo_next := 0 |}.
Proof. exact abs_fixed_root. Qed.

(* ---- create_file in the root of a well-formed volume leaves it well formed: no clause of Spec/Wf.v is violated afterwards
   (end marker, long-name runs, duplicate short names, chains, cross links, lost clusters, sizes, dot entries, depth),
   provided the new long name does not collide with an existing one under the folding [fold] the WDupLong clause is
   evaluated with (that the library's own matching implies this for its folding is the missing "WDupLong link") *)
Theorem C03_vol_create_keeps_wf : forall fold upper oem im name now range im',
  fixed_root_geom (parse_geom im) -> Wf.wf_issues fold im = [] -> TimeProofs.datetime_valid now = true ->
  vol_create_empty_file_root upper oem im name now = (Ok (Some range), im') ->
  (is_dot_name name = false ->
   ~ In (fold (utf16_encode name))
        (map fold (filter (fun l => negb (match l with [] => true | _ => false end))
                          (map e_lfn (map node_entry (v_root (abs im))))))) ->
  Wf.wf_issues fold im' = [].
Proof. exact vol_create_keeps_wf. Qed.
(* ... hence any sequence of creates that each made a new entry, with pairwise distinct folded names none of which is in
   use, keeps every intermediate and the final volume well formed *)
Theorem C03_vol_create_many_keeps_wf : forall fold upper oem reqs im im',
  fixed_root_geom (parse_geom im) -> Wf.wf_issues fold im = [] ->
  Forall (fun q => TimeProofs.datetime_valid (snd q) = true) reqs ->
  Forall (fun q => is_dot_name (fst q) = false) reqs ->
  NoDup (map (fun q => fold (utf16_encode (fst q))) reqs) ->
  (forall q, In q reqs ->
     ~ In (fold (utf16_encode (fst q)))
          (map fold (filter (fun l => negb (match l with [] => true | _ => false end))
                            (map e_lfn (map node_entry (v_root (abs im))))))) ->
  vol_create_many upper oem im reqs = Some im' -> Wf.wf_issues fold im' = [].
Proof. exact vol_create_many_keeps_wf. Qed.

(* ================================================================================================================
   The recorded known-finding class "deferred-entry-writeback" as a theorem (Model/VolSession.v, Proofs/VolSessionFormat.v):
   File::write allocates clusters and writes FAT entries and data at once, but the size and first-cluster fields of the
   directory entry only reach the device with File::flush / drop.  In between the device is NOT well formed. *)
From FatVerif Require Import Model.Table Model.Fat Model.FileM Model.VolFile Model.VolSession Model.Format Spec.FormatSpec
  Model.FormatImage Spec.FormatImageSpec Spec.ByteFile Proofs.TableProofs Proofs.FileProofs Proofs.FormatProofs Proofs.FormatImageProofs
  Proofs.VolDirFormat Proofs.VolFileProofs Proofs.VolSessionProofs Proofs.VolSessionFormat Proofs.VolSessionExamples.
From FatVerif Require Spec.Wf Proofs.FatProofs.

(* format ; create_file(name) ; ANY calls on the handle ; NO flush yet: the handle knows size = length of the byte array and
   a chain of ceil(size / cluster size) clusters; the decoder sees the entry as created - size 0, no first cluster - and the
   well-formedness findings are EXACTLY the clusters of that chain, each reported LOST.  Non-empty content => not well
   formed.  (Flush repairs it: C04_session_format_decodes.) *)
Theorem C03_session_deferred_writeback : forall fold upper oem acc o ts im0 bs t im fi name now ops range im1,
  builder_range o -> ts < 4294967296 -> FatProofs.bytes_ok im0 ->
  format_boot_sector_validated o ts = Ok (bs, t) -> t <> Format.Fat32 ->
  (o_max_root_dir_entries o * 32) mod o_bytes_per_sector o = 0 ->
  format_image o ts im0 = Ok im ->
  let g := geom_of (fbs_bpb bs) in
  fi_inv fstore (VolFileProofs.val_ft (ft_of g)) (store_of g im) fi (g_clusters g) ->
  TimeProofs.datetime_valid now = true -> Forall op_ok (map fst ops) -> clocks_ok ops ->
  vol_create_empty_file_root upper oem im name now = (Ok (Some range), im1) ->
  exists st1 st2 rs content pos ne l,
    sess_create upper oem im fi name now = Some st1 /\ sess_run g acc st1 ops = (st2, rs) /\
    bf_run ([], 0) (map fst ops) rs = Some (content, pos) /\
    h_size (s_h st2) = Some (len_N content) /\ N.of_nat (length l) = cdiv (g_cluster_size g) (len_N content) /\
    v_root (abs (s_im st2)) = [NFile ne None []] /\
    e_lfn ne = stored_lfn name /\ e_size ne = 0 /\ e_cluster ne = 0 /\
    (forall i, In i (Wf.wf_issues fold (s_im st2)) <-> exists c, i = Wf.WLost c /\ In c l) /\
    (content <> [] -> Wf.wf_issues fold (s_im st2) <> []).
Proof. exact format_session_unflushed. Qed.

(* the witness on the 64-sector FAT12 image of Props/C06.v: "a.txt", 515 bytes written, handle still open *)
Example C03_session_deferred_writeback_witness :
  match sess_create ex_U ex_O ex_vol_im ex_sfi ex_sname ex_vol_now with
  | Some st1 =>
    let '(st2, rs) := sess_run (parse_geom ex_vol_im) false st1 ex_sops in
    h_size (s_h st2) = Some 515 /\ h_first (s_h st2) = Some 2 /\ sess_dirty (s_h st2) (s_en st2) = true /\
    (exists e, v_root (abs (s_im st2)) = [NFile e None []] /\ e_lfn e = ex_sname /\ e_size e = 0 /\ e_cluster e = 0) /\
    Wf.wf_issues (fun l => l) (s_im st2) = [Wf.WLost 2; Wf.WLost 3] /\
    Abs.count_free (parse_geom ex_vol_im) (s_im st2) = 58
  | None => False
  end.
Proof. exact ex_session_unflushed. Qed.

(* ================================================================== the WDupLong link (Spec/WfFold.v, Proofs/DupLongProofs.v):
   the clause "no two long names of a directory are equal under case folding" follows from the library's OWN existence check.
   [WfFold.wf_fold upper]: the folding ocaml/judge.ml passes to Wf.wf_issues - String::from_utf16_lossy, then the
   to_uppercase expansion of every character from the table [upper] dumped from the executor under test (the same table the
   library model is run with).  [WfFold.fold_agrees upper fold]: on valid UTF-16, [fold us = fold (utf16_encode name)] iff the
   long-name half of DirEntry::eq_name (Model/Name.v eq_name_lfn) matches [us] against [name]. *)
From FatVerif Require Import Spec.WfFold Proofs.DupLongProofs Proofs.VolDirFormat.

(* ---- the hypothesis is a theorem for the folding the judge uses, for EVERY table *)
Theorem C03_fold_agrees_judge : forall upper, fold_agrees upper (wf_fold upper).
Proof. exact wf_fold_agrees. Qed.
(* ... and its restriction to valid UTF-16 is necessary: the units [0xD800] are listed and folded as U+FFFD, like the name
   "\u{FFFD}", but the library's comparison treats a decoding error as "no match" *)
Theorem C03_fold_agrees_needs_valid_utf16 :
  exists us name, us <> [] /\ str_valid name = true /\ utf16_okb us = false /\
    wf_fold upper_ascii us = wf_fold upper_ascii (utf16_encode name) /\ eq_name_lfn upper_ascii us name = false.
Proof. exact fold_agrees_needs_valid_utf16. Qed.
(* expanding mappings: with U+00DF -> "SS" the stored name "\u{DF}x" and the looked-up "SSX" fold alike and match; "sx" does not *)
Example C03_fold_agrees_ex :
  wf_fold upper_sz [223; 120] = [83; 83; 88] /\ wf_fold upper_sz (utf16_encode [83; 83; 88]) = [83; 83; 88] /\
  eq_name_lfn upper_sz [223; 120] [83; 83; 88] = true /\ eq_name_lfn upper_sz [223; 120] [115; 120] = false /\
  utf16_okb [223; 120] = true /\ utf16_okb [55357; 56832] = true /\ utf16_okb [56832] = false.
Proof. vm_compute. repeat split. Qed.

(* ---- decoder -> library.  Every entry the independent decoder finds WITH a long name is yielded by the library's iterator
   (Dir::iter, Model/DirSlots.dir_entries) for the same short slot - same raw short name, same end offset - with the SAME
   long-name units.  No premise on the directory (issues, labels, orphan runs, odd attribute bytes elsewhere). *)
Theorem C03_decoded_lfn_is_listed : forall fat32 oem ss l es ls iss e,
  dir_entries oem ss = Ok l -> dir_scan ss 0 [] fat32 = (es, ls, iss) -> In e es -> e_lfn e <> [] ->
  exists ev, In ev l /\ Lfn.ev_raw_name ev = e_sfn e /\ Lfn.ev_lfn ev = e_lfn e /\ Lfn.ev_end ev = 32 * (e_sfn_slot e + 1).
Proof. exact decoded_lfn_listed. Qed.
Example C03_decoded_lfn_is_listed_ex :
  map e_lfn (fst (fst (dir_scan ex_dir2 0 [] false))) = [ex_name1; [98]] /\
  (exists l, dir_entries oem_decode_lossy ex_dir2 = Ok l /\ map Lfn.ev_lfn l = [ex_name1; [98]] /\ map Lfn.ev_end l = [96; 160]).
Proof. split; [vm_compute; reflexivity|]. eexists. split; [vm_compute; reflexivity|]. vm_compute. split; reflexivity. Qed.

(* ---- slot layer.  Dir::check_for_existence answered "no such entry" (Fresh: the caller goes on to write the entry): the
   folded new name is not among the folded long names the decoder finds, whatever else the directory holds *)
Theorem C03_fresh_not_among_folded : forall upper oem fold fat32 ss n kind a es ls iss,
  fold_agrees upper fold -> str_valid n = true ->
  check_for_existence upper oem ss n kind = Ok (Fresh a) ->
  dir_scan ss 0 [] fat32 = (es, ls, iss) -> Forall (fun l => utf16_okb l = true) (map e_lfn es) ->
  ~ In (fold (utf16_encode n))
       (map fold (filter (fun l => negb (match l with [] => true | _ => false end)) (map e_lfn es))).
Proof. exact fresh_not_among_folded. Qed.
Example C03_fresh_not_among_folded_ex :
  (exists a, check_for_existence upper_ascii oem_decode_lossy ex_dir2 [99] None = Ok (Fresh a)) /\
  (exists ev, check_for_existence upper_ascii oem_decode_lossy ex_dir2 [66] None = Ok (Exists ev)) /\
  Forall (fun l => utf16_okb l = true) (map e_lfn (fst (fst (dir_scan ex_dir2 0 [] false)))).
Proof.
  split; [eexists; vm_compute; reflexivity|]. split; [eexists; vm_compute; reflexivity|].
  assert (map e_lfn (fst (fst (dir_scan ex_dir2 0 [] false))) = [ex_name1; [98]]) as -> by (vm_compute; reflexivity).
  repeat constructor.
Qed.

(* ---- whole images.  create_file in the root of a well-formed FAT12/16 volume leaves it well formed - the distinctness
   premise of C03_vol_create_keeps_wf is gone.  [root_lfns_ok im]: the long names stored in the root are valid UTF-16 (no
   unpaired surrogate; true of everything the library writes, kept by the operation; needed:
   C03_vol_create_keeps_wf_needs_valid_utf16).  [str_valid name]: the name is a Rust string (scalar values). *)
Theorem C03_vol_create_keeps_wf_closed : forall fold upper oem im name now range im',
  fold_agrees upper fold ->
  fixed_root_geom (parse_geom im) -> Wf.wf_issues fold im = [] ->
  Forall (fun l => utf16_okb l = true) (map e_lfn (map node_entry (v_root (abs im)))) ->
  str_valid name = true -> TimeProofs.datetime_valid now = true ->
  vol_create_empty_file_root upper oem im name now = (Ok (Some range), im') ->
  Wf.wf_issues fold im' = [] /\
  Forall (fun l => utf16_okb l = true) (map e_lfn (map node_entry (v_root (abs im')))).
Proof. exact vol_create_keeps_wf_closed. Qed.
(* ... for the judge's folding no hypothesis about the folding is left *)
Theorem C03_vol_create_keeps_wf_judge : forall upper oem im name now range im',
  fixed_root_geom (parse_geom im) -> Wf.wf_issues (wf_fold upper) im = [] ->
  Forall (fun l => utf16_okb l = true) (map e_lfn (map node_entry (v_root (abs im)))) ->
  str_valid name = true -> TimeProofs.datetime_valid now = true ->
  vol_create_empty_file_root upper oem im name now = (Ok (Some range), im') ->
  Wf.wf_issues (wf_fold upper) im' = [] /\
  Forall (fun l => utf16_okb l = true) (map e_lfn (map node_entry (v_root (abs im')))).
Proof. exact vol_create_keeps_wf_judge. Qed.
(* ... and ANY sequence of create_file calls, whatever each one answers - a new entry, an existing file opened (Ok None),
   InvalidInput, a rejected name, a full root -: the volume after the first k calls is well formed, for every k.
   Duplicates in the list are allowed: the second create of a name finds the first. *)
Theorem C03_vol_create_many_keeps_wf_closed : forall fold upper oem reqs im k,
  fold_agrees upper fold ->
  fixed_root_geom (parse_geom im) -> Wf.wf_issues fold im = [] ->
  Forall (fun l => utf16_okb l = true) (map e_lfn (map node_entry (v_root (abs im)))) ->
  Forall (fun q => str_valid (fst q) = true /\ TimeProofs.datetime_valid (snd q) = true) reqs ->
  parse_geom (vol_create_all upper oem im (firstn k reqs)) = parse_geom im /\
  Wf.wf_issues fold (vol_create_all upper oem im (firstn k reqs)) = [] /\
  Forall (fun l => utf16_okb l = true)
         (map e_lfn (map node_entry (v_root (abs (vol_create_all upper oem im (firstn k reqs)))))).
Proof. exact vol_create_all_prefix_keeps_wf. Qed.
(* the example volume: "Ab", "aB" (the same file: opened), "\u{DF}x", "SSX" (the same under the expanding table), "/" (refused),
   "ab" again: two entries, no issue at any point; the premises hold for the formatted volume *)
Example C03_vol_create_many_keeps_wf_closed_ex :
  let reqs := [([65; 98], ex_vol_now); ([97; 66], ex_vol_now); ([223; 120], ex_vol_now); ([83; 83; 88], ex_vol_now);
               ([47], ex_vol_now); ([97; 98], ex_vol_now)] in
  Wf.wf_issues (wf_fold upper_sz) ex_vol_im = [] /\ map e_lfn (map node_entry (v_root (abs ex_vol_im))) = [] /\
  Forall (fun q => str_valid (fst q) = true /\ TimeProofs.datetime_valid (snd q) = true) reqs /\
  map (fun k => map e_lfn (map node_entry (v_root (abs (vol_create_all upper_sz oem_decode_lossy ex_vol_im (firstn k reqs))))))
      [1; 2; 3; 6]%nat = [[[65; 98]]; [[65; 98]]; [[65; 98]; [223; 120]]; [[65; 98]; [223; 120]]] /\
  Wf.wf_issues (wf_fold upper_sz) (vol_create_all upper_sz oem_decode_lossy ex_vol_im reqs) = [] /\
  fst (vol_create_empty_file_root upper_sz oem_decode_lossy
         (vol_create_all upper_sz oem_decode_lossy ex_vol_im (firstn 3 reqs)) [83; 83; 88] ex_vol_now) = Ok None.
Proof.
  cbv zeta. split; [vm_compute; reflexivity|]. split; [vm_compute; reflexivity|].
  split; [repeat constructor|]. vm_compute. repeat split.
Qed.
(* why [root_lfns_ok] is a premise: a volume without any issue whose one long name is the unpaired surrogate 0xD800 (a foreign
   writer); create_file("\u{FFFD}") succeeds - the library never matches the undecodable name - and the root then lists two
   entries as "\u{FFFD}": WDupLong *)
Theorem C03_vol_create_keeps_wf_needs_valid_utf16 :
  exists im name now range im',
    fixed_root_geom (parse_geom im) /\ Wf.wf_issues (wf_fold upper_ascii) im = [] /\
    str_valid name = true /\ TimeProofs.datetime_valid now = true /\
    vol_create_empty_file_root upper_ascii oem_decode_lossy im name now = (Ok (Some range), im') /\
    map e_lfn (map node_entry (v_root (abs im))) = [[55296]] /\
    ~ Forall (fun l => utf16_okb l = true) (map e_lfn (map node_entry (v_root (abs im)))) /\
    map e_lfn (map node_entry (v_root (abs im'))) = [[55296]; [65533]] /\
    Wf.wf_issues (wf_fold upper_ascii) im' = [Wf.WDupLong 0].
Proof. exact vol_create_keeps_wf_needs_valid_utf16. Qed.

(* ---- rename of a file inside the root, EVERY outcome: the volume stays well formed - no premise about the destination
   name.  Premises of C01_vol_rename_decodes (attrs_sane, bytes_ok), and: the source is not stored under a dot short name
   (a root directory has none; the decoder would not follow the chain of such an entry).  A successful rename means the
   existence check answered Fresh, or "the source itself" AND the scan of the whole directory added by 7e5011a found no
   other entry matching [dst].  Without that scan the theorem is FALSE - the attempt to prove it produced the failing
   input D27, reproduced on the real library (C03_vol_rename_respell_ex). *)
Theorem C03_vol_rename_keeps_wf_closed : forall fold upper oem im src dst r im',
  fold_agrees upper fold ->
  fixed_root_geom (parse_geom im) -> Wf.wf_issues fold im = [] ->
  Forall (fun l => utf16_okb l = true) (map e_lfn (map node_entry (v_root (abs im)))) ->
  Forall attrs_sane (root_region_slots (parse_geom im) im) -> Forall bytes_ok (root_region_slots (parse_geom im) im) ->
  str_valid dst = true ->
  (forall ev, root_lookup upper oem im src = Ok ev ->
     list_eqb (Lfn.ev_raw_name ev) DOT || list_eqb (Lfn.ev_raw_name ev) DOTDOT = false) ->
  vol_rename_in_root upper oem im src dst = Some (r, im') ->
  Wf.wf_issues fold im' = [] /\
  Forall (fun l => utf16_okb l = true) (map e_lfn (map node_entry (v_root (abs im')))).
Proof. exact vol_rename_keeps_wf_closed. Qed.
Theorem C03_vol_rename_keeps_wf_judge : forall upper oem im src dst r im',
  fixed_root_geom (parse_geom im) -> Wf.wf_issues (wf_fold upper) im = [] ->
  Forall (fun l => utf16_okb l = true) (map e_lfn (map node_entry (v_root (abs im)))) ->
  Forall attrs_sane (root_region_slots (parse_geom im) im) -> Forall bytes_ok (root_region_slots (parse_geom im) im) ->
  str_valid dst = true ->
  (forall ev, root_lookup upper oem im src = Ok ev ->
     list_eqb (Lfn.ev_raw_name ev) DOT || list_eqb (Lfn.ev_raw_name ev) DOTDOT = false) ->
  vol_rename_in_root upper oem im src dst = Some (r, im') ->
  Wf.wf_issues (wf_fold upper) im' = [] /\
  Forall (fun l => utf16_okb l = true) (map e_lfn (map node_entry (v_root (abs im')))).
Proof. exact vol_rename_keeps_wf_judge. Qed.
(* the D27 situation (U+00DF -> "SS"): create "ab", create "\u{DF}~1" (alias _~1~1), remove "ab", create "s s" (first fit: IN
   FRONT of "\u{DF}~1"; alias SS~1): no issue, every premise holds.  rename "s s" -> "ss~1": the first match of "ss~1" is
   the source (through its alias), the entry behind it matches through its long name: AlreadyExists, every byte as before
   (before 7e5011a: Ok, and two long names with the folding "SS~1").  A destination nobody matches ("t") renames. *)
Example C03_vol_rename_respell_ex :
  (fixed_root_geom (parse_geom ex_respell_im) /\ Wf.wf_issues (wf_fold upper_sz) ex_respell_im = [] /\
   Forall (fun l => utf16_okb l = true) (map e_lfn (map node_entry (v_root (abs ex_respell_im)))) /\
   Forall attrs_sane (root_region_slots (parse_geom ex_respell_im) ex_respell_im) /\
   Forall bytes_ok (root_region_slots (parse_geom ex_respell_im) ex_respell_im) /\
   (forall ev, root_lookup upper_sz oem_decode_lossy ex_respell_im [115; 32; 115] = Ok ev ->
      list_eqb (Lfn.ev_raw_name ev) DOT || list_eqb (Lfn.ev_raw_name ev) DOTDOT = false) /\
   map e_lfn (map node_entry (v_root (abs ex_respell_im))) = [[115; 32; 115]; [223; 126; 49]]) /\
  map e_sfn (map node_entry (v_root (abs ex_respell_im))) =
    [[83; 83; 126; 49; 32; 32; 32; 32; 32; 32; 32]; [95; 126; 49; 126; 49; 32; 32; 32; 32; 32; 32]] /\
  wf_fold upper_sz [223; 126; 49] = wf_fold upper_sz [115; 115; 126; 49] /\
  match vol_rename_in_root upper_sz oem_decode_lossy ex_respell_im [115; 32; 115] [115; 115; 126; 49] with
  | Some (r, im') => r = Err EAlreadyExists /\
                     img_read im' 1536 512 = img_read ex_respell_im 1536 512
  | None => False
  end /\
  match vol_rename_in_root upper_sz oem_decode_lossy ex_respell_im [115; 32; 115] [116] with
  | Some (r, im') => r = Ok tt /\ map e_lfn (map node_entry (v_root (abs im'))) = [[223; 126; 49]; [116]] /\
                     Wf.wf_issues (wf_fold upper_sz) im' = []
  | None => False
  end.
Proof. split; [exact ex_respell_premises|]. vm_compute. repeat split. Qed.

(* ================================================================ remove of a file that owns clusters keeps the volume well formed
   (Model/VolRemove.v; full statement: Props/C05.v C05_vol_remove_reclaims_all).  Every clause of Spec/Wf.v: the freed clusters
   are FFree (no lost cluster), the other chains are untouched (no broken chain, no cross-link, sizes still match), the names
   left are still distinct, no orphan slot, and every premise is kept, so the theorem applies to the result again. *)
From FatVerif Require Import Model.VolRemove Proofs.TableProofs Proofs.VolFileProofs Proofs.VolRemoveProofs.
Theorem C03_vol_remove_file_keeps_wf : forall upper oem fold im fi name ev,
  let g := parse_geom im in
  fixed_root_geom g -> FatProofs.bytes_ok im ->
  fi_inv fstore (val_ft (ft_of g)) (store_of g im) fi (g_clusters g) ->
  Wf.wf_issues fold im = [] -> Forall attrs_sane (root_region_slots g im) ->
  root_lookup upper oem im name = Ok ev -> Lfn.ev_is_dir ev = false ->
  list_eqb (Lfn.ev_raw_name ev) DOT || list_eqb (Lfn.ev_raw_name ev) DOTDOT = false ->
  exists im' fi',
    vol_remove_file_root upper oem im fi name = Some (Ok tt, im', fi') /\
    Wf.wf_issues fold im' = [] /\ parse_geom im' = g /\ FatProofs.bytes_ok im' /\
    fi_inv fstore (val_ft (ft_of g)) (store_of g im') fi' (g_clusters g) /\
    Forall attrs_sane (root_region_slots g im').
Proof. exact vol_remove_file_keeps_wf. Qed.

Print Assumptions C03_write_frame.
Print Assumptions C03_write_effect.
Print Assumptions C03_written_run_valid.
Print Assumptions C03_scan_orphan_then_entry.
Print Assumptions C03_write_entry_refines.
Print Assumptions C03_mark_deleted_refines.
Print Assumptions C03_rename_slots_refines.
Print Assumptions C03_slot_clauses_preserved.
Print Assumptions C03_vol_decode_put_root.
Print Assumptions C03_vol_decode_fixed_root.
Print Assumptions C03_vol_create_keeps_wf.
Print Assumptions C03_vol_create_many_keeps_wf.
Print Assumptions C03_session_deferred_writeback.
Print Assumptions C03_fold_agrees_judge.
Print Assumptions C03_fold_agrees_needs_valid_utf16.
Print Assumptions C03_decoded_lfn_is_listed.
Print Assumptions C03_fresh_not_among_folded.
Print Assumptions C03_vol_create_keeps_wf_closed.
Print Assumptions C03_vol_create_keeps_wf_judge.
Print Assumptions C03_vol_create_many_keeps_wf_closed.
Print Assumptions C03_vol_create_keeps_wf_needs_valid_utf16.
Print Assumptions C03_vol_rename_keeps_wf_closed.
Print Assumptions C03_vol_rename_keeps_wf_judge.
Print Assumptions C03_vol_remove_file_keeps_wf.

(* ================================================================ a chain-backed directory that GROWS (Model/VolChainGrow.v,
   Proofs/VolChainGrowProofs.v; the full success statement is Props/C01.v C01_volchain_grow_create_decodes).
   vol_create_file_grow = dir.create_file(name) in a directory referenced from the fixed root of a FAT12/16 volume, with the
   allocation of new clusters (through the mirrored FAT copies, zero fill, link) when the run does not fit into the chain. *)
From FatVerif Require Import Model.VolChainDir Model.VolChainGrow Proofs.VolChainDirProofs Proofs.VolChainGrowProofs Proofs.VolChainGrowExamples.

(* ---- a successful create_file keeps the volume well formed, whether or not the directory grew: no clause of Spec/Wf.v is violated
   afterwards - the new clusters are owned by the directory's chain (no lost cluster, no cross-link: they were free), the chain
   is intact, the new cluster is zero behind the written slots (nothing follows the end marker), the run is complete, the alias
   is new, and the library's own existence check excludes a duplicate long name (the WDupLong link) - and every premise holds
   for the result, so the theorem applies again (with the longer chain) *)
Theorem C03_volchain_grow_keeps_wf : forall fold upper oem im fi l name now range im' fi' l' ra ed children labels rb,
  let g := parse_geom im in
  fold_agrees upper fold ->
  fixed_root_geom g /\ g_cluster_size g mod 32 = 0 -> FatProofs.bytes_ok im ->
  fi_inv fstore (val_ft (ft_of g)) (store_of g im) fi (g_clusters g) ->
  Wf.wf_issues fold im = [] -> v_root (abs im) = ra ++ NDir ed (Some l) children [] labels :: rb ->
  N.of_nat (cluster_slots g * length l) < 134217728 ->
  Forall (fun u => utf16_okb u = true) (map e_lfn (map node_entry children)) -> str_valid name = true ->
  TimeProofs.datetime_valid now = true ->
  vol_create_file_grow upper oem im fi l name now = (Ok (Some range), (im', fi', l')) ->
  Wf.wf_issues fold im' = [] /\
  parse_geom im' = g /\ FatProofs.bytes_ok im' /\ fi_inv fstore (val_ft (ft_of g)) (store_of g im') fi' (g_clusters g) /\
  exists children',
    v_root (abs im') = ra ++ NDir ed (Some l') children' [] labels :: rb /\
    Forall (fun u => utf16_okb u = true) (map e_lfn (map node_entry children')).
Proof.
  intros fold upper oem im fi l name now range im' fi' l' ra ed children labels rb g FA Hg Hb Hfi Hwf Hroot Hsm Hok Hv Hnow H.
  destruct (vol_grow_create_decodes upper oem fold im fi l name now range im' fi' l' ra ed children labels rb FA Hg Hb Hfi Hwf Hroot Hsm Hok Hv Hnow H)
    as (news & c1 & c2 & ne & st & X). decompose [and] X.
  split; [assumption|]. split; [assumption|]. split; [assumption|]. split; [assumption|].
  exists (c1 ++ NFile ne None [] :: c2). split; assumption.
Qed.
(* ... for the folding the judge runs no hypothesis about the folding is left *)
Theorem C03_volchain_grow_keeps_wf_judge : forall upper oem im fi l name now range im' fi' l' ra ed children labels rb,
  let g := parse_geom im in
  fixed_root_geom g /\ g_cluster_size g mod 32 = 0 -> FatProofs.bytes_ok im ->
  fi_inv fstore (val_ft (ft_of g)) (store_of g im) fi (g_clusters g) ->
  Wf.wf_issues (wf_fold upper) im = [] -> v_root (abs im) = ra ++ NDir ed (Some l) children [] labels :: rb ->
  N.of_nat (cluster_slots g * length l) < 134217728 ->
  Forall (fun u => utf16_okb u = true) (map e_lfn (map node_entry children)) -> str_valid name = true ->
  TimeProofs.datetime_valid now = true ->
  vol_create_file_grow upper oem im fi l name now = (Ok (Some range), (im', fi', l')) ->
  Wf.wf_issues (wf_fold upper) im' = [].
Proof.
  intros upper oem im fi l name now range im' fi' l' ra ed children labels rb g Hg Hb Hfi Hwf Hroot Hsm Hok Hv Hnow H.
  destruct (vol_grow_create_decodes upper oem (wf_fold upper) im fi l name now range im' fi' l' ra ed children labels rb
              (wf_fold_agrees upper) Hg Hb Hfi Hwf Hroot Hsm Hok Hv Hnow H) as (news & c1 & c2 & ne & st & X). decompose [and] X. assumption.
Qed.

(* ---- THE KNOWN CLASS `nospace-during-entry-write` AS A THEOREM.  The same premises, NO cluster free (count_free = 0), and
   create_file answers NotEnoughSpace.  Then: chain and FS-info latch as before; no byte changes outside the directory's own
   clusters - so every FAT entry, both FAT copies, the root region, every other cluster are as before, count_free is still 0 -;
   the decoder finds EVERY node of the volume as before (same entries, chains, contents, children of that directory included);
   the only thing that may differ is the issue list [iss'] of that directory, and the findings of Spec/Wf.v afterwards are
   exactly those: EITHER nothing, and then no byte of the device changed, OR exactly ONE orphan long-name run reported at the end
   of the directory (index = its number of slots), and then the device did change: the existence check had passed, the name
   needs long-name slots (a run of more than one slot) and the position found by find_free_entries lies inside the chain - the
   free tail of the last cluster took a prefix of the long-name slots (slot layer: C01_write_entry_cases, C01_failed_write_keeps_entries).
   So: no orphan run if the name needs no long-name slots or the tail had no free slot. *)
Theorem C03_volchain_grow_nospace_residue : forall fold upper oem im fi l name now im' fi' l' ra ed children labels rb,
  let g := parse_geom im in
  fixed_root_geom g /\ g_cluster_size g mod 32 = 0 -> FatProofs.bytes_ok im ->
  fi_inv fstore (val_ft (ft_of g)) (store_of g im) fi (g_clusters g) ->
  Wf.wf_issues fold im = [] -> v_root (abs im) = ra ++ NDir ed (Some l) children [] labels :: rb ->
  N.of_nat (cluster_slots g * length l) < 134217728 -> TimeProofs.datetime_valid now = true ->
  Abs.count_free g im = 0 ->
  vol_create_file_grow upper oem im fi l name now = (Err ENotEnoughSpace, (im', fi', l')) ->
  l' = l /\ fi' = fi /\
  (forall a, (forall c, In c l -> ~ in_cluster g c a) -> img_get im' a = img_get im a) /\
  (forall x, 2 <= x < g_clusters g + 2 -> fat_val g im' x = fat_val g im x) /\ Abs.count_free g im' = 0 /\
  (forall c, 2 <= c < g_clusters g + 2 -> ~ In c l -> cluster_bytes g im' c = cluster_bytes g im c) /\
  parse_geom im' = g /\ FatProofs.bytes_ok im' /\ fi_inv fstore (val_ft (ft_of g)) (store_of g im') fi (g_clusters g) /\
  exists iss',
    v_root (abs im') = ra ++ NDir ed (Some l) children iss' labels :: rb /\
    v_root_issues (abs im') = [] /\ v_labels (abs im') = v_labels (abs im) /\
    v_geom (abs im') = v_geom (abs im) /\ v_status (abs im') = v_status (abs im) /\
    Wf.wf_issues fold im' = map (Wf.dir_issue (e_cluster ed)) iss' /\
    ((iss' = [] /\ forall o, img_get im' o = img_get im o) \/
     (iss' = [DOrphanLfn (N.of_nat (cluster_slots g * length l))] /\ ~ (forall o, img_get im' o = img_get im o) /\
      exists a st p, check_for_existence upper oem (chain_dir_slots g im l) name (Some false) = Ok (Fresh a) /\ stamp_create now = Ok st /\
        1 < len_N (entry_run name (create_sfn_entry false a 0 None st)) /\
        find_free_entries (Chained (cluster_slots g)) (chain_dir_slots g im l) (len_N (entry_run name (create_sfn_entry false a 0 None st))) = Ok p /\
        p < N.of_nat (cluster_slots g * length l))).
Proof. intros fold upper oem. exact (vol_grow_nospace_residue upper oem fold). Qed.

(* the witness on the 64-sector FAT12 volume (Proofs/VolChainGrowExamples.v; the `_refuted` form is Props/C01.v
   C01_volchain_grow_nospace_unchanged_refuted): directory D (cluster 2, 16 slots, 2 in use), every other cluster owned by the
   file F - every premise holds, count_free = 0.  create_file of a 200-character name (16 long-name slots + 1) in D:
   NotEnoughSpace; chain and latch as before; FAT copies and root region byte-identical; slots 2 .. 15 of cluster 2 hold the
   first 14 long-name slots (orders 0x50, 15, .., 3); the decoder lists D's children and F exactly as before and reports
   OrphanLfn(D, 16) and nothing else.  A two-slot name still fits into the tail and is created. *)
Example C03_volchain_grow_nospace_example :
  (let im := ex_full_im in
   (fixed_root_geom (parse_geom im) /\ g_cluster_size (parse_geom im) mod 32 = 0) /\ FatProofs.bytes_ok im /\
   fi_inv fstore (val_ft (ft_of (parse_geom im))) (store_of (parse_geom im) im) ex_fi0 (g_clusters (parse_geom im)) /\
   Wf.wf_issues (fun x => x) im = [] /\
   (exists ed d1 d2 rb, v_root (abs im) = [] ++ NDir ed (Some [2]) [NDot d1; NDot d2] [] [] :: rb) /\
   N.of_nat (cluster_slots (parse_geom im) * length [2]) < 134217728 /\ TimeProofs.datetime_valid ex_vol_now = true /\
   Abs.count_free (parse_geom im) im = 0) /\
  match vol_create_file_grow upper_ascii oem_decode_lossy ex_full_im ex_fi0 [2] ex_long_name ex_vol_now with
  | (r, (im', fi', l')) =>
    r = Err ENotEnoughSpace /\ l' = [2] /\ fi' = ex_fi0 /\
    map (fun x => snd x) (ex_kids im') = [[DOrphanLfn 16]; []] /\ map (fun x => snd (fst x)) (ex_kids im') = [[0; 0]; []] /\
    Wf.wf_issues (fun x => x) im' = [Wf.WOrphanLfn 2 16] /\
    Abs.count_free (parse_geom ex_full_im) im' = 0 /\
    img_read im' 512 1536 = img_read ex_full_im 512 1536 /\
    map (fun k => img_get im' (2048 + 32 * k)) [0; 1; 2; 3; 15] = [46; 46; 80; 15; 3] /\ img_get ex_full_im (2048 + 64) = 0 /\
    fst (vol_create_file_grow upper_ascii oem_decode_lossy ex_full_im ex_fi0 [2] [97] ex_vol_now) = Ok (Some (2, 4))
  end.
Proof.
  cbv zeta. split; [exact ex_full_premises|]. pose proof ex_grow_nospace as X.
  destruct (vol_create_file_grow upper_ascii oem_decode_lossy ex_full_im ex_fi0 [2] ex_long_name ex_vol_now) as [r [[im' fi'] l']].
  destruct X as (X1 & X2 & X3 & X4 & X5 & X6 & X7 & X8 & X9 & X10). rewrite X4. cbn [map snd fst].
  repeat (split; [assumption || reflexivity|]). exact X10.
Qed.

Print Assumptions C03_volchain_grow_keeps_wf.
Print Assumptions C03_volchain_grow_keeps_wf_judge.
Print Assumptions C03_volchain_grow_nospace_residue.

(* ==================================================================================================================
   create_dir IN THE FIXED ROOT ON WHOLE IMAGES (Model/VolDirTree.v): the D25 clause - a create_dir whose entry write fails gives the
   freshly allocated cluster back.  PROVED IN GENERAL, for every FAT12/16 image with a sane geometry, every name and clock value. *)
From FatVerif Require Import Model.Table Model.Fat Model.VolFile Model.VolRemove Model.VolDirTree Proofs.TableProofs Proofs.VolFileProofs
  Proofs.VolDirProofs Proofs.VolDirTreeProofs Proofs.VolDirTreeExamples Proofs.VolSessionExamples Proofs.VolDirFormat.
From FatVerif Require Proofs.FatProofs.

(* the allocation succeeded (cluster c), then write_entry on the root answered an error.  Then: the call answers THAT error (it is
   NotEnoughSpace: the name was validated before); c was free and every FAT entry the decoder reads has its old value again;
   count_free unchanged; every byte outside the FAT copies and outside cluster c unchanged (nothing was written to the root);
   cluster c stays ZEROED; the latch is the allocator's (moved hint) with the count incremented again, consistent with the table *)
Theorem C03_vol_create_dir_failed_gives_back : forall upper oem im fi name now a im1 fi1 c st e ss',
  let g := parse_geom im in
  fixed_root_geom g -> FatProofs.bytes_ok im -> fi_inv fstore (val_ft (ft_of g)) (store_of g im) fi (g_clusters g) ->
  check_for_existence upper oem (root_region_slots g im) name (Some true) = Ok (Fresh a) ->
  vol_alloc_new_cluster g im fi = Ok (im1, fi1, c) -> stamp_create now = Ok st ->
  write_entry FixedRoot 0 (root_region_slots g im1) name (create_sfn_entry false a ATTR_DIRECTORY (Some c) st) = (Err e, ss') ->
  exists im',
    vol_create_dir_root upper oem im fi name now = (Err e, (im', map_free fi1 (fun n => n + 1))) /\
    (e = ENotEnoughSpace \/ validate_long_name name = Err e) /\
    2 <= c < g_clusters g + 2 /\ fat_val g im c = FFree /\
    (forall x, 2 <= x < g_clusters g + 2 -> fat_val g im' x = fat_val g im x) /\
    Abs.count_free g im' = Abs.count_free g im /\
    (forall o, ~ in_store_area g o -> ~ in_cluster g c o -> img_get im' o = img_get im o) /\
    cluster_bytes g im' c = repeat_N 0 (N.to_nat (g_cluster_size g)) /\
    FatProofs.bytes_ok im' /\ fi_inv fstore (val_ft (ft_of g)) (store_of g im') (map_free fi1 (fun n => n + 1)) (g_clusters g).
Proof. exact vol_create_dir_nospace_gives_back. Qed.

(* the premises are satisfiable and the clause is sharp: a 200-character name in the 16-entry root of the example volume.  Every byte
   outside cluster 2 - BOTH FAT copies included - is as before, the image decodes as before and is well formed, 60 clusters free;
   cluster 2 held the fill byte 0xD1 and is zero afterwards; the latch keeps next = 3 and is dirty *)
Theorem C03_vol_create_dir_full_root_example :
  fst ex_full = Err ENotEnoughSpace /\
  img_read (fst (snd ex_full)) 0 2048 = img_read ex_vol_im 0 2048 /\
  img_read (fst (snd ex_full)) 2560 (59 * 512) = img_read ex_vol_im 2560 (59 * 512) /\
  img_read (fst (snd ex_full)) 2048 512 = repeat 0 512 /\ img_read ex_vol_im 2048 512 = repeat 209 512 /\
  fat_val ex_g (fst (snd ex_full)) 2 = FFree /\ Abs.count_free ex_g (fst (snd ex_full)) = 60 /\
  abs (fst (snd ex_full)) = abs ex_vol_im /\ Wf.wf_issues (fun l => l) (fst (snd ex_full)) = [] /\
  snd (snd ex_full) = {| fi_free := None; fi_next := Some 3; fi_dirty := true |}.
Proof. exact ex_mkdir_full_root_gives_back. Qed.

(* failures BEFORE the allocation hand the same image back (rejected names; a FILE of that name: InvalidInput) *)
Theorem C03_vol_create_dir_early_failures_example :
  vol_create_dir_root ex_U ex_O ex_vol_im ex_sfi [97; 58] ex_vol_now = (Err EUnsupportedFileNameCharacter, (ex_vol_im, ex_sfi)) /\
  vol_create_dir_root ex_U ex_O ex_vol_im ex_sfi [] ex_vol_now = (Err EInvalidFileNameLength, (ex_vol_im, ex_sfi)) /\
  vol_create_dir_root ex_U ex_O ex_file_im ex_sfi [70] ex_vol_now = (Err EInvalidInput, (ex_file_im, ex_sfi)).
Proof. exact ex_mkdir_early_failures. Qed.

(* NOT PROVED IN GENERAL (C03_vol_create_dir_keeps_wf: Wf.wf_issues fold im = [] -> created -> Wf.wf_issues fold im' = [], in
   particular the WDot / WDotDot clauses: "." in slot 0 carries the directory's own cluster, ".." in slot 1 carries 0 for a directory
   of the root).  PROVED on the concrete volume (the dot clauses themselves: C01_vol_create_dir_decodes_partial): *)
Theorem C03_vol_create_dir_keeps_wf_partial :
  Abs.count_free ex_g ex_vol_im = 60 /\ Abs.count_free ex_g ex_mk_im = 59 /\
  Wf.wf_issues (fun l => l) ex_vol_im = [] /\ Wf.wf_issues (fun l => l) ex_mk_im = [].
Proof. exact ex_mkdir_accounting. Qed.

Print Assumptions C03_vol_create_dir_failed_gives_back.
Print Assumptions C03_vol_create_dir_full_root_example.
Print Assumptions C03_vol_create_dir_early_failures_example.
Print Assumptions C03_vol_create_dir_keeps_wf_partial.
(* ================================================================ THE FAT32 ROOT DIRECTORY on whole images: well-formedness
   (Proofs/Vol32RootFormat.v; premises as in Props/C01.v C01_vol32_root_create_decodes) *)
From FatVerif Require Import Model.VolChainDir Model.Vol32Root Proofs.VolDirProofs Proofs.VolChainDirProofs
  Proofs.Vol32RootProofs Proofs.Vol32RootFormat Proofs.Vol32RootExamples.
From FatVerif Require Import Model.Format Spec.FormatSpec Model.FormatImage Spec.FormatImageSpec.
(* a successful create in the root of a well-formed FAT32 volume leaves it well formed (no issue of Spec/Wf.v) *)
Theorem C03_vol32_root_create_keeps_wf : forall fold upper oem im l es ls name now range im',
  root32_ok im l es ls -> Forall (avoids l) (v_root (abs im)) ->
  Wf.wf_issues fold im = [] -> TimeProofs.datetime_valid now = true ->
  vol32_root_create upper oem im name now = Some (Ok (Some range), im') ->
  (is_dot_name name = false ->
   ~ In (fold (utf16_encode name)) (map fold (filter has_lfn (map e_lfn (map node_entry (v_root (abs im))))))) ->
  Wf.wf_issues fold im' = [].
Proof. exact vol32_root_create_keeps_wf. Qed.

Theorem C03_vol32_root_create_many_keeps_wf : forall fold upper oem,
  forall reqs im im' l es ls,
  root32_ok im l es ls -> Forall (avoids l) (v_root (abs im)) -> Wf.wf_issues fold im = [] ->
  Forall (fun q => TimeProofs.datetime_valid (snd q) = true) reqs ->
  Forall (fun q => is_dot_name (fst q) = false) reqs ->
  NoDup (map (fun q => fold (utf16_encode (fst q))) reqs) ->
  (forall q, In q reqs -> ~ In (fold (utf16_encode (fst q))) (root_lfns_folded fold im)) ->
  vol32_root_create_many upper oem im reqs = Some im' -> Wf.wf_issues fold im' = [].
Proof. exact vol32_root_create_many_keeps_wf. Qed.

(* format_volume (FAT32) on any device content, then creates of pairwise distinct (folded) non-dot names: wf_issues = [] *)
Theorem C03_vol32_format_create_many_wf : forall fold upper oem o ts im0 bs im reqs im',
  builder_range o -> ts < 4294967296 -> FatProofs.bytes_ok im0 ->
  format_boot_sector_validated o ts = Ok (bs, Format.Fat32) ->
  format_image o ts im0 = Ok im ->
  Forall (fun q => TimeProofs.datetime_valid (snd q) = true) reqs ->
  Forall (fun q => is_dot_name (fst q) = false) reqs ->
  NoDup (map (fun q => fold (utf16_encode (fst q))) reqs) ->
  vol32_root_create_many upper oem im reqs = Some im' -> Wf.wf_issues fold im' = [].
Proof. exact format32_create_many_wf. Qed.

Example C03_vol32_example :
  Wf.wf_issues (fun l => l) ex32r_im1 = [] /\ Wf.wf_issues (fun l => l) ex32r_im2 = [] /\ Wf.wf_issues (fun l => l) ex32r_im3 = [] /\
  Wf.wf_issues (fun l => l) ex32r_im4 = [] /\ Wf.wf_issues (fun l => l) ex32r_full = [] /\ length (v_root (abs ex32r_full)) = 5%nat.
Proof.
  split; [exact (proj2 ex32r_view1)|]. split; [exact (proj2 ex32r_view2)|]. split; [exact (proj2 ex32r_view3)|].
  split; [exact (proj1 (proj2 ex32r_view4))|]. split; [exact (proj2 ex32r_full_many)|exact (proj1 ex32r_full_many)].
Qed.

Print Assumptions C03_vol32_root_create_keeps_wf.
Print Assumptions C03_vol32_root_create_many_keeps_wf.
Print Assumptions C03_vol32_format_create_many_wf.
