(* Vol32RootProofs.v: the ROOT DIRECTORY OF A FAT32 VOLUME inside whole images (Model/Vol32Root.v), decoded by the independent
   decoder Spec/Abs.abs of the WHOLE image.
   0. the slot-layer "what the decoder sees" lemmas of Proofs/VolDirProofs.v for ANY FAT width (there: [fat32 = false])
   1. [fat32_geom]: the facts about a FAT32 geometry that are used; it is a [slot_geom], so section 1 of
      Proofs/VolChainDirProofs.v (slots of a chain <-> bytes of its clusters, put_chain_slots) applies unchanged
   2. what the decoder reads below the data area (geometry, ACTIVE FAT copy, free count, lost clusters) is untouched by changes
      inside data clusters; the frame [chain_frame] of Proofs/VolChainDirProofs.v for a FAT32 volume
   3. Abs.abs of a FAT32 image, given the root chain and the scan of its slots
   4. create / remove / rename in the root: whole-volume decoding + frame; failed calls leave every byte
   Re-used from Proofs/VolChainDirProofs.v without change: section 1 (via slot_geom), section 3 (no growth without a free
   cluster, free-count irrelevance), vol_chain_apply_some, avoids / same_other_clusters / node_of_avoid_gen. *)
From Coq Require Import NArith ZArith Lia List Bool Arith FMapPositive.
From FatVerif Require Import Model.Base Model.Str Model.Slot Model.Time Model.Name Model.ShortName Model.DirSlots
  Spec.Image Spec.Abs Spec.Regions Model.VolDir Model.VolChainDir Model.Vol32Root Proofs.ImageProofs Proofs.NameProofs
  Proofs.ShortNameProofs Proofs.DirSlotsProofs Proofs.RegionsProofs Proofs.VolDirProofs Proofs.VolChainDirProofs.
From FatVerif Require Model.FileM Model.VolSession Proofs.VolSessionProofs.
From FatVerif Require Model.Lfn Spec.LfnSpec Spec.Wf Proofs.TimeProofs Proofs.LfnProofs.
Import ListNotations.
Open Scope N_scope.
Ltac Zify.zify_post_hook ::= Z.to_euclidean_division_equations.

(* ================================================================ 0. the slot layer against the decoder, any FAT width *)

(* first_cluster() of a listed entry as the decoder of width [fat32] reads it *)
Definition view_cluster (fat32 : bool) (ev : Lfn.entry_view) : N :=
  (if fat32 then Lfn.ev_cluster_hi ev * 65536 else 0) + Lfn.ev_cluster_lo ev.

Lemma create_entry_full_w upper oem fat32 k free ss n now wd es ls range ss' :
  dir_scan ss 0 [] fat32 = (es, ls, []) -> len_N ss < 134217728 -> TimeProofs.datetime_valid now = true ->
  create_entry upper oem fat32 k free ss n 0 None now wd = (Ok (Some range), ss') ->
  exists es1 es2 ne a st,
    es = es1 ++ es2 /\ dir_scan ss' 0 [] fat32 = (es1 ++ ne :: es2, ls, []) /\
    check_for_existence upper oem ss n (Some wd) = Ok (Fresh a) /\ stamp_create now = Ok st /\
    e_lfn ne = (if is_dot_name n then [] else utf16_encode n) /\ e_lfn_ok ne = true /\
    e_sfn ne = a /\ sfn_legal_b a = true /\ ~ In a (map e_sfn es) /\
    e_attr ne = 0 /\ e_ntres ne = 0 /\ e_size ne = 0 /\ e_cluster ne = 0 /\
    e_ctime_ms ne = create_time_0 st /\ e_ctime ne = create_time_1 st /\ e_cdate ne = create_date st /\
    e_adate ne = access_date st /\ e_mtime ne = modify_time st /\ e_mdate ne = modify_date st /\
    e_first_slot ne = fst range /\ e_sfn_slot ne + 1 = snd range /\
    (forall l, dir_entries oem ss = Ok l -> forall ev, In ev l -> matches upper oem n ev = false).
Proof.
  intros H0 Hb Hnow H. unfold create_entry, lift in H.
  destruct (check_for_existence upper oem ss n (Some wd)) as [[ev|a]| | |] eqn:C; try discriminate.
  destruct (check_fresh_inv _ _ _ _ _ _ C) as (V & HL & l & DE & F & AF).
  destruct (stamp_create now) as [st| | |] eqn:ST; try discriminate.
  destruct (write_entry k free ss n (create_sfn_entry fat32 a 0 None st)) as [w ss''] eqn:W.
  destruct w as [rg| | |]; try discriminate. cbn [bind] in H. injection H as <- <-.
  pose proof (sfn_unique _ _ _ _ AF) as HU.
  assert (0 < 64) as Ha by lia. assert (N.land 0 8 = 0) as Hv by reflexivity.
  pose proof (create_sfn_entry_live fat32 a 0 None st HL Ha Hv (stamp_create_ranges now st Hnow ST)) as Hlive.
  destruct rg as [p q].
  destruct (write_entry_refines k free fat32 ss n _ es ls p q ss'' H0 Hb Hlive W)
    as (es1 & es2 & ne & E1 & E2 & E3 & E4 & E5 & E6 & E7 & E8 & E9 & E10 & E11 & E12 & E13 & E14 & E15 & E16 & E17 & _).
  cbn [create_sfn_entry se_name se_attrs se_reserved_0 se_create_time_0 se_create_time_1 se_create_date se_access_date
       se_first_cluster_hi se_modify_time se_modify_date se_first_cluster_lo se_size] in *.
  rewrite (dir_entries_sfns fat32 oem ss l es ls [] DE H0) in HU.
  exists es1, es2, ne, a, st. cbn [fst snd].
  do 12 (split; [assumption || reflexivity|]).
  split; [rewrite E14; destruct fat32; reflexivity|].
  do 8 (split; [assumption|]).
  intros l' Hl' ev Hin. assert (l' = l) as -> by congruence.
  destruct (matches upper oem n ev) eqn:M; [|reflexivity].
  exfalso. pose proof (find_none _ _ F ev Hin). congruence.
Qed.

Lemma listed_decoded_full_w fat32 oem ss es ls ev :
  dir_scan ss 0 [] fat32 = (es, ls, []) -> Forall attrs_sane ss -> LfnSpec.listed_at oem true [] ss ev ->
  exists e se, In e es /\ Lfn.ev_raw_name ev = e_sfn e /\
    Lfn.ev_begin ev / 32 = e_first_slot e /\ Lfn.ev_end ev / 32 = e_sfn_slot e + 1 /\
    slot_decode (nth (N.to_nat (e_sfn_slot e)) ss []) = SFile se /\ sfn_is_volume se = false /\
    nth 0 (se_name se) 0 <> 0 /\ nth 0 (se_name se) 0 <> 229 /\
    e_attr e mod 64 = se_attrs se /\ e_size e = se_size se /\
    e_cluster e = (if fat32 then se_first_cluster_hi se * 65536 else 0) + se_first_cluster_lo se /\
    e_sfn e = se_name se /\
    e_is_dir e = Lfn.ev_is_dir ev /\ e_cluster e = view_cluster fat32 ev /\ e_size e = Lfn.ev_size ev.
Proof.
  intros H0 Hs HL.
  destruct (listed_is_decoded fat32 oem ss es ls ev H0 Hs HL) as (e & se & Hin & Hn & Hb & He & Hdec & Hvol & F0 & F5 & Ha & Hsz & Hcl & Hnm).
  exists e, se. do 12 (split; [assumption|]).
  destruct HL as (pre & bs & post & se0 & Hss & _ & Hdec0 & _ & _ & Hev).
  assert (se0 = se) as ->.
  { rewrite Hev in He. unfold LfnSpec.entry_at, Lfn.mk_view in He. cbn [Lfn.ev_end] in He.
    rewrite (N.mul_comm 32), N.div_mul in He by discriminate.
    assert (len_N (rev (map slot_decode pre) ++ []) = len_N pre) as HL'
      by (unfold len_N; rewrite app_nil_r, rev_length, map_length; reflexivity).
    rewrite HL' in He. assert (N.to_nat (e_sfn_slot e) = length pre) as Hi by (unfold len_N in He; lia).
    rewrite Hi, Hss, nth_middle in Hdec. congruence. }
  rewrite Hev. unfold view_cluster, LfnSpec.entry_at, Lfn.mk_view. cbn [Lfn.ev_is_dir Lfn.ev_cluster_lo Lfn.ev_cluster_hi Lfn.ev_size].
  split; [|split; [exact Hcl|exact Hsz]].
  unfold e_is_dir, sfn_is_dir, ATTR_DIRECTORY. rewrite <- Ha, land_mod64_16. reflexivity.
Qed.

Lemma remove_entry_full_w fat32 upper oem ss name ne es ls ss' :
  dir_scan ss 0 [] fat32 = (es, ls, []) -> Forall attrs_sane ss ->
  remove_entry upper oem ss name ne = (Ok tt, ss') ->
  exists ev e es1 es2,
    find_entry upper oem ss name None = Ok ev /\ matches upper oem name ev = true /\
    Lfn.ev_raw_name ev = e_sfn e /\ e_is_dir e = Lfn.ev_is_dir ev /\ e_cluster e = view_cluster fat32 ev /\
    e_size e = Lfn.ev_size ev /\
    es = es1 ++ e :: es2 /\ dir_scan ss' 0 [] fat32 = (es1 ++ es2, ls, []).
Proof.
  intros H0 Hs H. unfold remove_entry, lift in H.
  destruct (find_entry upper oem ss name None) as [ev| | |] eqn:F; try discriminate.
  destruct (is_special ev); [discriminate|]. destruct (Lfn.ev_is_dir ev && ne); [discriminate|].
  injection H as <-.
  destruct (find_entry_listed _ _ _ _ _ _ F) as [HL HM].
  destruct (listed_decoded_full_w fat32 oem ss es ls ev H0 Hs HL)
    as (e & se & Hin & Hn & Hb & He & _ & _ & _ & _ & _ & _ & _ & _ & Hd & Hc & Hz).
  destruct (mark_deleted_refines fat32 ss es ls e H0 Hin) as [es1 [es2 [E1 [E2 _]]]]. cbn zeta in E2.
  assert (delete_entry ss ev = mark_deleted ss (e_first_slot e) (e_sfn_slot e + 1)) as ->
    by (unfold delete_entry, DIR_ENTRY_SIZE; rewrite Hb, He; reflexivity).
  exists ev, e, es1, es2. split; [reflexivity|]. do 6 (split; [assumption|]). exact E2.
Qed.

Lemma rename_rewrite_lists_w fat32 k free ss ev dst a es ls ss' e se :
  dir_scan ss 0 [] fat32 = (es, ls, []) -> len_N ss < 134217728 -> Forall bytes_ok ss ->
  In e es -> Lfn.ev_begin ev / 32 = e_first_slot e -> Lfn.ev_end ev / 32 = e_sfn_slot e + 1 ->
  slot_decode (nth (N.to_nat (e_sfn_slot e)) ss []) = SFile se -> sfn_is_volume se = false ->
  e_attr e mod 64 = se_attrs se -> e_size e = se_size se ->
  e_cluster e = (if fat32 then se_first_cluster_hi se * 65536 else 0) + se_first_cluster_lo se ->
  length a = 11%nat -> nth 0 a 0 <> 0 -> nth 0 a 0 <> 229 ->
  rename_rewrite k free ss ev dst a = (Ok tt, ss') ->
  exists x y c d ne,
    es = x ++ e :: y /\ x ++ y = c ++ d /\ dir_scan ss' 0 [] fat32 = (c ++ ne :: d, ls, []) /\
    e_lfn ne = (if is_dot_name dst then [] else utf16_encode dst) /\ e_lfn_ok ne = true /\ e_sfn ne = a /\
    e_attr ne = e_attr e mod 64 /\ e_size ne = e_size e /\ e_cluster ne = e_cluster e.
Proof.
  intros H0 Hb Hby Hin Hbg Hen Hdec Hvol Hat Hsz Hcl L1 L2 L3 H. unfold rename_rewrite in H.
  assert (entry_data ss ev = se) as Ed.
  { unfold entry_data, DIR_ENTRY_SIZE. rewrite Hen. replace (e_sfn_slot e + 1 - 1) with (e_sfn_slot e) by lia.
    rewrite Hdec. reflexivity. }
  assert (forall s1, delete_entry s1 ev = mark_deleted s1 (e_first_slot e) (e_sfn_slot e + 1)) as Edel
    by (intros s1; unfold delete_entry, DIR_ENTRY_SIZE; rewrite Hbg, Hen; reflexivity).
  rewrite Ed in H.
  destruct (write_entry k free ss dst (renamed se a)) as [w ss2] eqn:W.
  destruct w as [[p q]| | |]; cbn [lift] in H; try discriminate. rewrite Edel in H. injection H as <-.
  assert (bytes_ok (nth (N.to_nat (e_sfn_slot e)) ss [])) as Hbs.
  { destruct (nth_in_or_default (N.to_nat (e_sfn_slot e)) ss []) as [I|D].
    - rewrite Forall_forall in Hby. apply Hby. exact I.
    - rewrite D. constructor. }
  assert (sfn_live (renamed se a)) as Hlive.
  { constructor; [apply (decoded_fields_ok _ _ Hbs Hdec a L1)| | |]; unfold renamed; cbn [se_name se_attrs]; try assumption.
    unfold sfn_is_volume, ATTR_VOLUME_ID in Hvol. apply negb_false_iff in Hvol. apply N.eqb_eq in Hvol. exact Hvol. }
  destruct (rename_slots_refines k free fat32 ss dst (renamed se a) es ls e p q ss2 H0 Hb Hin Hlive W)
    as (x & y & c & d & ne & G1 & G2 & G3 & G4 & G5 & G6 & G7 & G8 & G9 & _). cbn zeta in G3.
  cbn [renamed se_name se_attrs se_size se_first_cluster_hi se_first_cluster_lo] in *.
  exists x, y, c, d, ne. do 6 (split; [assumption|]).
  split; [rewrite G7; symmetry; exact Hat|]. split; [rewrite G8; symmetry; exact Hsz|]. rewrite G9, Hcl. reflexivity.
Qed.

Lemma rename_in_dir_lists_w fat32 upper oem k free ss src dst es ls ss' :
  dir_scan ss 0 [] fat32 = (es, ls, []) -> len_N ss < 134217728 -> Forall attrs_sane ss -> Forall bytes_ok ss ->
  Forall len32 ss ->
  rename_in_dir upper oem k free ss src dst = (Ok tt, ss') ->
  exists ev e,
    find_entry upper oem ss src None = Ok ev /\ matches upper oem src ev = true /\ In e es /\
    Lfn.ev_raw_name ev = e_sfn e /\ e_is_dir e = Lfn.ev_is_dir ev /\
    ((exists dv, check_for_existence upper oem ss dst None = Ok (Exists dv) /\ Lfn.ev_end dv = Lfn.ev_end ev /\
                 has_exact_name ev dst = true /\ ss' = ss) \/
     (exists x y c d ne,
        es = x ++ e :: y /\ x ++ y = c ++ d /\ dir_scan ss' 0 [] fat32 = (c ++ ne :: d, ls, []) /\
        e_lfn ne = (if is_dot_name dst then [] else utf16_encode dst) /\ e_lfn_ok ne = true /\
        e_attr ne = e_attr e mod 64 /\ e_size ne = e_size e /\ e_cluster ne = e_cluster e /\
        ((exists a, check_for_existence upper oem ss dst None = Ok (Fresh a) /\ e_sfn ne = a /\ sfn_legal_b a = true /\
                    ~ In a (map e_sfn es)) \/
         (exists dv, check_for_existence upper oem ss dst None = Ok (Exists dv) /\ Lfn.ev_end dv = Lfn.ev_end ev /\
                     has_exact_name ev dst = false /\ e_sfn ne = e_sfn e /\
                     (forall l other, dir_entries oem ss = Ok l -> In other l -> Lfn.ev_end other <> Lfn.ev_end ev ->
                                      matches upper oem dst other = false))))).
Proof.
  intros H0 Hb Hs Hby H32 H. unfold rename_in_dir, lift in H.
  destruct (find_entry upper oem ss src None) as [ev| | |] eqn:F; try discriminate.
  destruct (is_special ev); [discriminate|].
  destruct (find_entry_listed _ _ _ _ _ _ F) as [HLi HM].
  destruct (listed_decoded_full_w fat32 oem ss es ls ev H0 Hs HLi)
    as (e & se & Hin & Hn & Hbg & Hen & Hdec & Hvol & Hf0 & Hf5 & Hat & Hsz & Hcl & Hnm & Hdir & _ & _).
  exists ev, e. split; [reflexivity|]. split; [exact HM|]. split; [exact Hin|]. split; [exact Hn|]. split; [exact Hdir|].
  destruct (check_for_existence upper oem ss dst None) as [[dv|a]| | |] eqn:C; try discriminate.
  - destruct (Lfn.ev_end ev =? Lfn.ev_end dv) eqn:EE; cbn [negb] in H; [|discriminate].
    apply N.eqb_eq in EE.
    destruct (has_exact_name ev dst) eqn:HX.
    + injection H as <-. left. exists dv. repeat split; congruence.
    + right. destruct (other_match upper oem ss ev dst) as [[|]| | |] eqn:OM; try discriminate.
      pose proof (other_match_false upper oem ss ev dst OM) as Hom. rewrite Hn in H.
      pose proof (decoded_sfn_length fat32 ss es ls [] e H0 H32 Hin) as L1.
      destruct (rename_rewrite_lists_w fat32 k free ss ev dst (e_sfn e) es ls ss' e se H0 Hb Hby Hin Hbg Hen Hdec Hvol Hat Hsz Hcl L1)
        as (x & y & c & d & ne & G1 & G2 & G3 & G4 & G5 & G6 & G7 & G8 & G9); try (rewrite Hnm; assumption); try assumption.
      exists x, y, c, d, ne. do 8 (split; [assumption|]). right. exists dv.
      split; [reflexivity|]. split; [congruence|]. split; [reflexivity|]. split; [exact G6|exact Hom].
  - right. destruct (check_fresh_inv _ _ _ _ _ _ C) as (_ & HL & l & DE & _ & AF).
    pose proof (sfn_unique _ _ _ _ AF) as HU. rewrite (dir_entries_sfns fat32 oem ss l es ls [] DE H0) in HU.
    destruct (sfn_legal_first a HL) as [L1 [L2 L3]].
    destruct (rename_rewrite_lists_w fat32 k free ss ev dst a es ls ss' e se H0 Hb Hby Hin Hbg Hen Hdec Hvol Hat Hsz Hcl L1 L2 L3 H)
      as (x & y & c & d & ne & G1 & G2 & G3 & G4 & G5 & G6 & G7 & G8 & G9).
    exists x, y, c, d, ne. do 8 (split; [assumption|]). left. exists a. repeat split; assumption.
Qed.

(* ================================================================ 1. a FAT32 geometry *)

(* a sane FAT32 layout.  Non-vacuous: ex32 in Proofs/Vol32RootExamples.v (a volume made by format_image). *)
Record fat32_geom (g : geom) : Prop := {
  f32_bits : g_bits g = 32;                          (* >= 65525 clusters: the root is a cluster chain *)
  f32_bps : 512 <= g_bps g;
  f32_spc : 1 <= g_spc g;
  f32_reserved : 1 <= g_reserved g;                  (* the boot sector *)
  f32_fats : 1 <= g_fats g;
  f32_active : g_active g < g_fats g;                (* the FAT copy the decoder reads (mirroring: 0) exists *)
  f32_fat : (g_clusters g + 2) * 4 <= g_fat_bytes g; (* every cluster has its entry inside one FAT copy *)
  f32_slots : g_cluster_size g mod 32 = 0;
  f32_vol : g_first_data g <= g_total_sectors g }.

Lemma fat32_slot_geom g : fat32_geom g -> slot_geom g.
Proof. intros Hg. pose proof (f32_bps g Hg). pose proof (f32_spc g Hg). unfold slot_geom. repeat split; try lia. exact (f32_slots g Hg). Qed.

Lemma fat32_sane g : fat32_geom g -> geom_sane g.
Proof. intros Hg. pose proof (f32_bps g Hg). pose proof (f32_spc g Hg). unfold geom_sane. repeat split; try lia. exact (f32_vol g Hg). Qed.

Lemma is_fat32_32 im : fat32_geom (parse_geom im) -> is_fat32 im = true.
Proof. intros Hg. unfold is_fat32. rewrite (f32_bits _ Hg). reflexivity. Qed.

(* ================================================================ 2. below the data area *)

Lemma first_data_ge32 g : fat32_geom g -> 512 <= g_first_data g * g_bps g.
Proof. intros Hg. pose proof (f32_bps g Hg). pose proof (f32_reserved g Hg). unfold g_first_data. nia. Qed.

Lemma parse_geom_below32 g im im' : fat32_geom g -> same_below_data g im im' -> parse_geom im' = parse_geom im.
Proof.
  intros Hg H. pose proof (first_data_ge32 g Hg).
  unfold parse_geom, img_u32, img_u16. rewrite !H by lia. reflexivity.
Qed.

(* the active FAT copy ends before the data area *)
Lemma active_fat_below g : fat32_geom g -> g_fat_off g (g_active g) + g_fat_bytes g <= g_first_data g * g_bps g.
Proof.
  intros Hg. pose proof (f32_active g Hg) as Ha. unfold g_fat_off, g_fat_bytes, g_first_data.
  set (a := g_active g) in *. set (f := g_fats g) in *. set (s := g_spf g). set (b := g_bps g).
  assert (a * s + s <= f * s) by nia. nia.
Qed.

Lemma fat_val_below32 g im im' c : fat32_geom g -> same_below_data g im im' -> in_range g c = true ->
  fat_val g im' c = fat_val g im c.
Proof.
  intros Hg H Hc. pose proof (active_fat_below g Hg) as Hb. pose proof (f32_fat g Hg) as Hn.
  unfold in_range in Hc. apply andb_true_iff in Hc. destruct Hc as [C1 C2]. apply N.leb_le in C1. apply N.ltb_lt in C2.
  unfold fat_val. f_equal. unfold fat_raw. rewrite (f32_bits g Hg).
  change (32 =? 12) with false. change (32 =? 16) with false. cbv iota.
  f_equal. unfold img_u32, img_u16. rewrite !H by lia. reflexivity.
Qed.

Lemma chain_from_below32 g im im' : fat32_geom g -> same_below_data g im im' ->
  forall fuel c, chain_from g im' c fuel = chain_from g im c fuel.
Proof.
  intros Hg H. induction fuel as [|f IH]; intros c; cbn [chain_from]; [reflexivity|].
  destruct (in_range g c) eqn:R; [|reflexivity]. rewrite (fat_val_below32 g im im' c Hg H R).
  destruct (fat_val g im c); try reflexivity. rewrite IH. reflexivity.
Qed.

Lemma lost_from_below32 g im im' m : fat32_geom g -> same_below_data g im im' ->
  forall n c, 2 <= c -> c + N.of_nat n <= g_clusters g + 2 -> Wf.lost_from g im' m c n = Wf.lost_from g im m c n.
Proof.
  intros Hg H. induction n as [|n IH]; intros c H2 Hn; cbn [Wf.lost_from]; [reflexivity|].
  rewrite (fat_val_below32 g im im' c Hg H) by (apply in_range_intro; lia). rewrite IH by lia. reflexivity.
Qed.

Lemma count_free_below32 g im im' : fat32_geom g -> same_below_data g im im' -> count_free g im' = count_free g im.
Proof.
  intros Hg H. unfold count_free.
  assert (forall n c, 2 <= c -> c + N.of_nat n <= g_clusters g + 2 -> count_free_from g im' c n = count_free_from g im c n) as X.
  { induction n as [|n IH]; intros c H2 Hn; cbn [count_free_from]; [reflexivity|].
    rewrite (fat_val_below32 g im im' c Hg H) by (apply in_range_intro; lia). rewrite IH by lia. reflexivity. }
  apply X; lia.
Qed.

Lemma root_region_below32 g im im' : fat32_geom g -> same_below_data g im im' ->
  root_region_slots g im' = root_region_slots g im.
Proof.
  intros Hg H. unfold root_region_slots. f_equal. apply img_read_ext. intros i Hi. apply H.
  pose proof (f32_bps g Hg). pose proof (cluster_after_root g 2 ltac:(lia)) as H2.
  unfold g_cluster_off in H2. replace ((2 - 2) * g_spc g) with 0 in H2 by lia. rewrite N.add_0_r in H2. lia.
Qed.

(* the status byte (offset 65 on FAT32) and the FS-info sector lie below the data area as well: a frame confined to data
   clusters keeps them.  (The FS-info SECTOR NUMBER is whatever the boot sector says; the theorems below state the FS-info
   words for volumes whose FS-info sector lies inside the reserved area.) *)

Lemma put_chain_below32 g im l ss : slot_geom g -> shape (cluster_slots g * length l) ss ->
  same_below_data g im (put_chain_slots g im l ss).
Proof.
  intros Hg Hs o Ho. apply (put_chain_outside_sg g Hg l im ss o Hs). intros c _. left.
  pose proof (cluster_off_ge_sg g c Hg). lia.
Qed.

(* the frame of Proofs/VolChainDirProofs.v, for a FAT32 volume *)
Lemma put_chain_confined32 im l ss : fat32_geom (parse_geom im) -> chain_ok (parse_geom im) l ->
  shape (cluster_slots (parse_geom im) * length l) ss -> chain_frame im (put_chain_slots (parse_geom im) im l ss) l.
Proof.
  intros Hg Hl Hs. set (g := parse_geom im) in *. unfold chain_frame. fold g. cbv zeta.
  pose proof (fat32_slot_geom g Hg) as Hsg.
  pose proof (put_chain_below32 g im l ss Hsg Hs) as Hbelow.
  split; [intros o Ho; exact (put_chain_outside_sg g Hsg l im ss o Hs Ho)|]. split.
  { intros o Hne. destruct (put_chain_slots_changes_sg g im l ss o Hsg Hl Hs Hne) as (i & s & j & Hi & Hk & Hj & Ho & Hd).
    exists i, s, j. do 4 (split; [assumption|]). split; [rewrite (chain_dir_put_sg g im l ss Hsg Hl Hs); exact Hd|].
    intros imx m. rewrite Ho. apply classify_cluster_bytes.
    - exact (fat32_sane g Hg).
    - destruct Hl as [_ Hr]. rewrite Forall_forall in Hr. apply Hr. apply nth_In. exact Hi.
    - pose proof (cluster_size_slots_sg g Hsg). lia. }
  split; [exact (parse_geom_below32 g im _ Hg Hbelow)|]. split; [exact (count_free_below32 g im _ Hg Hbelow)|].
  split; [intros c Hc; exact (fat_val_below32 g im _ c Hg Hbelow Hc)|].
  split; [intros m; apply (lost_from_below32 g im _ m Hg Hbelow); lia|]. exact (root_region_below32 g im _ Hg Hbelow).
Qed.

Lemma chain_frame_reads32 im im' l : slot_geom (parse_geom im) -> chain_ok (parse_geom im) l -> chain_frame im im' l ->
  same_below_data (parse_geom im) im im' /\ same_other_clusters (parse_geom im) l im im'.
Proof.
  intros Hg Hl (F1 & _). set (g := parse_geom im) in *. split.
  - intros o Ho. apply F1. intros c _. left. pose proof (cluster_off_ge_sg g c Hg). lia.
  - intros c Hc Hn. unfold cluster_bytes. apply img_read_ext. intros i Hi. apply F1. intros c' Hc'.
    destruct Hl as [_ Hr]. rewrite Forall_forall in Hr. specialize (Hr c' Hc').
    assert (c' <> c) as Hne by (intros ->; contradiction).
    destruct (cluster_ranges_disjoint_sg g c' c Hg ltac:(lia) Hc Hne) as [D|D]; [right; lia|left; lia].
Qed.

(* ================================================================ 3. Abs.abs of a FAT32 image *)

Definition abs_root32 (g : geom) (im : image) (l : list N) (es : list entry) (ls : list (list N)) (iss : list dissue) : volume :=
  {| v_geom := g; v_root_chain := Some l; v_root := decode_entries g im MAX_DEPTH es; v_root_issues := iss; v_labels := ls;
     v_status := img_get im (g_status_off g);
     v_fsinfo_free := img_u32 im (g_fsinfo_sector g * g_bps g + 488);
     v_fsinfo_next := img_u32 im (g_fsinfo_sector g * g_bps g + 492) |}.

Lemma root_slots_32 g im l : g_bits g = 32 -> chain_from g im (g_root_cluster g) (chain_fuel g) = Some l ->
  root_slots g im = (Some l, chain_dir_slots g im l).
Proof. intros H1 H2. unfold root_slots. rewrite H1, H2. reflexivity. Qed.

Lemma abs_root32_of im l es ls iss : g_bits (parse_geom im) = 32 -> root32_chain im = Some l ->
  dir_scan (chain_dir_slots (parse_geom im) im l) 0 [] true = (es, ls, iss) ->
  abs im = abs_root32 (parse_geom im) im l es ls iss.
Proof.
  intros Hb Hc Hs. unfold root32_chain in Hc. cbv zeta in Hc. unfold abs. cbv zeta.
  rewrite (root_slots_32 _ im l Hb Hc). rewrite Hb. change (32 =? 32) with true. rewrite Hs. reflexivity.
Qed.

(* the chain of the root is a chain of distinct data clusters: what Abs.chain_from accepted *)
Lemma chain_from_in_range g im : forall fuel c l, chain_from g im c fuel = Some l -> Forall (fun x => 2 <= x < g_clusters g + 2) l.
Proof.
  induction fuel as [|f IH]; intros c l H; cbn [chain_from] in H; [discriminate|].
  destruct (in_range g c) eqn:R; [|discriminate].
  assert (2 <= c < g_clusters g + 2) as H2.
  { unfold in_range in R. apply andb_true_iff in R. destruct R as [R1 R2]. apply N.leb_le in R1. apply N.ltb_lt in R2. lia. }
  destruct (fat_val g im c); try discriminate.
  - injection H as <-. constructor; [exact H2|constructor].
  - destruct (chain_from g im n f) as [l2|] eqn:E; [|discriminate]. injection H as <-. constructor; [exact H2|exact (IH _ _ E)].
Qed.

(* ================================================================ 4. the operations on the root *)

(* the premises about the volume: a FAT32 geometry; the root chain [l] as the decoder reads it, without a repeated cluster
   (a cycle-free chain: Spec/Wf.v reports a repeated cluster as a cross-link), small enough for the library's u32 slot
   arithmetic; the root's slots decode to [es] / labels [ls] without issue *)
Record root32_ok (im : image) (l : list N) (es : list entry) (ls : list (list N)) : Prop := {
  r32_geom : fat32_geom (parse_geom im);
  r32_chain : root32_chain im = Some l;
  r32_nodup : NoDup l;
  r32_small : chain_small (parse_geom im) l;
  r32_scan : dir_scan (chain_dir_slots (parse_geom im) im l) 0 [] true = (es, ls, []) }.

Lemma root32_chain_ok im l es ls : root32_ok im l es ls -> chain_ok (parse_geom im) l.
Proof.
  intros H. split; [exact (r32_nodup _ _ _ _ H)|]. pose proof (r32_chain _ _ _ _ H) as Hc. unfold root32_chain in Hc. cbv zeta in Hc.
  exact (chain_from_in_range _ _ _ _ _ Hc).
Qed.

Lemma root32_abs im l es ls : root32_ok im l es ls -> abs im = abs_root32 (parse_geom im) im l es ls [].
Proof. intros H. exact (abs_root32_of im l es ls [] (f32_bits _ (r32_geom _ _ _ _ H)) (r32_chain _ _ _ _ H) (r32_scan _ _ _ _ H)). Qed.

Lemma chain_len_bound_sg g im l : slot_geom g -> chain_small g l -> len_N (chain_dir_slots g im l) < 134217728.
Proof. intros Hg H. unfold len_N. rewrite (proj1 (proj1 (chain_dir_shape_sg g im l Hg))). exact H. Qed.

(* what the decoder makes of the image after the root's slots were replaced by [ss'] (same number of slots) that scan to
   [es'] / [ls'] without issue: the root chain is the same, every entry decodes against the new image *)
Lemma abs_put_root32 im l es ls ss' es' ls' : root32_ok im l es ls ->
  shape (cluster_slots (parse_geom im) * length l) ss' -> dir_scan ss' 0 [] true = (es', ls', []) ->
  let im' := put_chain_slots (parse_geom im) im l ss' in
  chain_frame im im' l /\ root32_ok im' l es' ls' /\ abs im' = abs_root32 (parse_geom im) im' l es' ls' [].
Proof.
  intros Hok Hsh Hscan im'. set (g := parse_geom im) in *.
  pose proof (r32_geom _ _ _ _ Hok) as Hg. fold g in Hg. pose proof (fat32_slot_geom g Hg) as Hsg.
  pose proof (root32_chain_ok im l es ls Hok) as Hl. fold g in Hl.
  pose proof (put_chain_confined32 im l ss' Hg Hl Hsh) as Hframe. fold g in Hframe. fold im' in Hframe.
  destruct (chain_frame_reads32 im im' l Hsg Hl Hframe) as [Hbelow _]. fold g in Hbelow.
  pose proof Hframe as (_ & _ & Hpg & _). fold g in Hpg.
  assert (root32_ok im' l es' ls') as Hok'.
  { constructor; rewrite ?Hpg.
    - exact Hg.
    - unfold root32_chain. cbv zeta. rewrite Hpg. rewrite (chain_from_below32 g im im' Hg Hbelow). exact (r32_chain _ _ _ _ Hok).
    - exact (r32_nodup _ _ _ _ Hok).
    - exact (r32_small _ _ _ _ Hok).
    - unfold im'. rewrite (chain_dir_put_sg g im l ss' Hsg Hl Hsh). exact Hscan. }
  split; [exact Hframe|]. split; [exact Hok'|]. rewrite <- Hpg. exact (root32_abs im' l es' ls' Hok').
Qed.

(* the nodes of entries that refer to no cluster of the root chain are the same on the new image *)
Lemma root32_nodes_kept im im' l es : fat32_geom (parse_geom im) -> chain_ok (parse_geom im) l -> chain_frame im im' l ->
  Forall (avoids l) (map (node_of (parse_geom im) im 23) es) ->
  map (node_of (parse_geom im) im' 23) es = map (node_of (parse_geom im) im 23) es.
Proof.
  intros Hg Hl Hframe Hav. set (g := parse_geom im) in *.
  destruct (chain_frame_reads32 im im' l (fat32_slot_geom g Hg) Hl Hframe) as [Hbelow Hother]. fold g in Hbelow, Hother.
  destruct (node_of_avoid_gen g im im' l (chain_from_below32 g im im' Hg Hbelow) Hother 23) as [_ P].
  apply map_ext_in. intros e He. apply P. rewrite Forall_forall in Hav. apply Hav. apply in_map. exact He.
Qed.

Lemma app_eq_length {A} (a b c d : list A) : length a = length c -> a ++ b = c ++ d -> a = c /\ b = d.
Proof.
  revert c. induction a as [|x a IH]; intros [|y c] HL H; cbn [length app] in *; try discriminate.
  - split; [reflexivity|exact H].
  - injection H as -> H. injection HL as HL. destruct (IH c HL H) as [-> ->]. split; reflexivity.
Qed.

Lemma v_root_abs_root32 g im l es ls iss : v_root (abs_root32 g im l es ls iss) = map (node_of g im 23) es.
Proof. reflexivity. Qed.

(* ---------------------------------------------------------------- create *)

(* CREATE in the FAT32 root.  The volume decodes (whole image, Abs.abs) with a cycle-free root chain [l] and no issue in
   the root; no node of the root refers to a cluster of the root chain ([avoids]: the no-cross-link clause of Spec/Wf.v).
   After a successful create_file(name) that found room inside the slots the chain has, the decoded root is the old one
   with exactly ONE node inserted - a plain empty file: long name [name] (none for a dot name), a fresh legal alias, size 0,
   BOTH first-cluster words zero (e_cluster = 0 under the FAT32 reading), attributes 0, the stamps of [now] - every other
   node (with chain, content and sub-tree) as before and in the same order; no issue, labels, root chain, geometry,
   status byte and FS-info words as before; and the device changed only inside the clusters of the root chain, FAT and
   free count untouched ([chain_frame]). *)
Theorem vol32_root_create_decodes upper oem im l es ls name now range im' :
  root32_ok im l es ls -> Forall (avoids l) (v_root (abs im)) -> TimeProofs.datetime_valid now = true ->
  vol32_root_create upper oem im name now = Some (Ok (Some range), im') ->
  exists n1 n2 ne st,
    v_root (abs im) = n1 ++ n2 /\ v_root (abs im') = n1 ++ NFile ne None [] :: n2 /\
    e_lfn ne = (if is_dot_name name then [] else utf16_encode name) /\ e_lfn_ok ne = true /\
    e_size ne = 0 /\ e_cluster ne = 0 /\ e_attr ne = 0 /\ e_ntres ne = 0 /\
    stamp_create now = Ok st /\
    e_ctime_ms ne = create_time_0 st /\ e_ctime ne = create_time_1 st /\ e_cdate ne = create_date st /\
    e_adate ne = access_date st /\ e_mtime ne = modify_time st /\ e_mdate ne = modify_date st /\
    e_first_slot ne = fst range /\ e_sfn_slot ne + 1 = snd range /\
    sfn_legal_b (e_sfn ne) = true /\ ~ In (e_sfn ne) (map e_sfn (map node_entry (v_root (abs im)))) /\
    v_root_issues (abs im') = [] /\ v_labels (abs im') = v_labels (abs im) /\
    v_root_chain (abs im') = Some l /\ v_root_chain (abs im) = Some l /\ v_geom (abs im') = v_geom (abs im) /\
    chain_frame im im' l /\
    exists es', root32_ok im' l es' ls.
Proof.
  intros Hok Hav Hnow H. set (g := parse_geom im) in *.
  pose proof (r32_geom _ _ _ _ Hok) as Hg. fold g in Hg. pose proof (fat32_slot_geom g Hg) as Hsg.
  pose proof (root32_chain_ok im l es ls Hok) as Hl. fold g in Hl.
  pose proof (r32_scan _ _ _ _ Hok) as Hscan. fold g in Hscan.
  unfold vol32_root_create in H. rewrite (r32_chain _ _ _ _ Hok) in H.
  unfold vol_create_empty_file_chain in H. apply vol_chain_apply_some in H. destruct H as (Hr & _ & ->). fold g in Hr |- *.
  rewrite (is_fat32_32 im Hg) in *. unfold chain_kind in *. fold g in Hr |- *.
  destruct (create_entry upper oem true (Chained (cluster_slots g)) 0 (chain_dir_slots g im l) name 0 None now false) as [r0 ss'] eqn:E.
  cbn [fst snd] in *. subst r0.
  pose proof (create_entry_nogrow_shape _ _ _ _ _ _ _ _ _ _ _ _ _ (proj1 (chain_dir_shape_sg g im l Hsg)) E) as Hsh.
  destruct (create_entry_full_w upper oem true (Chained (cluster_slots g)) 0 _ name now false es ls range ss' Hscan
              (chain_len_bound_sg g im l Hsg (r32_small _ _ _ _ Hok)) Hnow E)
    as (es1 & es2 & ne & a & st & E1 & E2 & _ & ST & E3 & E4 & E5 & HL & HU & E6 & E7 & E8 & E9 & T1 & T2 & T3 & T4 & T5 & T6 & P1 & P2 & M).
  destruct (abs_put_root32 im l es ls ss' (es1 ++ ne :: es2) ls Hok Hsh E2) as (Hframe & Hok' & Habs'). fold g in Hframe, Habs'.
  set (im' := put_chain_slots g im l ss') in *.
  pose proof (root32_abs im l es ls Hok) as Habs. fold g in Habs.
  rewrite Habs in Hav |- *. rewrite Habs'. rewrite v_root_abs_root32 in Hav. rewrite !v_root_abs_root32.
  rewrite E1 in Hav |- *. rewrite map_app in Hav.
  pose proof (root32_nodes_kept im im' l (es1 ++ es2) Hg Hl Hframe) as Hkept. fold g in Hkept. rewrite map_app in Hkept.
  specialize (Hkept Hav). rewrite !map_app in Hkept.
  apply app_eq_length in Hkept; [|rewrite !map_length; reflexivity]. destruct Hkept as [K1 K2].
  exists (map (node_of g im 23) es1), (map (node_of g im 23) es2), ne, st.
  split; [rewrite map_app; reflexivity|]. split.
  { rewrite map_app. cbn [map]. rewrite K1, K2. f_equal. f_equal. apply node_of_empty_file.
    - unfold e_is_dot. rewrite E5. destruct (sfn_legal_not_dot _ HL) as [-> ->]. reflexivity.
    - unfold e_is_dir. rewrite E6. reflexivity.
    - exact E9. }
  rewrite E5. do 16 (split; [assumption|]).
  split. { rewrite map_node_entry. rewrite <- E1. exact HU. }
  cbn [abs_root32 v_root_issues v_labels v_root_chain v_geom].
  do 5 (split; [reflexivity|]). split; [exact Hframe|]. exists (es1 ++ ne :: es2). exact Hok'.
Qed.

(* every other outcome the model covers - the file exists (Ok None), InvalidInput, a rejected name; NOT NotEnoughSpace, which
   is outside this model (growth) - leaves every byte of the device as it was *)
Theorem vol32_root_create_failed_unchanged upper oem im l es ls name now r im' :
  root32_ok im l es ls -> vol32_root_create upper oem im name now = Some (r, im') -> (forall range, r <> Ok (Some range)) ->
  forall o, img_get im' o = img_get im o.
Proof.
  intros Hok H Hr o. set (g := parse_geom im) in *.
  pose proof (fat32_slot_geom g (r32_geom _ _ _ _ Hok)) as Hsg. pose proof (root32_chain_ok im l es ls Hok) as Hl. fold g in Hl.
  unfold vol32_root_create in H. rewrite (r32_chain _ _ _ _ Hok) in H.
  unfold vol_create_empty_file_chain in H. apply vol_chain_apply_some in H. destruct H as (Hrr & Hn & ->). fold g in Hrr |- *.
  unfold chain_kind in *. fold g in Hrr |- *.
  destruct (create_entry upper oem (is_fat32 im) (Chained (cluster_slots g)) 0 (chain_dir_slots g im l) name 0 None now false) as [r0 ss'] eqn:E.
  cbn [fst snd] in *. subst r0.
  assert (ss' = chain_dir_slots g im l) as ->; [|apply put_chain_slots_same_sg; assumption].
  unfold create_entry, lift in E.
  destruct (check_for_existence upper oem (chain_dir_slots g im l) name (Some false)) as [[ev|a]| | |]; try (injection E as _ <-; reflexivity).
  destruct (stamp_create now) as [st| | |]; try (injection E as _ <-; reflexivity).
  destruct (write_entry (Chained (cluster_slots g)) 0 (chain_dir_slots g im l) name (create_sfn_entry (is_fat32 im) a 0 None st)) as [w ss1] eqn:W.
  injection E as <- <-.
  destruct (write_entry_cases (Chained (cluster_slots g)) 0 (chain_dir_slots g im l) name (create_sfn_entry (is_fat32 im) a 0 None st)
              (chain_len_bound_sg g im l Hsg (r32_small _ _ _ _ Hok))) as [(rg & s2 & C)|[(x & _ & C)|[(C & _)|(cs & p & pre & mid & post & j & _ & _ & _ & _ & _ & _ & C)]]].
  - rewrite C in W. injection W as <- _. exfalso. apply (Hr rg). reflexivity.
  - rewrite C in W. injection W as _ <-. reflexivity.
  - discriminate C.
  - rewrite C in W. injection W as <- _. discriminate Hn.
Qed.

(* ---------------------------------------------------------------- remove *)

Lemma avoids_dot l e : avoids l (NDot e).
Proof. intros c Hc. unfold node_clusters in Hc. cbn [Wf.node_chains concat] in Hc. destruct Hc. Qed.

Lemma avoids_file_same l e e' ch ct ct' : avoids l (NFile e ch ct) -> avoids l (NFile e' ch ct').
Proof. intros H c Hc. apply H. unfold node_clusters in *. destruct ch; exact Hc. Qed.

(* the guard and the slot-layer call of remove / rename, unfolded *)
Lemma vol32_remove_inv upper oem im l name r im' : root32_chain im = Some l ->
  vol32_root_remove upper oem im name = Some (r, im') ->
  r = fst (remove_entry upper oem (chain_dir_slots (parse_geom im) im l) name false) /\
  im' = put_chain_slots (parse_geom im) im l (snd (remove_entry upper oem (chain_dir_slots (parse_geom im) im l) name false)) /\
  forall ev, chain_lookup upper oem im l name = Ok ev -> Lfn.ev_is_dir ev = false /\ chain_entry_cluster im ev = 0.
Proof.
  intros Hc H. unfold vol32_root_remove in H. rewrite Hc in H. unfold vol_remove_empty_file_chain in H.
  destruct (chain_lookup upper oem im l name) as [ev| | |] eqn:F.
  - destruct (Lfn.ev_is_dir ev || negb (chain_entry_cluster im ev =? 0)) eqn:D; [discriminate|].
    apply vol_chain_apply_some in H. destruct H as (-> & _ & ->). split; [reflexivity|]. split; [reflexivity|].
    intros ev' Hev'. injection Hev' as <-.
    apply orb_false_iff in D. destruct D as [D1 D2]. apply negb_false_iff in D2. apply N.eqb_eq in D2. split; assumption.
  - apply vol_chain_apply_some in H. destruct H as (-> & _ & ->). split; [reflexivity|]. split; [reflexivity|]. intros; discriminate.
  - apply vol_chain_apply_some in H. destruct H as (-> & _ & ->). split; [reflexivity|]. split; [reflexivity|]. intros; discriminate.
  - apply vol_chain_apply_some in H. destruct H as (-> & _ & ->). split; [reflexivity|]. split; [reflexivity|]. intros; discriminate.
Qed.

(* REMOVE of a file without clusters from the FAT32 root: the decoded root loses exactly the node of the entry the library's
   own lookup resolved [name] to - not a directory, BOTH first-cluster words zero -, every other node as before and in order;
   no issue; labels, root chain, geometry as before; only bytes inside the root chain's clusters change (the 0xE5 marks). *)
Theorem vol32_root_remove_decodes upper oem im l es ls name im' :
  root32_ok im l es ls -> Forall (avoids l) (v_root (abs im)) ->
  Forall attrs_sane (chain_dir_slots (parse_geom im) im l) ->
  vol32_root_remove upper oem im name = Some (Ok tt, im') ->
  exists ev e n1 n2,
    chain_lookup upper oem im l name = Ok ev /\ matches upper oem name ev = true /\
    Lfn.ev_raw_name ev = e_sfn e /\ e_is_dir e = false /\ e_cluster e = 0 /\ e_size e = Lfn.ev_size ev /\
    v_root (abs im) = n1 ++ node_of (parse_geom im) im 23 e :: n2 /\ v_root (abs im') = n1 ++ n2 /\
    (e_is_dot e = false -> node_of (parse_geom im) im 23 e = NFile e None []) /\
    v_root_issues (abs im') = [] /\ v_labels (abs im') = v_labels (abs im) /\
    v_root_chain (abs im') = Some l /\ v_geom (abs im') = v_geom (abs im) /\
    chain_frame im im' l /\
    exists es', root32_ok im' l es' ls.
Proof.
  intros Hok Hav Hsane H. set (g := parse_geom im) in *.
  pose proof (r32_geom _ _ _ _ Hok) as Hg. fold g in Hg. pose proof (fat32_slot_geom g Hg) as Hsg.
  pose proof (root32_chain_ok im l es ls Hok) as Hl. fold g in Hl.
  pose proof (r32_scan _ _ _ _ Hok) as Hscan. fold g in Hscan.
  destruct (vol32_remove_inv upper oem im l name _ im' (r32_chain _ _ _ _ Hok) H) as (Hr & -> & Hguard). fold g in Hr, Hguard |- *.
  destruct (remove_entry upper oem (chain_dir_slots g im l) name false) as [r0 ss'] eqn:E. cbn [fst snd] in *. subst r0.
  pose proof (remove_entry_shape _ _ _ _ _ _ _ _ (proj1 (chain_dir_shape_sg g im l Hsg)) E) as Hsh.
  destruct (remove_entry_full_w true upper oem _ name false es ls ss' Hscan Hsane E)
    as (ev & e & es1 & es2 & F & M & Hn & Hd & Hc & Hz & E1 & E2).
  destruct (Hguard ev F) as [G1 G2]. unfold chain_entry_cluster in G2. rewrite (is_fat32_32 im Hg) in G2.
  assert (e_cluster e = 0) as Hc0 by (rewrite Hc; exact G2).
  assert (e_is_dir e = false) as Hd0 by (rewrite Hd; exact G1).
  destruct (abs_put_root32 im l es ls ss' (es1 ++ es2) ls Hok Hsh E2) as (Hframe & Hok' & Habs'). fold g in Hframe, Habs'.
  set (im' := put_chain_slots g im l ss') in *.
  pose proof (root32_abs im l es ls Hok) as Habs. fold g in Habs.
  rewrite Habs in Hav |- *. rewrite Habs'. rewrite v_root_abs_root32 in Hav. rewrite !v_root_abs_root32.
  rewrite E1 in Hav |- *. rewrite map_app in Hav. cbn [map] in Hav.
  apply Forall_app in Hav. destruct Hav as [Hav1 Hav2]. inversion Hav2 as [|? ? _ Hav3]; subst.
  pose proof (root32_nodes_kept im im' l (es1 ++ es2) Hg Hl Hframe) as Hkept. fold g in Hkept. rewrite map_app in Hkept.
  specialize (Hkept (proj2 (Forall_app _ _ _) (conj Hav1 Hav3))).
  exists ev, e, (map (node_of g im 23) es1), (map (node_of g im 23) es2).
  do 6 (split; [assumption|]).
  split; [rewrite map_app; reflexivity|]. split; [rewrite ?map_app in Hkept |- *; exact Hkept|].
  split; [intros Hdot; apply node_of_empty_file; assumption|].
  cbn [abs_root32 v_root_issues v_labels v_root_chain v_geom].
  do 4 (split; [reflexivity|]). split; [exact Hframe|]. exists (es1 ++ es2). exact Hok'.
Qed.

Theorem vol32_root_remove_failed_unchanged upper oem im l es ls name r im' :
  root32_ok im l es ls -> vol32_root_remove upper oem im name = Some (r, im') -> r <> Ok tt ->
  forall o, img_get im' o = img_get im o.
Proof.
  intros Hok H Hr o. set (g := parse_geom im) in *.
  pose proof (fat32_slot_geom g (r32_geom _ _ _ _ Hok)) as Hsg. pose proof (root32_chain_ok im l es ls Hok) as Hl. fold g in Hl.
  destruct (vol32_remove_inv upper oem im l name _ im' (r32_chain _ _ _ _ Hok) H) as (Hr' & -> & _). fold g in Hr' |- *.
  assert (snd (remove_entry upper oem (chain_dir_slots g im l) name false) = chain_dir_slots g im l) as ->.
  { unfold remove_entry, lift in *. destruct (find_entry upper oem _ name None) as [ev| | |]; try reflexivity.
    destruct (is_special ev); [reflexivity|]. destruct (Lfn.ev_is_dir ev && false); [reflexivity|].
    cbn [fst] in Hr'. congruence. }
  apply put_chain_slots_same_sg; assumption.
Qed.

(* ---------------------------------------------------------------- rename *)

Lemma vol32_rename_inv upper oem im l src dst r im' : root32_chain im = Some l ->
  vol32_root_rename upper oem im src dst = Some (r, im') ->
  r = fst (rename_in_dir upper oem (Chained (cluster_slots (parse_geom im))) 0 (chain_dir_slots (parse_geom im) im l) src dst) /\
  is_nospace r = false /\
  im' = put_chain_slots (parse_geom im) im l
          (snd (rename_in_dir upper oem (Chained (cluster_slots (parse_geom im))) 0 (chain_dir_slots (parse_geom im) im l) src dst)) /\
  forall ev, chain_lookup upper oem im l src = Ok ev -> Lfn.ev_is_dir ev = false.
Proof.
  intros Hc H. unfold vol32_root_rename in H. rewrite Hc in H. unfold vol_rename_in_chain, chain_kind in H.
  destruct (chain_lookup upper oem im l src) as [ev| | |] eqn:F.
  - destruct (Lfn.ev_is_dir ev) eqn:D; [discriminate|].
    apply vol_chain_apply_some in H. destruct H as (-> & Hn & ->). split; [reflexivity|]. split; [exact Hn|]. split; [reflexivity|].
    intros ev' Hev'. injection Hev' as <-. exact D.
  - apply vol_chain_apply_some in H. destruct H as (-> & Hn & ->). split; [reflexivity|]. split; [exact Hn|]. split; [reflexivity|]. intros; discriminate.
  - apply vol_chain_apply_some in H. destruct H as (-> & Hn & ->). split; [reflexivity|]. split; [exact Hn|]. split; [reflexivity|]. intros; discriminate.
  - apply vol_chain_apply_some in H. destruct H as (-> & Hn & ->). split; [reflexivity|]. split; [exact Hn|]. split; [reflexivity|]. intros; discriminate.
Qed.

Lemma e_is_dir_mod64 e ne : e_attr ne = e_attr e mod 64 -> e_is_dir ne = e_is_dir e.
Proof. intros H. unfold e_is_dir. rewrite H, land_mod64_16. reflexivity. Qed.

(* RENAME of a file inside the FAT32 root (the root holds no dot entries - the library never puts any there).  On success
   either nothing happened (the destination is the stored spelling of the source's own name: every byte as before), or the
   decoded root lost exactly the node of the source entry and gained exactly one node - somewhere (first fit), all other nodes
   exactly as before and in the same relative order -: a file with the SAME cluster chain and content (the new entry carries
   the source's first cluster in BOTH words - e_cluster under the FAT32 reading - and its size; FAT and data untouched), the
   source's attributes, the new long name, under a fresh legal alias or - for a respelling - the source's own short name. *)
Theorem vol32_root_rename_decodes upper oem im l es ls src dst im' :
  root32_ok im l es ls -> Forall (avoids l) (v_root (abs im)) -> Forall (fun e => e_is_dot e = false) es ->
  Forall attrs_sane (chain_dir_slots (parse_geom im) im l) -> Forall bytes_ok (chain_dir_slots (parse_geom im) im l) ->
  vol32_root_rename upper oem im src dst = Some (Ok tt, im') ->
  exists ev e,
    chain_lookup upper oem im l src = Ok ev /\ matches upper oem src ev = true /\ Lfn.ev_is_dir ev = false /\ In e es /\
    Lfn.ev_raw_name ev = e_sfn e /\
    ((exists dv, check_for_existence upper oem (chain_dir_slots (parse_geom im) im l) dst None = Ok (Exists dv) /\
                 Lfn.ev_end dv = Lfn.ev_end ev /\ has_exact_name ev dst = true /\ forall o, img_get im' o = img_get im o) \/
     (exists nx ny nc nd ne,
        v_root (abs im) = nx ++ NFile e (file_chain (parse_geom im) im e) (file_content (parse_geom im) im e) :: ny /\
        nx ++ ny = nc ++ nd /\
        v_root (abs im') = nc ++ NFile ne (file_chain (parse_geom im) im e) (file_content (parse_geom im) im e) :: nd /\
        e_lfn ne = (if is_dot_name dst then [] else utf16_encode dst) /\ e_lfn_ok ne = true /\
        e_attr ne = e_attr e mod 64 /\ e_size ne = e_size e /\ e_cluster ne = e_cluster e /\
        ((exists a, check_for_existence upper oem (chain_dir_slots (parse_geom im) im l) dst None = Ok (Fresh a) /\
                    e_sfn ne = a /\ sfn_legal_b a = true /\ ~ In a (map e_sfn es)) \/
         (exists dv, check_for_existence upper oem (chain_dir_slots (parse_geom im) im l) dst None = Ok (Exists dv) /\
                     Lfn.ev_end dv = Lfn.ev_end ev /\ has_exact_name ev dst = false /\ e_sfn ne = e_sfn e)) /\
        v_root_issues (abs im') = [] /\ v_labels (abs im') = v_labels (abs im) /\
        v_root_chain (abs im') = Some l /\ v_geom (abs im') = v_geom (abs im) /\
        chain_frame im im' l /\
        exists es', root32_ok im' l es' ls)).
Proof.
  intros Hok Hav Hnd Hsane Hby H. set (g := parse_geom im) in *.
  pose proof (r32_geom _ _ _ _ Hok) as Hg. fold g in Hg. pose proof (fat32_slot_geom g Hg) as Hsg.
  pose proof (root32_chain_ok im l es ls Hok) as Hl. fold g in Hl.
  pose proof (r32_scan _ _ _ _ Hok) as Hscan. fold g in Hscan.
  destruct (vol32_rename_inv upper oem im l src dst _ im' (r32_chain _ _ _ _ Hok) H) as (Hr & _ & -> & Hguard). fold g in Hr, Hguard |- *.
  destruct (rename_in_dir upper oem (Chained (cluster_slots g)) 0 (chain_dir_slots g im l) src dst) as [r0 ss'] eqn:E.
  cbn [fst snd] in *. subst r0.
  pose proof (proj1 (chain_dir_shape_sg g im l Hsg)) as Hsh0.
  pose proof (rename_in_dir_nogrow_shape _ _ _ _ _ _ _ _ _ Hsh0 E) as Hsh.
  destruct (rename_in_dir_lists_w true upper oem (Chained (cluster_slots g)) 0 _ src dst es ls ss' Hscan
              (chain_len_bound_sg g im l Hsg (r32_small _ _ _ _ Hok)) Hsane Hby (proj2 Hsh0) E)
    as (ev & e & F & M & Hin & Hn & Hd & Hcase).
  exists ev, e. split; [exact F|]. split; [exact M|]. split; [exact (Hguard ev F)|]. split; [exact Hin|]. split; [exact Hn|].
  destruct Hcase as [(dv & C & EE & HX & ->)|(x & y & c & d & ne & E1 & E2 & E3 & L1 & L2 & A1 & A2 & A3 & Hsub)].
  - left. exists dv. do 3 (split; [assumption|]). intros o. apply put_chain_slots_same_sg; assumption.
  - right.
    destruct (abs_put_root32 im l es ls ss' (c ++ ne :: d) ls Hok Hsh E3) as (Hframe & Hok' & Habs'). fold g in Hframe, Habs'.
    set (im' := put_chain_slots g im l ss') in *.
    pose proof (root32_abs im l es ls Hok) as Habs. fold g in Habs.
    rewrite Habs in Hav |- *. rewrite Habs'. rewrite v_root_abs_root32 in Hav. rewrite !v_root_abs_root32.
    assert (e_is_dir e = false) as Hd0 by (rewrite Hd; exact (Hguard ev F)).
    assert (e_is_dot e = false) as Hdot by (rewrite Forall_forall in Hnd; exact (Hnd e Hin)).
    pose proof (node_of_file g im 23 e Hdot Hd0) as Ne.
    rewrite E1 in Hav |- *. rewrite map_app in Hav. cbn [map] in Hav.
    apply Forall_app in Hav. destruct Hav as [Hav1 Hav2]. inversion Hav2 as [|? ? Hav0 Hav3]; subst.
    assert (Forall (avoids l) (map (node_of g im 23) (c ++ d))) as Hcd.
    { rewrite <- E2, map_app. apply Forall_app. split; assumption. }
    assert (e_is_dir ne = false) as Hdn by (rewrite (e_is_dir_mod64 e ne A1); exact Hd0).
    assert (e_is_dot ne = false) as Hdotn.
    { unfold e_is_dot. destruct Hsub as [(a & _ & -> & HL & _)|(dv & _ & _ & _ & -> & _)].
      - destruct (sfn_legal_not_dot _ HL) as [-> ->]. reflexivity.
      - exact Hdot. }
    destruct (file_same g im e ne A3 A2) as [FS1 FS2].
    assert (node_of g im 23 ne = NFile ne (file_chain g im e) (file_content g im e)) as Nn
      by (rewrite (node_of_file g im 23 ne Hdotn Hdn), FS1, FS2; reflexivity).
    assert (avoids l (node_of g im 23 ne)) as Havn.
    { rewrite Nn. rewrite Ne in Hav0. exact (avoids_file_same l e ne _ _ _ Hav0). }
    pose proof (root32_nodes_kept im im' l (c ++ ne :: d) Hg Hl Hframe) as Hkept. fold g in Hkept.
    rewrite !map_app in Hkept. cbn [map] in Hkept. rewrite map_app in Hcd. apply Forall_app in Hcd. destruct Hcd as [Hc1 Hc2].
    specialize (Hkept (proj2 (Forall_app _ _ _) (conj Hc1 (Forall_cons _ Havn Hc2)))).
    exists (map (node_of g im 23) x), (map (node_of g im 23) y), (map (node_of g im 23) c), (map (node_of g im 23) d), ne.
    split; [rewrite map_app; cbn [map]; rewrite Ne; reflexivity|].
    split; [rewrite <- !map_app, E2; reflexivity|].
    split; [rewrite map_app; cbn [map]; rewrite Hkept, Nn; reflexivity|].
    do 5 (split; [assumption|]).
    split. { destruct Hsub as [(a & S1 & S2 & S3 & S4)|(dv & S1 & S2 & S3 & S4 & _)].
             - left. exists a. repeat split; assumption.
             - right. exists dv. repeat split; assumption. }
    cbn [abs_root32 v_root_issues v_labels v_root_chain v_geom].
    do 4 (split; [reflexivity|]). split; [exact Hframe|]. exists (c ++ ne :: d). exact Hok'.
Qed.

(* a failing rename that the model covers (any error but NotEnoughSpace: growth is outside this model) leaves the slots *)
Lemma rename_in_dir_chained_failed_same upper oem cs ss src dst r ss' : len_N ss < 134217728 ->
  rename_in_dir upper oem (Chained cs) 0 ss src dst = (r, ss') -> r <> Ok tt -> is_nospace r = false -> ss' = ss.
Proof.
  intros Hb H Hr Hns. unfold rename_in_dir, lift in H.
  destruct (find_entry upper oem ss src None) as [ev| | |]; try (injection H as _ <-; reflexivity).
  destruct (is_special ev); [injection H as _ <-; reflexivity|].
  assert (forall a, rename_rewrite (Chained cs) 0 ss ev dst a = (r, ss') -> ss' = ss) as Hrw.
  { intros a Ha. unfold rename_rewrite in Ha.
    destruct (write_entry (Chained cs) 0 ss dst (renamed (entry_data ss ev) a)) as [w ss1] eqn:W.
    destruct (write_entry_cases (Chained cs) 0 ss dst (renamed (entry_data ss ev) a) Hb)
      as [(rg & s2 & C)|[(x & _ & C)|[(C & _)|(cs' & p & pre & mid & post & j & _ & _ & _ & _ & _ & _ & C)]]].
    - rewrite C in W. injection W as <- _. cbn [lift] in Ha. injection Ha as <- _. exfalso. apply Hr. reflexivity.
    - rewrite C in W. injection W as <- <-. destruct x; cbn [lift] in Ha; injection Ha as _ <-; reflexivity.
    - discriminate C.
    - rewrite C in W. injection W as <- _. cbn [lift] in Ha. injection Ha as <- _. discriminate Hns. }
  destruct (check_for_existence upper oem ss dst None) as [[dv|a]| | |]; try (injection H as _ <-; reflexivity).
  - destruct (negb (Lfn.ev_end ev =? Lfn.ev_end dv)); [injection H as _ <-; reflexivity|].
    destruct (has_exact_name ev dst); [injection H as _ <-; reflexivity|].
    destruct (other_match upper oem ss ev dst) as [[|]| | |]; try (injection H as _ <-; reflexivity). exact (Hrw _ H).
  - exact (Hrw _ H).
Qed.

Theorem vol32_root_rename_failed_unchanged upper oem im l es ls src dst r im' :
  root32_ok im l es ls -> vol32_root_rename upper oem im src dst = Some (r, im') -> r <> Ok tt ->
  forall o, img_get im' o = img_get im o.
Proof.
  intros Hok H Hr o. set (g := parse_geom im) in *.
  pose proof (fat32_slot_geom g (r32_geom _ _ _ _ Hok)) as Hsg. pose proof (root32_chain_ok im l es ls Hok) as Hl. fold g in Hl.
  destruct (vol32_rename_inv upper oem im l src dst _ im' (r32_chain _ _ _ _ Hok) H) as (Hr' & Hns & -> & _). fold g in Hr' |- *.
  destruct (rename_in_dir upper oem (Chained (cluster_slots g)) 0 (chain_dir_slots g im l) src dst) as [r0 ss'] eqn:E.
  cbn [fst snd] in *. subst r0.
  rewrite (rename_in_dir_chained_failed_same _ _ _ _ _ _ _ _ (chain_len_bound_sg g im l Hsg (r32_small _ _ _ _ Hok)) E Hr Hns).
  apply put_chain_slots_same_sg; assumption.
Qed.

(* ================================================================ 5. the write-back of a file's entry in the root *)

Import Model.FileM Model.VolSession.

(* the record the library serialises (Model/VolSession.sess_entry) *)
Lemma sess_entry_flushed g h k se b ed sz : h_entry h = Some ed -> ed_size ed = Some sz ->
  sess_entry g h {| en_slot := k; en_data := se; en_tdirty := b |} = flushed_entry g se (ed_first ed) sz.
Proof. intros H1 H2. unfold sess_entry, flushed_entry. rewrite H1. cbn [en_data]. rewrite H2. reflexivity. Qed.

(* THE TWO FIRST-CLUSTER WORDS.  On FAT32 the record carries the first cluster in both words, whatever the slot held before:
   a first cluster >= 0x10000 gets its high word; clearing the first cluster (truncate to 0) or lowering it below 0x10000 CLEARS
   the high word.  On FAT12/16 the high word of the slot is left as it was (and ignored by every reader). *)
Lemma flushed_entry_words32 g se fc sz : is32 g = true ->
  let n := match fc with Some c => c | None => 0 end in
  se_first_cluster_hi (flushed_entry g se fc sz) = (n / 65536) mod 65536 /\
  se_first_cluster_lo (flushed_entry g se fc sz) = n mod 65536 /\ se_size (flushed_entry g se fc sz) = sz.
Proof. intros H. unfold flushed_entry, sfn_set_size, sfn_set_first. rewrite H. cbn [se_first_cluster_hi se_first_cluster_lo se_size]. repeat split. Qed.

Corollary flushed_entry_clears_high g se fc sz : is32 g = true ->
  (fc = None \/ exists c, fc = Some c /\ c < 65536) -> se_first_cluster_hi (flushed_entry g se fc sz) = 0.
Proof.
  intros H Hc. destruct (flushed_entry_words32 g se fc sz H) as [-> _]. destruct Hc as [->|(c & -> & Hc)]; [reflexivity|].
  rewrite (N.div_small c 65536 Hc). reflexivity.
Qed.

Lemma flushed_entry_words16 g se fc sz : is32 g = false ->
  se_first_cluster_hi (flushed_entry g se fc sz) = se_first_cluster_hi se.
Proof. intros H. unfold flushed_entry, sfn_set_size, sfn_set_first. rewrite H. reflexivity. Qed.

Lemma is32_fat32 g : fat32_geom g -> is32 g = true.
Proof. intros Hg. unfold is32. rewrite (f32_bits g Hg). reflexivity. Qed.

Lemma words_join n : n < 4294967296 -> (n / 65536) mod 65536 * 65536 + n mod 65536 = n.
Proof. intros H. lia. Qed.

(* the decoded slot, field by field *)
Lemma slot_decode_file_inv s se : slot_decode s = SFile se ->
  se_name se = firstn 11 s /\ se_attrs se = byte_at s 11 mod 64.
Proof.
  unfold slot_decode. destruct (N.land (attrs_truncate (byte_at s 11)) ATTR_LFN =? ATTR_LFN); [discriminate|].
  intros H. injection H as <-. cbn [se_name se_attrs]. unfold attrs_truncate. split; reflexivity.
Qed.

(* FLUSH of the entry of a file of the FAT32 root.  The root decodes to es1 ++ e :: es2 without issue; [e] is a plain file
   whose short slot holds bytes (< 256) with sane attribute bits; the handle's editor holds the first cluster [ed_first] (a u32)
   and the size [sz].  After the write-back the decoder finds the same entries, with [e] replaced by an entry [e'] of the same
   names, attributes and slots whose first cluster - read from BOTH words - is the editor's (0 for None: both words zero) and
   whose size is the editor's; its node is the file whose chain the decoder follows from that cluster in the (untouched) FAT;
   every other node as before; only bytes of that one slot, inside the root chain, may have changed. *)
Theorem vol32_root_flush_entry_decodes im l ls es1 e es2 h ed sz im' :
  root32_ok im l (es1 ++ e :: es2) ls -> Forall (avoids l) (v_root (abs im)) ->
  e_is_dir e = false -> e_is_dot e = false ->
  bytes_ok (nth (N.to_nat (e_sfn_slot e)) (chain_dir_slots (parse_geom im) im l) []) ->
  byte_at (nth (N.to_nat (e_sfn_slot e)) (chain_dir_slots (parse_geom im) im l) []) 11 < 64 ->
  h_entry h = Some ed -> ed_size ed = Some sz -> sz < 4294967296 ->
  (forall c, ed_first ed = Some c -> c < 4294967296) ->
  vol32_root_flush_entry im (e_sfn_slot e) h = Some im' ->
  exists e' se',
    e_cluster e' = (match ed_first ed with Some c => c | None => 0 end) /\ e_size e' = sz /\
    e_lfn e' = e_lfn e /\ e_lfn_ok e' = e_lfn_ok e /\ e_sfn e' = e_sfn e /\ e_attr e' = e_attr e /\
    e_first_slot e' = e_first_slot e /\ e_sfn_slot e' = e_sfn_slot e /\
    root32_ok im' l (es1 ++ e' :: es2) ls /\
    nth (N.to_nat (e_sfn_slot e)) (chain_dir_slots (parse_geom im) im' l) [] = sfn_encode se' /\
    se_first_cluster_hi se' = ((match ed_first ed with Some c => c | None => 0 end) / 65536) mod 65536 /\
    se_first_cluster_lo se' = (match ed_first ed with Some c => c | None => 0 end) mod 65536 /\
    v_root (abs im') = map (node_of (parse_geom im) im 23) es1
                       ++ NFile e' (file_chain (parse_geom im) im e') (file_content (parse_geom im) im' e')
                       :: map (node_of (parse_geom im) im 23) es2 /\
    ((forall l', file_chain (parse_geom im) im e' = Some l' -> forall x, In x l' -> ~ In x l) ->
     file_content (parse_geom im) im' e' = file_content (parse_geom im) im e') /\
    v_labels (abs im') = v_labels (abs im) /\ v_root_issues (abs im') = [] /\ v_root_chain (abs im') = Some l /\
    chain_frame im im' l /\
    (forall o, img_get im' o <> img_get im o ->
       exists i s j, (i < length l)%nat /\ (s < cluster_slots (parse_geom im))%nat /\ (j < 32)%nat /\
         o = g_cluster_off (parse_geom im) (nth i l 0) + N.of_nat (32 * s + j) /\
         (cluster_slots (parse_geom im) * i + s)%nat = N.to_nat (e_sfn_slot e)).
Proof.
  intros Hok Hav Hdir Hdot Hby H11 Hh Hsz Hszb Hfc H. set (g := parse_geom im) in *.
  pose proof (r32_geom _ _ _ _ Hok) as Hg. fold g in Hg. pose proof (fat32_slot_geom g Hg) as Hsg.
  pose proof (root32_chain_ok im l _ ls Hok) as Hl. fold g in Hl.
  pose proof (r32_scan _ _ _ _ Hok) as Hscan. fold g in Hscan.
  unfold vol32_root_flush_entry in H. rewrite (r32_chain _ _ _ _ Hok) in H. cbv zeta in H. fold g in H.
  destruct (VolSessionProofs.dir_scan_rewrite true _ 0 [] _ _ _ Hscan es1 e es2 eq_refl) as (k & pk & Hk & Hslot & He & Hrw).
  assert (N.to_nat (e_sfn_slot e) = k) as Hkk by lia. rewrite Hkk in *.
  set (ss := chain_dir_slots g im l) in *. set (s := nth k ss []) in *.
  destruct (slot_decode s) as [se|le] eqn:Hdec; [|discriminate]. injection H as <-.
  rewrite (sess_entry_flushed g h _ se false ed sz Hh Hsz).
  set (se' := flushed_entry g se (ed_first ed) sz). set (n := match ed_first ed with Some c => c | None => 0 end) in *.
  pose proof (proj1 (chain_dir_shape_sg g im l Hsg)) as Hsh0. fold ss in Hsh0.
  assert (length s = 32%nat) as Hs32.
  { destruct Hsh0 as [_ S2]. rewrite Forall_forall in S2. apply S2. apply nth_In. exact Hk. }
  destruct (slot_decode_file_inv s se Hdec) as [Dn Da]. rewrite (N.mod_small _ _ H11) in Da.
  assert (length (se_name se) = 11%nat) as Ln by (rewrite Dn, firstn_length; lia).
  destruct (flushed_entry_words32 g se (ed_first ed) sz (is32_fat32 g Hg)) as (Whi & Wlo & Wsz). fold se' n in Whi, Wlo, Wsz.
  assert (se_name se' = se_name se /\ se_attrs se' = se_attrs se) as [Nn Na] by (split; reflexivity).
  assert (n < 4294967296) as Hn by (unfold n; destruct (ed_first ed) as [c|]; [apply Hfc; reflexivity|lia]).
  assert (sfn_fields_ok se') as Hfo.
  { pose proof (decoded_fields_ok s se Hby Hdec (se_name se) Ln) as [f1 f2 f3 f4 f5 f6 f7 f8 f9 f10 f11 f12].
    cbn [renamed se_name se_attrs se_reserved_0 se_create_time_0 se_create_time_1 se_create_date se_access_date
         se_first_cluster_hi se_modify_time se_modify_date se_first_cluster_lo se_size] in *.
    constructor; try assumption; try (rewrite Whi; lia); try (rewrite Wlo; lia); try (rewrite Wsz; exact Hszb). }
  assert (firstn 12 (sfn_encode se') = firstn 12 s) as Hf12.
  { destruct (VolSessionProofs.sfn_encode_readback se' ltac:(rewrite Nn; exact Ln)) as (R1 & _). cbv zeta in R1.
    rewrite R1, Nn, Na, Dn, Da. symmetry. apply VolSessionProofs.firstn_12_split. exact Hs32. }
  pose proof (Hrw (sfn_encode se') Hf12) as Hscan'. fold ss in Hscan'.
  assert (len32 (sfn_encode se')) as Hl32.
  { destruct (VolSessionProofs.sfn_encode_readback se' ltac:(rewrite Nn; exact Ln)) as (_ & _ & _ & R4). exact R4. }
  pose proof (set_nth_shape _ _ Hl32 ss k Hsh0) as Hsh.
  set (e' := mk_entry pk (sfn_encode se') (0 + N.of_nat k) true) in *.
  destruct (abs_put_root32 im l _ ls _ (es1 ++ e' :: es2) ls Hok Hsh Hscan') as (Hframe & Hok' & Habs'). fold g in Hframe, Habs'.
  set (im' := put_chain_slots g im l (set_nth k (sfn_encode se') ss)) in *.
  destruct (mk_entry_fields pk se' (0 + N.of_nat k) true Hfo) as (_ & _ & _ & _ & _ & _ & _ & _ & _ & Fc & Fs & _). cbv zeta in Fc, Fs.
  fold e' in Fc, Fs.
  destruct (VolSessionProofs.mk_entry_same_id pk s (sfn_encode se') (0 + N.of_nat k) true Hf12) as (I1 & I2 & I3 & I4 & I5 & I6).
  cbv zeta in I1, I2, I3, I4, I5, I6. fold e' in I1, I2, I3, I4, I5, I6. rewrite <- He in I1, I2, I3, I4, I5, I6.
  exists e', se'.
  split; [rewrite Fc, Whi, Wlo; exact (words_join n Hn)|]. split; [rewrite Fs; exact Wsz|].
  do 6 (split; [assumption|]). split; [exact Hok'|].
  split. { unfold im'. rewrite (chain_dir_put_sg g im l _ Hsg Hl Hsh). rewrite VolSessionProofs.nth_set_nth by exact Hk. rewrite Nat.eqb_refl. reflexivity. }
  split; [exact Whi|]. split; [exact Wlo|].
  pose proof (root32_abs im l _ ls Hok) as Habs. fold g in Habs.
  rewrite Habs in Hav |- *. rewrite Habs'. rewrite v_root_abs_root32 in Hav. rewrite !v_root_abs_root32.
  rewrite map_app in Hav. cbn [map] in Hav. apply Forall_app in Hav. destruct Hav as [Hav1 Hav2]. pose proof (Forall_inv_tail Hav2) as Hav3.
  pose proof (root32_nodes_kept im im' l es1 Hg Hl Hframe Hav1) as K1. pose proof (root32_nodes_kept im im' l es2 Hg Hl Hframe Hav3) as K2.
  fold g in K1, K2.
  destruct (chain_frame_reads32 im im' l Hsg Hl Hframe) as [Hbelow Hother]. fold g in Hbelow, Hother.
  assert (e_is_dot e' = false) as Hdot' by (unfold e_is_dot in *; rewrite I3; exact Hdot).
  assert (e_is_dir e' = false) as Hdir' by (unfold e_is_dir in *; rewrite I4; exact Hdir).
  assert (file_chain g im' e' = file_chain g im e') as Hfc'
    by (unfold file_chain; rewrite (chain_from_below32 g im im' Hg Hbelow); reflexivity).
  split.
  { rewrite map_app. cbn [map]. rewrite K1, K2, (node_of_file g im' 23 e' Hdot' Hdir'), Hfc'. reflexivity. }
  split.
  { intros Havd. unfold file_content. rewrite Hfc'. destruct (file_chain g im e') as [l'|] eqn:Efc; [|reflexivity].
    rewrite (chain_bytes_avoid g l im im' l' Hother); [reflexivity| |exact (Havd l' eq_refl)].
    unfold file_chain in Efc. destruct (e_cluster e' =? 0); [discriminate|]. exact (chain_from_ge2 g im _ _ _ Efc). }
  cbn [abs_root32 v_labels v_root_issues v_root_chain].
  do 3 (split; [reflexivity|]). split; [exact Hframe|].
  intros o Hne. destruct (put_chain_slots_changes_sg g im l _ o Hsg Hl Hsh Hne) as (i & s0 & j & Hi & Hs0 & Hj & Ho & Hd).
  exists i, s0, j. do 4 (split; [assumption|]). fold ss in Hd.
  destruct (Nat.eq_dec (cluster_slots g * i + s0) k) as [E|E]; [exact E|]. exfalso. apply Hd.
  rewrite VolSessionProofs.nth_set_nth by exact Hk. apply Nat.eqb_neq in E. rewrite E. reflexivity.
Qed.
