(* CrossProofs.v: theorems that tie the MODEL of the library's readers/writers to the independent
   SPECIFICATION decoder (Spec/Abs.v), and confinement corollaries used by C04, C08, C11, C13. *)
From Coq Require Import NArith ZArith Lia List Bool.
From FatVerif Require Import Model.Base Model.Slot Model.Table Model.Fat Model.Name Model.Flags Model.Offsets
  Spec.Image Spec.Abs Proofs.FatProofs Proofs.FlagsProofs Proofs.OffsetsProofs.
Open Scope N_scope.

(* ---------------------------------------------------------------- FAT values: every raw entry value is
   classified the same way by the library (table.rs get) and by the specification decoder: any legal
   end-of-chain marker, the bad-cluster mark, free, link *)
Definition fatv_of (v : fatval) : fatv :=
  match v with FFree => Free | FBad => Bad | FEoc => Eoc | FNext n => Data n end.

Theorem classify12_agrees g v : g_bits g = 12 -> fatv_of (fat_classify g v) = classify12 v.
Proof.
  intros Hb. unfold fat_classify, classify12. rewrite Hb. cbn [N.eqb Pos.eqb].
  change (4095 - 8) with 4087. change (4095 - 7) with 4088.
  destruct (v =? 0); [reflexivity|]. destruct (v =? 4087); [reflexivity|]. destruct (4088 <=? v); reflexivity.
Qed.

Theorem classify16_agrees g v : g_bits g = 16 -> fatv_of (fat_classify g v) = classify16 v.
Proof.
  intros Hb. unfold fat_classify, classify16. rewrite Hb. cbn [N.eqb Pos.eqb].
  change (65535 - 8) with 65527. change (65535 - 7) with 65528.
  destruct (v =? 0); [reflexivity|]. destruct (v =? 65527); [reflexivity|]. destruct (65528 <=? v); reflexivity.
Qed.

(* FAT32: for every cluster number a volume can have (the library treats the cluster NUMBERS 0x0FFFFFF7.. specially) *)
Theorem classify32_agrees g c v : g_bits g = 32 -> c < 268435447 -> fatv_of (fat_classify g v) = classify32 c v.
Proof.
  intros Hb Hc. unfold fat_classify, classify32, special32. rewrite Hb. cbn [N.eqb Pos.eqb].
  change (268435455 - 8) with 268435447. change (268435455 - 7) with 268435448.
  assert ((268435447 <=? c) = false) as -> by (apply N.leb_gt; exact Hc). cbn [andb].
  destruct (v =? 0); [reflexivity|]. destruct (v =? 268435447); [reflexivity|]. destruct (268435448 <=? v); reflexivity.
Qed.

(* ---------------------------------------------------------------- short names: ShortName::new (library) renders an
   11-byte name exactly as the specification does (padding stripped from both parts, dot only with an extension,
   0x05 lead byte standing for 0xE5) *)
Lemma firstn_rtrim l : firstn (rtrim_len l) l = rstrip_spaces l.
Proof.
  induction l as [|x r IH]; [reflexivity|]. cbn [rtrim_len rstrip_spaces]. unfold SFN_PADDING in *.
  destruct (rtrim_len r) as [|k] eqn:Ek.
  - cbn [firstn] in IH. rewrite <- IH.
    destruct (x =? 32); cbn [andb firstn]; reflexivity.
  - rewrite <- IH. destruct r as [|y r']; [cbn [rtrim_len] in Ek; discriminate|].
    cbn [firstn]. rewrite andb_false_r. reflexivity.
Qed.

Lemma rtrim_zero l : rtrim_len l = O <-> rstrip_spaces l = [].
Proof.
  rewrite <- firstn_rtrim. split.
  - intros ->. reflexivity.
  - destruct (rtrim_len l) as [|k] eqn:E; [reflexivity|].
    destruct l as [|x r]; [cbn [rtrim_len] in E; discriminate|]. cbn [firstn]. discriminate.
Qed.

Theorem short_name_render_agrees raw : length raw = 11%nat -> short_name_string raw = sfn_render raw.
Proof.
  intros Hl. unfold short_name_string, sfn_render.
  assert (firstn 3 (skipn 8 raw) = skipn 8 raw) as E3.
  { apply firstn_all2. rewrite skipn_length. lia. }
  rewrite E3.
  assert (firstn (rtrim_len (firstn 8 raw)) raw = rstrip_spaces (firstn 8 raw)) as Eb.
  { rewrite <- firstn_rtrim. rewrite firstn_firstn.
    assert (rtrim_len (firstn 8 raw) <= 8)%nat as Hle.
    { assert (forall l, (rtrim_len l <= length l)%nat) as H.
      { induction l as [|x r IH]; cbn [rtrim_len length]; [lia|]. destruct (rtrim_len r); [destruct (x =? SFN_PADDING)|]; lia. }
      specialize (H (firstn 8 raw)). rewrite firstn_length in H. lia. }
    rewrite Nat.min_l by exact Hle. reflexivity. }
  rewrite Eb. rewrite firstn_rtrim.
  destruct (rtrim_len (skipn 8 raw)) eqn:Ee.
  - assert (rstrip_spaces (skipn 8 raw) = []) as -> by (apply rtrim_zero; exact Ee). rewrite app_nil_r. reflexivity.
  - destruct (rstrip_spaces (skipn 8 raw)) eqn:Er.
    + apply rtrim_zero in Er. lia.
    + reflexivity.
Qed.

(* ---------------------------------------------------------------- confinement (C11) *)
(* an update of FAT entry c changes only bytes inside the FAT copies: [base, base + mirrors*size) *)
Theorem fat_update_inside_fat_copies ft s c v s' a :
  okc_ft ft s c -> fat_set ft s c v = Ok s' ->
  (a < fs_base s \/ fs_base s + N.of_nat (fs_mirrors s) * fs_size s <= a) ->
  img_get (fs_img s') a = img_get (fs_img s) a.
Proof.
  intros Hc E Ha. destruct (fat_set_mirrored ft s c v s' Hc E) as (_ & _ & Hfr & _). apply Hfr.
  intros i Hi.
  assert (entry_off ft c + entry_len ft <= fs_size s) as Hin.
  { destruct ft; cbn [okc_ft entry_off entry_len] in *; unfold okc12, okc16, okc32 in Hc; lia. }
  destruct Ha as [Ha|Ha]; [left; nia|right; nia].
Qed.

(* ---------------------------------------------------------------- read-only use (C13): unmounting a volume on
   which nothing structural happened does not write the status byte *)
Theorem unmount_clean_no_write b : status_writes (set_dirty_flag (st_mount b) false) = 0.
Proof.
  unfold set_dirty_flag, st_mount; cbn [mount_byte current status_writes].
  assert (sf_eqb {| sf_dirty := sf_dirty (sf_decode b) || false; sf_io_error := sf_io_error (sf_decode b) |} (sf_decode b) = true) as ->.
  { rewrite orb_false_r. unfold sf_eqb; cbn [sf_dirty sf_io_error]. rewrite !eqb_reflx. reflexivity. }
  reflexivity.
Qed.
