(* FormatImageProofs.v: the image written by format_volume (Model/FormatImage.v format_image) is the empty volume
   described by the boot sector of Model/Format.v: boot sector and its FAT32 backup, FAT copies, root directory,
   FS-info sector, and nothing else (C06, image level). *)
From Coq Require Import NArith ZArith Lia List Bool.
From FatVerif Require Import Model.Base Model.Slot Model.Table Spec.Image Model.Fat Model.Format Spec.FormatSpec
  Model.FormatImage Spec.FormatImageSpec Proofs.BaseProofs Proofs.ImageProofs Proofs.TableProofs Proofs.FatProofs Proofs.FormatProofs.
From FatVerif Require Spec.Abs.
Import ListNotations.
Open Scope N_scope.
Ltac Zify.zify_post_hook ::= Z.to_euclidean_division_equations.

(* ================================================================== images *)
Lemma repeat_N_length {A} (x : A) n : length (repeat_N x n) = n.
Proof. induction n as [|n IH]; cbn [repeat_N length]; [reflexivity|rewrite IH; reflexivity]. Qed.

Lemma repeat_N_nth {A} (x d : A) n i : (i < n)%nat -> nth i (repeat_N x n) d = x.
Proof.
  revert i. induction n as [|n IH]; intros i H; [lia|]. cbn [repeat_N]. destruct i as [|i]; [reflexivity|].
  cbn [nth]. apply IH. lia.
Qed.

Lemma repeat_N_nth0 n i : nth i (repeat_N 0 n) 0 = 0.
Proof.
  destruct (Nat.lt_ge_cases i n) as [H|H]; [apply repeat_N_nth; exact H|].
  apply nth_overflow. rewrite repeat_N_length. exact H.
Qed.

Lemma zeros_length n : len_N (zeros n) = n.
Proof. unfold len_N, zeros. rewrite repeat_N_length. lia. Qed.

Lemma blist_ok_repeat b n : b < 256 -> blist_ok (repeat_N b n).
Proof.
  intros Hb. induction n as [|n IH]; intros x Hx; cbn [repeat_N] in Hx; [destruct Hx|].
  destruct Hx as [<-|Hx]; [exact Hb|apply IH; exact Hx].
Qed.

(* one lemma for reading a byte after a write *)
Lemma img_get_write im off bs x :
  img_get (img_write im off bs) x =
    if (off <=? x) && (x <? off + len_N bs) then nth (N.to_nat (x - off)) bs 0 else img_get im x.
Proof.
  unfold len_N. destruct ((off <=? x) && (x <? off + N.of_nat (length bs))) eqn:E.
  - apply andb_true_iff in E. destruct E as [E1 E2]. apply N.leb_le in E1. apply N.ltb_lt in E2.
    replace x with (off + N.of_nat (N.to_nat (x - off))) at 1 by lia.
    apply img_write_inside. lia.
  - apply img_write_outside. apply andb_false_iff in E.
    destruct E as [E|E]; [apply N.leb_gt in E; lia|apply N.ltb_ge in E; lia].
Qed.

Lemma img_get_zeros im off n x :
  img_get (write_zeros im off n) x = if (off <=? x) && (x <? off + n) then 0 else img_get im x.
Proof.
  unfold write_zeros. rewrite img_get_write, zeros_length.
  destruct ((off <=? x) && (x <? off + n)); [|reflexivity]. apply repeat_N_nth0.
Qed.

Lemma write_zeros_bytes_ok im off n : bytes_ok im -> bytes_ok (write_zeros im off n).
Proof. intros H. apply img_write_bytes_ok; [exact H|]. apply blist_ok_repeat. lia. Qed.

Lemma img_read_length im n : forall off, length (img_read im off n) = n.
Proof. induction n as [|n IH]; intros off; cbn [img_read length]; [reflexivity|rewrite IH; reflexivity]. Qed.

Lemma img_read_nth im n : forall off i, (i < n)%nat -> nth i (img_read im off n) 0 = img_get im (off + N.of_nat i).
Proof.
  induction n as [|n IH]; intros off i H; [lia|]. cbn [img_read]. destruct i as [|i].
  - cbn [nth]. f_equal. lia.
  - cbn [nth]. rewrite IH by lia. f_equal. lia.
Qed.

Lemma list_eq_nth (a b : list N) : length a = length b -> (forall i, (i < length a)%nat -> nth i a 0 = nth i b 0) -> a = b.
Proof.
  revert b. induction a as [|x a IH]; intros [|y b] Hl H; cbn [length] in *; try lia; [reflexivity|].
  f_equal; [exact (H 0%nat ltac:(lia))|]. apply IH; [lia|]. intros i Hi. exact (H (S i) ltac:(lia)).
Qed.

Lemma img_read_eq im off n bs : length bs = n ->
  (forall i, (i < n)%nat -> img_get im (off + N.of_nat i) = nth i bs 0) -> img_read im off n = bs.
Proof.
  intros Hl H. apply list_eq_nth; [rewrite img_read_length; lia|].
  intros i Hi. rewrite img_read_length in Hi. rewrite img_read_nth by exact Hi. apply H. exact Hi.
Qed.

(* ================================================================== the geometry of an accepted request *)
Record fgeo := { q_bps : N; q_spc : N; q_r : N; q_f : N; q_spf : N; q_rds : N; q_total : N; q_media : N }.

(* whole entries one FAT copy can hold = end_cluster of format_fat *)
Definition entries_of (g : fgeo) (t : Format.fat_type) : N := q_spf g * q_bps g * 8 / bits_per_fat_entry t.

Definition geo_ok (g : fgeo) (t : Format.fat_type) : Prop :=
  In (q_bps g) [512; 1024; 2048; 4096] /\ 1 <= q_spc g <= 128 /\ q_r g = reserved_of t /\ 1 <= q_f g <= 2 /\
  1 <= q_spf g /\ q_rds g <= 4096 /\ (t = Format.Fat32 -> q_rds g = 0) /\
  q_r g + q_f g * q_spf g + q_rds g + q_total g * q_spc g <= 4294967295 /\
  q_total g + 2 <= entries_of g t /\ from_clusters (q_total g) = t /\ q_total g <= max_clusters t /\ q_media g <= 255 /\
  q_spf g * q_bps g <= 4294967295.

Definition if32 (t : Format.fat_type) (a b : N) : N := if fat_type_eqb t Format.Fat32 then a else b.

Record bpb_facts (b : fbpb) (t : Format.fat_type) (g : fgeo) : Prop := {
  bf_bps : fb_bytes_per_sector b = q_bps g;
  bf_spc : fb_sectors_per_cluster b = q_spc g;
  bf_r : fb_reserved_sectors b = q_r g;
  bf_f : fb_fats b = q_f g;
  bf_media : fb_media b = q_media g;
  bf_flags : fb_extended_flags b = 0;
  bf_is32 : fb_is_fat32 b = fat_type_eqb t Format.Fat32;
  bf_spf : fb_sectors_per_fat b = q_spf g;
  bf_backup : fb_backup_boot_sector b = if32 t 6 0;
  bf_fsinfo : fb_fs_info_sector b = if32 t 1 0;
  bf_rootcl : fb_root_dir_first_cluster b = if32 t 2 0;
  bf_rds : fb_root_dir_sectors b = Ok (q_rds g);
  bf_all : fb_sectors_per_all_fats b = Ok (q_f g * q_spf g);
  bf_total : fb_total_clusters b = Ok (q_total g) }.

Lemma le_encode_length n : forall v, length (le_encode n v) = n.
Proof. induction n as [|n IH]; intros v; cbn [le_encode length]; [reflexivity|rewrite IH; reflexivity]. Qed.

Lemma le_encode_ok n : forall v, blist_ok (le_encode n v).
Proof.
  induction n as [|n IH]; intros v x Hx; cbn [le_encode] in Hx; [destruct Hx|].
  destruct Hx as [<-|Hx]; [apply N.mod_lt; discriminate|exact (IH _ _ Hx)].
Qed.

Lemma blist_ok_app a b : blist_ok a -> blist_ok b -> blist_ok (a ++ b).
Proof. intros Ha Hb x Hx. apply in_app_or in Hx. destruct Hx; [apply Ha|apply Hb]; assumption. Qed.

Lemma blist_ok_firstn n l : blist_ok l -> blist_ok (firstn n l).
Proof.
  revert l. induction n as [|n IH]; intros l H x Hx; cbn [firstn] in Hx; [destruct Hx|].
  destruct l as [|y l]; [destruct Hx|]. destruct Hx as [<-|Hx]; [apply H; left; reflexivity|].
  refine (IH l _ x Hx). intros z Hz. apply H. right; exact Hz.
Qed.

Lemma blist_ok_forall l : Forall (fun x => x <= 255) l -> blist_ok l.
Proof. intros H x Hx. rewrite Forall_forall in H. specialize (H x Hx). lia. Qed.

Lemma blist_ok_set_nth l : blist_ok l -> forall i v, v < 256 -> blist_ok (set_nth l i v).
Proof.
  induction l as [|x l IH]; intros H i v Hv; cbn [set_nth]; [exact H|].
  destruct i as [|i].
  - intros y [<-|Hy]; [exact Hv|apply H; right; exact Hy].
  - intros y [<-|Hy]; [apply H; left; reflexivity|].
    refine (IH _ i v Hv y Hy). intros z Hz. apply H. right; exact Hz.
Qed.

Lemma set_nth_length l : forall i v, length (set_nth l i v) = length l.
Proof. induction l as [|x l IH]; intros [|i] v; cbn [set_nth length]; try reflexivity. rewrite IH. reflexivity. Qed.

Lemma blist_ok_literal l : forallb (fun x => x <? 256) l = true -> blist_ok l.
Proof. intros H x Hx. rewrite forallb_forall in H. apply N.ltb_lt. exact (H x Hx). Qed.

(* the serialized boot sector of an accepted request: 512 bytes, all < 256 *)
Lemma serialize_boot_facts b t : length (fb_volume_label b) = 11%nat -> blist_ok (fb_volume_label b) ->
  length (fb_reserved_0 b) = 12%nat -> blist_ok (fb_reserved_0 b) ->
  length (fb_fs_type_label b) = 8%nat -> blist_ok (fb_fs_type_label b) ->
  length (fmt_serialize_boot (format_boot_sector_with b t)) = 512%nat /\
  blist_ok (fmt_serialize_boot (format_boot_sector_with b t)).
Proof.
  intros L1 B1 L2 B2 L3 B3.
  assert (blist_ok (boot_code_129 ++ repeat_N 0 (448 - 129))) as Hbc.
  { apply blist_ok_app; [apply blist_ok_literal; vm_compute; reflexivity|apply blist_ok_repeat; lia]. }
  assert (length (boot_code_129 ++ repeat_N 0 (448 - 129)) = 448%nat) as Lbc.
  { rewrite app_length, repeat_N_length. reflexivity. }
  unfold fmt_serialize_boot, format_boot_sector_with.
  destruct (fat_type_eqb t Format.Fat32); cbn [negb fbs_bootjmp fbs_oem_name fbs_bpb fbs_boot_code fbs_boot_sig].
  - split.
    + unfold fmt_serialize_bpb. destruct (fb_is_fat32 b); repeat rewrite app_length;
        rewrite firstn_length, Lbc, !le_encode_length, L1, ?L2, L3; reflexivity.
    + repeat apply blist_ok_app; try apply le_encode_ok; try assumption;
        try (apply blist_ok_literal; vm_compute; reflexivity).
      * unfold fmt_serialize_bpb. repeat apply blist_ok_app; try apply le_encode_ok; try assumption.
        destruct (fb_is_fat32 b); [|intros x []]. repeat apply blist_ok_app; try apply le_encode_ok; assumption.
      * apply blist_ok_firstn. exact Hbc.
  - split.
    + unfold fmt_serialize_bpb. destruct (fb_is_fat32 b); repeat rewrite app_length;
        rewrite firstn_length, !set_nth_length, Lbc, !le_encode_length, L1, ?L2, L3; reflexivity.
    + repeat apply blist_ok_app; try apply le_encode_ok; try assumption;
        try (apply blist_ok_literal; vm_compute; reflexivity).
      * unfold fmt_serialize_bpb. repeat apply blist_ok_app; try apply le_encode_ok; try assumption.
        destruct (fb_is_fat32 b); [|intros x []]. repeat apply blist_ok_app; try apply le_encode_ok; assumption.
      * apply blist_ok_firstn. apply blist_ok_set_nth; [apply blist_ok_set_nth; [exact Hbc|]|]; apply N.mod_lt; discriminate.
Qed.

Lemma fs_type_label_ok t : length (fs_type_label_of t) = 8%nat /\ blist_ok (fs_type_label_of t).
Proof. destruct t; (split; [reflexivity|apply blist_ok_literal; vm_compute; reflexivity]). Qed.

(* an accepted request: the boot sector is the one of FormatProofs' closed form and the numbers format_volume
   computes from it are these *)
Lemma accepted_geo o ts bs t : builder_range o -> ts < 4294967296 ->
  format_boot_sector_validated o ts = Ok (bs, t) ->
  exists g, geo_ok g t /\ bpb_facts (fbs_bpb bs) t g /\ bs = format_boot_sector_with (fbs_bpb bs) t /\
            length (fmt_serialize_boot bs) = 512%nat /\ blist_ok (fmt_serialize_boot bs) /\
            q_media g = o_media o /\ q_bps g = o_bytes_per_sector o /\ q_f g = o_fats o /\
            q_spf g = sp_fat_size (fbs_bpb bs) /\ q_rds g = sp_root_dir_sectors (fbs_bpb bs) /\
            q_total g = sp_clusters (fbs_bpb bs) /\
            (t <> Format.Fat32 -> o_max_root_dir_entries o <> 0 /\
                                  q_rds g = (o_max_root_dir_entries o * 32 + q_bps g - 1) / q_bps g /\ q_spf g <= 65535).
Proof.
  intros Hb Hts. assert (ts <= 4294967295) as Hts' by lia. rewrite format_eq by assumption. intros H.
  destruct (format_pure_ok_inv _ _ _ _ H) as (spf & Hin & Hspc & Hok & Hspf & Hlate & ->).
  pose proof (try_ok_facts o ts _ t Hb Hts' Hspc Hok) as Hf.
  pose proof (spc_of_pow2 o ts Hb Hts' (proj1 Hspc)) as Hp2.
  pose proof (pow2_le_255 _ Hp2 (proj2 Hspc)) as Hspc128.
  destruct (mk_bpb_clusters o ts _ t Hb Hts' Hspc Hf) as [Hc Hfd].
  pose proof (builder_bps o Hb) as [Hbin Hbps].
  pose proof Hb as (_ & _ & _ & Hroot & Hfats & Hmedia & _ & _ & _ & _ & Hlab).
  destruct Hf as [F1 F2 F3 F4 F5 F6].
  rewrite <- Hspf in *.
  set (spc := spc_of o ts) in *.
  set (rds := rds_of (o_max_root_dir_entries o) (o_bytes_per_sector o) t) in *.
  set (c := clusters_of ts (o_bytes_per_sector o) spc t rds (o_fats o)) in *.
  unfold late_reject, validate_rejects in Hlate. rewrite !orb_false_iff in Hlate.
  destruct Hlate as (L1 & L2 & L3). apply N.ltb_ge in L2.
  rewrite boot_with_bpb.
  exists {| q_bps := o_bytes_per_sector o; q_spc := spc; q_r := reserved_of t; q_f := o_fats o; q_spf := spf;
            q_rds := rds; q_total := c; q_media := o_media o |}.
  pose proof (reserved_of_cases t) as Hr.
  assert (spc * c <= ts - reserved_of t - rds - spf * o_fats o) as Hcs.
  { unfold c, clusters_of. fold rds.
    replace (spf_of ts (o_bytes_per_sector o) spc t rds (o_fats o)) with spf by (rewrite Hspf; reflexivity).
    apply N.mul_div_le. lia. }
  split; [|split; [|split; [reflexivity|]]].
  - unfold geo_ok, entries_of. cbn [q_bps q_spc q_r q_f q_spf q_rds q_total q_media].
    split. { cbn [In]. cbn [In pow2_512_32768] in Hbin. lia. }
    split; [lia|]. split; [reflexivity|]. split; [lia|]. split; [lia|]. split; [lia|].
    split. { intros ->. reflexivity. }
    split. { assert (c * spc = spc * c) by apply N.mul_comm. assert (o_fats o * spf = spf * o_fats o) by apply N.mul_comm. lia. }
    split.
    { replace (spf * o_bytes_per_sector o * 8) with (spf * (o_bytes_per_sector o * 8)) by lia.
      apply (fat_capacity (ts - reserved_of t - rds) spc (o_bytes_per_sector o * 8) (bits_per_fat_entry t) (o_fats o) spf c).
      - lia.
      - destruct t; discriminate.
      - rewrite Hspf. unfold mk_layout, l_sectors_per_fat, spf_of, t2_of. fold rds.
        replace (spc * (o_bytes_per_sector o * 8)) with (spc * o_bytes_per_sector o * 8) by lia. reflexivity.
      - generalize (spc * (o_bytes_per_sector o * 8) / bits_per_fat_entry t). intros x. lia.
      - lia.
      - unfold c, clusters_of. fold rds. rewrite Hspf. reflexivity. }
    split; [symmetry; exact F5|]. split; [exact F6|]. split; [lia|].
    (* one copy of the table is smaller than 4 GiB *)
    destruct (fat_type_eqb t Format.Fat32) eqn:E32.
    + apply fat_type_eqb_eq in E32. subst t. cbn [reserved_of fat_type_eqb max_clusters] in *.
      assert (rds = 0) as Hrds0 by reflexivity. rewrite Hrds0 in *.
      assert (exists K, o_bytes_per_sector o = 4 * K /\ 128 <= K <= 1024) as (K & HK & HKr).
      { exists (o_bytes_per_sector o / 4). cbn [In pow2_512_32768] in Hbin. lia. }
      set (D := ts - 8 - 0) in *.
      assert (spf = (D + 2 * spc + (spc * K + o_fats o) - 1) / (spc * K + o_fats o)) as Hspf'.
      { rewrite Hspf. unfold mk_layout, l_sectors_per_fat, spf_of, t2_of. cbn [reserved_of fat_type_eqb bits_per_fat_entry].
        fold rds. rewrite Hrds0. fold D. rewrite HK.
        replace (spc * (4 * K) * 8) with (spc * K * 32) by lia. rewrite N.div_mul by discriminate. reflexivity. }
      assert ((spc * K + o_fats o) * spf <= D + 2 * spc + (spc * K + o_fats o) - 1) as A.
      { rewrite Hspf' at 1. apply N.mul_div_le. lia. }
      assert (D - spf * o_fats o < spc * c + spc) as Bq.
      { unfold c, clusters_of. cbn [reserved_of fat_type_eqb]. fold rds. rewrite Hrds0. fold D.
        replace (spf_of ts (o_bytes_per_sector o) spc Format.Fat32 0 (o_fats o)) with spf by (rewrite Hspf; reflexivity).
        pose proof (N.div_mod (D - spf * o_fats o) spc ltac:(lia)) as Hdm.
        pose proof (N.mod_lt (D - spf * o_fats o) spc ltac:(lia)) as Hml. lia. }
      assert (spc * (K * spf) <= spc * (c + 3 + K)) as Cq by nia.
      assert (K * spf <= c + 3 + K) as Dq by (apply (N.mul_le_mono_pos_l _ _ spc); [lia|exact Cq]).
      rewrite HK. nia.
    + cbn [negb andb] in L1. apply N.ltb_ge in L1. nia.
  - constructor; cbn [q_bps q_spc q_r q_f q_spf q_rds q_total q_media].
    + reflexivity.
    + reflexivity.
    + reflexivity.
    + reflexivity.
    + reflexivity.
    + reflexivity.
    + apply mk_bpb_is32. lia.
    + apply mk_bpb_spf. lia.
    + reflexivity.
    + reflexivity.
    + reflexivity.
    + apply mk_bpb_rds; lia.
    + unfold fb_sectors_per_all_fats. rewrite mk_bpb_spf by lia. cbn [mk_bpb fb_fats].
      rewrite u32_mul_ok; [reflexivity|]. assert (o_fats o * spf = spf * o_fats o) by apply N.mul_comm. lia.
    + exact Hc.
  - destruct (fs_type_label_ok t) as [Lt Bt].
    assert (length (fb_volume_label (mk_bpb o ts t spc spf)) = 11%nat /\ blist_ok (fb_volume_label (mk_bpb o ts t spc spf))) as [Ll Bl].
    { cbn [mk_bpb fb_volume_label]. destruct (o_volume_label o) as [l|].
      - destruct (Hlab l eq_refl) as [Hl1 Hl2]. split; [exact Hl1|apply blist_ok_forall; exact Hl2].
      - split; [reflexivity|apply blist_ok_literal; vm_compute; reflexivity]. }
    destruct (serialize_boot_facts (mk_bpb o ts t spc spf) t Ll Bl) as [S1 S2];
      try reflexivity; try assumption; try (apply blist_ok_repeat; lia).
    split; [exact S1|]. split; [exact S2|]. cbn [q_media q_bps q_f q_rds q_spf q_total].
    split; [reflexivity|]. split; [reflexivity|]. split; [reflexivity|].
    set (b := mk_bpb o ts t spc spf) in *.
    assert (sp_fat_size b = spf) as T1 by (apply (mk_bpb_spf o ts t spc spf); lia).
    assert (sp_total_sectors b = ts) as T2 by (apply (mk_bpb_ts o ts t spc spf); lia).
    assert (sp_root_dir_sectors b = rds) as T3.
    { unfold sp_root_dir_sectors, b, mk_bpb, rds, rds_of; cbn [fb_root_entries fb_bytes_per_sector].
      destruct (fat_type_eqb t Format.Fat32); [apply N.div_small; lia|]. f_equal. lia. }
    assert (sp_meta_sectors b = reserved_of t + o_fats o * spf + rds) as T4
      by (unfold sp_meta_sectors; rewrite T1, T3; reflexivity).
    assert (sp_clusters b = c) as T5.
    { unfold sp_clusters. rewrite T2, T4. replace (fb_sectors_per_cluster b) with spc by reflexivity.
      unfold c, clusters_of. fold rds.
      replace (spf_of ts (o_bytes_per_sector o) spc t rds (o_fats o)) with spf by (rewrite Hspf; reflexivity).
      f_equal. assert (o_fats o * spf = spf * o_fats o) by apply N.mul_comm. lia. }
    split; [symmetry; exact T1|]. split; [symmetry; exact T3|]. split; [symmetry; exact T5|].
    intros Hne. assert (fat_type_eqb t Format.Fat32 = false) as E32 by (destruct t; try reflexivity; contradiction).
    rewrite E32 in L1, L3. cbn [negb andb] in L1, L3. apply N.ltb_ge in L1. apply N.eqb_neq in L3.
    split; [exact L3|]. split; [|exact L1]. unfold rds, rds_of. rewrite E32. reflexivity.
Qed.

(* ================================================================== FAT stores, uniformly in the width *)
Definition val_ft (ft : Fat.fat_type) (s : fstore) (c : N) : fatv :=
  match ft with Fat.Fat12 => val12 s c | Fat.Fat16 => val16 s c | Fat.Fat32 => val32 s c end.

(* entries format_volume may address: inside one copy and without u32 overflow of the offset arithmetic; unlike
   okc32 of FatProofs this includes the FAT32 cluster numbers 0x0FFFFFF7.. (which only accept EndOfChain / Bad) *)
Definition okc_w (ft : Fat.fat_type) (s : fstore) (c : N) : Prop :=
  match ft with
  | Fat.Fat12 => okc12 s c
  | Fat.Fat16 => okc16 s c
  | Fat.Fat32 => 4 * c + 4 <= fs_size s /\ c < 1073741824
  end.

Lemma okc_ft_w ft s c : okc_ft ft s c -> okc_w ft s c.
Proof. destruct ft; cbn [okc_ft okc_w]; unfold okc32; intros H; try exact H. lia. Qed.

Lemma okc_w_geom ft s s' c : geom_eq s s' -> okc_w ft s c -> okc_w ft s' c.
Proof.
  intros (_ & G & _). destruct ft; cbn [okc_w]; unfold okc12, okc16; rewrite G; exact (fun H => H).
Qed.

(* set32 of a value other than Free, for any cluster number whose offset fits *)
Lemma set32_eq_nf s c v : 4 * c + 4 <= fs_size s -> c < 1073741824 -> v <> Free ->
  set32 s c v = Ok (sw_store s (4 * c) (new32 s c v)).
Proof.
  intros H1 H2 Hv. unfold set32, u32_mul, u32_max.
  destruct (c * 4 <=? 4294967295) eqn:E; [|apply N.leb_gt in E; lia]. cbn [bind].
  replace (c * 4) with (4 * c) by lia.
  destruct (read32_word s c H1) as [-> Hw]. cbn [bind]. rewrite Hw.
  assert ((match v with Free => true | _ => false end) = false) as -> by (destruct v; try reflexivity; contradiction).
  cbn [andb]. apply slice_write_ok. change (len_N _) with 4. lia.
Qed.

Lemma low28_after s c v : (1 <= fs_mirrors s)%nat -> bytes_ok (fs_img s) -> 4 * c + 4 <= fs_size s ->
  Fat.raw32 v < 268435456 -> word32 (sw_store s (4 * c) (new32 s c v)) c mod 268435456 = Fat.raw32 v.
Proof.
  intros Hm Hb H1 Hr. rewrite (word32_after s c v Hm H1). cbv zeta.
  rewrite (merge32 (word32 s c) (Fat.raw32 v) Hr).
  pose proof (word32_lt s c Hb) as Hw.
  set (w := word32 s c) in *. set (r := Fat.raw32 v) in *.
  assert (w / 268435456 * 268435456 + r < 4294967296) as Hx by lia.
  rewrite (u32_word _ Hx). lia.
Qed.

Lemma set32_ok_w s c v : (1 <= fs_mirrors s)%nat -> bytes_ok (fs_img s) -> 4 * c + 4 <= fs_size s -> c < 1073741824 ->
  v = Eoc \/ v = Bad ->
  exists s', set32 s c v = Ok s' /\ geom_eq s s' /\ bytes_ok (fs_img s') /\ val32 s' c = v /\
             (forall c', c' <> c -> 4 * c' + 4 <= fs_size s -> val32 s' c' = val32 s c') /\
             mirrored_write s s' (4 * c) 4.
Proof.
  intros Hm Hb H1 H2 Hv. exists (sw_store s (4 * c) (new32 s c v)).
  assert (v <> Free) as Hnf by (destruct Hv as [-> | ->]; discriminate).
  split; [apply set32_eq_nf; assumption|]. split; [repeat split|].
  split; [apply sw_bytes_ok; [exact Hb|apply u32_bytes_ok]|]. split; [|split].
  - unfold val32. rewrite low28_after; try assumption.
    + destruct Hv as [-> | ->]; cbn [Fat.raw32]; unfold classify32; cbn [N.eqb Pos.eqb N.leb N.compare Pos.compare Pos.compare_cont];
        reflexivity.
    + destruct Hv as [-> | ->]; cbn [Fat.raw32]; lia.
  - intros c' Hne Hc1'. unfold val32, word32.
    assert (4 * c + len_N (new32 s c v) <= fs_size s) as Hlen by (change (len_N _) with 4; lia).
    assert (forall o, o < 4 * c \/ 4 * c + len_N (new32 s c v) <= o <-> o < 4 * c \/ 4 * c + 4 <= o) as Hl
      by (intros o; change (len_N _) with 4; tauto).
    rewrite (sw_ebyte_other s (4 * c) (new32 s c v) (4 * c')) by (try assumption; try apply Hl; lia).
    rewrite (sw_ebyte_other s (4 * c) (new32 s c v) (4 * c' + 1)) by (try assumption; try apply Hl; lia).
    rewrite (sw_ebyte_other s (4 * c) (new32 s c v) (4 * c' + 2)) by (try assumption; try apply Hl; lia).
    rewrite (sw_ebyte_other s (4 * c) (new32 s c v) (4 * c' + 3)) by (try assumption; try apply Hl; lia).
    reflexivity.
  - apply (sw_mirrored s (4 * c) (new32 s c v)); [change (len_N _) with 4; lia|apply u32_bytes_ok].
Qed.

(* writing EndOfChain / Bad into an addressable entry, any width *)
Lemma fat_set_ok_w ft s c v : (1 <= fs_mirrors s)%nat -> bytes_ok (fs_img s) -> okc_w ft s c -> v = Eoc \/ v = Bad ->
  exists s', fat_set ft s c v = Ok s' /\ geom_eq s s' /\ bytes_ok (fs_img s') /\
             val_ft ft s' c = v /\ (forall c', c' <> c -> okc_w ft s c' -> val_ft ft s' c' = val_ft ft s c') /\
             mirrored_write s s' (entry_off ft c) (entry_len ft).
Proof.
  intros Hm Hb Hc Hv. destruct ft; cbn [fat_set okc_w val_ft entry_off entry_len] in *.
  - assert (okv12 v) as Hv' by (destruct Hv as [-> | ->]; exact I).
    destruct (set12_ok s c v Hm Hb Hc Hv') as (s' & E & G & B' & V & F). exists s'.
    split; [exact E|]. split; [exact G|]. split; [exact B'|]. split; [exact V|]. split; [exact F|].
    exact (set12_mirrored s c v s' Hc E).
  - assert (okv16 v) as Hv' by (destruct Hv as [-> | ->]; exact I).
    destruct (set16_ok s c v Hm Hc Hv') as (s' & E & G & Hb' & V & F). exists s'.
    split; [exact E|]. split; [exact G|]. split; [exact (Hb' Hb)|]. split; [exact V|]. split; [exact F|].
    exact (set16_mirrored s c v s' Hc E).
  - destruct Hc as [H1 H2]. destruct (set32_ok_w s c v Hm Hb H1 H2 Hv) as (s' & E & G & B' & V & F & M).
    exists s'. split; [exact E|]. split; [exact G|]. split; [exact B'|]. split; [exact V|]. split; [|exact M].
    intros c' Hne [Hc' _]. apply F; assumption.
Qed.

Lemma val_ft_ext ft s s' c :
  (forall o, entry_off ft c <= o < entry_off ft c + entry_len ft -> ebyte s' o = ebyte s o) ->
  val_ft ft s' c = val_ft ft s c.
Proof.
  intros H. destruct ft; cbn [val_ft entry_off entry_len] in *.
  - unfold val12, raw12_at, word12. rewrite (H (off12 c)), (H (off12 c + 1)) by lia. reflexivity.
  - unfold val16, word16. rewrite (H (2 * c)), (H (2 * c + 1)) by lia. reflexivity.
  - unfold val32, word32. rewrite (H (4 * c)), (H (4 * c + 1)), (H (4 * c + 2)), (H (4 * c + 3)) by lia. reflexivity.
Qed.

Lemma val_ft_zero ft s c : c < 268435447 ->
  (forall o, entry_off ft c <= o < entry_off ft c + entry_len ft -> ebyte s o = 0) -> val_ft ft s c = Free.
Proof.
  intros Hc H. destruct ft; cbn [val_ft entry_off entry_len] in *.
  - unfold val12, raw12_at, word12. rewrite (H (off12 c)), (H (off12 c + 1)) by lia.
    destruct (c mod 2 =? 0); reflexivity.
  - unfold val16, word16. rewrite (H (2 * c)), (H (2 * c + 1)) by lia. reflexivity.
  - unfold val32, word32. rewrite (H (4 * c)), (H (4 * c + 1)), (H (4 * c + 2)), (H (4 * c + 3)) by lia.
    unfold classify32. rewrite (special32_small c Hc). reflexivity.
Qed.

(* an addressable entry lies inside one copy *)
Lemma okc_w_inside ft s c : okc_w ft s c -> entry_off ft c + entry_len ft <= fs_size s.
Proof. destruct ft; cbn [okc_w entry_off entry_len]; unfold okc12, okc16; lia. Qed.

Lemma entry_off_reserved ft c : 2 <= c -> reserved_len ft <= entry_off ft c.
Proof. destruct ft; cbn [reserved_len entry_off]; unfold off12; lia. Qed.

(* a mirrored write changes nothing outside the copies *)
Lemma mw_region s s' off len a : mirrored_write s s' off len -> off + len <= fs_size s ->
  (a < fs_base s \/ fs_base s + N.of_nat (fs_mirrors s) * fs_size s <= a) ->
  img_get (fs_img s') a = img_get (fs_img s) a.
Proof.
  intros (_ & _ & Hfr & _) Hl Ha. apply Hfr. intros i Hi.
  pose proof (mul_lt_step i (N.of_nat (fs_mirrors s)) (fs_size s) Hi) as Hm. lia.
Qed.

(* ... and nothing in the reserved leading bytes of any copy when the entry lies behind them *)
Lemma mw_reserved_kept s s' off len k i o : mirrored_write s s' off len -> off + len <= fs_size s -> k <= off ->
  i < N.of_nat (fs_mirrors s) -> o < k -> copy_byte s' i o = copy_byte s i o.
Proof.
  intros ((G1 & G2 & G3) & _ & Hfr & _) Hl Hk Hi Ho. unfold copy_byte. rewrite G1, G2. apply Hfr. intros j Hj.
  destruct (N.lt_trichotomy j i) as [Hlt|[->|Hgt]].
  - right. pose proof (mul_lt_step j i (fs_size s) Hlt). lia.
  - left. lia.
  - left. pose proof (mul_lt_step i j (fs_size s) Hgt). lia.
Qed.

Definition outside_fat (s : fstore) (a : N) : Prop :=
  a < fs_base s \/ fs_base s + N.of_nat (fs_mirrors s) * fs_size s <= a.

Lemma geom_eq_refl s : geom_eq s s.
Proof. repeat split. Qed.
Lemma geom_eq_trans a b c : geom_eq a b -> geom_eq b c -> geom_eq a c.
Proof. intros (A1 & A2 & A3) (B1 & B2 & B3). unfold geom_eq. rewrite B1, B2, B3. repeat split; assumption. Qed.

Lemma outside_fat_geom s s' a : geom_eq s s' -> outside_fat s a -> outside_fat s' a.
Proof. intros (G1 & G2 & G3). unfold outside_fat. rewrite G1, G2, G3. exact (fun H => H). Qed.

(* the loops of format_fat (v = EndOfChain / Bad): entries c .. c+n-1 become v, every other entry keeps its value, the
   reserved bytes of every copy, the equality of the copies and everything outside the copies are kept *)
Lemma fill_entries_spec ft v : v = Eoc \/ v = Bad -> forall n s c,
  (1 <= fs_mirrors s)%nat -> bytes_ok (fs_img s) -> 2 <= c ->
  (forall x, c <= x < c + N.of_nat n -> okc_w ft s x) ->
  exists s', fill_entries ft s c n v = Ok s' /\ geom_eq s s' /\ bytes_ok (fs_img s') /\
    (copies_equal s -> copies_equal s') /\
    (forall x, c <= x < c + N.of_nat n -> val_ft ft s' x = v) /\
    (forall x, okc_w ft s x -> ~ (c <= x < c + N.of_nat n) -> val_ft ft s' x = val_ft ft s x) /\
    (forall i o, i < N.of_nat (fs_mirrors s) -> o < reserved_len ft -> copy_byte s' i o = copy_byte s i o) /\
    (forall a, outside_fat s a -> img_get (fs_img s') a = img_get (fs_img s) a).
Proof.
  intros Hv. induction n as [|n IH]; intros s c Hm Hb Hc Hok; cbn [fill_entries].
  - exists s. split; [reflexivity|]. split; [apply geom_eq_refl|]. split; [exact Hb|]. split; [exact (fun H => H)|].
    split; [intros x Hx; lia|]. repeat split; reflexivity.
  - assert (okc_w ft s c) as Hcc by (apply Hok; lia).
    destruct (fat_set_ok_w ft s c v Hm Hb Hcc Hv) as (s1 & E1 & G1 & Hb1 & Hv1 & Hfr1 & Hmw).
    rewrite E1. cbn [bind].
    pose proof G1 as (Ga & Gb & Gc).
    destruct (IH s1 (c + 1)) as (s' & E' & G' & Hb' & Hce' & Hin' & Hout' & Hres' & Hfr').
    { rewrite Gc. exact Hm. } { exact Hb1. } { lia. }
    { intros x Hx. apply (okc_w_geom ft s s1 x G1). apply Hok. lia. }
    exists s'. split; [exact E'|]. split; [exact (geom_eq_trans _ _ _ G1 G')|]. split; [exact Hb'|].
    split. { intros H. apply Hce'. destruct Hmw as (_ & _ & _ & Hce & _). apply Hce. exact H. }
    split.
    { intros x Hx. destruct (N.eq_dec x c) as [->|Hne].
      - rewrite Hout'; [exact Hv1|apply (okc_w_geom ft s s1 c G1); exact Hcc|lia].
      - apply Hin'. lia. }
    split.
    { intros x Hxo Hx. rewrite Hout'; [|apply (okc_w_geom ft s s1 x G1); exact Hxo|lia].
      apply Hfr1; [lia|exact Hxo]. }
    split.
    { intros i o Hi Ho. rewrite Hres' by (try rewrite Gc; assumption).
      apply (mw_reserved_kept s s1 _ _ (reserved_len ft) i o Hmw); try assumption.
      - apply okc_w_inside. exact Hcc.
      - apply entry_off_reserved. exact Hc. }
    intros a Ha. rewrite Hfr' by (apply (outside_fat_geom s s1 a G1); exact Ha).
    apply (mw_region s s1 _ _ a Hmw); [apply okc_w_inside; exact Hcc|exact Ha].
Qed.

(* ------------------------------------------------------------------ one raw write through the slice *)
Lemma slice_write_step s off bs : off + len_N bs <= fs_size s -> blist_ok bs -> (1 <= fs_mirrors s)%nat ->
  slice_write s off bs = Ok (sw_store s off bs) /\ geom_eq s (sw_store s off bs) /\
  (bytes_ok (fs_img s) -> bytes_ok (fs_img (sw_store s off bs))) /\
  (copies_equal s -> copies_equal (sw_store s off bs)) /\
  (forall j, (j < length bs)%nat -> ebyte (sw_store s off bs) (off + N.of_nat j) = nth j bs 0) /\
  (forall o, o < fs_size s -> o < off \/ off + len_N bs <= o -> ebyte (sw_store s off bs) o = ebyte s o) /\
  (forall a, outside_fat s a -> img_get (fs_img (sw_store s off bs)) a = img_get (fs_img s) a).
Proof.
  intros Hl Hb Hm. pose proof (sw_mirrored s off bs Hl Hb) as Hmw.
  split; [apply slice_write_ok; exact Hl|]. split; [apply Hmw|]. split; [apply Hmw|]. split; [apply Hmw|].
  split; [intros j Hj; apply sw_ebyte_at; assumption|].
  split; [intros o Ho Hout; apply sw_ebyte_other; assumption|].
  intros a Ha. exact (mw_region s _ off (len_N bs) a Hmw Hl Ha).
Qed.

Definition reserved_bytes (t : Format.fat_type) (media : N) : list N :=
  match t with
  | Format.Fat12 => [media; 255; 255]
  | Format.Fat16 => [media; 255; 255; 255]
  | Format.Fat32 => [media; 255; 255; 15; 255; 255; 255; 255]
  end.

Lemma lor_media_16 m : m <= 255 -> u16_bytes (N.lor m 65280) = [m; 255].
Proof.
  intros H. rewrite N.lor_comm. change 65280 with (255 * 2 ^ 8). rewrite lor_mul_pow2_add by (change (2 ^ 8) with 256; lia).
  change (2 ^ 8) with 256. unfold u16_bytes. f_equal; [lia|]. f_equal. lia.
Qed.

Lemma lor_media_32 m : m <= 255 -> u32_bytes (N.lor m 268435200) = [m; 255; 255; 15].
Proof.
  intros H. rewrite N.lor_comm. change 268435200 with (1048575 * 2 ^ 8).
  rewrite lor_mul_pow2_add by (change (2 ^ 8) with 256; lia).
  change (2 ^ 8) with 256. unfold u32_bytes. f_equal; [lia|]. f_equal; [lia|]. f_equal; [lia|]. f_equal. lia.
Qed.

Lemma nat_lt_cases3 (P : nat -> Prop) : P 0%nat -> P 1%nat -> P 2%nat -> forall j, (j < 3)%nat -> P j.
Proof. intros. destruct j as [|[|[|j]]]; try assumption; lia. Qed.

(* the two reserved entries: the first reserved_len bytes of every copy become reserved_bytes, nothing else changes *)
Lemma write_reserved_spec t s media : media <= 255 -> (1 <= fs_mirrors s)%nat ->
  reserved_len (to_fat_type t) <= fs_size s -> bytes_ok (fs_img s) ->
  exists s', write_reserved_entries t s media = Ok s' /\ geom_eq s s' /\ bytes_ok (fs_img s') /\
    (copies_equal s -> copies_equal s') /\
    (forall j, (j < length (reserved_bytes t media))%nat -> ebyte s' (N.of_nat j) = nth j (reserved_bytes t media) 0) /\
    (forall o, reserved_len (to_fat_type t) <= o < fs_size s -> ebyte s' o = ebyte s o) /\
    (forall a, outside_fat s a -> img_get (fs_img s') a = img_get (fs_img s) a).
Proof.
  intros Hmed Hm Hsz Hb.
  assert (forall (l1 l2 : list N) (k : N), blist_ok l1 -> blist_ok l2 -> k = len_N l1 -> k + len_N l2 <= fs_size s ->
    exists s', (do s1 <- slice_write s 0 l1; slice_write s1 k l2) = Ok s' /\ geom_eq s s' /\ bytes_ok (fs_img s') /\
      (copies_equal s -> copies_equal s') /\
      (forall j, (j < length (l1 ++ l2))%nat -> ebyte s' (N.of_nat j) = nth j (l1 ++ l2) 0) /\
      (forall o, k + len_N l2 <= o < fs_size s -> ebyte s' o = ebyte s o) /\
      (forall a, outside_fat s a -> img_get (fs_img s') a = img_get (fs_img s) a)) as Two.
  { intros l1 l2 k B1 B2 -> Hk.
    destruct (slice_write_step s 0 l1 ltac:(lia) B1 Hm) as (E1 & G1 & Hb1 & Hc1 & Hin1 & Hout1 & Hfr1).
    set (s1 := sw_store s 0 l1) in *. pose proof G1 as (Ga & Gb & Gc).
    destruct (slice_write_step s1 (len_N l1) l2 ltac:(rewrite Gb; lia) B2 ltac:(rewrite Gc; exact Hm))
      as (E2 & G2 & Hb2 & Hc2 & Hin2 & Hout2 & Hfr2).
    set (s2 := sw_store s1 (len_N l1) l2) in *.
    exists s2. rewrite E1. cbn [bind]. split; [exact E2|]. split; [exact (geom_eq_trans _ _ _ G1 G2)|].
    split; [exact (Hb2 (Hb1 Hb))|]. split; [exact (fun H => Hc2 (Hc1 H))|]. split; [|split].
    - intros j Hj. rewrite app_length in Hj. destruct (Nat.lt_ge_cases j (length l1)) as [Hlt|Hge].
      + rewrite app_nth1 by exact Hlt. rewrite Hout2; [|rewrite Gb; unfold len_N in *; lia|unfold len_N; lia].
        rewrite <- (Hin1 j Hlt). f_equal.
      + rewrite app_nth2 by exact Hge. rewrite <- (Hin2 (j - length l1)%nat) by lia. f_equal. unfold len_N. lia.
    - intros o Ho. rewrite Hout2; [|rewrite Gb; lia|lia]. apply Hout1; [lia|unfold len_N in *; lia].
    - intros a Ha. rewrite Hfr2 by (apply (outside_fat_geom s s1 a G1); exact Ha). apply Hfr1. exact Ha. }
  destruct t; cbn [write_reserved_entries reserved_bytes to_fat_type reserved_len] in *.
  - apply (Two [media] (u16_bytes 65535) 1); [intros x [<-|[]]; lia|apply u16_bytes_ok|reflexivity|change (len_N _) with 2; lia].
  - rewrite (lor_media_16 media Hmed).
    apply (Two [media; 255] (u16_bytes 65535) 2); [intros x [<-|[<-|[]]]; lia|apply u16_bytes_ok|reflexivity|change (len_N _) with 2; lia].
  - rewrite (lor_media_32 media Hmed).
    apply (Two [media; 255; 255; 15] (u32_bytes 4294967295) 4);
      [intros x [<-|[<-|[<-|[<-|[]]]]]; lia|apply u32_bytes_ok|reflexivity|change (len_N _) with 4; lia].
Qed.

(* ------------------------------------------------------------------ format_fat on a zeroed table *)
Definition bits_ft (ft : Fat.fat_type) : N := match ft with Fat.Fat12 => 12 | Fat.Fat16 => 16 | Fat.Fat32 => 32 end.

Lemma bits_to_ft t : bits_per_fat_entry t = bits_ft (to_fat_type t).
Proof. destruct t; reflexivity. Qed.

(* every whole entry of a copy of [size] bytes is addressable (below the FAT32 special range) *)
(* every whole entry of a copy of [size] bytes is addressable *)
Lemma okc_w_entries ft s x : x < fs_size s * 8 / bits_ft ft -> fs_size s <= 4294967295 -> okc_w ft s x.
Proof.
  intros Hx Hs. destruct ft; cbn [okc_w bits_ft] in *; unfold okc12, okc16, off12; lia.
Qed.

Lemma reserved_bytes_length t media : len_N (reserved_bytes t media) = reserved_len (to_fat_type t).
Proof. destruct t; reflexivity. Qed.

(* the value of a data-cluster entry / of a spare entry after format_fat: the FAT32 "BAD range" 0x0FFFFFF0 .. 0x0FFFFFFF
   is marked Bad wherever the table reaches it - also inside the data clusters of a volume with more than
   0x0FFFFFF0 - 2 clusters *)
Definition data_val (x : N) : fatv := if 268435440 <=? x then Bad else Free.
Definition spare_val (x : N) : fatv := if (268435440 <=? x) && (x <? 268435456) then Bad else Eoc.

Lemma format_fat_spec t s media total :
  let ft := to_fat_type t in
  let E := fs_size s * 8 / bits_ft ft in
  media <= 255 -> (1 <= fs_mirrors s)%nat -> bytes_ok (fs_img s) -> 512 <= fs_size s <= 4294967295 ->
  total + 2 <= E -> total <= 268435444 ->
  (forall o, o < fs_size s -> ebyte s o = 0) -> copies_equal s ->
  exists s', format_fat s t media (fs_size s) total = Ok s' /\ geom_eq s s' /\ bytes_ok (fs_img s') /\ copies_equal s' /\
    (forall j, (j < length (reserved_bytes t media))%nat -> ebyte s' (N.of_nat j) = nth j (reserved_bytes t media) 0) /\
    (forall x, 2 <= x < total + 2 -> val_ft ft s' x = data_val x) /\
    (forall x, total + 2 <= x < E -> val_ft ft s' x = spare_val x) /\
    (forall a, outside_fat s a -> img_get (fs_img s') a = img_get (fs_img s) a).
Proof.
  intros ft E Hmed Hm Hb Hsz Htot Hmax Hzero Hce.
  assert (forall x, x < E -> okc_w ft s x) as Hokc by (intros x Hx; apply okc_w_entries; unfold E in *; lia).
  assert (reserved_len ft <= fs_size s) as Hres by (destruct ft; cbn [reserved_len]; lia).
  assert (E < 4294967296) as HE32 by (unfold E; destruct ft; cbn [bits_ft]; lia).
  destruct (write_reserved_spec t s media Hmed Hm Hres Hb) as (s1 & E1 & G1 & Hb1 & Hc1 & Hin1 & Hout1 & Hfr1).
  pose proof G1 as (Ga & Gb & Gc). change (to_fat_type t) with ft in Hout1.
  unfold format_fat. rewrite E1. cbn [bind]. unfold RESERVED_FAT_ENTRIES.
  rewrite u32_add_ok by lia. cbn [bind].
  rewrite (bits_to_ft t). fold ft. fold E. unfold as_u32, two32. rewrite (N.mod_small E) by lia.
  assert (forall x, 2 <= x < total + 2 -> val_ft ft s1 x = Free) as Hfree1.
  { intros x Hx. apply val_ft_zero; [lia|]. intros o Ho.
    pose proof (okc_w_inside ft s x (Hokc x ltac:(lia))). pose proof (entry_off_reserved ft x ltac:(lia)).
    rewrite Hout1 by lia. apply Hzero. lia. }
  destruct (fill_entries_spec ft Eoc (or_introl eq_refl) (N.to_nat (E - (total + 2))) s1 (total + 2))
    as (s2 & E2 & G2 & Hb2 & Hc2 & Hin2 & Hout2 & Hres2 & Hfr2).
  { rewrite Gc. exact Hm. } { exact Hb1. } { lia. }
  { intros x Hx. apply (okc_w_geom ft s s1 x G1). apply Hokc. lia. }
  rewrite E2. cbn [bind]. unfold BAD_RANGE_START, BAD_RANGE_END.
  pose proof (geom_eq_trans _ _ _ G1 G2) as G12. pose proof G12 as (G12a & G12b & G12c).
  assert (forall j, (j < length (reserved_bytes t media))%nat -> ebyte s2 (N.of_nat j) = nth j (reserved_bytes t media) 0) as Hr2.
  { intros j Hj. rewrite <- (Hin1 j Hj). rewrite <- !copy_byte_0. apply Hres2; [rewrite Gc; lia|].
    unfold ft. rewrite <- (reserved_bytes_length t media). unfold len_N. lia. }
  assert (forall x, 2 <= x < total + 2 -> val_ft ft s2 x = Free) as Hd2.
  { intros x Hx. rewrite Hout2; [apply Hfree1; lia|apply (okc_w_geom ft s s1 x G1); apply Hokc; lia|lia]. }
  assert (forall x, total + 2 <= x < E -> val_ft ft s2 x = Eoc) as Hs2 by (intros x Hx; apply Hin2; lia).
  assert (forall a, outside_fat s a -> img_get (fs_img s2) a = img_get (fs_img s) a) as Hf2.
  { intros a Ha. rewrite Hfr2 by (apply (outside_fat_geom s s1 a G1); exact Ha). apply Hfr1. exact Ha. }
  destruct (268435440 <? E) eqn:Ebad.
  - apply N.ltb_lt in Ebad. set (eb := N.min 268435456 E).
    assert (268435440 < eb <= E /\ eb <= 268435456) as Heb by (unfold eb; lia).
    destruct (fill_entries_spec ft Bad (or_intror eq_refl) (N.to_nat (eb - 268435440)) s2 268435440)
      as (s3 & E3 & G3 & Hb3 & Hc3 & Hin3 & Hout3 & Hres3 & Hfr3).
    { rewrite G12c. exact Hm. } { exact Hb2. } { lia. }
    { intros x Hx. apply (okc_w_geom ft s s2 x G12). apply Hokc. lia. }
    exists s3. split; [exact E3|]. split; [exact (geom_eq_trans _ _ _ G12 G3)|]. split; [exact Hb3|].
    split; [exact (Hc3 (Hc2 (Hc1 Hce)))|]. split; [|split; [|split]].
    + intros j Hj. rewrite <- (Hr2 j Hj). rewrite <- !copy_byte_0. apply Hres3; [rewrite G12c; lia|].
      unfold ft. rewrite <- (reserved_bytes_length t media). unfold len_N. lia.
    + intros x Hx. unfold data_val. destruct (268435440 <=? x) eqn:Ex.
      * apply N.leb_le in Ex. apply Hin3. lia.
      * apply N.leb_gt in Ex. rewrite Hout3; [apply Hd2; exact Hx|apply (okc_w_geom ft s s2 x G12); apply Hokc; lia|lia].
    + intros x Hx. unfold spare_val. destruct ((268435440 <=? x) && (x <? 268435456)) eqn:Ex.
      * apply andb_true_iff in Ex. destruct Ex as [Ex1 Ex2]. apply N.leb_le in Ex1. apply N.ltb_lt in Ex2.
        apply Hin3. unfold eb in *. lia.
      * rewrite Hout3; [apply Hs2; exact Hx|apply (okc_w_geom ft s s2 x G12); apply Hokc; lia|].
        apply andb_false_iff in Ex. destruct Ex as [Ex|Ex]; [apply N.leb_gt in Ex|apply N.ltb_ge in Ex]; unfold eb in *; lia.
    + intros a Ha. rewrite Hfr3 by (apply (outside_fat_geom s s2 a G12); exact Ha). apply Hf2. exact Ha.
  - apply N.ltb_ge in Ebad.
    exists s2. split; [reflexivity|]. split; [exact G12|]. split; [exact Hb2|].
    split; [exact (Hc2 (Hc1 Hce))|]. split; [exact Hr2|]. split; [|split; [|exact Hf2]].
    + intros x Hx. unfold data_val. destruct (268435440 <=? x) eqn:Ex; [apply N.leb_le in Ex; lia|]. apply Hd2. exact Hx.
    + intros x Hx. unfold spare_val. destruct (268435440 <=? x) eqn:Ex; [apply N.leb_le in Ex; lia|]. cbn [andb].
      apply Hs2. exact Hx.
Qed.

(* ================================================================== a 512-byte structure written at the start of a
   logical sector, followed by write_zeros_until_end_of_sector *)
Definition in_rng (lo hi x : N) : bool := (lo <=? x) && (x <? hi).

Lemma in_rng_true lo hi x : lo <= x < hi -> in_rng lo hi x = true.
Proof. intros H. unfold in_rng. apply andb_true_iff. split; [apply N.leb_le|apply N.ltb_lt]; lia. Qed.
Lemma in_rng_false lo hi x : x < lo \/ hi <= x -> in_rng lo hi x = false.
Proof. intros H. unfold in_rng. apply andb_false_iff. destruct H; [left; apply N.leb_gt|right; apply N.ltb_ge]; lia. Qed.

Lemma In_bps_cases B : In B [512; 1024; 2048; 4096] -> B = 512 \/ B = 1024 \/ B = 2048 \/ B = 4096.
Proof. cbn [In]. intros H. repeat (destruct H as [H|H]; [auto|]). destruct H. Qed.

Lemma sector_write_spec im pos B bs : In B [512; 1024; 2048; 4096] -> pos mod B = 0 -> length bs = 512%nat ->
  exists im', zeros_to_sector_end (img_write im pos bs) (pos + len_N bs) B = Ok im' /\
    (forall x, img_get im' x =
       if in_rng pos (pos + 512) x then nth (N.to_nat (x - pos)) bs 0
       else if in_rng (pos + 512) (pos + B) x then 0 else img_get im x) /\
    (bytes_ok im -> blist_ok bs -> bytes_ok im').
Proof.
  intros HB Hpos Hlen. assert (len_N bs = 512) as Hl by (unfold len_N; rewrite Hlen; reflexivity).
  assert (B <> 0) as Hnz by (apply In_bps_cases in HB; lia).
  unfold zeros_to_sector_end. rewrite chk_mod_ok by exact Hnz. cbn [bind]. rewrite Hl.
  assert ((pos + 512) mod B = 512 mod B) as Hm.
  { rewrite N.add_mod by exact Hnz. rewrite Hpos, N.add_0_l. apply N.mod_mod. exact Hnz. }
  rewrite Hm. eexists. split; [reflexivity|]. split.
  - intros x. destruct (B - 512 mod B =? B) eqn:E.
    + apply N.eqb_eq in E. assert (B = 512) as -> by (apply In_bps_cases in HB; lia).
      rewrite img_get_write, Hl. fold (in_rng pos (pos + 512) x).
      destruct (in_rng pos (pos + 512) x); [reflexivity|]. rewrite in_rng_false by lia. reflexivity.
    + apply N.eqb_neq in E. rewrite img_get_zeros, img_get_write, Hl.
      fold (in_rng pos (pos + 512) x). fold (in_rng (pos + 512) (pos + 512 + (B - 512 mod B)) x).
      assert (pos + 512 + (B - 512 mod B) = pos + B) as -> by (apply In_bps_cases in HB; lia).
      destruct (in_rng (pos + 512) (pos + B) x) eqn:E2; [|reflexivity].
      rewrite in_rng_false; [reflexivity|]. unfold in_rng in E2. apply andb_true_iff in E2. destruct E2 as [E2 _].
      apply N.leb_le in E2. lia.
  - intros Hb Hbs. destruct (B - 512 mod B =? B); [|apply write_zeros_bytes_ok]; apply img_write_bytes_ok; assumption.
Qed.

(* ================================================================== the FAT phase of format_volume *)
Definition mk_store (im : image) (base size : N) (mirrors : nat) : fstore :=
  {| fs_img := im; fs_base := base; fs_size := size; fs_mirrors := mirrors |}.

(* what is known about the FAT copies once format_fat has run (and, on FAT32, the root cluster is allocated) *)
Record fat_state (t : Format.fat_type) (media total E : N) (root : option N) (s : fstore) : Prop := {
  st_bytes : bytes_ok (fs_img s);
  st_copies : copies_equal s;
  st_reserved : forall j, (j < length (reserved_bytes t media))%nat ->
                  ebyte s (N.of_nat j) = nth j (reserved_bytes t media) 0;
  st_data : forall x, 2 <= x < total + 2 ->
              val_ft (to_fat_type t) s x = if (match root with Some c => x =? c | None => false end) then Eoc else data_val x;
  st_spare : forall x, total + 2 <= x < E -> val_ft (to_fat_type t) s x = spare_val x }.

(* a store whose copies hold the same bytes has the same state *)
Lemma fat_state_ext t media total E root s s' :
  geom_eq s s' -> bytes_ok (fs_img s') -> E = fs_size s * 8 / bits_ft (to_fat_type t) ->
  total + 2 <= E -> 8 <= fs_size s <= 4294967295 -> (1 <= fs_mirrors s)%nat ->
  (forall i o, i < N.of_nat (fs_mirrors s) -> o < fs_size s -> copy_byte s' i o = copy_byte s i o) ->
  fat_state t media total E root s -> fat_state t media total E root s'.
Proof.
  intros (G1 & G2 & G3) Hb HE Htot Hsz Hm Hsame [S1 S2 S3 S4 S5].
  assert (forall o, o < fs_size s -> ebyte s' o = ebyte s o) as Heb.
  { intros o Ho. rewrite <- !copy_byte_0. apply Hsame; [lia|exact Ho]. }
  assert (forall x, x < E -> forall o, entry_off (to_fat_type t) x <= o < entry_off (to_fat_type t) x + entry_len (to_fat_type t) ->
            ebyte s' o = ebyte s o) as Hent.
  { intros x Hx o Ho. apply Heb.
    assert (okc_w (to_fat_type t) s x) as Hok by (apply okc_w_entries; lia). apply okc_w_inside in Hok. lia. }
  constructor.
  - exact Hb.
  - intros i o Hi Ho. rewrite G3 in Hi. rewrite G2 in Ho. rewrite (Hsame i o Hi Ho), (Hsame 0 o); [apply S2; assumption|lia|exact Ho].
  - intros j Hj. rewrite Heb; [apply S3; exact Hj|]. destruct t; cbn [reserved_bytes length] in Hj; lia.
  - intros x Hx. rewrite <- (S4 x Hx). apply val_ft_ext. apply Hent. lia.
  - intros x Hx. rewrite <- (S5 x Hx). apply val_ft_ext. apply Hent. lia.
Qed.

Lemma geo_bps g t : geo_ok g t -> 512 <= q_bps g <= 4096.
Proof. intros (H & _). apply In_bps_cases in H. lia. Qed.

Lemma bits_ft_cases ft : bits_ft ft = 12 \/ bits_ft ft = 16 \/ bits_ft ft = 32.
Proof. destruct ft; cbn; auto. Qed.

Lemma fat_phase t g im2 : geo_ok g t -> bytes_ok im2 ->
  let B := q_bps g in
  let SZ := q_spf g * B in
  let pF := q_r g * B in
  let FS := q_f g * q_spf g * B in
  let s0 := mk_store (write_zeros im2 pF FS) pF SZ (N.to_nat (q_f g)) in
  exists s1, format_fat s0 t (q_media g) SZ (q_total g) = Ok s1 /\ geom_eq s0 s1 /\
    fat_state t (q_media g) (q_total g) (entries_of g t) None s1 /\
    (forall a, a < pF \/ pF + FS <= a -> img_get (fs_img s1) a = img_get im2 a).
Proof.
  intros Hg Hb B SZ pF FS s0. pose proof (geo_bps g t Hg) as HB.
  destruct Hg as (_ & Hspc & Hr & Hf & Hspf & Hrds & H32 & Hfit & Hcap & Hfc & Hmax & Hmed & HSZ2).
  fold B in HB, HSZ2. fold SZ in HSZ2.
  assert (entries_of g t = SZ * 8 / bits_ft (to_fat_type t)) as EE by (unfold entries_of; rewrite bits_to_ft; reflexivity).
  assert (B <= SZ) as HSZ1 by (unfold SZ; nia).
  assert (FS = q_f g * SZ) as HFS by (unfold FS, SZ; lia).
  assert (SZ <= FS) as HFS1 by (rewrite HFS; nia).
  assert (N.of_nat (N.to_nat (q_f g)) = q_f g) as Hm by apply N2Nat.id.
  assert (q_total g <= 268435444) as Hmax' by (destruct t; cbn [max_clusters] in Hmax; lia).
  destruct (format_fat_spec t s0 (q_media g) (q_total g)) as (s1 & E1 & G1 & Hb1 & Hc1 & Hres1 & Hd1 & Hs1 & Hfr1).
  - exact Hmed.
  - cbn [s0 mk_store fs_mirrors]. lia.
  - cbn [s0 mk_store fs_img]. apply write_zeros_bytes_ok. exact Hb.
  - cbn [s0 mk_store fs_size]. lia.
  - cbn [s0 mk_store fs_size]. rewrite <- EE. exact Hcap.
  - exact Hmax'.
  - intros o Ho. unfold ebyte. cbn [s0 mk_store fs_size fs_img fs_base] in *.
    rewrite img_get_zeros. fold (in_rng pF (pF + FS) (pF + o)). rewrite in_rng_true by lia. reflexivity.
  - intros i o Hi Ho. unfold copy_byte. cbn [s0 mk_store fs_size fs_img fs_base fs_mirrors] in *.
    rewrite Hm in Hi. pose proof (mul_lt_step i (q_f g) SZ Hi) as Hstep.
    rewrite !img_get_zeros. fold (in_rng pF (pF + FS) (pF + i * SZ + o)). fold (in_rng pF (pF + FS) (pF + 0 * SZ + o)).
    rewrite !in_rng_true by lia. reflexivity.
  - exists s1. cbn [s0 mk_store fs_size] in E1. split; [exact E1|]. split; [exact G1|]. split.
    + constructor.
      * exact Hb1.
      * exact Hc1.
      * exact Hres1.
      * intros x Hx. apply Hd1. exact Hx.
      * intros x Hx. apply Hs1. cbn [s0 mk_store fs_size]. rewrite <- EE. exact Hx.
    + intros a Ha. rewrite Hfr1.
      * cbn [s0 mk_store fs_img]. rewrite img_get_zeros. fold (in_rng pF (pF + FS) a). rewrite in_rng_false by lia. reflexivity.
      * unfold outside_fat. cbn [s0 mk_store fs_base fs_size fs_mirrors]. rewrite Hm. lia.
Qed.

(* FAT32: alloc_cluster(None, None, 1) on the freshly formatted table takes cluster 2 *)
Lemma alloc_root_spec media total E s :
  fat_state Format.Fat32 media total E None s -> (1 <= fs_mirrors s)%nat -> 1 <= total ->
  E = fs_size s * 8 / 32 -> total + 2 <= E -> fs_size s <= 4294967295 ->
  exists s', alloc_cluster fstore (fat_get Fat.Fat32) (fat_set Fat.Fat32) s None None 1 = Ok (s', 2) /\
    geom_eq s s' /\ fat_state Format.Fat32 media total E (Some 2) s' /\
    (forall a, outside_fat s a -> img_get (fs_img s') a = img_get (fs_img s) a).
Proof.
  intros [S1 S2 S3 S4 S5] Hm Htot HE Hcap Hsz. cbn [to_fat_type] in *.
  assert (forall x, x < E -> okc_w Fat.Fat32 s x) as Hokc.
  { intros x Hx. apply okc_w_entries; cbn [bits_ft]; lia. }
  destruct (fill_entries_spec Fat.Fat32 Eoc (or_introl eq_refl) 1 s 2 Hm S1 ltac:(lia)) as (s' & E' & G' & Hb' & Hce' & Hin' & Hout' & Hres' & Hfr').
  { intros x Hx. apply Hokc. lia. }
  cbn [fill_entries fat_set] in E'.
  destruct (set32 s 2 Eoc) as [s1| | |] eqn:Eset; cbn [bind] in E'; try discriminate. apply Ok_inj in E'. subst s1.
  exists s'. split.
  - unfold alloc_cluster, RESERVED_FAT_ENTRIES, find_free. cbn [fat_get fat_set].
    replace (N.to_nat (1 + 2 - 2)) with 1%nat by reflexivity. cbn [find_free_from].
    assert (okc32 s 2) as H2 by (destruct (Hokc 2 ltac:(lia)) as [A _]; unfold okc32; lia).
    rewrite (get32_val s 2 H2). cbn [bind]. change (val32 s 2) with (val_ft Fat.Fat32 s 2).
    rewrite (S4 2 ltac:(lia)). change (data_val 2) with Free. cbn [bind]. rewrite Eset. reflexivity.
  - split; [exact G'|]. split; [|exact Hfr']. constructor.
    + exact Hb'.
    + exact (Hce' S2).
    + intros j Hj. rewrite <- (S3 j Hj). rewrite <- !copy_byte_0. apply Hres'; [lia|].
      cbn [reserved_bytes length] in Hj. cbn [reserved_len]. lia.
    + intros x Hx. cbn [to_fat_type]. destruct (N.eqb_spec x 2) as [->|Hne].
      * apply Hin'. lia.
      * rewrite Hout'; [apply (S4 x Hx)|apply Hokc; lia|lia].
    + intros x Hx. cbn [to_fat_type]. rewrite Hout'; [apply (S5 x Hx)|apply Hokc; lia|lia].
Qed.

(* the state of the FAT copies only depends on the bytes of the copies *)
Lemma fat_state_img t media total E root s im' pF SZ m :
  fs_base s = pF -> fs_size s = SZ -> fs_mirrors s = m -> (1 <= m)%nat -> bytes_ok im' ->
  E = SZ * 8 / bits_ft (to_fat_type t) -> total + 2 <= E -> 8 <= SZ <= 4294967295 ->
  (forall a, pF <= a < pF + N.of_nat m * SZ -> img_get im' a = img_get (fs_img s) a) ->
  fat_state t media total E root s -> fat_state t media total E root (mk_store im' pF SZ m).
Proof.
  intros Hb Hs Hmm Hm Hbo HE Htot Hsz Hsame Hst.
  apply (fat_state_ext t media total E root s (mk_store im' pF SZ m)); try assumption.
  - unfold geom_eq, mk_store. cbn [fs_base fs_size fs_mirrors]. repeat split; symmetry; assumption.
  - rewrite Hs. exact HE.
  - rewrite Hs. exact Hsz.
  - rewrite Hmm. exact Hm.
  - intros i o Hi Ho. unfold copy_byte, mk_store. cbn [fs_img fs_base fs_size]. rewrite Hb, Hs in *. rewrite Hmm in Hi.
    apply Hsame. pose proof (mul_lt_step i (N.of_nat m) SZ Hi). lia.
Qed.

(* clusters of a FAT32 volume that format_fat marks Bad because their numbers lie in 0x0FFFFFF0 .. (0 unless the volume
   has more than 0x0FFFFFF0 - 2 = 268435438 clusters, at most 6) *)
Definition bad_range_clusters (total : N) : N := total + 2 - 268435440.

(* the free count format_volume stores in the FS-info sector: every cluster but the root cluster and the unusable ones *)
Definition fsinfo_free_of (total : N) : N := total - 1 - bad_range_clusters total.

Definition label_bytes (o : fmt_options) : list N :=
  match o_volume_label o with Some l => sfn_encode (label_entry l) | None => [] end.

(* every byte outside the FAT copies, as a function of the request and of the initial image: the regions in the
   order of the last write that touches them *)
Definition layout_get (im0 : image) (bytes fsi lab : list N) (is32 : bool) (B pR RL : N) (x : N) : N :=
  if in_rng pR (pR + len_N lab) x then nth (N.to_nat (x - pR)) lab 0
  else if is32 && in_rng B (B + 512) x then nth (N.to_nat (x - B)) fsi 0
  else if is32 && in_rng (B + 512) (B + B) x then 0
  else if in_rng pR (pR + RL) x then 0
  else if is32 && in_rng (6 * B) (6 * B + 512) x then nth (N.to_nat (x - 6 * B)) bytes 0
  else if is32 && in_rng (6 * B + 512) (6 * B + B) x then 0
  else if in_rng 0 (0 + 512) x then nth (N.to_nat (x - 0)) bytes 0
  else if in_rng (0 + 512) (0 + B) x then 0
  else img_get im0 x.

Lemma sfn_encode_label l : length l = 11%nat -> blist_ok l ->
  length (sfn_encode (label_entry l)) = 32%nat /\ blist_ok (sfn_encode (label_entry l)).
Proof.
  intros Hl Hb. unfold sfn_encode, label_entry. cbn [se_name se_attrs se_reserved_0 se_create_time_0 se_create_time_1
    se_create_date se_access_date se_first_cluster_hi se_modify_time se_modify_date se_first_cluster_lo se_size].
  split; [rewrite app_length, Hl; reflexivity|].
  apply blist_ok_app; [exact Hb|]. apply blist_ok_literal. vm_compute. reflexivity.
Qed.

Lemma fsinfo_bytes_facts free next : length (fsinfo_bytes free next) = 512%nat /\ blist_ok (fsinfo_bytes free next).
Proof.
  split; [reflexivity|]. unfold fsinfo_bytes.
  repeat apply blist_ok_app; try apply u32_bytes_ok; apply blist_ok_repeat; lia.
Qed.

(* ================================================================== format_volume after validation, as a whole *)
Lemma format_image_with_spec o b t g im0 :
  geo_ok g t -> bpb_facts b t g ->
  length (fmt_serialize_boot (format_boot_sector_with b t)) = 512%nat ->
  blist_ok (fmt_serialize_boot (format_boot_sector_with b t)) -> bytes_ok im0 ->
  (forall l, o_volume_label o = Some l -> length l = 11%nat /\ blist_ok l) ->
  exists im, format_image_with o (format_boot_sector_with b t) t im0 = Ok im /\ bytes_ok im /\
    fat_state t (q_media g) (q_total g) (entries_of g t) (if fat_type_eqb t Format.Fat32 then Some 2 else None)
      (mk_store im (q_r g * q_bps g) (q_spf g * q_bps g) (N.to_nat (q_f g))) /\
    (forall x, x < q_r g * q_bps g \/ q_r g * q_bps g + q_f g * q_spf g * q_bps g <= x ->
       img_get im x = layout_get im0 (fmt_serialize_boot (format_boot_sector_with b t))
                        (fsinfo_bytes (fsinfo_free_of (q_total g)) 3) (label_bytes o) (fat_type_eqb t Format.Fat32) (q_bps g)
                        ((q_r g + q_f g * q_spf g) * q_bps g)
                        (if fat_type_eqb t Format.Fat32 then q_spc g * q_bps g else q_rds g * q_bps g) x).
Proof.
  intros Hg Hbf Hlen Hbok Hb0 Hlab.
  pose proof (geo_bps g t Hg) as HB. pose proof Hg as (HBin & Hspc & Hr & Hf & Hspf & Hrds & H32 & Hfit & Hcap & Hfc & Hmax & Hmed & HSZ2).
  destruct Hbf as [F1 F2 F3 F4 F5 F6 F7 F8 F9 F10 F11 F12 F13 F14].
  set (boot := format_boot_sector_with b t) in *. set (bytes := fmt_serialize_boot boot) in *.
  set (B := q_bps g) in *. set (SZ := q_spf g * B). set (pF := q_r g * B). set (FS := q_f g * q_spf g * B).
  set (pR := (q_r g + q_f g * q_spf g) * B). set (is32 := fat_type_eqb t Format.Fat32) in *.
  set (m := N.to_nat (q_f g)).
  assert (entries_of g t = SZ * 8 / bits_ft (to_fat_type t)) as EE by (unfold entries_of; rewrite bits_to_ft; reflexivity).
  assert (B <= SZ) as HSZ1 by (unfold SZ; nia).
  fold SZ in HSZ2.
  assert (FS = q_f g * SZ) as HFS by (unfold FS, SZ; lia).
  assert (SZ <= FS) as HFS1 by (rewrite HFS; nia).
  assert (pR = pF + FS) as HpR by (unfold pR, pF, FS; lia).
  assert (N.of_nat m = q_f g) as Hm by apply N2Nat.id.
  assert ((1 <= m)%nat) as Hm1 by lia.
  assert (is32 = true -> pF = 8 * B /\ q_rds g = 0 /\ 65525 <= q_total g) as H32f.
  { intros E. unfold is32 in E. apply fat_type_eqb_eq in E. rewrite E in Hr, Hfc. cbn [reserved_of fat_type_eqb] in Hr.
    split; [unfold pF; rewrite Hr; reflexivity|]. split; [apply H32; exact E|].
    unfold from_clusters in Hfc. destruct (q_total g <? 4085); [discriminate|]. destruct (q_total g <? 65525) eqn:E2; [discriminate|].
    apply N.ltb_ge in E2. exact E2. }
  assert (is32 = false -> pF = B) as H16f.
  { intros E. unfold pF. rewrite Hr. unfold reserved_of. fold is32. rewrite E. lia. }
  assert (fbs_bpb boot = b) as Hbb by apply boot_with_bpb.
  unfold format_image_with. cbv zeta. rewrite Hbb. rewrite F1. fold B.
  (* boot sector *)
  unfold write_boot_sector. fold bytes.
  destruct (sector_write_spec im0 0 B bytes HBin (N.mod_0_l B ltac:(lia)) Hlen) as (im1 & E1 & G1 & K1).
  rewrite E1. cbn [bind]. specialize (K1 Hb0 Hbok).
  (* backup boot sector *)
  assert (exists im2, (if fb_is_fat32 b then zeros_to_sector_end (img_write im1 (fb_backup_boot_sector b * B) bytes)
                                               (fb_backup_boot_sector b * B + len_N bytes) B else Ok im1) = Ok im2 /\
            bytes_ok im2 /\
            forall x, img_get im2 x = if is32 && in_rng (6 * B) (6 * B + 512) x then nth (N.to_nat (x - 6 * B)) bytes 0
                                      else if is32 && in_rng (6 * B + 512) (6 * B + B) x then 0 else img_get im1 x)
    as (im2 & E2 & K2 & G2).
  { rewrite F7, F9. unfold if32. fold is32. destruct is32.
    - destruct (sector_write_spec im1 (6 * B) B bytes HBin ltac:(apply N.mod_mul; lia) Hlen)
        as (im2 & E2 & G2 & K2).
      exists im2. split; [exact E2|]. split; [exact (K2 K1 Hbok)|]. intros x. rewrite G2. reflexivity.
    - exists im1. split; [reflexivity|]. split; [exact K1|]. intros x. reflexivity. }
  rewrite E2. cbn [bind]. rewrite F3, F13. cbn [bind]. fold pF. fold FS.
  (* FAT copies *)
  unfold fmt_fat_slice. rewrite F6. change (N.land 0 128 =? 0) with true. cbv iota. cbn [bind].
  rewrite F3, F1, F8, F4, F14. fold B. fold SZ. fold pF. fold m. cbn [bind]. rewrite F5.
  destruct (fat_phase t g im2 Hg K2) as (s1 & E3 & G3 & St3 & Fr3).
  fold B in E3, Fr3. fold SZ in E3. fold pF in E3, Fr3. fold FS in E3, Fr3. fold m in E3. unfold mk_store in E3.
  rewrite E3. cbn [bind].
  destruct G3 as (G3a & G3b & G3c). cbn [mk_store fs_base fs_size fs_mirrors] in G3a, G3b, G3c.
  (* root directory region *)
  rewrite u32_add_ok by lia. cbn [bind]. rewrite F12. cbn [bind]. fold pR.
  set (im5 := write_zeros (fs_img s1) pR (q_rds g * B)).
  assert (bytes_ok im5) as K5 by (apply write_zeros_bytes_ok; apply St3).
  assert (fat_state t (q_media g) (q_total g) (entries_of g t) None (mk_store im5 pF SZ m)) as St5.
  { apply (fat_state_img t _ _ _ None s1 im5 pF SZ m); try assumption; try lia.
    intros a Ha. unfold im5. rewrite img_get_zeros. fold (in_rng pR (pR + q_rds g * B) a).
    rewrite in_rng_false by (rewrite Hm in Ha; lia). reflexivity. }
  (* FAT32: root cluster, FS-info *)
  assert (exists im6, (if is32 then format_fat32_root b im5 (q_r g) (q_f g * q_spf g) (q_rds g) else Ok im5) = Ok im6 /\
            bytes_ok im6 /\
            fat_state t (q_media g) (q_total g) (entries_of g t) (if is32 then Some 2 else None) (mk_store im6 pF SZ m) /\
            forall x, x < pF \/ pF + FS <= x ->
              img_get im6 x = if is32 && in_rng B (B + 512) x then nth (N.to_nat (x - B)) (fsinfo_bytes (fsinfo_free_of (q_total g)) 3) 0
                              else if is32 && in_rng (B + 512) (B + B) x then 0
                              else if in_rng pR (pR + (if is32 then q_spc g * B else q_rds g * B)) x then 0
                              else img_get (fs_img s1) x)
    as (im6 & E6 & K6 & St6 & G6).
  { destruct is32 eqn:E32.
    - destruct (H32f eq_refl) as (HpF8 & Hrds0 & Htot).
      assert (t = Format.Fat32) as -> by (apply fat_type_eqb_eq; exact E32). cbn [to_fat_type bits_ft] in *.
      unfold format_fat32_root. unfold fmt_fat_slice. rewrite F6. change (N.land 0 128 =? 0) with true. cbv iota.
      rewrite F3, F1, F8, F4, F2. fold B. fold SZ. fold pF. fold m. cbn [bind].
      destruct (alloc_root_spec (q_media g) (q_total g) (entries_of g Format.Fat32) (mk_store im5 pF SZ m) St5)
        as (s6 & E6 & G6 & St6 & Fr6); cbn [mk_store fs_mirrors fs_size]; try lia.
      unfold mk_store in E6. rewrite E6. cbn [bind]. rewrite F11. unfold if32. cbn [fat_type_eqb]. cbn [N.eqb Pos.eqb negb].
      unfold RESERVED_FAT_ENTRIES. rewrite !u32_add_ok by lia. cbn [bind]. rewrite u32_add_ok by lia. cbn [bind].
      rewrite u32_sub_ok by lia. cbn [bind]. change (2 - 2) with 0. rewrite u32_mul_ok by lia. cbn [bind].
      rewrite N.mul_0_l. rewrite u32_add_ok by lia. cbn [bind].
      assert (q_spc g * B <= 524288) as Hcs by nia.
      rewrite u32_mul_ok by lia. cbn [bind].
      assert (q_total g <= 268435444) as Hmax32 by (cbn [max_clusters] in Hmax; exact Hmax).
      rewrite F14. cbn [bind]. rewrite u32_add_ok by lia. cbn [bind]. unfold BAD_RANGE_START.
      rewrite u32_sub_ok by lia. cbn [bind]. rewrite u32_sub_ok by lia. cbn [bind]. rewrite ?u32_add_ok by lia. cbn [bind].
      change (q_total g - 1 - (q_total g + 2 - 268435440)) with (fsinfo_free_of (q_total g)).
      rewrite F10. unfold if32. cbn [fat_type_eqb]. rewrite N.mul_1_l. change (2 + 1) with 3.
      rewrite Hrds0, !N.add_0_r. fold pR.
      destruct G6 as (G6a & G6b & G6c). cbn [mk_store fs_base fs_size fs_mirrors] in G6a, G6b, G6c.
      set (im7 := write_zeros (fs_img s6) pR (q_spc g * B)).
      destruct (fsinfo_bytes_facts (fsinfo_free_of (q_total g)) 3) as [Lf Bf].
      destruct (sector_write_spec im7 B B (fsinfo_bytes (fsinfo_free_of (q_total g)) 3) HBin ltac:(apply N.mod_same; lia) Lf)
        as (im8 & E8 & G8 & K8).
      rewrite E8. exists im8. split; [reflexivity|].
      assert (bytes_ok im7) as K7 by (apply write_zeros_bytes_ok; apply St6).
      split; [exact (K8 K7 Bf)|]. split.
      + apply (fat_state_img Format.Fat32 _ _ _ (Some 2) s6 im8 pF SZ m); try assumption; try lia;
          [exact (K8 K7 Bf)|].
        intros a Ha. rewrite Hm in Ha. rewrite G8. rewrite !in_rng_false by lia. unfold im7. rewrite img_get_zeros.
        fold (in_rng pR (pR + q_spc g * B) a). rewrite in_rng_false by lia. reflexivity.
      + intros x Hx. rewrite G8. cbn [andb].
        destruct (in_rng B (B + 512) x); [reflexivity|]. destruct (in_rng (B + 512) (B + B) x); [reflexivity|].
        unfold im7. rewrite img_get_zeros. fold (in_rng pR (pR + q_spc g * B) x).
        destruct (in_rng pR (pR + q_spc g * B) x); [reflexivity|].
        rewrite Fr6; [|unfold outside_fat; cbn [mk_store fs_base fs_size fs_mirrors]; rewrite Hm; lia].
        cbn [mk_store fs_img]. unfold im5. rewrite img_get_zeros. rewrite Hrds0, N.mul_0_l, N.add_0_r.
        fold (in_rng pR pR x). rewrite in_rng_false by lia. reflexivity.
    - exists im5. split; [reflexivity|]. split; [exact K5|]. split; [exact St5|].
      intros x Hx. cbn [andb]. unfold im5. rewrite img_get_zeros. reflexivity. }
  fold is32. rewrite E6. cbn [bind].
  (* label *)
  eexists. split; [reflexivity|].
  assert (forall x, img_get (match o_volume_label o with Some l => img_write im6 pR (sfn_encode (label_entry l)) | None => im6 end) x =
                    if in_rng pR (pR + len_N (label_bytes o)) x then nth (N.to_nat (x - pR)) (label_bytes o) 0 else img_get im6 x) as GL.
  { intros x. unfold label_bytes. destruct (o_volume_label o) as [l|].
    - rewrite img_get_write. reflexivity.
    - rewrite in_rng_false by (change (len_N []) with 0; lia). reflexivity. }
  assert (len_N (label_bytes o) <= 32) as HLL.
  { unfold label_bytes. destruct (o_volume_label o) as [l|] eqn:El; [|change (len_N []) with 0; lia].
    destruct (Hlab l eq_refl) as [L1 L2]. destruct (sfn_encode_label l L1 L2) as [L3 _]. unfold len_N. rewrite L3. lia. }
  assert (bytes_ok (match o_volume_label o with Some l => img_write im6 pR (sfn_encode (label_entry l)) | None => im6 end)) as KL.
  { destruct (o_volume_label o) as [l|] eqn:El; [|exact K6].
    destruct (Hlab l eq_refl) as [L1 L2]. destruct (sfn_encode_label l L1 L2) as [_ L4]. apply img_write_bytes_ok; assumption. }
  split; [exact KL|]. split.
  - apply (fat_state_img t _ _ _ _ (mk_store im6 pF SZ m) _ pF SZ m); try reflexivity; try assumption; try lia.
    intros a Ha. rewrite Hm in Ha. rewrite GL. rewrite in_rng_false by lia. reflexivity.
  - intros x Hx. rewrite GL. unfold layout_get. fold is32.
    destruct (in_rng pR (pR + len_N (label_bytes o)) x); [reflexivity|].
    rewrite (G6 x Hx).
    destruct (is32 && in_rng B (B + 512) x); [reflexivity|].
    destruct (is32 && in_rng (B + 512) (B + B) x); [reflexivity|].
    destruct (in_rng pR (pR + (if is32 then q_spc g * B else q_rds g * B)) x); [reflexivity|].
    rewrite (Fr3 x Hx). rewrite G2.
    destruct (is32 && in_rng (6 * B) (6 * B + 512) x); [reflexivity|].
    destruct (is32 && in_rng (6 * B + 512) (6 * B + B) x); [reflexivity|].
    rewrite G1. reflexivity.
Qed.

(* ================================================================== accepted requests: everything about the image *)
Lemma sp_is32_eqb t : sp_is32 t = fat_type_eqb t Format.Fat32.
Proof. destruct t; reflexivity. Qed.
Lemma sp_bits_eq t : sp_bits t = bits_per_fat_entry t.
Proof. destruct t; reflexivity. Qed.

Record image_facts (o : fmt_options) (bs : fboot) (t : Format.fat_type) (im0 im : image) : Prop := {
  if_bytes : bytes_ok im;
  if_geo : exists g, geo_ok g t /\ bpb_facts (fbs_bpb bs) t g /\
             q_spf g = sp_fat_size (fbs_bpb bs) /\ q_rds g = sp_root_dir_sectors (fbs_bpb bs) /\
             q_total g = sp_clusters (fbs_bpb bs) /\ q_media g = o_media o /\ (t <> Format.Fat32 -> 1 <= q_rds g) /\
             length (fmt_serialize_boot bs) = 512%nat /\
             fat_state t (q_media g) (q_total g) (entries_of g t) (if fat_type_eqb t Format.Fat32 then Some 2 else None)
               (fi_fat_store im (fbs_bpb bs)) /\
             (forall x, x < q_r g * q_bps g \/ q_r g * q_bps g + q_f g * q_spf g * q_bps g <= x ->
                img_get im x = layout_get im0 (fmt_serialize_boot bs) (fsinfo_bytes (fsinfo_free_of (q_total g)) 3) (label_bytes o)
                                 (fat_type_eqb t Format.Fat32) (q_bps g) ((q_r g + q_f g * q_spf g) * q_bps g)
                                 (if fat_type_eqb t Format.Fat32 then q_spc g * q_bps g else q_rds g * q_bps g) x) }.

Theorem format_image_facts o ts im0 bs t : builder_range o -> ts < 4294967296 -> bytes_ok im0 ->
  format_boot_sector_validated o ts = Ok (bs, t) ->
  exists im, format_image o ts im0 = Ok im /\ image_facts o bs t im0 im.
Proof.
  intros Hb Hts Hb0 Hv.
  destruct (accepted_geo o ts bs t Hb Hts Hv) as (g & Hg & Hbf & Hbs & Hlen & Hbok & Hmed & Hbps & Hfats & T1 & T3 & T5 & H16).
  assert (forall l, o_volume_label o = Some l -> length l = 11%nat /\ blist_ok l) as Hlab.
  { intros l El. destruct Hb as (_ & _ & _ & _ & _ & _ & _ & _ & _ & _ & Hl). destruct (Hl l El) as [L1 L2].
    split; [exact L1|apply blist_ok_forall; exact L2]. }
  rewrite Hbs in Hlen, Hbok.
  destruct (format_image_with_spec o (fbs_bpb bs) t g im0 Hg Hbf Hlen Hbok Hb0 Hlab) as (im & E & K & St & L).
  exists im. split.
  - unfold format_image. rewrite Hv. cbn [bind fst snd]. rewrite Hbs. exact E.
  - constructor; [exact K|]. exists g. rewrite <- Hbs in *.
    split; [exact Hg|]. split; [exact Hbf|]. split; [exact T1|]. split; [exact T3|]. split; [exact T5|]. split; [exact Hmed|].
    split.
    { intros Hne. destruct (H16 Hne) as (R1 & R2 & _). rewrite R2. pose proof (geo_bps g t Hg) as HB.
      apply N.div_le_lower_bound; lia. }
    split; [exact Hlen|]. split; [|exact L].
    unfold fi_fat_store, fi_fat_pos, fi_fat_bytes. rewrite (bf_r _ _ _ Hbf), (bf_bps _ _ _ Hbf), (bf_f _ _ _ Hbf), <- T1. exact St.
Qed.

(* ------------------------------------------------------------------ linear facts about the layout *)
Lemma layout_lin g t : geo_ok g t ->
  512 <= q_bps g <= 4096 /\
  (q_r g + q_f g * q_spf g) * q_bps g = q_r g * q_bps g + q_f g * q_spf g * q_bps g /\
  q_bps g <= q_spf g * q_bps g /\ q_spf g * q_bps g <= q_f g * q_spf g * q_bps g /\
  q_f g * q_spf g * q_bps g <= 2 * (q_spf g * q_bps g) /\
  (t = Format.Fat32 -> q_r g * q_bps g = 8 * q_bps g /\ q_rds g = 0 /\ 65525 <= q_total g) /\
  (t <> Format.Fat32 -> q_r g * q_bps g = q_bps g) /\
  q_bps g <= q_spc g * q_bps g /\ (1 <= q_rds g -> q_bps g <= q_rds g * q_bps g).
Proof.
  intros Hg. pose proof (geo_bps g t Hg) as HB.
  destruct Hg as (_ & Hspc & Hr & Hf & Hspf & Hrds & H32 & Hfit & Hcap & Hfc & Hmax & Hmed).
  split; [exact HB|]. split; [lia|]. split; [nia|]. split; [nia|]. split; [nia|]. split; [|split; [|split; [nia|nia]]].
  - intros ->. cbn [reserved_of fat_type_eqb] in Hr. rewrite Hr. split; [reflexivity|]. split; [apply H32; reflexivity|].
    unfold from_clusters in Hfc. destruct (q_total g <? 4085); [discriminate|].
    destruct (q_total g <? 65525) eqn:E2; [discriminate|]. apply N.ltb_ge in E2. exact E2.
  - intros Hne. rewrite Hr. unfold reserved_of. destruct t; try contradiction; cbn [fat_type_eqb]; lia.
Qed.

Lemma image_facts_of o ts im0 bs t im : builder_range o -> ts < 4294967296 -> bytes_ok im0 ->
  format_boot_sector_validated o ts = Ok (bs, t) ->
  format_image o ts im0 = Ok im -> image_facts o bs t im0 im.
Proof.
  intros Hb Hts Hb0 Hv E. destruct (format_image_facts o ts im0 bs t Hb Hts Hb0 Hv) as (im' & E' & F).
  rewrite E in E'. apply Ok_inj in E'. subst im'. exact F.
Qed.

Ltac rng_eval :=
  repeat match goal with
         | |- context [in_rng ?a ?b ?x] =>
             first [rewrite (in_rng_false a b x) by lia | rewrite (in_rng_true a b x) by lia]
         end;
  rewrite ?andb_false_r, ?andb_true_r; cbn [andb].

(* (a) the boot sector: sector 0 holds the 512 serialized bytes and zeros up to the end of the logical sector; on
   FAT32 the backup sector (sector 6) is an exact copy of sector 0 *)
Theorem image_boot_sector o ts im0 bs t im : builder_range o -> ts < 4294967296 -> bytes_ok im0 ->
  format_boot_sector_validated o ts = Ok (bs, t) -> format_image o ts im0 = Ok im ->
  img_read im 0 512 = fmt_serialize_boot bs /\
  (forall x, 512 <= x < fb_bytes_per_sector (fbs_bpb bs) -> img_get im x = 0) /\
  (t = Format.Fat32 -> forall i, i < fb_bytes_per_sector (fbs_bpb bs) ->
                         img_get im (fi_backup_pos (fbs_bpb bs) + i) = img_get im i).
Proof.
  intros Hb Hts Hb0 Hv E.
  destruct (image_facts_of o ts im0 bs t im Hb Hts Hb0 Hv E) as [K (g & Hg & Hbf & T1 & T3 & T5 & Hmed & Hrds1 & Hlen & St & L)].
  destruct (layout_lin g t Hg) as (HB & HpR & HSZ & HFS & HFS2 & H32 & H16 & Hcl & Hrl).
  rewrite (bf_bps _ _ _ Hbf). unfold fi_backup_pos. rewrite (bf_backup _ _ _ Hbf), (bf_bps _ _ _ Hbf).
  set (B := q_bps g) in *. set (pF := q_r g * B) in *. set (FS := q_f g * q_spf g * B) in *.
  set (pR := (q_r g + q_f g * q_spf g) * B) in *.
  assert (B <= pF) as HpF.
  { destruct (fat_type_eqb t Format.Fat32) eqn:E32.
    - apply fat_type_eqb_eq in E32. destruct (H32 E32) as (-> & _). lia.
    - rewrite H16; [lia|]. intros ->. discriminate. }
  assert (forall x, x < 512 -> img_get im x = nth (N.to_nat x) (fmt_serialize_boot bs) 0) as Hboot.
  { intros x Hx. rewrite L by lia. unfold layout_get. rng_eval. rewrite N.sub_0_r. reflexivity. }
  assert (forall x, 512 <= x < B -> img_get im x = 0) as Hpad.
  { intros x Hx. rewrite L by lia. unfold layout_get. rng_eval. reflexivity. }
  split; [|split].
  - apply img_read_eq; [exact Hlen|]. intros i Hi. rewrite N.add_0_l. rewrite Hboot by lia. f_equal. lia.
  - exact Hpad.
  - intros E32 i Hi. destruct (H32 E32) as (HpF8 & _ & _). unfold if32. rewrite E32. cbn [fat_type_eqb].
    rewrite L by lia. unfold layout_get. rewrite E32. cbn [fat_type_eqb andb].
    destruct (N.lt_ge_cases i 512) as [Hlt|Hge].
    + rng_eval. rewrite Hboot by lia. f_equal. lia.
    + rng_eval. rewrite Hpad by lia. reflexivity.
Qed.

(* (e) frame: a byte that belongs to none of the structures keeps the value it had on the device before *)
Theorem image_frame o ts im0 bs t im : builder_range o -> ts < 4294967296 -> bytes_ok im0 ->
  format_boot_sector_validated o ts = Ok (bs, t) -> format_image o ts im0 = Ok im ->
  forall x, fi_written (fbs_bpb bs) t x = false -> img_get im x = img_get im0 x.
Proof.
  intros Hb Hts Hb0 Hv E x Hw.
  destruct (image_facts_of o ts im0 bs t im Hb Hts Hb0 Hv E) as [K (g & Hg & Hbf & T1 & T3 & T5 & Hmed & Hrds1 & Hlen & St & L)].
  destruct (layout_lin g t Hg) as (HB & HpR & HSZ & HFS & HFS2 & H32 & H16 & Hcl & Hrl).
  unfold fi_written, fi_fsinfo_pos, fi_backup_pos, fi_fat_pos, fi_fat_bytes, fi_root_pos, fi_root_len in Hw.
  rewrite (bf_bps _ _ _ Hbf), (bf_backup _ _ _ Hbf), (bf_fsinfo _ _ _ Hbf), (bf_r _ _ _ Hbf), (bf_f _ _ _ Hbf),
    (bf_spc _ _ _ Hbf), <- T1, <- T3, sp_is32_eqb in Hw. unfold if32 in Hw.
  set (B := q_bps g) in *. set (pF := q_r g * B) in *.
  set (pR := (q_r g + q_f g * q_spf g) * B) in *.
  rewrite !orb_false_iff in Hw. destruct Hw as (((W1 & W2) & W3) & W4).
  unfold fi_in in W1, W3, W4. 
  assert (B <= x) as X1.
  { apply andb_false_iff in W1. destruct W1 as [W1|W1]; [apply N.leb_gt in W1; lia|apply N.ltb_ge in W1; lia]. }
  assert (x < pF \/ pF + q_f g * (q_spf g * B) <= x) as X3.
  { apply andb_false_iff in W3. destruct W3 as [W3|W3]; [apply N.leb_gt in W3; lia|apply N.ltb_ge in W3; lia]. }
  assert (q_f g * (q_spf g * B) = q_f g * q_spf g * B) as Hassoc by lia. rewrite Hassoc in X3.
  rewrite L by exact X3. unfold layout_get.
  assert (len_N (label_bytes o) <= 32) as HLL.
  { unfold label_bytes. destruct (o_volume_label o) as [l|] eqn:El; [|change (len_N []) with 0; lia].
    destruct Hb as (_ & _ & _ & _ & _ & _ & _ & _ & _ & _ & Hl). destruct (Hl l El) as [L1 L2].
    destruct (sfn_encode_label l L1 (blist_ok_forall l L2)) as [L3 _]. unfold len_N. rewrite L3. lia. }
  destruct (fat_type_eqb t Format.Fat32) eqn:E32.
  - apply fat_type_eqb_eq in E32. destruct (H32 E32) as (HpF8 & Hrds0 & Htot). cbn [andb] in *.
    apply orb_false_iff in W2. destruct W2 as [W2a W2b]. unfold fi_in in W2a, W2b.
    assert (x < 1 * B \/ 1 * B + B <= x) as X2a.
    { apply andb_false_iff in W2a. destruct W2a as [W|W]; [apply N.leb_gt in W; lia|apply N.ltb_ge in W; lia]. }
    assert (x < 6 * B \/ 6 * B + B <= x) as X2b.
    { apply andb_false_iff in W2b. destruct W2b as [W|W]; [apply N.leb_gt in W; lia|apply N.ltb_ge in W; lia]. }
    assert (x < pR \/ pR + q_spc g * B <= x) as X4.
    { apply andb_false_iff in W4. destruct W4 as [W|W]; [apply N.leb_gt in W; lia|apply N.ltb_ge in W; lia]. }
    rng_eval. reflexivity.
  - cbn [andb] in *.
    assert (x < pR \/ pR + q_rds g * B <= x) as X4.
    { apply andb_false_iff in W4. destruct W4 as [W|W]; [apply N.leb_gt in W; lia|apply N.ltb_ge in W; lia]. }
    assert (t <> Format.Fat32) as Hne by (intros ->; discriminate). specialize (Hrds1 Hne). specialize (Hrl Hrds1).
    rng_eval. reflexivity.
Qed.

(* ================================================================== (c) the root directory *)
Definition allz (l : list N) : Prop := forall i, nth i l 0 = 0.

Lemma allz_skipn k : forall l, allz l -> allz (skipn k l).
Proof.
  induction k as [|k IH]; intros l H; [exact H|]. destruct l as [|x l]; [exact H|]. cbn [skipn]. apply IH.
  intros i. exact (H (S i)).
Qed.

Lemma allz_firstn k : forall l, allz l -> allz (firstn k l).
Proof.
  induction k as [|k IH]; intros l H i; [destruct i; reflexivity|]. destruct l as [|x l]; [destruct i; reflexivity|].
  cbn [firstn]. destruct i as [|i]; [exact (H 0%nat)|]. cbn [nth]. apply IH. intros j. exact (H (S j)).
Qed.

Lemma chunk32_allz fuel : forall l, allz l -> forall s, In s (Abs.chunk32 l fuel) -> byte_at s 0 = 0.
Proof.
  induction fuel as [|f IH]; intros l H s Hs; cbn [Abs.chunk32] in Hs; [destruct Hs|].
  destruct l as [|x l]; [destruct Hs|]. destruct Hs as [<-|Hs].
  - unfold byte_at. apply (allz_firstn 32 (x :: l) H).
  - exact (IH _ (allz_skipn 32 (x :: l) H) s Hs).
Qed.

(* a directory whose every slot starts with 0 has no entry, no label, no issue (the first slot is the end marker) *)
Lemma dir_scan_all_end ss idx fat32 : (forall s, In s ss -> byte_at s 0 = 0) ->
  Abs.dir_scan ss idx [] fat32 = ([], [], []).
Proof.
  intros H. destruct ss as [|s r]; [reflexivity|]. cbn [Abs.dir_scan].
  rewrite (H s (or_introl eq_refl)). cbn [N.eqb].
  assert (forallb (fun t => byte_at t 0 =? 0) r = true) as ->; [|reflexivity].
  apply forallb_forall. intros x Hx. rewrite (H x (or_intror Hx)). reflexivity.
Qed.

(* the labels the independent decoder finds in the root directory of the fresh volume *)
Definition expected_labels (o : fmt_options) : list (list N) :=
  match o_volume_label o with
  | Some l => if (nth 0 l 0 =? 0) || (nth 0 l 0 =? 229) then [] else [l]
  | None => []
  end.

Lemma dir_scan_label l zs fat32 : length l = 11%nat -> (forall s, In s zs -> byte_at s 0 = 0) ->
  Abs.dir_scan (sfn_encode (label_entry l) :: zs) 0 [] fat32 =
    ([], (if (nth 0 l 0 =? 0) || (nth 0 l 0 =? 229) then [] else [l]), []).
Proof.
  intros Hl Hz.
  destruct l as [|l0 [|l1 [|l2 [|l3 [|l4 [|l5 [|l6 [|l7 [|l8 [|l9 [|l10 [|? ?]]]]]]]]]]]]; try discriminate.
  cbn [nth]. cbn [Abs.dir_scan].
  change (byte_at (sfn_encode (label_entry [l0; l1; l2; l3; l4; l5; l6; l7; l8; l9; l10])) 0) with l0.
  destruct (l0 =? 0) eqn:E0.
  - cbn [orb].
    assert (forallb (fun t => byte_at t 0 =? 0) zs = true) as ->; [|reflexivity].
    apply forallb_forall. intros x Hx. rewrite (Hz x Hx). reflexivity.
  - destruct (l0 =? 229) eqn:E1.
    + cbn [orb]. rewrite (dir_scan_all_end zs (0 + 1) fat32 Hz). reflexivity.
    + cbn [orb].
      change (Abs.is_lfn_slot (sfn_encode (label_entry [l0; l1; l2; l3; l4; l5; l6; l7; l8; l9; l10]))) with false.
      change (Abs.is_label_slot (sfn_encode (label_entry [l0; l1; l2; l3; l4; l5; l6; l7; l8; l9; l10]))) with true.
      cbv iota. rewrite (dir_scan_all_end zs (0 + 1) fat32 Hz). reflexivity.
Qed.

Lemma nth_skipn_add k : forall (l : list N) i, nth i (skipn k l) 0 = nth (k + i) l 0.
Proof.
  induction k as [|k IH]; intros l i; [reflexivity|]. destruct l as [|x l]; [destruct i; reflexivity|].
  cbn [skipn Nat.add nth]. apply IH.
Qed.

Lemma nth_firstn_lt k : forall (l : list N) i, (i < k)%nat -> nth i (firstn k l) 0 = nth i l 0.
Proof.
  induction k as [|k IH]; intros l i H; [lia|]. destruct l as [|x l]; [reflexivity|].
  cbn [firstn]. destruct i as [|i]; [reflexivity|]. cbn [nth]. apply IH. lia.
Qed.

(* (c) the root directory (FAT12/16: the fixed region; FAT32: the root cluster) is zero except for the label entry in
   slot 0; the independent decoder finds no entry, no issue and exactly the label (unless its first byte is the end
   or the deleted marker) *)
Theorem image_root_dir o ts im0 bs t im : builder_range o -> ts < 4294967296 -> bytes_ok im0 ->
  format_boot_sector_validated o ts = Ok (bs, t) -> format_image o ts im0 = Ok im ->
  (forall i, i < fi_root_len (fbs_bpb bs) t ->
     img_get im (fi_root_pos (fbs_bpb bs) + i) = nth (N.to_nat i) (label_bytes o) 0) /\
  (forall n fat32, (32 <= n)%nat -> N.of_nat n <= fi_root_len (fbs_bpb bs) t ->
     Abs.dir_scan (Abs.slots_of (img_read im (fi_root_pos (fbs_bpb bs)) n)) 0 [] fat32 = ([], expected_labels o, [])).
Proof.
  intros Hb Hts Hb0 Hv E.
  destruct (image_facts_of o ts im0 bs t im Hb Hts Hb0 Hv E) as [K (g & Hg & Hbf & T1 & T3 & T5 & Hmed & Hrds1 & Hlen & St & L)].
  destruct (layout_lin g t Hg) as (HB & HpR & HSZ & HFS & HFS2 & H32 & H16 & Hcl & Hrl).
  unfold fi_root_pos, fi_root_len.
  rewrite (bf_bps _ _ _ Hbf), (bf_r _ _ _ Hbf), (bf_f _ _ _ Hbf), (bf_spc _ _ _ Hbf), <- T1, <- T3, sp_is32_eqb.
  set (B := q_bps g) in *. set (pF := q_r g * B) in *. set (pR := (q_r g + q_f g * q_spf g) * B) in *.
  set (RL := if fat_type_eqb t Format.Fat32 then q_spc g * B else q_rds g * B) in *.
  assert (length (label_bytes o) = 32%nat \/ label_bytes o = []) as HLL.
  { unfold label_bytes. destruct (o_volume_label o) as [l|] eqn:El; [left|right; reflexivity].
    destruct Hb as (_ & _ & _ & _ & _ & _ & _ & _ & _ & _ & Hl). destruct (Hl l El) as [L1 L2].
    exact (proj1 (sfn_encode_label l L1 (blist_ok_forall l L2))). }
  assert (32 <= RL /\ (fat_type_eqb t Format.Fat32 = true -> 2 * B < pF)) as [HRL HpF].
  { unfold RL. destruct (fat_type_eqb t Format.Fat32) eqn:E32.
    - apply fat_type_eqb_eq in E32. destruct (H32 E32) as (HpF8 & _). split; [lia|]. intros _. lia.
    - assert (t <> Format.Fat32) as Hne by (intros ->; discriminate). specialize (Hrl (Hrds1 Hne)). split; [lia|discriminate]. }
  assert (forall i, i < RL -> img_get im (pR + i) = nth (N.to_nat i) (label_bytes o) 0) as Hroot.
  { intros i Hi. rewrite L by lia. unfold layout_get. fold RL.
    destruct (N.lt_ge_cases i (len_N (label_bytes o))) as [Hlt|Hge].
    - rewrite (in_rng_true pR (pR + len_N (label_bytes o)) (pR + i)) by lia. f_equal. lia.
    - rewrite (in_rng_false pR (pR + len_N (label_bytes o)) (pR + i)) by lia.
      replace (nth (N.to_nat i) (label_bytes o) 0) with 0 by (symmetry; apply nth_overflow; unfold len_N in Hge; lia).
      destruct (fat_type_eqb t Format.Fat32) eqn:E32; cbn [andb].
      + specialize (HpF eq_refl). rng_eval. reflexivity.
      + rng_eval. reflexivity. }
  split; [exact Hroot|].
  intros n fat32 Hn HnR.
  set (bytes := img_read im pR n).
  assert (length bytes = n) as Hbl by apply img_read_length.
  assert (forall j, nth j bytes 0 = nth j (label_bytes o) 0) as Hnth.
  { intros j. destruct (Nat.lt_ge_cases j n) as [Hj|Hj].
    - unfold bytes. rewrite img_read_nth by exact Hj. rewrite Hroot by lia. f_equal. lia.
    - rewrite nth_overflow by lia. symmetry. apply nth_overflow. destruct HLL as [H1|H1]; rewrite H1; cbn [length]; lia. }
  unfold Abs.slots_of. rewrite Hbl. cbn [Abs.chunk32].
  destruct bytes as [|x0 rest] eqn:Eb; [cbn [length] in Hbl; lia|]. rewrite <- Eb in *.
  assert (allz (skipn 32 bytes)) as Hz.
  { intros j. rewrite nth_skipn_add, Hnth. apply nth_overflow. destruct HLL as [H1|H1]; rewrite H1; cbn [length]; lia. }
  pose proof (chunk32_allz (n / 32) (skipn 32 bytes) Hz) as Hzs.
  unfold expected_labels. unfold label_bytes in *. destruct (o_volume_label o) as [l|] eqn:El.
  - assert (firstn 32 bytes = sfn_encode (label_entry l)) as ->.
    { destruct HLL as [H1|H1]; [|destruct Hb as (_ & _ & _ & _ & _ & _ & _ & _ & _ & _ & Hl); destruct (Hl l El) as [L1 _];
                                  destruct l; [discriminate|discriminate]].
      apply list_eq_nth; [rewrite firstn_length, Hbl, H1; lia|].
      intros i Hi. rewrite firstn_length, Hbl in Hi. rewrite nth_firstn_lt by lia. apply Hnth. }
    destruct Hb as (_ & _ & _ & _ & _ & _ & _ & _ & _ & _ & Hl). destruct (Hl l El) as [L1 _].
    apply dir_scan_label; assumption.
  - apply dir_scan_all_end. intros s [<-|Hs]; [|exact (Hzs s Hs)].
    unfold byte_at. rewrite nth_firstn_lt by lia. rewrite Hnth. reflexivity.
Qed.

(* ================================================================== (b) the FAT copies *)
(* the raw values of the two reserved entries, per width: FAT ID = media byte with all higher bits set, and all ones *)
Definition reserved_entries_ok (t : Format.fat_type) (s : fstore) (media : N) : Prop :=
  match t with
  | Format.Fat12 => raw12_at s 0 = 3840 + media /\ raw12_at s 1 = 4095
  | Format.Fat16 => word16 s 0 = 65280 + media /\ word16 s 1 = 65535
  | Format.Fat32 => word32 s 0 = 268435200 + media /\ word32 s 1 = 4294967295
  end.

Lemma reserved_entries_of_bytes t s media : media <= 255 ->
  (forall j, (j < length (reserved_bytes t media))%nat -> ebyte s (N.of_nat j) = nth j (reserved_bytes t media) 0) ->
  reserved_entries_ok t s media.
Proof.
  intros Hm H. destruct t; cbn [reserved_entries_ok reserved_bytes length] in *.
  - pose proof (H 0%nat ltac:(lia)) as H0. pose proof (H 1%nat ltac:(lia)) as H1. pose proof (H 2%nat ltac:(lia)) as H2.
    cbn [nth] in H0, H1, H2. change (N.of_nat 0) with 0 in H0. change (N.of_nat 1) with 1 in H1. change (N.of_nat 2) with 2 in H2.
    unfold raw12_at, word12. change (off12 0) with 0. change (off12 1) with 1. change (0 + 1) with 1. change (1 + 1) with 2.
    rewrite H0, H1, H2. change (0 mod 2 =? 0) with true. change (1 mod 2 =? 0) with false. cbv iota. split; lia.
  - pose proof (H 0%nat ltac:(lia)) as H0. pose proof (H 1%nat ltac:(lia)) as H1. pose proof (H 2%nat ltac:(lia)) as H2.
    pose proof (H 3%nat ltac:(lia)) as H3. cbn [nth] in H0, H1, H2, H3.
    change (N.of_nat 0) with 0 in H0. change (N.of_nat 1) with 1 in H1. change (N.of_nat 2) with 2 in H2. change (N.of_nat 3) with 3 in H3.
    unfold word16. change (2 * 0) with 0. change (2 * 1) with 2. change (0 + 1) with 1. change (2 + 1) with 3.
    rewrite H0, H1, H2, H3. split; lia.
  - pose proof (H 0%nat ltac:(lia)) as H0. pose proof (H 1%nat ltac:(lia)) as H1. pose proof (H 2%nat ltac:(lia)) as H2.
    pose proof (H 3%nat ltac:(lia)) as H3. pose proof (H 4%nat ltac:(lia)) as H4. pose proof (H 5%nat ltac:(lia)) as H5.
    pose proof (H 6%nat ltac:(lia)) as H6. pose proof (H 7%nat ltac:(lia)) as H7.
    cbn [nth] in H0, H1, H2, H3, H4, H5, H6, H7.
    change (N.of_nat 0) with 0 in H0. change (N.of_nat 1) with 1 in H1. change (N.of_nat 2) with 2 in H2. change (N.of_nat 3) with 3 in H3.
    change (N.of_nat 4) with 4 in H4. change (N.of_nat 5) with 5 in H5. change (N.of_nat 6) with 6 in H6. change (N.of_nat 7) with 7 in H7.
    unfold word32. change (4 * 0) with 0. change (4 * 1) with 4. change (0 + 1) with 1. change (0 + 2) with 2. change (0 + 3) with 3.
    change (4 + 1) with 5. change (4 + 2) with 6. change (4 + 3) with 7.
    rewrite H0, H1, H2, H3, H4, H5, H6, H7. split; lia.
Qed.

Theorem image_fat o ts im0 bs t im : builder_range o -> ts < 4294967296 -> bytes_ok im0 ->
  format_boot_sector_validated o ts = Ok (bs, t) -> format_image o ts im0 = Ok im ->
  let s := fi_fat_store im (fbs_bpb bs) in
  copies_equal s /\ reserved_entries_ok t s (o_media o) /\
  (forall x, 2 <= x < sp_clusters (fbs_bpb bs) + 2 ->
     val_ft (to_fat_type t) s x = if sp_is32 t && (x =? 2) then Eoc else data_val x) /\
  (forall x, sp_clusters (fbs_bpb bs) + 2 <= x < sp_fat_entries (fbs_bpb bs) t -> val_ft (to_fat_type t) s x = spare_val x).
Proof.
  intros Hb Hts Hb0 Hv E s.
  destruct (image_facts_of o ts im0 bs t im Hb Hts Hb0 Hv E) as [K (g & Hg & Hbf & T1 & T3 & T5 & Hmed & Hrds1 & Hlen & St & L)].
  destruct St as [S1 S2 S3 S4 S5]. fold s in S1, S2, S3, S4, S5. rewrite <- T5, <- Hmed.
  assert (sp_fat_entries (fbs_bpb bs) t = entries_of g t) as HE.
  { unfold sp_fat_entries, entries_of. rewrite T1, (bf_bps _ _ _ Hbf), sp_bits_eq. reflexivity. }
  rewrite HE. split; [exact S2|]. split.
  - apply reserved_entries_of_bytes; [apply Hg|exact S3].
  - split; [|exact S5]. intros x Hx. rewrite (S4 x Hx), sp_is32_eqb.
    destruct (fat_type_eqb t Format.Fat32); reflexivity.
Qed.

(* below the BAD range (every FAT12/16 volume; FAT32 volumes of at most 0x0FFFFFF0 - 2 clusters) the values are Free
   and EndOfChain *)
Lemma data_val_small x : x < 268435440 -> data_val x = Free.
Proof. intros H. unfold data_val. destruct (268435440 <=? x) eqn:E; [apply N.leb_le in E; lia|reflexivity]. Qed.
Lemma spare_val_small x : x < 268435440 -> spare_val x = Eoc.
Proof. intros H. unfold spare_val. destruct (268435440 <=? x) eqn:E; [apply N.leb_le in E; lia|reflexivity]. Qed.

Lemma fat_values_small x : x < 268435440 -> data_val x = Free /\ spare_val x = Eoc.
Proof. intros H. split; [exact (data_val_small x H)|exact (spare_val_small x H)]. Qed.

(* FAT12/16 tables never reach that range *)
Lemma small_fat_entries o ts bs t : builder_range o -> ts < 4294967296 ->
  format_boot_sector_validated o ts = Ok (bs, t) -> t <> Format.Fat32 -> sp_fat_entries (fbs_bpb bs) t <= 268435440.
Proof.
  intros Hb Hts Hv Hne.
  destruct (accepted_geo o ts bs t Hb Hts Hv) as (g & Hg & Hbf & Hbs & Hlen & Hbok & Hmed & Hbps & Hfats & T1 & T3 & T5 & H16).
  destruct (H16 Hne) as (_ & _ & Hs). pose proof (geo_bps g t Hg) as HB.
  unfold sp_fat_entries. rewrite <- T1, (bf_bps _ _ _ Hbf), sp_bits_eq.
  assert (q_spf g * q_bps g <= 65535 * 4096) as H by nia.
  destruct t; cbn [bits_per_fat_entry]; try contradiction; lia.
Qed.

(* ================================================================== (d) free space *)
Lemma cnt_all_free f : forall n c, (forall x, c <= x < c + N.of_nat n -> f x = Free) -> cnt f c n = N.of_nat n.
Proof.
  induction n as [|n IH]; intros c H; cbn [cnt]; [reflexivity|].
  rewrite (H c) by lia. cbn [is_free]. rewrite IH by (intros x Hx; apply H; lia). lia.
Qed.

Lemma fsinfo_words free next :
  let l := fsinfo_bytes free next in
  (nth 0 l 0, nth 1 l 0, nth 2 l 0, nth 3 l 0) = (82, 82, 97, 65) /\
  (nth 484 l 0, nth 485 l 0, nth 486 l 0, nth 487 l 0) = (114, 114, 65, 97) /\
  [nth 488 l 0; nth 489 l 0; nth 490 l 0; nth 491 l 0] = u32_bytes free /\
  [nth 492 l 0; nth 493 l 0; nth 494 l 0; nth 495 l 0] = u32_bytes next /\
  (nth 508 l 0, nth 509 l 0, nth 510 l 0, nth 511 l 0) = (0, 0, 85, 170).
Proof.
  cbv zeta. unfold fsinfo_bytes.
  change (u32_bytes 1096897106) with [82; 82; 97; 65]. change (u32_bytes 1631679090) with [114; 114; 65; 97].
  change (u32_bytes 2857697280) with [0; 0; 85; 170].
  unfold u32_bytes. cbn [app repeat_N nth]. repeat split.
Qed.

Lemma img_u32_bytes im p v : v < 4294967296 ->
  [img_get im p; img_get im (p + 1); img_get im (p + 2); img_get im (p + 3)] = u32_bytes v -> img_u32 im p = v.
Proof.
  intros Hv H. unfold u32_bytes in H. injection H as H0 H1 H2 H3.
  unfold img_u32, img_u16. replace (p + 2 + 1) with (p + 3) by lia. rewrite H0, H1, H2, H3.
  rewrite <- (u32_word v Hv) at 5. lia.
Qed.

Lemma cnt_split f : forall n1 n2 c, cnt f c (n1 + n2) = cnt f c n1 + cnt f (c + N.of_nat n1) n2.
Proof.
  induction n1 as [|n1 IH]; intros n2 c; cbn [cnt Nat.add].
  - rewrite N.add_0_r. reflexivity.
  - rewrite IH. replace (c + 1 + N.of_nat n1) with (c + N.of_nat (S n1)) by lia. lia.
Qed.

Lemma cnt_none_free f : forall n c, (forall x, c <= x < c + N.of_nat n -> is_free (f x) = false) -> cnt f c n = 0.
Proof.
  induction n as [|n IH]; intros c H; cbn [cnt]; [reflexivity|].
  rewrite (H c) by lia. rewrite IH by (intros x Hx; apply H; lia). reflexivity.
Qed.

(* (d) the number of free entries among the data clusters is the cluster count minus the root cluster (FAT32) minus the
   clusters in the BAD range; the FS-info sector of a FAT32 volume carries exactly this number and the hint 3
   (= root cluster + 1, a data cluster) *)
Theorem image_free_space o ts im0 bs t im : builder_range o -> ts < 4294967296 -> bytes_ok im0 ->
  format_boot_sector_validated o ts = Ok (bs, t) -> format_image o ts im0 = Ok im ->
  let b := fbs_bpb bs in
  let total := sp_clusters b in
  let free := count_spec fstore (val_ft (to_fat_type t)) (fi_fat_store im b) 2 (N.to_nat total) in
  free = (if sp_is32 t then total - 1 else total) - bad_range_clusters total /\
  (t <> Format.Fat32 -> bad_range_clusters total = 0) /\
  (t = Format.Fat32 ->
     img_read im (fi_fsinfo_pos b) 512 = fsinfo_bytes free 3 /\
     (forall x, 512 <= x < fb_bytes_per_sector b -> img_get im (fi_fsinfo_pos b + x) = 0) /\
     img_u32 im (fi_fsinfo_pos b + 488) = free /\ img_u32 im (fi_fsinfo_pos b + 492) = 3 /\ 3 < total + 2).
Proof.
  intros Hb Hts Hb0 Hv E b total free.
  destruct (image_facts_of o ts im0 bs t im Hb Hts Hb0 Hv E) as [K (g & Hg & Hbf & T1 & T3 & T5 & Hmed & Hrds1 & Hlen & St & L)].
  destruct (layout_lin g t Hg) as (HB & HpR & HSZ & HFS & HFS2 & H32 & H16 & Hcl & Hrl).
  destruct St as [S1 S2 S3 S4 S5]. fold b in S1, S2, S3, S4, S5, Hbf, T1, T3, T5.
  assert (q_total g <= max_clusters t) as Hmax by apply Hg.
  assert (free = (if sp_is32 t then total - 1 else total) - bad_range_clusters total) as Hfree.
  { unfold free, total. rewrite <- T5.
    unfold count_spec, bad_range_clusters. rewrite sp_is32_eqb.
    set (f := val_ft (to_fat_type t) (fi_fat_store im b)) in *.
    set (m := N.min (q_total g + 2) 268435440).
    destruct (fat_type_eqb t Format.Fat32) eqn:E32.
    + apply fat_type_eqb_eq in E32. destruct (H32 E32) as (_ & _ & Htot). rewrite E32 in Hmax. cbn [max_clusters] in Hmax.
      replace (N.to_nat (q_total g)) with (1 + (N.to_nat (m - 3) + N.to_nat (q_total g + 2 - m)))%nat by (unfold m; lia).
      rewrite cnt_split. cbn [cnt]. rewrite (S4 2) by lia. cbn [N.eqb Pos.eqb is_free].
      rewrite cnt_split. rewrite cnt_all_free, cnt_none_free.
      * unfold m. lia.
      * intros x Hx. rewrite (S4 x) by (unfold m in *; lia). destruct (N.eqb_spec x 2); [lia|].
        unfold data_val. destruct (268435440 <=? x) eqn:Ex; [reflexivity|apply N.leb_gt in Ex; unfold m in *; lia].
      * intros x Hx. rewrite (S4 x) by (unfold m in *; lia). destruct (N.eqb_spec x 2); [lia|].
        apply data_val_small. unfold m in *. lia.
    + assert (t <> Format.Fat32) as Hne by (intros ->; discriminate).
      assert (q_total g <= 65524) as Hsm by (destruct t; cbn [max_clusters] in Hmax; try contradiction; lia).
      rewrite cnt_all_free; [lia|]. intros x Hx. rewrite (S4 x) by lia. apply data_val_small. lia. }
  split; [exact Hfree|]. split.
  - intros Hne. unfold bad_range_clusters, total. rewrite <- T5. destruct t; cbn [max_clusters] in Hmax; try contradiction; lia.
  - intros E32. destruct (H32 E32) as (HpF8 & Hrds0 & Htot).
    assert (q_total g <= 268435444) as Hmax' by (rewrite E32 in Hmax; exact Hmax).
    assert (free = fsinfo_free_of (q_total g)) as Hff.
    { rewrite Hfree, E32. cbn [sp_is32]. unfold fsinfo_free_of, total. rewrite <- T5. reflexivity. }
    rewrite Hff. unfold total. rewrite <- T5.
    unfold fi_fsinfo_pos. rewrite (bf_fsinfo _ _ _ Hbf), (bf_bps _ _ _ Hbf). unfold if32. rewrite E32. cbn [fat_type_eqb].
    rewrite N.mul_1_l.
    set (B := q_bps g) in *. set (pF := q_r g * B) in *. set (pR := (q_r g + q_f g * q_spf g) * B) in *.
    set (fsi := fsinfo_bytes (fsinfo_free_of (q_total g)) 3) in *.
    assert (fsinfo_free_of (q_total g) < 4294967296) as Hfl by (unfold fsinfo_free_of, bad_range_clusters; lia).
    assert (forall i, i < 512 -> img_get im (B + i) = nth (N.to_nat i) fsi 0) as Hfs.
    { intros i Hi. rewrite L by lia. unfold layout_get. rewrite E32. cbn [fat_type_eqb andb]. rng_eval. f_equal. lia. }
    assert (forall x, 512 <= x < B -> img_get im (B + x) = 0) as Hpad.
    { intros x Hx. rewrite L by lia. unfold layout_get. rewrite E32. cbn [fat_type_eqb andb]. rng_eval. reflexivity. }
    destruct (fsinfo_words (fsinfo_free_of (q_total g)) 3) as (_ & _ & W3 & W4 & _). cbv zeta in W3, W4. fold fsi in W3, W4.
    split; [|split; [exact Hpad|split; [|split]]].
    + apply img_read_eq; [reflexivity|]. intros i Hi. rewrite Hfs by lia. f_equal. lia.
    + apply img_u32_bytes; [exact Hfl|]. rewrite <- W3.
      replace (B + 488 + 1) with (B + 489) by lia. replace (B + 488 + 2) with (B + 490) by lia. replace (B + 488 + 3) with (B + 491) by lia.
      rewrite !Hfs by lia. reflexivity.
    + apply img_u32_bytes; [lia|]. rewrite <- W4.
      replace (B + 492 + 1) with (B + 493) by lia. replace (B + 492 + 2) with (B + 494) by lia. replace (B + 492 + 3) with (B + 495) by lia.
      rewrite !Hfs by lia. reflexivity.
    + lia.
Qed.

(* ================================================================== (f) totality *)
(* format_volume performs its writes exactly when the sizing/validation step accepts the request; it never panics and
   fails only with InvalidInput (before the first write) *)
Theorem image_total o ts im0 : builder_range o -> ts < 4294967296 -> bytes_ok im0 ->
  format_image o ts im0 <> Panic /\ format_image o ts im0 <> OutOfFuel /\
  (forall e, format_image o ts im0 = Err e -> e = EInvalidInput) /\
  ((exists im, format_image o ts im0 = Ok im) <-> (exists r, format_boot_sector_validated o ts = Ok r)).
Proof.
  intros Hb Hts Hb0.
  destruct (format_boot_sector_validated o ts) as [[bs t]|e| |] eqn:Ev.
  - destruct (format_image_facts o ts im0 bs t Hb Hts Hb0 Ev) as (im & E & _).
    rewrite E. split; [discriminate|]. split; [discriminate|]. split; [discriminate|].
    split; intros _; eexists; reflexivity.
  - pose proof (format_err_kind o ts e Hb Hts Ev) as ->.
    unfold format_image. rewrite Ev. cbn [bind]. split; [discriminate|]. split; [discriminate|].
    split; [intros e [= <-]; reflexivity|]. split; intros [x Hx]; discriminate.
  - exfalso. exact (proj1 (format_total o ts Hb Hts) Ev).
  - exfalso. exact (proj2 (format_total o ts Hb Hts) Ev).
Qed.

(* ================================================================== FS-info count vs. the table *)
(* the count the FS-info sector carries is the number of free entries of the table, for every FAT32 volume *)
Corollary image_fsinfo_count_exact o ts im0 bs im : builder_range o -> ts < 4294967296 -> bytes_ok im0 ->
  format_boot_sector_validated o ts = Ok (bs, Format.Fat32) -> format_image o ts im0 = Ok im ->
  img_u32 im (fi_fsinfo_pos (fbs_bpb bs) + 488) =
    count_spec fstore val32 (fi_fat_store im (fbs_bpb bs)) 2 (N.to_nat (sp_clusters (fbs_bpb bs))).
Proof.
  intros Hb Hts Hb0 Hv E.
  destruct (image_free_space o ts im0 bs Format.Fat32 im Hb Hts Hb0 Hv E) as (_ & _ & F). cbv zeta in F.
  destruct (F eq_refl) as (_ & _ & W & _). exact W.
Qed.

(* the largest FAT32 volume: 270532604 sectors of 512 bytes, 512-byte clusters, one FAT *)
Definition bad_range_request : fmt_options :=
  {| o_bytes_per_sector := 512; o_total_sectors := None; o_bytes_per_cluster := Some 512; o_fat_type := Some Format.Fat32;
     o_max_root_dir_entries := 512; o_fats := 1; o_media := 248; o_sectors_per_track := 32; o_heads := 64;
     o_drive_num := None; o_volume_id := 305419896; o_volume_label := None |}.

Lemma bad_range_request_in_range : builder_range bad_range_request.
Proof.
  unfold builder_range; cbn [bad_range_request o_bytes_per_sector o_bytes_per_cluster o_max_root_dir_entries o_fats o_media
    o_sectors_per_track o_heads o_drive_num o_volume_id o_volume_label].
  repeat split; intros; try lia; try discriminate; try reflexivity;
    match goal with H : Some _ = Some _ |- _ => injection H as <- end; try reflexivity; lia.
Qed.

(* on it 6 data clusters are Bad; the FS-info count is 268435437 = the table's count (the formula total - 1 of the
   library before the fix of format_volume gave 268435443) *)
Lemma bad_range_volume_counts :
  exists bs, format_boot_sector_validated bad_range_request 270532604 = Ok (bs, Format.Fat32) /\
    sp_clusters (fbs_bpb bs) = 268435444 /\ bad_range_clusters (sp_clusters (fbs_bpb bs)) = 6 /\
    forall im0, bytes_ok im0 ->
      exists im, format_image bad_range_request 270532604 im0 = Ok im /\
        img_u32 im (fi_fsinfo_pos (fbs_bpb bs) + 488) = 268435437 /\
        count_spec fstore val32 (fi_fat_store im (fbs_bpb bs)) 2 (N.to_nat (sp_clusters (fbs_bpb bs))) = 268435437 /\
        (forall x, 268435440 <= x < 268435446 -> val32 (fi_fat_store im (fbs_bpb bs)) x = Bad).
Proof.
  destruct (format_boot_sector_validated bad_range_request 270532604) as [[bs t]| | |] eqn:Ev;
    [|vm_compute in Ev; discriminate..].
  assert (t = Format.Fat32 /\ sp_clusters (fbs_bpb bs) = 268435444) as [-> Hc].
  { vm_compute in Ev. injection Ev as <- <-. split; vm_compute; reflexivity. }
  exists bs. split; [reflexivity|]. split; [exact Hc|]. split; [rewrite Hc; reflexivity|].
  intros im0 Hb0. assert (270532604 < 4294967296) as Hts by lia.
  destruct (format_image_facts bad_range_request 270532604 im0 bs Format.Fat32 bad_range_request_in_range Hts Hb0 Ev)
    as (im & E & _).
  exists im. split; [exact E|].
  destruct (image_free_space bad_range_request 270532604 im0 bs Format.Fat32 im bad_range_request_in_range Hts Hb0 Ev E) as (C & _ & F).
  cbv zeta in C, F. destruct (F eq_refl) as (_ & _ & W & _).
  destruct (image_fat bad_range_request 270532604 im0 bs Format.Fat32 im bad_range_request_in_range Hts Hb0 Ev E) as (_ & _ & D & _).
  cbn [to_fat_type sp_is32] in C, D, W. change (val_ft Fat.Fat32) with val32 in C, D, W.
  rewrite Hc in *. split; [rewrite W, C; reflexivity|]. split; [rewrite C; reflexivity|].
  intros x Hx. rewrite (D x ltac:(lia)). destruct (N.eqb_spec x 2); [lia|]. cbn [andb].
  unfold data_val. destruct (268435440 <=? x) eqn:Ex; [reflexivity|apply N.leb_gt in Ex; lia].
Qed.
