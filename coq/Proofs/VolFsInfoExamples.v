(* VolFsInfoExamples.v: the FS-info sector / FAT32 status byte theorems (Proofs/VolFsInfoProofs.v) on a concrete FAT32 volume: the
   image Model/FormatImage.v produces for 66100 sectors of 512 bytes, 512-byte clusters, one FAT (FormatImageExamples
   ex_img32_request: 65579 clusters), on a zero-filled device.  Evaluations by vm_compute (a few seconds each; not repeated at every
   ./check).  1. the premises of the session theorems hold  2. a session with allocation, statistics, truncation
   3. a volume without stored count: the statistics exception of C13  4. the witness of the known finding D16
   5. OBSERVATION fs_info_sector = 0: why the premise 1 <= g_fsinfo_sector is there *)
From Coq Require Import NArith List Bool Lia.
From FatVerif Require Import Model.Base Model.Slot Model.Table Model.Fat Model.FileM Model.Flags Model.Format Model.FormatImage
  Model.VolFile Model.VolStatus Model.VolFsInfo Spec.Image Spec.Abs Spec.FormatSpec
  Proofs.ImageProofs Proofs.FatProofs Proofs.FormatProofs Proofs.FormatImageProofs Proofs.FormatImageExamples Proofs.VolFileProofs
  Proofs.VolStatusProofs Proofs.VolFsInfoProofs.
Import ListNotations.
Open Scope N_scope.

(* (statements avoid a literal `match` on these closed terms: elaboration would weak-head normalise them lazily) *)
Definition res_img (r : res image) : image := match r with Ok im => im | _ => img_empty 0 end.
Definition on_ok {A} (r : res A) (P : A -> Prop) : Prop := match r with Ok a => P a | _ => False end.
Definition ex32_im : image := res_img (format_image ex_img32_request 66100 (img_empty 0)).
Definition ex32_g : geom := parse_geom ex32_im.

Lemma img_empty_bytes_ok b : b < 256 -> bytes_ok (img_empty b).
Proof. intros H o. unfold img_get, img_empty. cbn [img_map img_fill]. rewrite FMapPositive.PositiveMap.gempty. exact H. Qed.

Lemma ex32_builder : builder_range ex_img32_request.
Proof.
  unfold builder_range, ex_img32_request. cbn.
  repeat split; try reflexivity; try lia; try discriminate.
  - injection H as <-. reflexivity.
  - injection H as <-. lia.
  - injection H as <-. lia.
Qed.

Lemma ex32_bytes : bytes_ok ex32_im.
Proof.
  destruct ex_img_fat32 as (bs & Hv & _).
  destruct (format_image_facts ex_img32_request 66100 (img_empty 0) bs Format.Fat32 ex32_builder ltac:(lia)
              (img_empty_bytes_ok 0 ltac:(lia)) Hv) as (im & E & F).
  unfold ex32_im. rewrite E. exact (if_bytes _ _ _ _ _ F).
Qed.

(* ---------------------------------------------------------------- 1. the premises *)
Example ex32_facts :
  vol32b ex32_g = true /\ g_clusters ex32_g = 65579 /\ fsi_off ex32_g = 512 /\
  vol32_mount false ex32_im = Ok ({| fi_free := Some 65578; fi_next := Some 3; fi_dirty := false |}, st_mount 0) /\
  count_free ex32_g ex32_im = 65578 /\ fsi_free_word ex32_g ex32_im = 65578 /\ fsi_next_word ex32_g ex32_im = 3 /\
  img_get ex32_im 65 = 0 /\ img_read ex32_im 512 512 = fsinfo_bytes 65578 3.
Proof. vm_compute. repeat split; reflexivity. Qed.

Lemma ex32_vol32 : Vol32 (parse_geom ex32_im).
Proof. apply vol32b_ok. exact (proj1 ex32_facts). Qed.

Lemma ex32_coherent : mount_coherent (parse_geom ex32_im) ex32_im.
Proof.
  destruct ex32_facts as (_ & Ht & _ & _ & Hc & Hw & _ & H65 & _). fold ex32_g.
  intros n. unfold mount_free. rewrite H65, Hw, Ht, Hc. cbn. intros H. injection H as <-. reflexivity.
Qed.

Lemma ex32_sector_wf : sector_wf (parse_geom ex32_im) ex32_im.
Proof.
  destruct ex32_facts as (_ & _ & Ho & _ & _ & Hw & Hn & _ & Hr). fold ex32_g. unfold sector_wf. rewrite Ho, Hw, Hn. exact Hr.
Qed.

(* ---------------------------------------------------------------- 2. a session *)
Definition ex32_calls : list v32call :=
  [CFile (FWrite [1; 2; 3]); CStats; CFile (FSeek (FromStart 0)); CFile (FRead 2); CFile FTruncate; CStats].

Lemma ex32_calls_ok : Forall fs_call ex32_calls.
Proof.
  unfold ex32_calls. repeat constructor. intros b Hb. cbn [In] in Hb. destruct Hb as [<-|[<-|[<-|[]]]]; lia.
Qed.

(* every premise of C05_vol32_session_fsinfo / C12_vol32_reachable / C12_vol32_unmount_restores holds of this session *)
Example ex32_session_hyps :
  bytes_ok ex32_im /\ Vol32 (parse_geom ex32_im) /\
  vol32_mount false ex32_im = Ok ({| fi_free := Some 65578; fi_next := Some 3; fi_dirty := false |}, st_mount 0) /\
  N.odd (img_get ex32_im 65) = false /\ fsi_free_word (parse_geom ex32_im) ex32_im = count_free (parse_geom ex32_im) ex32_im /\
  mount_coherent (parse_geom ex32_im) ex32_im /\ sector_wf (parse_geom ex32_im) ex32_im /\
  run_ok (parse_geom ex32_im)
    {| v_im := ex32_im; v_fi := {| fi_free := Some 65578; fi_next := Some 3; fi_dirty := false |}; v_h := fresh_handle; v_s := st_mount 0 |}
    ex32_calls.
Proof.
  destruct ex32_facts as (_ & _ & _ & Hm & Hc & Hw & _ & H65 & _). fold ex32_g in *.
  split; [exact ex32_bytes|]. split; [exact ex32_vol32|]. split; [exact Hm|]. split; [rewrite H65; reflexivity|].
  split; [fold ex32_g; rewrite Hw, Hc; reflexivity|]. split; [exact ex32_coherent|]. split; [exact ex32_sector_wf|].
  exact (session_premises false ex32_im _ _ ex32_calls ex32_bytes ex32_vol32 Hm ex32_coherent ex32_calls_ok).
Qed.

(* what it does: the write allocates cluster 3 (count 65577, hint 4, status byte dirty), both statistics calls answer the
   decoder's count, unmount stores count and hint and restores the status byte; nothing outside the two words and the status byte
   of the reserved sectors differs from the mounted image *)
Example ex32_session_result :
  on_ok (vol32_session false ex32_im ex32_calls) (fun '(im', rs) =>
      rs = [RFile (RCount 3); RStats (Ok (512, 65579, 65577)); RFile (RPos 0); RFile (RBytes [1; 2]); RFile RDone;
            RStats (Ok (512, 65579, 65577))] /\
      fsi_free_word ex32_g im' = 65577 /\ count_free ex32_g im' = 65577 /\ fsi_next_word ex32_g im' = 4 /\ img_get im' 65 = 0 /\
      img_read im' 512 512 = fsinfo_bytes 65577 4 /\ parse_geom im' = ex32_g) /\
  (* the status byte while mounted: after the write *)
  img_get (v_im (fst (v32_run ex32_g {| v_im := ex32_im; v_fi := {| fi_free := Some 65578; fi_next := Some 3; fi_dirty := false |};
                                      v_h := fresh_handle; v_s := st_mount 0 |} [CFile (FWrite [1; 2; 3])]))) 65 = 1.
Proof. vm_compute. repeat split; reflexivity. Qed.

(* ---------------------------------------------------------------- 3. no stored count: the exception of C13 *)
Definition ex32_unknown : image := img_write ex32_im 1000 [255; 255; 255; 255].

Example ex32_unknown_stats :
  lacks_count (fsi_free_word ex32_g ex32_unknown) 65579 = true /\
  vol32_mount false ex32_unknown = Ok ({| fi_free := None; fi_next := Some 3; fi_dirty := false |}, st_mount 0) /\
  let st := fst (v32_run ex32_g {| v_im := ex32_unknown; v_fi := {| fi_free := None; fi_next := Some 3; fi_dirty := false |};
                                   v_h := fresh_handle; v_s := st_mount 0 |} [CStats]) in
  vol32_unmount_writes ex32_g (v_fi st) (v_s st) = [(512, fsinfo_bytes 65578 3)] /\
  on_ok (vol32_session false ex32_unknown [CStats]) (fun '(im', rs) =>
    rs = [RStats (Ok (512, 65579, 65578))] /\ fsi_free_word ex32_g im' = 65578 /\ fsi_next_word ex32_g im' = 3).
Proof. vm_compute. repeat split; reflexivity. Qed.

(* ---------------------------------------------------------------- 4. D16: mounted dirty, the sector HAS a count (5, stale) *)
Definition ex32_d16 : image := img_set (img_write ex32_im 1000 [5; 0; 0; 0]) 65 1.

Example ex32_d16_witness :
  parse_geom ex32_d16 = ex32_g /\
  d16_class (img_get ex32_d16 65) (fsi_free_word ex32_g ex32_d16) (g_clusters ex32_g) = true /\
  lacks_count (fsi_free_word ex32_g ex32_d16) (g_clusters ex32_g) = false /\
  vol32_mount false ex32_d16 = Ok ({| fi_free := None; fi_next := Some 3; fi_dirty := false |}, st_mount 1) /\
  forallb read_only_call [CStats] = true /\
  let st := fst (v32_run ex32_g {| v_im := ex32_d16; v_fi := {| fi_free := None; fi_next := Some 3; fi_dirty := false |};
                                   v_h := fresh_handle; v_s := st_mount 1 |} [CStats]) in
  vol32_unmount_writes ex32_g (v_fi st) (v_s st) = [(512, fsinfo_bytes 65578 3)] /\
  fsi_free_word ex32_g (fst (fst (vol32_unmount ex32_g (v_im st) (v_fi st) (v_s st)))) = 65578 /\
  fsi_free_word ex32_g ex32_d16 = 5.
Proof. vm_compute. repeat split; reflexivity. Qed.

(* ---------------------------------------------------------------- 5. fs_info_sector = 0 *)
(* the boot sector doubles as FS-info sector: "RRaA" at 0, "rrAa" at 484, unknown count and hint, 00 00 55 AA at 508, and
   BPB_FSInfo = 0.  The library's mount accepts it (validate_reserved_sectors only asks fs_info_sector < reserved_sectors; an unknown
   jump opcode is a warning); statistics, then unmount serialise the sector over the boot sector: bytes 4..483 - the whole BPB -
   become zero and the volume does not mount any more.  Replayed on the real library (tools/props/cfsinfo_corr.py header). *)
Definition ex32_fsi0 : image :=
  img_write (img_write (img_write (img_write (img_write ex32_im 0 [82; 82; 97; 65]) 484 [114; 114; 65; 97]) 488
    [255; 255; 255; 255; 255; 255; 255; 255; 0; 0; 0; 0; 0; 0; 0; 0; 0; 0; 0; 0]) 508 [0; 0; 85; 170]) 48 [0; 0].

Example ex32_fsi0_destroys_boot_sector :
  g_fsinfo_sector (parse_geom ex32_fsi0) = 0 /\ g_bps (parse_geom ex32_fsi0) = 512 /\
  vgeom_okb (parse_geom ex32_fsi0) = true /\
  vol32_mount false ex32_fsi0 = Ok ({| fi_free := None; fi_next := None; fi_dirty := false |}, st_mount 0) /\
  on_ok (vol32_session false ex32_fsi0 [CStats]) (fun '(im', rs) =>
    rs = [RStats (Ok (512, 65579, 65578))] /\ g_bps (parse_geom im') = 0 /\ vol32_mount false im' = Err ECorruptedFileSystem).
Proof. vm_compute. repeat split; reflexivity. Qed.
