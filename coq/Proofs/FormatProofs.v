(* FormatProofs.v: proofs about the format sizing model (C06). *)
From Coq Require Import NArith ZArith Lia Bool List.
From FatVerif Require Import Model.Base Model.Format Spec.FormatSpec.
Import ListNotations.
Open Scope N_scope.
Ltac Zify.zify_post_hook ::= Z.to_euclidean_division_equations.

(* ------------------------------------------------------------------ small helpers *)
Lemma u32_add_ok a b : a + b <= 4294967295 -> u32_add a b = Ok (a + b).
Proof. intros H. unfold u32_add, u32_max. apply N.leb_le in H. rewrite H. reflexivity. Qed.
Lemma u32_mul_ok a b : a * b <= 4294967295 -> u32_mul a b = Ok (a * b).
Proof. intros H. unfold u32_mul, u32_max. apply N.leb_le in H. rewrite H. reflexivity. Qed.
Lemma u32_sub_ok a b : b <= a -> u32_sub a b = Ok (a - b).
Proof. intros H. unfold u32_sub. apply N.leb_le in H. rewrite H. reflexivity. Qed.
Lemma u64_add_ok a b : a + b <= 18446744073709551615 -> u64_add a b = Ok (a + b).
Proof. intros H. unfold u64_add, u64_max. apply N.leb_le in H. rewrite H. reflexivity. Qed.
Lemma u64_mul_ok a b : a * b <= 18446744073709551615 -> u64_mul a b = Ok (a * b).
Proof. intros H. unfold u64_mul, u64_max. apply N.leb_le in H. rewrite H. reflexivity. Qed.
Lemma u64_sub_ok a b : b <= a -> u64_sub a b = Ok (a - b).
Proof. intros H. unfold u64_sub. apply N.leb_le in H. rewrite H. reflexivity. Qed.
Lemma chk_div_ok a b : b <> 0 -> chk_div a b = Ok (a / b).
Proof. intros H. unfold chk_div. apply N.eqb_neq in H. rewrite H. reflexivity. Qed.
Lemma chk_mod_ok a b : b <> 0 -> chk_mod a b = Ok (a mod b).
Proof. intros H. unfold chk_mod. apply N.eqb_neq in H. rewrite H. reflexivity. Qed.

Lemma bind_ok {A B} (a : A) (f : A -> res B) : bind (Ok a) f = f a.
Proof. reflexivity. Qed.

(* every N below a literal bound is in the enumerated list *)
Lemma N_lt_in_seq (n : nat) (j : N) : j < N.of_nat n -> In j (map N.of_nat (seq 0 n)).
Proof.
  intros H. apply in_map_iff. exists (N.to_nat j). split; [apply N2Nat.id|].
  apply in_seq. lia.
Qed.

(* powers of two *)
Lemma pow2_spec n : fmt_is_pow2 n = true <-> exists k, n = 2 ^ k.
Proof.
  unfold fmt_is_pow2. rewrite andb_true_iff, N.ltb_lt, N.eqb_eq. split.
  - intros [_ H]. eexists; exact H.
  - intros [k ->]. split.
    + apply N.neq_0_lt_0. apply N.pow_nonzero. discriminate.
    + rewrite N.log2_pow2 by apply N.le_0_l. reflexivity.
Qed.
Lemma sp_pow2_eq n : sp_pow2 n = fmt_is_pow2 n.
Proof. reflexivity. Qed.

Definition pow2_512_32768 : list N := [512; 1024; 2048; 4096; 8192; 16384; 32768].

Lemma pow2_u16_in n : fmt_is_pow2 n = true -> 512 <= n <= 65535 -> In n pow2_512_32768.
Proof.
  intros Hp [Hlo Hhi]. apply pow2_spec in Hp. destruct Hp as [k ->].
  assert (k < 16) as Hk.
  { destruct (N.lt_ge_cases k 16) as [|Hge]; [assumption|].
    pose proof (N.pow_le_mono_r 2 16 k ltac:(discriminate) Hge) as Hm. change (2 ^ 16) with 65536 in Hm. lia. }
  assert (9 <= k) as Hk9.
  { destruct (N.lt_ge_cases k 9) as [Hlt|]; [|assumption].
    assert (k <= 8) as Hk8 by lia.
    pose proof (N.pow_le_mono_r 2 k 8 ltac:(discriminate) Hk8) as Hm. change (2 ^ 8) with 256 in Hm. lia. }
  pose proof (N_lt_in_seq 16 k Hk) as Hin. cbn in Hin.
  repeat (destruct Hin as [<-|Hin]; [try lia; cbn; tauto|]). destruct Hin.
Qed.

(* ------------------------------------------------------------------ determine_bytes_per_cluster *)
Definition npot (n : N) : N := 2 ^ N.log2_up n.
Definition clamp_val (x lo hi : N) : N := if x <? lo then lo else if hi <? x then hi else x.
Definition raw12 (p : N) : N := as_u32 (p / MB * 512).
Definition raw16 (p : N) : N := as_u32 (p / 67108864) * 1024.
Definition raw32 (p : N) : N := as_u32 (p / 2147483648) * 1024.
Definition dbpc_raw_val (tb : N) (t : fat_type) : N :=
  match t with
  | Fat12 => raw12 (npot tb)
  | Fat16 => if tb <=? 16777216 then 1024 else if tb <=? 134217728 then 2048 else raw16 (npot tb)
  | Fat32 => if tb <=? 272629760 then 512 else if tb <=? 8589934592 then 4096 else raw32 (npot tb)
  end.
Definition resolve_type (tb : N) (ft : option fat_type) : fat_type :=
  match ft with Some t => t | None => estimate_fat_type tb end.
Definition dbpc_val (tb bps : N) (ft : option fat_type) : N :=
  clamp_val (dbpc_raw_val tb (resolve_type tb ft)) bps 32768.

Definition good_bpc (bps v : N) : bool :=
  existsb (N.eqb v) pow2_512_32768 && (bps <=? v).
Definition raw_ok (p : N) : bool :=
  (p <=? u64_max) && (p / MB * 512 <=? u64_max) && (as_u32 (p / 67108864) * 1024 <=? u32_max) &&
  (as_u32 (p / 2147483648) * 1024 <=? u32_max) &&
  forallb (fun bps => forallb (fun raw => good_bpc bps (clamp_val raw bps 32768))
                              [raw12 p; raw16 p; raw32 p; 1024; 2048; 512; 4096]) pow2_512_32768.
Lemma raw_ok_all : forallb (fun j => raw_ok (2 ^ j)) (map N.of_nat (seq 0 48)) = true.
Proof. vm_compute. reflexivity. Qed.

Lemma log2_up_lt_48 tb : tb < 140737488355328 -> N.log2_up tb < 48.
Proof.
  intros H. destruct (N.eq_dec tb 0) as [->|Hnz]; [cbn; lia|].
  assert (N.log2_up tb <= 47); [|lia].
  apply N.log2_up_le_pow2; [lia|]. change (2 ^ 47) with 140737488355328. lia.
Qed.

Lemma good_bpc_in bps v : good_bpc bps v = true -> In v pow2_512_32768 /\ bps <= v.
Proof.
  unfold good_bpc. rewrite andb_true_iff, N.leb_le, existsb_exists. intros [[x [Hin He]] Hle].
  apply N.eqb_eq in He. subst. tauto.
Qed.

Lemma fmt_is_pow2_in v : In v pow2_512_32768 -> fmt_is_pow2 v = true.
Proof. intros H. cbn in H. repeat (destruct H as [<-|H]; [reflexivity|]). destruct H. Qed.

Lemma dbpc_pure tb bps ft : tb < 140737488355328 -> In bps pow2_512_32768 ->
  determine_bytes_per_cluster tb bps ft = Ok (dbpc_val tb bps ft) /\
  In (dbpc_val tb bps ft) pow2_512_32768 /\ bps <= dbpc_val tb bps ft.
Proof.
  intros Htb Hbps.
  pose proof (log2_up_lt_48 tb Htb) as Hj.
  pose proof (proj1 (forallb_forall _ _) raw_ok_all _ (N_lt_in_seq 48 _ Hj)) as Hok. cbv beta in Hok.
  fold (npot tb) in Hok. unfold raw_ok in Hok.
  rewrite !andb_true_iff in Hok. destruct Hok as ((((H1 & H2) & H3) & H4) & H5).
  apply N.leb_le in H1, H2, H3, H4.
  pose proof (proj1 (forallb_forall _ _) H5 _ Hbps) as H6. cbv beta in H6.
  assert (forall raw, In raw [raw12 (npot tb); raw16 (npot tb); raw32 (npot tb); 1024; 2048; 512; 4096] ->
            good_bpc bps (clamp_val raw bps 32768) = true) as Hg
    by (intros raw Hr; exact (proj1 (forallb_forall _ _) H6 raw Hr)).
  assert (bps <= 32768) as Hb32 by (cbn in Hbps; intuition lia).
  assert (forall raw, clamp raw bps 32768 = Ok (clamp_val raw bps 32768)) as Hclamp.
  { intros raw. unfold clamp, clamp_val. destruct (32768 <? bps) eqn:E; [apply N.ltb_lt in E; lia|reflexivity]. }
  assert (In (dbpc_raw_val tb (resolve_type tb ft)) [raw12 (npot tb); raw16 (npot tb); raw32 (npot tb); 1024; 2048; 512; 4096]
          /\ dbpc_raw tb (resolve_type tb ft) = Ok (dbpc_raw_val tb (resolve_type tb ft))) as [Hin Hraw].
  { unfold dbpc_raw, dbpc_raw_val. destruct (resolve_type tb ft).
    - unfold next_power_of_two_u64. fold (npot tb). apply N.leb_le in H1. rewrite H1. cbn [bind].
      unfold u64_mul. apply N.leb_le in H2. rewrite H2. cbn [bind]. split; [cbn; tauto|reflexivity].
    - destruct (tb <=? 16777216); [split; [cbn; tauto|reflexivity]|].
      destruct (tb <=? 134217728); [split; [cbn; tauto|reflexivity]|].
      unfold next_power_of_two_u64. fold (npot tb). apply N.leb_le in H1. rewrite H1. cbn [bind].
      unfold u32_mul. apply N.leb_le in H3. rewrite H3. split; [cbn; tauto|reflexivity].
    - destruct (tb <=? 272629760); [split; [cbn; tauto|reflexivity]|].
      destruct (tb <=? 8589934592); [split; [cbn; tauto|reflexivity]|].
      unfold next_power_of_two_u64. fold (npot tb). apply N.leb_le in H1. rewrite H1. cbn [bind].
      unfold u32_mul. apply N.leb_le in H4. rewrite H4. split; [cbn; tauto|reflexivity]. }
  pose proof (good_bpc_in _ _ (Hg _ Hin)) as [Hp Hle].
  unfold determine_bytes_per_cluster. fold (resolve_type tb ft). rewrite Hraw. cbn [bind].
  rewrite Hclamp. cbn [bind]. fold (dbpc_val tb bps ft) in *.
  rewrite (fmt_is_pow2_in _ Hp). auto.
Qed.

(* ------------------------------------------------------------------ determine_sectors_per_fat / try_fs_layout *)
Definition reserved_of (t : fat_type) : N := if fat_type_eqb t Fat32 then 8 else 1.
Definition t2_of (bps spc : N) (t : fat_type) (fats : N) : N := spc * bps * 8 / bits_per_fat_entry t + fats.
Definition spf_of (ts bps spc : N) (t : fat_type) (rds fats : N) : N :=
  (ts - reserved_of t - rds + 2 * spc + t2_of bps spc t fats - 1) / t2_of bps spc t fats.
Definition clusters_of (ts bps spc : N) (t : fat_type) (rds fats : N) : N :=
  (ts - reserved_of t - rds - spf_of ts bps spc t rds fats * fats) / spc.
Definition try_ok (ts bps spc : N) (t : fat_type) (rds fats : N) : bool :=
  (reserved_of t + rds + 8 <? ts) &&
  fat_type_eqb t (from_clusters (clusters_of ts bps spc t rds fats)) &&
  (clusters_of ts bps spc t rds fats <=? max_clusters t).

Lemma reserved_of_cases t : reserved_of t = 1 \/ reserved_of t = 8.
Proof. destruct t; cbn; auto. Qed.

Lemma t2_lower bps spc t : 512 <= bps -> 128 * spc <= spc * bps * 8 / bits_per_fat_entry t.
Proof.
  intros Hb. assert (spc * 512 <= spc * bps) as H by (apply N.mul_le_mono_l; exact Hb).
  destruct t; cbn [bits_per_fat_entry]; lia.
Qed.

(* the FAT copies never use up the space that is left after the reserved and root areas *)
Lemma spf_bound t0 spc k fats : 9 <= t0 -> 1 <= fats <= 2 -> 128 * spc <= k -> 1 <= spc ->
  (t0 + 2 * spc + (k + fats) - 1) / (k + fats) * fats < t0 /\
  (t0 + 2 * spc + (k + fats) - 1) / (k + fats) <= t0 / 129 + 2 /\
  1 <= (t0 + 2 * spc + (k + fats) - 1) / (k + fats).
Proof.
  intros Ht Hf Hk Hs. set (d := k + fats) in *. set (q := (t0 + 2 * spc + d - 1) / d).
  assert (129 <= d) as Hd by (unfold d; lia).
  assert (q <= (t0 + 2 * d) / d) as H1 by (apply N.div_le_mono; unfold d; lia).
  rewrite N.div_add in H1 by lia.
  assert (t0 / d <= t0 / 129) as H2 by (apply N.div_le_compat_l; lia).
  assert (1 <= q) as H3.
  { unfold q. apply N.div_le_lower_bound; lia. }
  assert (fats = 1 \/ fats = 2) as [->| ->] by lia; repeat split; lia.
Qed.

Lemma dspf_pure ts bps spc t rds fats :
  ts <= 4294967295 -> 512 <= bps <= 65535 -> 1 <= spc <= 255 -> 1 <= fats <= 2 ->
  reserved_of t + rds + 8 < ts ->
  determine_sectors_per_fat ts bps spc t (reserved_of t) rds fats = Ok (spf_of ts bps spc t rds fats) /\
  spf_of ts bps spc t rds fats * fats < ts - reserved_of t - rds /\
  1 <= spf_of ts bps spc t rds fats <= 33294322.
Proof.
  intros Hts Hbps Hspc Hfats Hlim.
  assert (spc * bps <= 255 * 65535) as Hm by (apply N.mul_le_mono; lia).
  pose proof (t2_lower bps spc t (proj1 Hbps)) as Hk.
  assert (spc * bps * 8 / bits_per_fat_entry t <= spc * bps * 8) as Hq
    by (destruct t; cbn [bits_per_fat_entry]; lia).
  pose proof (spf_bound (ts - reserved_of t - rds) spc (spc * bps * 8 / bits_per_fat_entry t) fats
                ltac:(lia) Hfats Hk ltac:(lia)) as (B1 & B2 & B3).
  fold (t2_of bps spc t fats) in B1, B2, B3. fold (spf_of ts bps spc t rds fats) in B1, B2, B3.
  split; [|split; [exact B1|lia]].
  unfold determine_sectors_per_fat.
  rewrite (u32_sub_ok ts) by lia. cbn [bind].
  rewrite u32_sub_ok by lia. cbn [bind].
  rewrite u32_mul_ok by lia. cbn [bind].
  rewrite u64_add_ok by lia. cbn [bind].
  rewrite u32_mul_ok by lia. cbn [bind].
  rewrite u32_mul_ok by lia. cbn [bind].
  rewrite chk_div_ok by (destruct t; discriminate). cbn [bind].
  rewrite u32_add_ok by lia. cbn [bind].
  fold (t2_of bps spc t fats).
  assert (129 <= t2_of bps spc t fats <= 1069531402) as Ht2 by (unfold t2_of; lia).
  rewrite u64_add_ok by lia. cbn [bind].
  rewrite u64_sub_ok by lia. cbn [bind].
  rewrite chk_div_ok by lia. cbn [bind].
  fold (spf_of ts bps spc t rds fats).
  unfold as_u32, two32. rewrite N.mod_small by lia. reflexivity.
Qed.

Lemma fat_type_eqb_eq a b : fat_type_eqb a b = true <-> a = b.
Proof. destruct a, b; cbn; split; congruence. Qed.
Lemma fat_type_eqb_refl a : fat_type_eqb a a = true.
Proof. destruct a; reflexivity. Qed.

Lemma from_clusters_min c : min_clusters (from_clusters c) <= c.
Proof.
  unfold from_clusters. destruct (c <? 4085) eqn:E1; [cbn; lia|].
  destruct (c <? 65525) eqn:E2; cbn; [apply N.ltb_ge in E1|apply N.ltb_ge in E2]; lia.
Qed.

Lemma try_fs_layout_pure ts bps spc t rds fats :
  ts <= 4294967295 -> 512 <= bps <= 65535 -> 1 <= spc <= 255 -> 1 <= fats <= 2 -> rds <= 4096 ->
  try_fs_layout ts bps spc t rds fats =
    if try_ok ts bps spc t rds fats then Ok (reserved_of t, spf_of ts bps spc t rds fats) else Err EInvalidInput.
Proof.
  intros Hts Hbps Hspc Hfats Hrds. unfold try_fs_layout, try_ok. fold (reserved_of t).
  pose proof (reserved_of_cases t) as Hr.
  rewrite u32_add_ok by lia. cbn [bind]. rewrite u32_add_ok by lia. cbn [bind].
  destruct (ts <=? reserved_of t + rds + 8) eqn:E.
  - apply N.leb_le in E. destruct (reserved_of t + rds + 8 <? ts) eqn:E2; [apply N.ltb_lt in E2; lia|]. reflexivity.
  - apply N.leb_gt in E. pose proof E as E2. apply N.ltb_lt in E2. rewrite E2. cbn [andb].
    destruct (dspf_pure ts bps spc t rds fats Hts Hbps Hspc Hfats E) as (-> & B1 & B2). cbn [bind].
    rewrite (u32_sub_ok ts) by lia. cbn [bind]. rewrite u32_sub_ok by lia. cbn [bind].
    rewrite u32_mul_ok by lia. cbn [bind]. rewrite u32_sub_ok by lia. cbn [bind].
    rewrite chk_div_ok by lia. cbn [bind]. fold (clusters_of ts bps spc t rds fats).
    destruct (fat_type_eqb t (from_clusters (clusters_of ts bps spc t rds fats))) eqn:Et; cbn [negb andb]; [|reflexivity].
    apply fat_type_eqb_eq in Et.
    pose proof (from_clusters_min (clusters_of ts bps spc t rds fats)) as Hmin. rewrite <- Et in Hmin.
    destruct (clusters_of ts bps spc t rds fats <? min_clusters t) eqn:E3; [apply N.ltb_lt in E3; lia|].
    destruct (max_clusters t <? clusters_of ts bps spc t rds fats) eqn:E4.
    + apply N.ltb_lt in E4. destruct (clusters_of ts bps spc t rds fats <=? max_clusters t) eqn:E5;
        [apply N.leb_le in E5; lia|reflexivity].
    + apply N.ltb_ge in E4. apply N.leb_le in E4. rewrite E4. reflexivity.
Qed.

(* ------------------------------------------------------------------ root directory size, the type loop *)
Definition rds_of (root bps : N) (t : fat_type) : N :=
  if fat_type_eqb t Fat32 then 0 else (root * 32 + bps - 1) / bps.

Lemma drds_pure root bps t : root <= 65535 -> 512 <= bps <= 65535 ->
  determine_root_dir_sectors root bps t = Ok (rds_of root bps t) /\ rds_of root bps t <= 4096.
Proof.
  intros Hr Hb. unfold determine_root_dir_sectors, rds_of. destruct (fat_type_eqb t Fat32); [split; [reflexivity|lia]|].
  rewrite u32_mul_ok by lia. cbn [bind]. rewrite u32_add_ok by lia. cbn [bind].
  rewrite u32_sub_ok by lia. cbn [bind]. rewrite chk_div_ok by lia. split; [reflexivity|].
  assert ((root * 32 + bps - 1) / bps < 4097); [|lia]. apply N.div_lt_upper_bound; lia.
Qed.

Definition mk_layout (o : fmt_options) (ts spc : N) (t : fat_type) : fs_layout :=
  {| l_fat_type := t; l_reserved_sectors := reserved_of t;
     l_sectors_per_fat := spf_of ts (o_bytes_per_sector o) spc t
                            (rds_of (o_max_root_dir_entries o) (o_bytes_per_sector o) t) (o_fats o);
     l_sectors_per_cluster := spc |}.

Definition try_ok_o (o : fmt_options) (ts spc : N) (t : fat_type) : bool :=
  try_ok ts (o_bytes_per_sector o) spc t (rds_of (o_max_root_dir_entries o) (o_bytes_per_sector o) t) (o_fats o).

Fixpoint loop_pure (o : fmt_options) (ts spc : N) (l : list fat_type) : res fs_layout :=
  match l with
  | [] => Err EInvalidInput
  | t :: r => if try_ok_o o ts spc t then Ok (mk_layout o ts spc t) else loop_pure o ts spc r
  end.

Lemma builder_bps o : builder_range o -> In (o_bytes_per_sector o) pow2_512_32768 /\ 512 <= o_bytes_per_sector o <= 32768.
Proof.
  intros (Hp & Hr & _). pose proof (pow2_u16_in _ Hp Hr) as Hin. split; [exact Hin|].
  cbn in Hin. intuition lia.
Qed.

Lemma layout_loop_pure o ts spc l : builder_range o -> ts <= 4294967295 -> 1 <= spc <= 255 ->
  layout_loop o ts spc l = loop_pure o ts spc l.
Proof.
  intros Hb Hts Hspc. pose proof (builder_bps o Hb) as [_ Hbps].
  destruct Hb as (_ & _ & _ & Hroot & Hfats & _).
  induction l as [|t r IH]; [reflexivity|]. cbn [layout_loop loop_pure].
  destruct (drds_pure (o_max_root_dir_entries o) (o_bytes_per_sector o) t Hroot ltac:(lia)) as [-> Hrds]. cbn [bind].
  rewrite try_fs_layout_pure by (try assumption; lia). unfold try_ok_o.
  destruct (try_ok ts (o_bytes_per_sector o) spc t _ (o_fats o)); [reflexivity|exact IH].
Qed.

Definition bpc_of (o : fmt_options) (ts : N) : N :=
  match o_bytes_per_cluster o with
  | Some b => b
  | None => dbpc_val (ts * o_bytes_per_sector o) (o_bytes_per_sector o) (o_fat_type o)
  end.
Definition allowed_of (o : fmt_options) : list fat_type :=
  match o_fat_type o with Some t => [t] | None => [Fat32; Fat16; Fat12] end.
Definition spc_of (o : fmt_options) (ts : N) : N := bpc_of o ts / o_bytes_per_sector o.
Definition layout_pure (o : fmt_options) (ts : N) : res fs_layout :=
  if 255 <? spc_of o ts then Err EInvalidInput else
  if spc_of o ts =? 0 then Err EInvalidInput else
  loop_pure o ts (spc_of o ts) (allowed_of o).

Lemma total_bytes_bound ts bps : ts <= 4294967295 -> bps <= 32768 -> ts * bps < 140737488355328.
Proof.
  intros H1 H2. assert (ts * bps <= 4294967295 * 32768) by (apply N.mul_le_mono; assumption). lia.
Qed.

Lemma dfl_pure o ts : builder_range o -> ts <= 4294967295 -> determine_fs_layout o ts = layout_pure o ts.
Proof.
  intros Hb Hts. pose proof (builder_bps o Hb) as [Hin Hbps].
  unfold determine_fs_layout, layout_pure, spc_of, bpc_of.
  pose proof (total_bytes_bound ts _ Hts (proj2 Hbps)) as Htb.
  assert ((match o_bytes_per_cluster o with
           | Some b => Ok b
           | None => do total_bytes <- u64_mul ts (o_bytes_per_sector o);
                     determine_bytes_per_cluster total_bytes (o_bytes_per_sector o) (o_fat_type o)
           end) = Ok (match o_bytes_per_cluster o with
                      | Some b => b
                      | None => dbpc_val (ts * o_bytes_per_sector o) (o_bytes_per_sector o) (o_fat_type o)
                      end)) as ->.
  { destruct (o_bytes_per_cluster o); [reflexivity|].
    rewrite u64_mul_ok by lia. cbn [bind].
    destruct (dbpc_pure _ _ (o_fat_type o) Htb Hin) as [-> _]. reflexivity. }
  cbn [bind]. rewrite chk_div_ok by lia. cbn [bind].
  set (spc := _ / o_bytes_per_sector o).
  destruct (255 <? spc) eqn:E1; [reflexivity|]. destruct (spc =? 0) eqn:E2; [reflexivity|].
  apply N.ltb_ge in E1. apply N.eqb_neq in E2. fold (allowed_of o).
  apply layout_loop_pure; [assumption|assumption|lia].
Qed.

(* what a successful layout looks like *)
Definition good_layout (o : fmt_options) (ts : N) (lay : fs_layout) : Prop :=
  exists t, In t (allowed_of o) /\ 1 <= spc_of o ts <= 255 /\
            lay = mk_layout o ts (spc_of o ts) t /\ try_ok_o o ts (spc_of o ts) t = true.

Lemma loop_pure_ok o ts spc l lay : loop_pure o ts spc l = Ok lay ->
  exists t, In t l /\ lay = mk_layout o ts spc t /\ try_ok_o o ts spc t = true.
Proof.
  induction l as [|t r IH]; cbn [loop_pure]; [discriminate|].
  destruct (try_ok_o o ts spc t) eqn:E.
  - intros [= <-]. exists t. cbn; auto.
  - intros H. destruct (IH H) as (t' & Hin & H1 & H2). exists t'. cbn; auto.
Qed.

Lemma loop_pure_res o ts spc l : (exists lay, loop_pure o ts spc l = Ok lay) \/ loop_pure o ts spc l = Err EInvalidInput.
Proof.
  induction l as [|t r IH]; cbn [loop_pure]; [auto|].
  destruct (try_ok_o o ts spc t); [left; eexists; reflexivity|exact IH].
Qed.

Lemma layout_pure_ok o ts lay : layout_pure o ts = Ok lay -> good_layout o ts lay.
Proof.
  unfold layout_pure. destruct (255 <? spc_of o ts) eqn:E1; [discriminate|].
  destruct (spc_of o ts =? 0) eqn:E2; [discriminate|]. apply N.ltb_ge in E1. apply N.eqb_neq in E2.
  intros H. destruct (loop_pure_ok _ _ _ _ _ H) as (t & Hin & H1 & H2). exists t. repeat split; try assumption; lia.
Qed.

Lemma layout_pure_res o ts : (exists lay, layout_pure o ts = Ok lay) \/ layout_pure o ts = Err EInvalidInput.
Proof.
  unfold layout_pure. destruct (255 <? spc_of o ts); [auto|]. destruct (spc_of o ts =? 0); [auto|].
  apply loop_pure_res.
Qed.

(* ------------------------------------------------------------------ format_bpb, format_boot_sector, validate *)
Definition mk_bpb (o : fmt_options) (ts : N) (t : fat_type) (spc spf : N) : fbpb :=
  let is_fat32 := fat_type_eqb t Fat32 in
  let total_sectors_16 := if is_fat32 then 0 else if u16_max <? ts then 0 else ts in
  {| fb_bytes_per_sector := o_bytes_per_sector o;
     fb_sectors_per_cluster := spc;
     fb_reserved_sectors := reserved_of t;
     fb_fats := o_fats o;
     fb_root_entries := if is_fat32 then 0 else o_max_root_dir_entries o;
     fb_total_sectors_16 := total_sectors_16;
     fb_media := o_media o;
     fb_sectors_per_fat_16 := if is_fat32 then 0 else spf;
     fb_sectors_per_track := o_sectors_per_track o;
     fb_heads := o_heads o;
     fb_hidden_sectors := 0;
     fb_total_sectors_32 := if total_sectors_16 =? 0 then ts else 0;
     fb_sectors_per_fat_32 := if is_fat32 then spf else 0;
     fb_extended_flags := 0;
     fb_fs_version := 0;
     fb_root_dir_first_cluster := if is_fat32 then 2 else 0;
     fb_fs_info_sector := if is_fat32 then 1 else 0;
     fb_backup_boot_sector := if is_fat32 then 6 else 0;
     fb_reserved_0 := repeat_N 0 12;
     fb_drive_num := match o_drive_num o with Some d => d | None => if fat_type_eqb t Fat12 then 0 else 128 end;
     fb_reserved_1 := 0;
     fb_ext_sig := 41;
     fb_volume_id := o_volume_id o;
     fb_volume_label := match o_volume_label o with Some l => l | None => label_no_name end;
     fb_fs_type_label := fs_type_label_of t |}.

Lemma mk_bpb_spf o ts t spc spf : 1 <= spf -> fb_sectors_per_fat (mk_bpb o ts t spc spf) = spf.
Proof.
  intros H. unfold fb_sectors_per_fat, fb_is_fat32, mk_bpb; cbn [fb_sectors_per_fat_16 fb_sectors_per_fat_32].
  destruct (fat_type_eqb t Fat32); [reflexivity|].
  destruct (spf =? 0) eqn:E; [apply N.eqb_eq in E; lia|reflexivity].
Qed.

Lemma mk_bpb_is32 o ts t spc spf : 1 <= spf -> fb_is_fat32 (mk_bpb o ts t spc spf) = fat_type_eqb t Fat32.
Proof.
  intros H. unfold fb_is_fat32, mk_bpb; cbn [fb_sectors_per_fat_16].
  destruct (fat_type_eqb t Fat32); [reflexivity|].
  destruct (spf =? 0) eqn:E; [apply N.eqb_eq in E; lia|reflexivity].
Qed.

Lemma mk_bpb_ts o ts t spc spf : 1 <= ts -> fb_total_sectors (mk_bpb o ts t spc spf) = ts.
Proof.
  intros H. unfold fb_total_sectors, mk_bpb; cbn [fb_total_sectors_16 fb_total_sectors_32].
  destruct (fat_type_eqb t Fat32); [reflexivity|]. unfold u16_max.
  destruct (65535 <? ts); [reflexivity|].
  destruct (ts =? 0) eqn:E; [apply N.eqb_eq in E; lia|reflexivity].
Qed.

Lemma mk_bpb_rds o ts t spc spf : o_max_root_dir_entries o <= 65535 -> 512 <= o_bytes_per_sector o <= 65535 ->
  fb_root_dir_sectors (mk_bpb o ts t spc spf) = Ok (rds_of (o_max_root_dir_entries o) (o_bytes_per_sector o) t).
Proof.
  intros Hr Hb. unfold fb_root_dir_sectors, mk_bpb, rds_of; cbn [fb_root_entries fb_bytes_per_sector].
  destruct (fat_type_eqb t Fat32).
  - rewrite u32_mul_ok by lia. cbn [bind]. rewrite u32_add_ok by lia. cbn [bind].
    rewrite u32_sub_ok by lia. cbn [bind]. rewrite chk_div_ok by lia. f_equal. apply N.div_small. lia.
  - rewrite u32_mul_ok by lia. cbn [bind]. rewrite u32_add_ok by lia. cbn [bind].
    rewrite u32_sub_ok by lia. cbn [bind]. rewrite chk_div_ok by lia. reflexivity.
Qed.

(* facts every accepted candidate satisfies *)
Record try_facts (o : fmt_options) (ts spc : N) (t : fat_type) : Prop := {
  tf_rds : rds_of (o_max_root_dir_entries o) (o_bytes_per_sector o) t <= 4096;
  tf_lim : reserved_of t + rds_of (o_max_root_dir_entries o) (o_bytes_per_sector o) t + 8 < ts;
  tf_spf : 1 <= l_sectors_per_fat (mk_layout o ts spc t) <= 33294322;
  tf_fit : l_sectors_per_fat (mk_layout o ts spc t) * o_fats o <
             ts - reserved_of t - rds_of (o_max_root_dir_entries o) (o_bytes_per_sector o) t;
  tf_type : t = from_clusters (clusters_of ts (o_bytes_per_sector o) spc t
                                 (rds_of (o_max_root_dir_entries o) (o_bytes_per_sector o) t) (o_fats o));
  tf_max : clusters_of ts (o_bytes_per_sector o) spc t
             (rds_of (o_max_root_dir_entries o) (o_bytes_per_sector o) t) (o_fats o) <= max_clusters t }.

Lemma try_ok_facts o ts spc t : builder_range o -> ts <= 4294967295 -> 1 <= spc <= 255 ->
  try_ok_o o ts spc t = true -> try_facts o ts spc t.
Proof.
  intros Hb Hts Hspc H. pose proof (builder_bps o Hb) as [_ Hbps].
  destruct Hb as (_ & _ & _ & Hroot & Hfats & _).
  destruct (drds_pure (o_max_root_dir_entries o) (o_bytes_per_sector o) t Hroot ltac:(lia)) as [_ Hrds].
  unfold try_ok_o, try_ok in H. rewrite !andb_true_iff in H. destruct H as [[H1 H2] H3].
  apply N.ltb_lt in H1. apply fat_type_eqb_eq in H2. apply N.leb_le in H3.
  destruct (dspf_pure ts (o_bytes_per_sector o) spc t _ (o_fats o) Hts ltac:(lia) Hspc Hfats H1) as (_ & B1 & B2).
  constructor; cbn [mk_layout l_sectors_per_fat]; assumption.
Qed.

Lemma mk_bpb_clusters o ts spc t : builder_range o -> ts <= 4294967295 -> 1 <= spc <= 255 ->
  try_facts o ts spc t ->
  fb_total_clusters (mk_bpb o ts t spc (l_sectors_per_fat (mk_layout o ts spc t))) =
    Ok (clusters_of ts (o_bytes_per_sector o) spc t
          (rds_of (o_max_root_dir_entries o) (o_bytes_per_sector o) t) (o_fats o)) /\
  fb_first_data_sector (mk_bpb o ts t spc (l_sectors_per_fat (mk_layout o ts spc t))) =
    Ok (reserved_of t + o_fats o * l_sectors_per_fat (mk_layout o ts spc t) +
        rds_of (o_max_root_dir_entries o) (o_bytes_per_sector o) t).
Proof.
  intros Hb Hts Hspc [F1 F2 F3 F4 F5 F6]. pose proof (builder_bps o Hb) as [_ Hbps].
  destruct Hb as (_ & _ & _ & Hroot & Hfats & _).
  set (spf := l_sectors_per_fat (mk_layout o ts spc t)) in *.
  set (rds := rds_of (o_max_root_dir_entries o) (o_bytes_per_sector o) t) in *.
  pose proof (reserved_of_cases t) as Hr.
  assert (o_fats o * spf = spf * o_fats o) as Hc by apply N.mul_comm.
  assert (fb_first_data_sector (mk_bpb o ts t spc spf) = Ok (reserved_of t + o_fats o * spf + rds)) as Hfd.
  { unfold fb_first_data_sector. rewrite mk_bpb_rds by lia. cbn [bind]. fold rds.
    unfold fb_sectors_per_all_fats. rewrite mk_bpb_spf by lia.
    replace (fb_fats (mk_bpb o ts t spc spf)) with (o_fats o) by reflexivity.
    replace (fb_reserved_sectors (mk_bpb o ts t spc spf)) with (reserved_of t) by reflexivity.
    rewrite u32_mul_ok by lia. cbn [bind]. rewrite u32_add_ok by lia. cbn [bind].
    rewrite u32_add_ok by lia. reflexivity. }
  split; [|exact Hfd].
  unfold fb_total_clusters. rewrite Hfd. cbn [bind]. rewrite mk_bpb_ts by lia.
  rewrite u32_sub_ok by lia. cbn [bind].
  replace (fb_sectors_per_cluster (mk_bpb o ts t spc spf)) with spc by reflexivity.
  rewrite chk_div_ok by lia. unfold clusters_of. fold rds.
  replace (spf_of ts (o_bytes_per_sector o) spc t rds (o_fats o)) with spf by reflexivity.
  f_equal. f_equal. lia.
Qed.

Lemma format_bpb_with_pure o ts spc t : builder_range o -> ts <= 4294967295 -> 1 <= spc <= 255 ->
  try_facts o ts spc t ->
  format_bpb_with o ts (mk_layout o ts spc t) =
    if negb (fat_type_eqb t Fat32) && (65535 <? l_sectors_per_fat (mk_layout o ts spc t)) then Err EInvalidInput
    else Ok (mk_bpb o ts t spc (l_sectors_per_fat (mk_layout o ts spc t)), t).
Proof.
  intros Hb Hts Hspc Hf.
  destruct (mk_bpb_clusters o ts spc t Hb Hts Hspc Hf) as [Hc _].
  pose proof (tf_type _ _ _ _ Hf) as Ht.
  set (spf := l_sectors_per_fat (mk_layout o ts spc t)) in *.
  unfold format_bpb_with. cbn [l_fat_type mk_layout l_sectors_per_cluster l_reserved_sectors].
  fold spf. unfold u16_max.
  destruct (fat_type_eqb t Fat32) eqn:E32; cbn [negb andb bind].
  - unfold mk_bpb in Hc. rewrite E32 in Hc. unfold u16_max in Hc. cbv zeta in Hc. rewrite Hc. cbn [bind].
    rewrite <- Ht. rewrite fat_type_eqb_refl. cbn [negb]. unfold mk_bpb. rewrite E32. reflexivity.
  - destruct (65535 <? spf) eqn:E16; [reflexivity|]. cbn [bind].
    unfold mk_bpb in Hc. rewrite E32 in Hc. unfold u16_max in Hc. cbv zeta in Hc. rewrite Hc. cbn [bind].
    rewrite <- Ht. rewrite fat_type_eqb_refl. cbn [negb]. unfold mk_bpb. rewrite E32. reflexivity.
Qed.

(* the cluster size in sectors is a power of two *)
Lemma pow2_div a b : fmt_is_pow2 a = true -> fmt_is_pow2 b = true -> 1 <= a / b -> fmt_is_pow2 (a / b) = true.
Proof.
  intros Ha Hb Hq. apply pow2_spec in Ha, Hb. destruct Ha as [i ->]. destruct Hb as [j ->].
  apply pow2_spec. exists (i - j).
  destruct (N.le_gt_cases j i) as [Hle|Hgt].
  - symmetry. apply N.pow_sub_r; [discriminate|exact Hle].
  - assert (2 ^ i < 2 ^ j) as Hlt by (apply N.pow_lt_mono_r; [reflexivity|exact Hgt]).
    rewrite N.div_small in Hq by exact Hlt. lia.
Qed.

Lemma bpc_of_pow2 o ts : builder_range o -> ts <= 4294967295 -> fmt_is_pow2 (bpc_of o ts) = true.
Proof.
  intros Hb Hts. pose proof (builder_bps o Hb) as [Hin Hbps]. unfold bpc_of.
  destruct (o_bytes_per_cluster o) as [b|] eqn:E.
  - destruct Hb as (_ & _ & Hc & _). apply (Hc b E).
  - pose proof (total_bytes_bound ts _ Hts (proj2 Hbps)) as Htb.
    destruct (dbpc_pure _ _ (o_fat_type o) Htb Hin) as (_ & Hp & _). apply fmt_is_pow2_in. exact Hp.
Qed.

Lemma spc_of_pow2 o ts : builder_range o -> ts <= 4294967295 -> 1 <= spc_of o ts -> fmt_is_pow2 (spc_of o ts) = true.
Proof.
  intros Hb Hts H. apply pow2_div; [apply bpc_of_pow2; assumption| |exact H].
  destruct Hb as (Hp & _). exact Hp.
Qed.

(* the conditions under which the strict validation of format_volume refuses the freshly built boot sector *)
Definition validate_rejects (o : fmt_options) (t : fat_type) : bool :=
  (4096 <? o_bytes_per_sector o) || (negb (fat_type_eqb t Fat32) && (o_max_root_dir_entries o =? 0)).

Lemma validate_pure o ts t : builder_range o -> ts <= 4294967295 -> 1 <= spc_of o ts <= 255 ->
  try_facts o ts (spc_of o ts) t ->
  fmt_validate (format_boot_sector_with (mk_bpb o ts t (spc_of o ts) (l_sectors_per_fat (mk_layout o ts (spc_of o ts) t))) t) =
    if validate_rejects o t then Err ECorruptedFileSystem else Ok tt.
Proof.
  intros Hb Hts Hspc Hf.
  destruct (mk_bpb_clusters o ts _ t Hb Hts Hspc Hf) as [Hc Hfd].
  pose proof (spc_of_pow2 o ts Hb Hts (proj1 Hspc)) as Hp2.
  destruct Hf as [F1 F2 F3 F4 F5 F6]. pose proof (builder_bps o Hb) as [_ Hbps].
  pose proof Hb as (Hbp & _ & _ & Hroot & Hfats & _).
  set (spc := spc_of o ts) in *. set (spf := l_sectors_per_fat (mk_layout o ts spc t)) in *.
  set (rds := rds_of (o_max_root_dir_entries o) (o_bytes_per_sector o) t) in *.
  set (c := clusters_of ts (o_bytes_per_sector o) spc t rds (o_fats o)) in *.
  set (b := mk_bpb o ts t spc spf) in *.
  pose proof (reserved_of_cases t) as Hr.
  assert (fmt_validate (format_boot_sector_with b t) = fmt_validate_bpb b) as ->
    by (unfold format_boot_sector_with, fmt_validate; destruct (fat_type_eqb t Fat32); reflexivity).
  assert (fb_is_fat32 b = fat_type_eqb t Fat32) as Hi32 by (apply mk_bpb_is32; lia).
  assert (fb_total_sectors b = ts) as Hts' by (apply mk_bpb_ts; lia).
  assert (fb_root_dir_sectors b = Ok rds) as Hrds' by (apply mk_bpb_rds; lia).
  assert (fb_sectors_per_fat b = spf) as Hspf' by (apply mk_bpb_spf; lia).
  assert (fb_fs_version b = 0) as G1 by reflexivity.
  assert (fb_bytes_per_sector b = o_bytes_per_sector o) as G2 by reflexivity.
  assert (fb_sectors_per_cluster b = spc) as G3 by reflexivity.
  assert (fb_reserved_sectors b = reserved_of t) as G4 by reflexivity.
  assert (fb_fats b = o_fats o) as G5 by reflexivity.
  assert (fb_root_entries b = if fat_type_eqb t Fat32 then 0 else o_max_root_dir_entries o) as G6 by reflexivity.
  assert (fb_backup_boot_sector b = if fat_type_eqb t Fat32 then 6 else 0) as G7 by reflexivity.
  assert (fb_fs_info_sector b = if fat_type_eqb t Fat32 then 1 else 0) as G8 by reflexivity.
  assert (fb_root_dir_first_cluster b = if fat_type_eqb t Fat32 then 2 else 0) as G9 by reflexivity.
  assert (fb_sectors_per_fat_32 b = if fat_type_eqb t Fat32 then spf else 0) as G10 by reflexivity.
  assert (fb_total_sectors_16 b = if fat_type_eqb t Fat32 then 0 else if 65535 <? ts then 0 else ts) as G11 by reflexivity.
  assert (fb_total_sectors_32 b = if (if fat_type_eqb t Fat32 then 0 else if 65535 <? ts then 0 else ts) =? 0 then ts else 0)
    as G12 by reflexivity.
  assert (ts =? 0 = false) as Hz by (apply N.eqb_neq; lia).
  assert (o_fats o * spf = spf * o_fats o) as Hcomm by apply N.mul_comm.
  clearbody b.
  unfold fmt_validate_bpb, validate_rejects. rewrite G1. cbn [N.eqb negb].
  (* bytes per sector *)
  unfold fmt_validate_bytes_per_sector. rewrite G2.
  rewrite sp_pow2_eq in Hbp. rewrite Hbp. cbn [negb].
  destruct (o_bytes_per_sector o <? 512) eqn:E0; [apply N.ltb_lt in E0; lia|]. cbn [orb].
  destruct (4096 <? o_bytes_per_sector o) eqn:E1; [reflexivity|]. cbn [bind orb]. apply N.ltb_ge in E1.
  (* sectors per cluster *)
  unfold fmt_validate_sectors_per_cluster. rewrite G2, G3, Hp2. cbn [negb].
  assert (o_bytes_per_sector o * spc <= 4096 * 255) by (apply N.mul_le_mono; lia).
  rewrite u32_mul_ok by lia. cbn [bind].
  (* reserved sectors *)
  unfold fmt_validate_reserved_sectors. rewrite Hi32, G4, G7, G8.
  destruct (reserved_of t <? 1) eqn:E2; [apply N.ltb_lt in E2; lia|].
  assert ((fat_type_eqb t Fat32 && (reserved_of t <=? (if fat_type_eqb t Fat32 then 6 else 0))) = false) as ->
    by (destruct t; reflexivity).
  assert ((fat_type_eqb t Fat32 && (reserved_of t <=? (if fat_type_eqb t Fat32 then 1 else 0))) = false) as ->
    by (destruct t; reflexivity).
  cbn [bind].
  (* fats *)
  unfold fmt_validate_fats. rewrite G5.
  destruct (o_fats o =? 0) eqn:E3; [apply N.eqb_eq in E3; lia|]. cbn [bind].
  (* root entries *)
  unfold fmt_validate_root_entries. rewrite Hi32, G6, G2.
  assert ((fat_type_eqb t Fat32 && negb ((if fat_type_eqb t Fat32 then 0 else o_max_root_dir_entries o) =? 0)) = false) as ->
    by (destruct (fat_type_eqb t Fat32); reflexivity).
  assert ((negb (fat_type_eqb t Fat32) && ((if fat_type_eqb t Fat32 then 0 else o_max_root_dir_entries o) =? 0))
          = (negb (fat_type_eqb t Fat32) && (o_max_root_dir_entries o =? 0))) as ->
    by (destruct (fat_type_eqb t Fat32); reflexivity).
  destruct (negb (fat_type_eqb t Fat32) && (o_max_root_dir_entries o =? 0)) eqn:E4; [reflexivity|].
  assert ((if fat_type_eqb t Fat32 then 0 else o_max_root_dir_entries o) <= 65535) by (destruct (fat_type_eqb t Fat32); lia).
  rewrite u32_mul_ok by lia. cbn [bind]. rewrite chk_mod_ok by lia. cbn [bind].
  (* total sectors *)
  unfold fmt_validate_total_sectors. rewrite Hi32, Hts', Hrds', Hspf', Hfd, G4, G5, G11, G12. cbn [bind].
  assert ((fat_type_eqb t Fat32 && negb ((if fat_type_eqb t Fat32 then 0 else if 65535 <? ts then 0 else ts) =? 0)) = false) as ->
    by (destruct (fat_type_eqb t Fat32); reflexivity).
  assert ((((if fat_type_eqb t Fat32 then 0 else if 65535 <? ts then 0 else ts) =? 0) &&
           ((if (if fat_type_eqb t Fat32 then 0 else if 65535 <? ts then 0 else ts) =? 0 then ts else 0) =? 0)) = false) as ->.
  { destruct (fat_type_eqb t Fat32); cbn [N.eqb andb]; [exact Hz|].
    destruct (65535 <? ts); cbn [N.eqb andb]; [exact Hz|]. rewrite Hz. reflexivity. }
  assert ((negb ((if fat_type_eqb t Fat32 then 0 else if 65535 <? ts then 0 else ts) =? 0) &&
           negb ((if (if fat_type_eqb t Fat32 then 0 else if 65535 <? ts then 0 else ts) =? 0 then ts else 0) =? 0) &&
           negb ((if fat_type_eqb t Fat32 then 0 else if 65535 <? ts then 0 else ts) =?
                 (if (if fat_type_eqb t Fat32 then 0 else if 65535 <? ts then 0 else ts) =? 0 then ts else 0))) = false) as ->.
  { destruct (fat_type_eqb t Fat32); cbn [N.eqb negb andb]; [reflexivity|].
    destruct (65535 <? ts); cbn [N.eqb negb andb]; [reflexivity|]. rewrite Hz. reflexivity. }
  destruct (ts <=? reserved_of t + o_fats o * spf + rds) eqn:E5; [apply N.leb_le in E5; lia|].
  cbn [bind].
  (* sectors per fat *)
  unfold fmt_validate_sectors_per_fat. rewrite Hi32, G10.
  assert ((fat_type_eqb t Fat32 && ((if fat_type_eqb t Fat32 then spf else 0) =? 0)) = false) as ->.
  { destruct (fat_type_eqb t Fat32); [|reflexivity]. cbn [andb]. apply N.eqb_neq. lia. }
  cbn [bind].
  (* total clusters *)
  unfold fmt_validate_total_clusters. rewrite Hc, Hi32, G9. cbn [bind].
  rewrite <- F5. rewrite Bool.eqb_reflx. cbn [negb].
  destruct (fat_type_eqb t Fat32) eqn:E32; [|reflexivity]. cbn [andb].
  apply fat_type_eqb_eq in E32.
  pose proof (from_clusters_min c) as Hmin. rewrite <- F5 in Hmin.
  rewrite E32 in F6, Hmin. cbn [max_clusters] in F6. cbn [min_clusters] in Hmin.
  destruct (268435455 <? c) eqn:E6; [apply N.ltb_lt in E6; lia|].
  change (2 <? 2) with false. cbn [orb]. change (2 - 2) with 0.
  destruct (c <=? 0) eqn:E7; [apply N.leb_le in E7; lia|]. reflexivity.
Qed.

(* ------------------------------------------------------------------ the whole pipeline in closed form *)
Definition late_reject (o : fmt_options) (t : fat_type) (spf : N) : bool :=
  (negb (fat_type_eqb t Fat32) && (65535 <? spf)) || validate_rejects o t.

Definition format_pure (o : fmt_options) (ts : N) : res (fboot * fat_type) :=
  match layout_pure o ts with
  | Ok lay =>
      let t := l_fat_type lay in
      if late_reject o t (l_sectors_per_fat lay) then Err EInvalidInput
      else Ok (format_boot_sector_with (mk_bpb o ts t (l_sectors_per_cluster lay) (l_sectors_per_fat lay)) t, t)
  | Err e => Err e
  | Panic => Panic
  | OutOfFuel => OutOfFuel
  end.

Theorem format_eq o ts : builder_range o -> ts <= 4294967295 ->
  format_boot_sector_validated o ts = format_pure o ts.
Proof.
  intros Hb Hts. unfold format_boot_sector_validated, format_boot_sector, format_bpb, format_pure.
  rewrite dfl_pure by assumption.
  destruct (layout_pure o ts) as [lay|e| |] eqn:El; try reflexivity. cbn [bind].
  destruct (layout_pure_ok _ _ _ El) as (t & Hin & Hspc & -> & Hok).
  pose proof (try_ok_facts o ts _ t Hb Hts Hspc Hok) as Hf.
  rewrite format_bpb_with_pure by assumption.
  cbn [l_fat_type mk_layout l_sectors_per_cluster]. unfold late_reject.
  destruct (negb (fat_type_eqb t Fat32) && (65535 <? _)) eqn:E1; cbn [bind orb]; [reflexivity|].
  cbn [fst snd]. rewrite validate_pure by assumption.
  destruct (validate_rejects o t); reflexivity.
Qed.

Lemma format_pure_res o ts :
  (exists r, format_pure o ts = Ok r) \/ format_pure o ts = Err EInvalidInput.
Proof.
  unfold format_pure. destruct (layout_pure_res o ts) as [[lay ->]| ->]; [|auto].
  destruct (late_reject o (l_fat_type lay) (l_sectors_per_fat lay)); [auto|left; eexists; reflexivity].
Qed.

(* C06: formatting never panics (debug-build arithmetic) and never runs out of fuel *)
Theorem format_total o ts : builder_range o -> ts < 4294967296 ->
  format_boot_sector_validated o ts <> Panic /\ format_boot_sector_validated o ts <> OutOfFuel.
Proof.
  intros Hb Hts. rewrite format_eq by (try assumption; lia).
  destruct (format_pure_res o ts) as [[r ->]| ->]; split; discriminate.
Qed.

(* C06: the only error is InvalidInput *)
Theorem format_err_kind o ts e : builder_range o -> ts < 4294967296 ->
  format_boot_sector_validated o ts = Err e -> e = EInvalidInput.
Proof.
  intros Hb Hts. rewrite format_eq by (try assumption; lia).
  destruct (format_pure_res o ts) as [[r ->]| ->]; [discriminate|]. intros [= <-]. reflexivity.
Qed.

(* ------------------------------------------------------------------ an accepted request yields a valid geometry *)
(* ceil division: d * ceil(a/d) >= a *)
Lemma ceil_div_ge a d : d <> 0 -> a <= d * ((a + d - 1) / d).
Proof.
  intros Hd. pose proof (N.div_mod (a + d - 1) d Hd) as H. pose proof (N.mod_lt (a + d - 1) d Hd) as H2. lia.
Qed.

(* every FAT copy has an entry for every cluster (plus the two reserved ones) *)
Lemma fat_capacity t0 spc B bits fats spf c :
  1 <= spc -> bits <> 0 ->
  spf = (t0 + 2 * spc + (spc * B / bits + fats) - 1) / (spc * B / bits + fats) ->
  spc * B / bits + fats <> 0 ->
  spf * fats <= t0 -> c = (t0 - spf * fats) / spc ->
  c + 2 <= spf * B / bits.
Proof.
  intros Hs Hb Hspf Hd HF Hc. set (k := spc * B / bits) in *.
  pose proof (ceil_div_ge (t0 + 2 * spc) (k + fats) Hd) as H1. rewrite <- Hspf in H1.
  assert (bits * k <= spc * B) as H2 by (apply N.mul_div_le; exact Hb).
  assert (spc * c <= t0 - spf * fats) as H3 by (rewrite Hc; apply N.mul_div_le; lia).
  assert ((c + 2) * spc <= k * spf) as A by lia.
  assert ((c + 2) * spc * bits <= k * spf * bits) as Bq by (apply N.mul_le_mono_r; exact A).
  assert (spf * (bits * k) <= spf * (spc * B)) as C by (apply N.mul_le_mono_l; exact H2).
  assert (bits * (c + 2) * spc <= spf * B * spc) as D by lia.
  apply N.mul_le_mono_pos_r in D; [|lia].
  apply N.div_le_lower_bound; assumption.
Qed.

Lemma sp_pow2_true n : sp_pow2 n = true <-> exists k, n = 2 ^ k.
Proof. apply pow2_spec. Qed.

Lemma pow2_le_255 n : fmt_is_pow2 n = true -> n <= 255 -> n <= 128.
Proof.
  intros Hp Hn. apply pow2_spec in Hp. destruct Hp as [k ->].
  destruct (N.le_gt_cases k 7) as [Hk|Hk].
  - pose proof (N.pow_le_mono_r 2 k 7 ltac:(discriminate) Hk) as Hm. change (2 ^ 7) with 128 in Hm. exact Hm.
  - assert (8 <= k) as Hk8 by lia.
    pose proof (N.pow_le_mono_r 2 8 k ltac:(discriminate) Hk8) as Hm. change (2 ^ 8) with 256 in Hm. lia.
Qed.

Lemma sp_list_eqb_refl l : sp_list_eqb l l = true.
Proof. induction l as [|x r IH]; [reflexivity|]. cbn. rewrite N.eqb_refl. exact IH. Qed.

Lemma sp_type_eqb_eq a b : sp_type_eqb a b = true <-> a = b.
Proof. destruct a, b; cbn; split; congruence. Qed.

Lemma mk_bpb_valid o ts t : builder_range o -> ts <= 4294967295 -> 1 <= spc_of o ts <= 255 ->
  In t (allowed_of o) -> try_facts o ts (spc_of o ts) t ->
  late_reject o t (l_sectors_per_fat (mk_layout o ts (spc_of o ts) t)) = false ->
  fmt_violations (mk_bpb o ts t (spc_of o ts) (l_sectors_per_fat (mk_layout o ts (spc_of o ts) t))) ts t (o_fat_type o) = [].
Proof.
  intros Hb Hts Hspc Hin Hf Hlate.
  pose proof (spc_of_pow2 o ts Hb Hts (proj1 Hspc)) as Hp2.
  destruct Hf as [F1 F2 F3 F4 F5 F6]. pose proof (builder_bps o Hb) as [_ Hbps].
  pose proof Hb as (Hbp & _ & _ & Hroot & Hfats & _ & _ & _ & _ & _ & Hlab).
  set (spc := spc_of o ts) in *. set (spf := l_sectors_per_fat (mk_layout o ts spc t)) in *.
  set (rds := rds_of (o_max_root_dir_entries o) (o_bytes_per_sector o) t) in *.
  set (c := clusters_of ts (o_bytes_per_sector o) spc t rds (o_fats o)) in *.
  set (b := mk_bpb o ts t spc spf) in *.
  pose proof (reserved_of_cases t) as Hr.
  unfold late_reject, validate_rejects in Hlate. rewrite !orb_false_iff in Hlate.
  destruct Hlate as (L1 & L2 & L3). apply N.ltb_ge in L2.
  assert (sp_fat_size b = spf) as S1 by (apply (mk_bpb_spf o ts t spc spf); lia).
  assert (sp_total_sectors b = ts) as S2 by (apply (mk_bpb_ts o ts t spc spf); lia).
  assert (sp_root_dir_sectors b = rds) as S3.
  { unfold sp_root_dir_sectors, b, mk_bpb, rds, rds_of; cbn [fb_root_entries fb_bytes_per_sector].
    destruct (fat_type_eqb t Fat32); [apply N.div_small; lia|]. f_equal. lia. }
  assert (fb_fats b = o_fats o) as G5 by reflexivity.
  assert (fb_reserved_sectors b = reserved_of t) as G4 by reflexivity.
  assert (fb_sectors_per_cluster b = spc) as G3 by reflexivity.
  assert (fb_bytes_per_sector b = o_bytes_per_sector o) as G2 by reflexivity.
  assert (o_fats o * spf = spf * o_fats o) as Hcomm by apply N.mul_comm.
  assert (sp_meta_sectors b = reserved_of t + o_fats o * spf + rds) as S4
    by (unfold sp_meta_sectors; rewrite S1, S3, G4, G5; reflexivity).
  assert (sp_clusters b = c) as S5.
  { unfold sp_clusters. rewrite S2, S4, G3. unfold c, clusters_of. fold rds.
    replace (spf_of ts (o_bytes_per_sector o) spc t rds (o_fats o)) with spf by reflexivity. f_equal. lia. }
  assert (spc * c <= ts - reserved_of t - rds - spf * o_fats o) as Hcs.
  { unfold c, clusters_of. fold rds.
    replace (spf_of ts (o_bytes_per_sector o) spc t rds (o_fats o)) with spf by reflexivity.
    apply N.mul_div_le. lia. }
  (* clause by clause *)
  assert (cl_sector_size b = true) as C1.
  { unfold cl_sector_size. rewrite G2, Hbp. apply andb_true_iff. split; [apply andb_true_iff; split; [reflexivity|]|];
      apply N.leb_le; lia. }
  assert (cl_cluster_size b = true) as C2.
  { unfold cl_cluster_size. rewrite G3, sp_pow2_eq, Hp2. apply N.leb_le. apply pow2_le_255; [exact Hp2|lia]. }
  assert (cl_counts b = true) as C3.
  { unfold cl_counts. rewrite G4, G5. rewrite !andb_true_iff, !N.leb_le. lia. }
  assert (cl_declared_size b ts = true) as C4.
  { unfold cl_declared_size. rewrite S2, N.eqb_refl.
    unfold b, mk_bpb, u16_max; cbn [fb_total_sectors_16 fb_total_sectors_32 fb_hidden_sectors].
    destruct (fat_type_eqb t Fat32); [reflexivity|]. destruct (65535 <? ts); [reflexivity|].
    destruct (ts =? 0) eqn:E; reflexivity. }
  assert (cl_regions_fit b ts = true) as C5.
  { unfold cl_regions_fit. rewrite S4, S5, G3. rewrite andb_true_iff, N.ltb_lt, N.leb_le.
    assert (c * spc = spc * c) by apply N.mul_comm. lia. }
  assert (cl_type_from_clusters b t = true) as C6.
  { unfold cl_type_from_clusters. rewrite S5. apply sp_type_eqb_eq. rewrite F5. reflexivity. }
  assert (cl_requested_type t (o_fat_type o) = true) as C7.
  { unfold cl_requested_type. unfold allowed_of in Hin. destruct (o_fat_type o) as [r|]; [|reflexivity].
    destruct Hin as [<-|[]]. apply sp_type_eqb_eq. reflexivity. }
  assert (cl_fat_capacity b t = true) as C8.
  { unfold cl_fat_capacity, sp_fat_entries. rewrite S1, S5, G2. apply N.leb_le.
    replace (spf * o_bytes_per_sector o * 8) with (spf * (o_bytes_per_sector o * 8)) by lia.
    replace (sp_bits t) with (bits_per_fat_entry t) by (destruct t; reflexivity).
    apply (fat_capacity (ts - reserved_of t - rds) spc (o_bytes_per_sector o * 8) (bits_per_fat_entry t) (o_fats o) spf c).
    - lia.
    - destruct t; discriminate.
    - unfold spf, mk_layout, l_sectors_per_fat, spf_of, t2_of. fold rds.
      replace (spc * (o_bytes_per_sector o * 8)) with (spc * o_bytes_per_sector o * 8) by lia. reflexivity.
    - generalize (spc * (o_bytes_per_sector o * 8) / bits_per_fat_entry t). intros x. lia.
    - lia.
    - unfold c, clusters_of. fold rds. reflexivity. }
  assert (cl_fat32_fields b t = true) as C9.
  { unfold cl_fat32_fields. pose proof (from_clusters_min c) as Hmin. rewrite <- F5 in Hmin.
    destruct t; cbn [sp_is32].
    - unfold b, mk_bpb; cbn [fat_type_eqb fb_sectors_per_fat_16 fb_root_entries].
      cbn [fat_type_eqb negb andb] in L3. rewrite L3.
      destruct (spf =? 0) eqn:E; [apply N.eqb_eq in E; lia|]. reflexivity.
    - unfold b, mk_bpb; cbn [fat_type_eqb fb_sectors_per_fat_16 fb_root_entries].
      cbn [fat_type_eqb negb andb] in L3. rewrite L3.
      destruct (spf =? 0) eqn:E; [apply N.eqb_eq in E; lia|]. reflexivity.
    - rewrite S5. unfold b, mk_bpb; cbn [fat_type_eqb fb_sectors_per_fat_16 fb_sectors_per_fat_32 fb_backup_boot_sector
        fb_fs_info_sector fb_reserved_sectors fb_root_entries fb_total_sectors_16 fb_fs_version fb_extended_flags
        fb_root_dir_first_cluster reserved_of].
      cbn [min_clusters] in Hmin.
      destruct (spf =? 0) eqn:E; [apply N.eqb_eq in E; lia|].
      assert (2 <? c + 2 = true) as -> by (apply N.ltb_lt; lia). reflexivity. }
  assert (cl_cluster_limits b t = true) as C10.
  { unfold cl_cluster_limits. rewrite S5. pose proof (from_clusters_min c) as Hmin. rewrite <- F5 in Hmin.
    rewrite andb_true_iff, !N.leb_le. destruct t; cbn [sp_min_clusters sp_max_clusters min_clusters max_clusters] in *; lia. }
  assert (cl_labels b t = true) as C11.
  { unfold cl_labels, b, mk_bpb; cbn [fb_ext_sig fb_fs_type_label fb_volume_label].
    replace (fs_type_label_of t) with (sp_label t) by (destruct t; reflexivity). rewrite sp_list_eqb_refl.
    destruct (o_volume_label o) as [l|]; [|reflexivity].
    destruct (Hlab l eq_refl) as [-> _]. reflexivity. }
  unfold fmt_violations, fmt_clauses. rewrite C1, C2, C3, C4, C5, C6, C7, C8, C9, C10, C11. reflexivity.
Qed.

Lemma boot_frame_ok b t : cl_boot_frame (format_boot_sector_with b t) = true.
Proof. unfold format_boot_sector_with. destruct (fat_type_eqb t Fat32); reflexivity. Qed.

Lemma boot_with_bpb b t : fbs_bpb (format_boot_sector_with b t) = b.
Proof. unfold format_boot_sector_with. destruct (fat_type_eqb t Fat32); reflexivity. Qed.

(* inversion of a successful format *)
Lemma format_pure_ok_inv o ts bs t : format_pure o ts = Ok (bs, t) ->
  exists spf, In t (allowed_of o) /\ 1 <= spc_of o ts <= 255 /\ try_ok_o o ts (spc_of o ts) t = true /\
    spf = l_sectors_per_fat (mk_layout o ts (spc_of o ts) t) /\ late_reject o t spf = false /\
    bs = format_boot_sector_with (mk_bpb o ts t (spc_of o ts) spf) t.
Proof.
  unfold format_pure. destruct (layout_pure o ts) as [lay|e| |] eqn:El; try discriminate.
  destruct (layout_pure_ok _ _ _ El) as (t' & Hin & Hspc & -> & Hok).
  cbn [l_fat_type mk_layout l_sectors_per_fat l_sectors_per_cluster].
  destruct (late_reject o t' _) eqn:E; [discriminate|]. intros [= <- <-].
  eexists. repeat split; try eassumption; try reflexivity; lia.
Qed.

(* C06: whenever the request is accepted the boot sector describes a valid geometry, and the caller's
   values are stored unchanged *)
Theorem format_ok_valid o ts bs t : builder_range o -> ts < 4294967296 ->
  format_boot_sector_validated o ts = Ok (bs, t) ->
  boot_violations bs ts t (o_fat_type o) = [] /\
  fb_bytes_per_sector (fbs_bpb bs) = o_bytes_per_sector o /\
  fb_fats (fbs_bpb bs) = o_fats o /\
  fb_media (fbs_bpb bs) = o_media o /\
  fb_sectors_per_track (fbs_bpb bs) = o_sectors_per_track o /\
  fb_heads (fbs_bpb bs) = o_heads o /\
  fb_volume_id (fbs_bpb bs) = o_volume_id o /\
  fb_volume_label (fbs_bpb bs) = match o_volume_label o with Some l => l | None => label_no_name end /\
  fb_drive_num (fbs_bpb bs) = match o_drive_num o with Some d => d | None => if fat_type_eqb t Fat12 then 0 else 128 end /\
  fb_root_entries (fbs_bpb bs) = (if fat_type_eqb t Fat32 then 0 else o_max_root_dir_entries o) /\
  (forall b, o_bytes_per_cluster o = Some b -> fb_sectors_per_cluster (fbs_bpb bs) * fb_bytes_per_sector (fbs_bpb bs) = b).
Proof.
  intros Hb Hts. assert (ts <= 4294967295) as Hts' by lia. rewrite format_eq by assumption. intros H.
  destruct (format_pure_ok_inv _ _ _ _ H) as (spf & Hin & Hspc & Hok & -> & Hlate & ->).
  pose proof (try_ok_facts o ts _ t Hb Hts' Hspc Hok) as Hf.
  unfold boot_violations. rewrite boot_frame_ok, boot_with_bpb, app_nil_r.
  split; [apply mk_bpb_valid; assumption|].
  repeat (split; [reflexivity|]).
  intros b Eb. cbn [mk_bpb fb_sectors_per_cluster fb_bytes_per_sector]. unfold spc_of, bpc_of in *. rewrite Eb in *.
  pose proof Hb as (Hbp & Hbr & Hc & _). destruct (Hc b Eb) as [Hpb _].
  rewrite sp_pow2_eq in Hbp, Hpb. apply pow2_spec in Hbp, Hpb. destruct Hbp as [j Hj]. destruct Hpb as [i Hi].
  rewrite Hj, Hi in *.
  destruct (N.le_gt_cases j i) as [Hle|Hgt].
  - rewrite <- N.pow_sub_r by (try discriminate; exact Hle). rewrite <- N.pow_add_r. f_equal. lia.
  - assert (2 ^ i < 2 ^ j) as Hlt by (apply N.pow_lt_mono_r; [reflexivity|exact Hgt]).
    rewrite N.div_small in Hspc by exact Hlt. lia.
Qed.

(* the boolean checker used on the implementation's output says exactly [valid_format_geometry] *)
Lemma sp_list_eqb_eq a b : sp_list_eqb a b = true <-> a = b.
Proof.
  revert b. induction a as [|x a IH]; destruct b as [|y b]; cbn [sp_list_eqb].
  - tauto.
  - split; discriminate.
  - split; discriminate.
  - rewrite andb_true_iff, N.eqb_eq, IH. split; [intros [-> ->]; reflexivity|intros [= -> ->]; auto].
Qed.

Lemma negb_eqb_true a b : negb (a =? b) = true <-> a <> b.
Proof. rewrite negb_true_iff. apply N.eqb_neq. Qed.

Theorem violations_nil_iff b ts chosen req :
  fmt_violations b ts chosen req = [] <-> valid_format_geometry b ts chosen req.
Proof.
  unfold fmt_violations, fmt_clauses, valid_format_geometry.
  assert (forall (l : list (N * bool)), map fst (filter (fun p => negb (snd p)) l) = [] <-> forallb snd l = true) as Hl.
  { induction l as [|[n v] l IH]; cbn [filter map forallb snd fst]; [tauto|].
    destruct v; cbn [negb andb]; [exact IH|]. split; discriminate. }
  rewrite Hl. cbn [forallb snd]. rewrite !andb_true_iff.
  unfold cl_sector_size, cl_cluster_size, cl_counts, cl_declared_size, cl_regions_fit, cl_type_from_clusters,
    cl_requested_type, cl_fat_capacity, cl_cluster_limits, cl_labels.
  rewrite !andb_true_iff, !sp_pow2_true, !N.leb_le, !N.ltb_lt, !N.eqb_eq, orb_true_iff, !N.eqb_eq,
    sp_type_eqb_eq, sp_list_eqb_eq, Nat.eqb_eq.
  assert (cl_fat32_fields b chosen = true <->
          (if sp_is32 chosen then
             fb_sectors_per_fat_16 b = 0 /\ fb_sectors_per_fat_32 b <> 0 /\
             fb_backup_boot_sector b = 6 /\ fb_fs_info_sector b = 1 /\
             fb_backup_boot_sector b < fb_reserved_sectors b /\ fb_fs_info_sector b < fb_reserved_sectors b /\
             fb_root_entries b = 0 /\ fb_total_sectors_16 b = 0 /\ fb_fs_version b = 0 /\ fb_extended_flags b = 0 /\
             2 <= fb_root_dir_first_cluster b /\ fb_root_dir_first_cluster b < sp_clusters b + 2
           else fb_sectors_per_fat_16 b <> 0 /\ fb_root_entries b <> 0)) as H9.
  { unfold cl_fat32_fields. destruct (sp_is32 chosen).
    - rewrite !andb_true_iff, negb_eqb_true, !N.eqb_eq, !N.ltb_lt, N.leb_le. tauto.
    - rewrite andb_true_iff, !negb_eqb_true. tauto. }
  rewrite H9.
  assert ((match req with Some t => sp_type_eqb t chosen | None => true end) = true <-> (forall t, req = Some t -> t = chosen)) as H7.
  { destruct req as [r|].
    - rewrite sp_type_eqb_eq. split; [intros -> t [= <-]; reflexivity|intros H; apply H; reflexivity].
    - split; [intros _ t; discriminate|reflexivity]. }
  rewrite H7. tauto.
Qed.

(* ------------------------------------------------------------------ default options succeed for 42 <= ts < 2^32 *)
Lemma npot_val n k p q : p = 2 ^ N.pred k -> q = 2 ^ k -> 0 < k -> p < n <= q -> npot n = q.
Proof.
  intros -> -> Hk H. unfold npot. f_equal. apply N.log2_up_unique; assumption.
Qed.

Lemma try_ok_false_low ts bps spc t rds fats r d : reserved_of t = r -> t2_of bps spc t fats = d ->
  (ts - r - rds - (ts - r - rds + 2 * spc + d - 1) / d * fats) / spc < min_clusters t ->
  try_ok ts bps spc t rds fats = false.
Proof.
  intros <- <- H. unfold try_ok. fold (spf_of ts bps spc t rds fats) in H. fold (clusters_of ts bps spc t rds fats) in H.
  destruct (fat_type_eqb t (from_clusters (clusters_of ts bps spc t rds fats))) eqn:E.
  - apply fat_type_eqb_eq in E. pose proof (from_clusters_min (clusters_of ts bps spc t rds fats)) as Hm.
    rewrite <- E in Hm. lia.
  - rewrite andb_false_r. reflexivity.
Qed.

Lemma from_clusters_range c t : min_clusters t <= c <= max_clusters t -> from_clusters c = t.
Proof.
  intros H. unfold from_clusters.
  destruct t; cbn [min_clusters max_clusters] in H.
  - destruct (c <? 4085) eqn:E; [reflexivity|apply N.ltb_ge in E; lia].
  - destruct (c <? 4085) eqn:E; [apply N.ltb_lt in E; lia|].
    destruct (c <? 65525) eqn:E2; [reflexivity|apply N.ltb_ge in E2; lia].
  - destruct (c <? 4085) eqn:E; [apply N.ltb_lt in E; lia|].
    destruct (c <? 65525) eqn:E2; [apply N.ltb_lt in E2; lia|reflexivity].
Qed.

Lemma try_ok_true_intro ts bps spc t rds fats r d : reserved_of t = r -> t2_of bps spc t fats = d ->
  r + rds + 8 < ts ->
  min_clusters t <= (ts - r - rds - (ts - r - rds + 2 * spc + d - 1) / d * fats) / spc ->
  (ts - r - rds - (ts - r - rds + 2 * spc + d - 1) / d * fats) / spc <= max_clusters t ->
  try_ok ts bps spc t rds fats = true.
Proof.
  intros <- <- H0 H1 H2. unfold try_ok.
  fold (spf_of ts bps spc t rds fats) in H1, H2. fold (clusters_of ts bps spc t rds fats) in H1, H2.
  rewrite (from_clusters_range _ t) by lia. rewrite fat_type_eqb_refl.
  apply N.ltb_lt in H0. apply N.leb_le in H2. rewrite H0, H2. reflexivity.
Qed.

Lemma default_try32 ts S : try_ok_o default_options ts S Fat32 = try_ok ts 512 S Fat32 0 2.
Proof. reflexivity. Qed.
Lemma default_try16 ts S : try_ok_o default_options ts S Fat16 = try_ok ts 512 S Fat16 32 2.
Proof. reflexivity. Qed.
Lemma default_try12 ts S : try_ok_o default_options ts S Fat12 = try_ok ts 512 S Fat12 32 2.
Proof. reflexivity. Qed.

Lemma default_late t spf : late_reject default_options t spf = negb (fat_type_eqb t Fat32) && (65535 <? spf).
Proof.
  unfold late_reject, validate_rejects. cbn [default_options o_bytes_per_sector o_max_root_dir_entries].
  change (4096 <? 512) with false. change (512 =? 0) with false. rewrite andb_false_r. cbn [orb]. apply orb_false_r.
Qed.

Lemma default_ok_32 ts S : spc_of default_options ts = S -> 1 <= S <= 255 ->
  try_ok ts 512 S Fat32 0 2 = true -> exists r, format_pure default_options ts = Ok r.
Proof.
  intros Hs HS H32. unfold format_pure, layout_pure. rewrite Hs.
  destruct (255 <? S) eqn:E1; [apply N.ltb_lt in E1; lia|]. destruct (S =? 0) eqn:E2; [apply N.eqb_eq in E2; lia|].
  cbn [allowed_of default_options o_fat_type loop_pure]. rewrite default_try32, H32.
  cbn [l_fat_type mk_layout]. rewrite default_late. cbn [fat_type_eqb negb andb]. eexists; reflexivity.
Qed.

Lemma default_ok_16 ts S : spc_of default_options ts = S -> 1 <= S <= 255 ->
  try_ok ts 512 S Fat32 0 2 = false -> try_ok ts 512 S Fat16 32 2 = true ->
  spf_of ts 512 S Fat16 32 2 <= 65535 -> exists r, format_pure default_options ts = Ok r.
Proof.
  intros Hs HS H32 H16 Hspf. unfold format_pure, layout_pure. rewrite Hs.
  destruct (255 <? S) eqn:E1; [apply N.ltb_lt in E1; lia|]. destruct (S =? 0) eqn:E2; [apply N.eqb_eq in E2; lia|].
  cbn [allowed_of default_options o_fat_type loop_pure]. rewrite default_try32, H32, default_try16, H16.
  cbn [l_fat_type mk_layout l_sectors_per_fat]. rewrite default_late. cbn [fat_type_eqb negb andb].
  change (rds_of (o_max_root_dir_entries default_options) (o_bytes_per_sector default_options) Fat16) with 32.
  cbn [default_options o_bytes_per_sector o_fats].
  destruct (65535 <? spf_of ts 512 S Fat16 32 2) eqn:E; [apply N.ltb_lt in E; lia|]. eexists; reflexivity.
Qed.

Lemma default_ok_12 ts S : spc_of default_options ts = S -> 1 <= S <= 255 ->
  try_ok ts 512 S Fat32 0 2 = false -> try_ok ts 512 S Fat16 32 2 = false -> try_ok ts 512 S Fat12 32 2 = true ->
  spf_of ts 512 S Fat12 32 2 <= 65535 -> exists r, format_pure default_options ts = Ok r.
Proof.
  intros Hs HS H32 H16 H12 Hspf. unfold format_pure, layout_pure. rewrite Hs.
  destruct (255 <? S) eqn:E1; [apply N.ltb_lt in E1; lia|]. destruct (S =? 0) eqn:E2; [apply N.eqb_eq in E2; lia|].
  cbn [allowed_of default_options o_fat_type loop_pure].
  rewrite default_try32, H32, default_try16, H16, default_try12, H12.
  cbn [l_fat_type mk_layout l_sectors_per_fat]. rewrite default_late. cbn [fat_type_eqb negb andb].
  change (rds_of (o_max_root_dir_entries default_options) (o_bytes_per_sector default_options) Fat12) with 32.
  cbn [default_options o_bytes_per_sector o_fats].
  destruct (65535 <? spf_of ts 512 S Fat12 32 2) eqn:E; [apply N.ltb_lt in E; lia|]. eexists; reflexivity.
Qed.

(* cluster size chosen for default options, per bracket of the heuristics *)
Ltac dec_if :=
  match goal with
  | |- context [if ?a <? ?b then _ else _] =>
      first [ replace (a <? b) with true by (symmetry; apply N.ltb_lt; lia)
            | replace (a <? b) with false by (symmetry; apply N.ltb_ge; lia) ]
  | |- context [if ?a <=? ?b then _ else _] =>
      first [ replace (a <=? b) with true by (symmetry; apply N.leb_le; lia)
            | replace (a <=? b) with false by (symmetry; apply N.leb_gt; lia) ]
  end.

Ltac spc_default_start :=
  unfold spc_of, bpc_of; cbn [default_options o_bytes_per_cluster o_bytes_per_sector o_fat_type];
  unfold dbpc_val, resolve_type, estimate_fat_type; repeat dec_if; unfold dbpc_raw_val; repeat dec_if.
Ltac spc_default_npot k p q :=
  match goal with |- context [npot ?n] =>
    rewrite (npot_val n k p q) by first [reflexivity | lia] end; vm_compute; reflexivity.

Lemma spc_d1 ts : 42 <= ts <= 2048 -> spc_of default_options ts = 1.
Proof.
  intros H. spc_default_start.
  (* next_power_of_two <= 2^20: the quotient by 1 MiB is 0 or 1, the cluster is clamped to one sector *)
  assert (npot (ts * 512) <= 1048576) as Hn.
  { unfold npot. change 1048576 with (2 ^ 20). apply N.pow_le_mono_r; [discriminate|].
    apply N.log2_up_le_pow2; [lia|]. change (2 ^ 20) with 1048576. lia. }
  unfold raw12, as_u32, MB, two32, clamp_val.
  assert (npot (ts * 512) / 1048576 <= 1) as Hq by (apply N.div_le_upper_bound; lia).
  assert (npot (ts * 512) / 1048576 = 0 \/ npot (ts * 512) / 1048576 = 1) as [->| ->] by lia; reflexivity.
Qed.
Lemma spc_d2 ts : 2049 <= ts <= 4096 -> spc_of default_options ts = 2.
Proof. intros H. spc_default_start. spc_default_npot 21 1048576 2097152. Qed.
Lemma spc_d3 ts : 4097 <= ts <= 8192 -> spc_of default_options ts = 4.
Proof. intros H. spc_default_start. spc_default_npot 22 2097152 4194304. Qed.
Lemma spc_d4 ts : 8193 <= ts <= 8399 -> spc_of default_options ts = 8.
Proof. intros H. spc_default_start. spc_default_npot 23 4194304 8388608. Qed.
Lemma spc_d5 ts : 8400 <= ts <= 32768 -> spc_of default_options ts = 2.
Proof. intros H. spc_default_start. reflexivity. Qed.
Lemma spc_d6 ts : 32769 <= ts <= 262144 -> spc_of default_options ts = 4.
Proof. intros H. spc_default_start. reflexivity. Qed.
Lemma spc_d7 ts : 262145 <= ts <= 524288 -> spc_of default_options ts = 8.
Proof. intros H. spc_default_start. spc_default_npot 28 134217728 268435456. Qed.
Lemma spc_d8 ts : 524289 <= ts <= 1048575 -> spc_of default_options ts = 16.
Proof. intros H. spc_default_start. spc_default_npot 29 268435456 536870912. Qed.
Lemma spc_d9 ts : 1048576 <= ts <= 16777216 -> spc_of default_options ts = 8.
Proof. intros H. spc_default_start. reflexivity. Qed.
Lemma spc_d10 ts : 16777217 <= ts <= 33554432 -> spc_of default_options ts = 16.
Proof. intros H. spc_default_start. spc_default_npot 34 8589934592 17179869184. Qed.
Lemma spc_d11 ts : 33554433 <= ts <= 67108864 -> spc_of default_options ts = 32.
Proof. intros H. spc_default_start. spc_default_npot 35 17179869184 34359738368. Qed.
Lemma spc_d12 ts : 67108865 <= ts <= 4294967295 -> spc_of default_options ts = 64.
Proof.
  intros H.
  assert (67108865 <= ts <= 134217728 \/ 134217729 <= ts <= 268435456 \/ 268435457 <= ts <= 536870912 \/
          536870913 <= ts <= 1073741824 \/ 1073741825 <= ts <= 2147483648 \/ 2147483649 <= ts <= 4294967295)
    as [H1|[H1|[H1|[H1|[H1|H1]]]]] by lia; spc_default_start.
  - spc_default_npot 36 34359738368 68719476736.
  - spc_default_npot 37 68719476736 137438953472.
  - spc_default_npot 38 137438953472 274877906944.
  - spc_default_npot 39 274877906944 549755813888.
  - spc_default_npot 40 549755813888 1099511627776.
  - spc_default_npot 41 1099511627776 2199023255552.
Qed.

Ltac try_false r d :=
  match goal with |- try_ok ?ts ?bps ?spc ?t ?rds ?fats = false =>
    apply (try_ok_false_low ts bps spc t rds fats r d); [reflexivity|reflexivity|cbn [min_clusters]; lia] end.
Ltac try_true r d :=
  match goal with |- try_ok ?ts ?bps ?spc ?t ?rds ?fats = true =>
    apply (try_ok_true_intro ts bps spc t rds fats r d);
      [reflexivity|reflexivity|lia|cbn [min_clusters]; lia|cbn [max_clusters]; lia] end.
Ltac spf_small d :=
  match goal with |- spf_of ?ts ?bps ?spc ?t ?rds ?fats <= _ =>
    unfold spf_of; change (t2_of bps spc t fats) with d; cbn [reserved_of fat_type_eqb]; lia end.

Lemma default_b1 ts : 42 <= ts <= 2048 -> exists r, format_pure default_options ts = Ok r.
Proof.
  intros H. apply (default_ok_12 ts 1 (spc_d1 ts H)); [lia| | | |].
  - try_false 8 130.
  - try_false 1 258.
  - try_true 1 343.
  - spf_small 343.
Qed.
Lemma default_b2 ts : 2049 <= ts <= 4096 -> exists r, format_pure default_options ts = Ok r.
Proof.
  intros H. apply (default_ok_12 ts 2 (spc_d2 ts H)); [lia| | | |].
  - try_false 8 258.
  - try_false 1 514.
  - try_true 1 684.
  - spf_small 684.
Qed.
Lemma default_b3 ts : 4097 <= ts <= 8192 -> exists r, format_pure default_options ts = Ok r.
Proof.
  intros H. apply (default_ok_12 ts 4 (spc_d3 ts H)); [lia| | | |].
  - try_false 8 514.
  - try_false 1 1026.
  - try_true 1 1367.
  - spf_small 1367.
Qed.
Lemma default_b4 ts : 8193 <= ts <= 8399 -> exists r, format_pure default_options ts = Ok r.
Proof.
  intros H. apply (default_ok_12 ts 8 (spc_d4 ts H)); [lia| | | |].
  - try_false 8 1026.
  - try_false 1 2050.
  - try_true 1 2732.
  - spf_small 2732.
Qed.
Lemma default_b5 ts : 8400 <= ts <= 32768 -> exists r, format_pure default_options ts = Ok r.
Proof.
  intros H. apply (default_ok_16 ts 2 (spc_d5 ts H)); [lia| | |].
  - try_false 8 258.
  - try_true 1 514.
  - spf_small 514.
Qed.
Lemma default_b6 ts : 32769 <= ts <= 262144 -> exists r, format_pure default_options ts = Ok r.
Proof.
  intros H. apply (default_ok_16 ts 4 (spc_d6 ts H)); [lia| | |].
  - try_false 8 514.
  - try_true 1 1026.
  - spf_small 1026.
Qed.
Lemma default_b7 ts : 262145 <= ts <= 524288 -> exists r, format_pure default_options ts = Ok r.
Proof.
  intros H. apply (default_ok_16 ts 8 (spc_d7 ts H)); [lia| | |].
  - try_false 8 1026.
  - try_true 1 2050.
  - spf_small 2050.
Qed.
Lemma default_b8 ts : 524289 <= ts <= 1048575 -> exists r, format_pure default_options ts = Ok r.
Proof.
  intros H. apply (default_ok_16 ts 16 (spc_d8 ts H)); [lia| | |].
  - try_false 8 2050.
  - try_true 1 4098.
  - spf_small 4098.
Qed.
Lemma default_b9 ts : 1048576 <= ts <= 16777216 -> exists r, format_pure default_options ts = Ok r.
Proof. intros H. apply (default_ok_32 ts 8 (spc_d9 ts H)); [lia|]. try_true 8 1026. Qed.
Lemma default_b10 ts : 16777217 <= ts <= 33554432 -> exists r, format_pure default_options ts = Ok r.
Proof. intros H. apply (default_ok_32 ts 16 (spc_d10 ts H)); [lia|]. try_true 8 2050. Qed.
Lemma default_b11 ts : 33554433 <= ts <= 67108864 -> exists r, format_pure default_options ts = Ok r.
Proof. intros H. apply (default_ok_32 ts 32 (spc_d11 ts H)); [lia|]. try_true 8 4098. Qed.
Lemma default_b12 ts : 67108865 <= ts <= 4294967295 -> exists r, format_pure default_options ts = Ok r.
Proof. intros H. apply (default_ok_32 ts 64 (spc_d12 ts H)); [lia|]. try_true 8 8194. Qed.

Lemma default_builder_range : builder_range default_options.
Proof.
  unfold builder_range; cbn [default_options o_bytes_per_sector o_bytes_per_cluster o_max_root_dir_entries o_fats
    o_media o_sectors_per_track o_heads o_drive_num o_volume_id o_volume_label].
  repeat split; try lia; try discriminate.
Qed.

(* C06: with default options every size from 42 sectors to 2^32-1 sectors of 512 bytes is accepted *)
Theorem format_default_succeeds ts : 42 <= ts < 4294967296 ->
  exists r, format_boot_sector_validated default_options ts = Ok r.
Proof.
  intros H. rewrite (format_eq _ ts default_builder_range) by lia.
  assert (42 <= ts <= 2048 \/ 2049 <= ts <= 4096 \/ 4097 <= ts <= 8192 \/ 8193 <= ts <= 8399 \/
          8400 <= ts <= 32768 \/ 32769 <= ts <= 262144 \/ 262145 <= ts <= 524288 \/ 524289 <= ts <= 1048575 \/
          1048576 <= ts <= 16777216 \/ 16777217 <= ts <= 33554432 \/ 33554433 <= ts <= 67108864 \/
          67108865 <= ts <= 4294967295) as [B|[B|[B|[B|[B|[B|[B|[B|[B|[B|[B|B]]]]]]]]]]] by lia.
  - exact (default_b1 ts B).
  - exact (default_b2 ts B).
  - exact (default_b3 ts B).
  - exact (default_b4 ts B).
  - exact (default_b5 ts B).
  - exact (default_b6 ts B).
  - exact (default_b7 ts B).
  - exact (default_b8 ts B).
  - exact (default_b9 ts B).
  - exact (default_b10 ts B).
  - exact (default_b11 ts B).
  - exact (default_b12 ts B).
Qed.

(* and below 42 sectors the default request is refused *)
Definition is_invalid_input {A} (r : res A) : bool := match r with Err EInvalidInput => true | _ => false end.
Theorem format_default_rejects_small ts : ts < 42 ->
  format_boot_sector_validated default_options ts = Err EInvalidInput.
Proof.
  intros H. pose proof (N_lt_in_seq 42 ts H) as Hin.
  assert (forallb (fun n => is_invalid_input (format_boot_sector_validated default_options n)) (map N.of_nat (seq 0 42)) = true)
    as Hall by (vm_compute; reflexivity).
  pose proof (proj1 (forallb_forall _ _) Hall ts Hin) as Hc. cbv beta in Hc.
  destruct (format_boot_sector_validated default_options ts) as [r|e| |]; try discriminate.
  destruct e; try discriminate. reflexivity.
Qed.

(* ------------------------------------------------------------------ observation: an accepted request may leave
   no data cluster at all (cluster larger than the space behind the FATs and root directory); every clause of
   the property then holds vacuously, the volume mounts with 0 clusters / 0 free. *)
Definition zero_cluster_request : fmt_options :=
  {| o_bytes_per_sector := 512; o_total_sectors := None; o_bytes_per_cluster := Some 65536; o_fat_type := None;
     o_max_root_dir_entries := 512; o_fats := 2; o_media := 248; o_sectors_per_track := 32; o_heads := 64;
     o_drive_num := None; o_volume_id := 305419896; o_volume_label := None |}.

Lemma format_zero_clusters_witness :
  builder_range zero_cluster_request /\
  exists bs, format_boot_sector_validated zero_cluster_request 100 = Ok (bs, Fat12) /\ sp_clusters (fbs_bpb bs) = 0.
Proof.
  split.
  - unfold builder_range; cbn [zero_cluster_request o_bytes_per_sector o_bytes_per_cluster o_max_root_dir_entries o_fats
      o_media o_sectors_per_track o_heads o_drive_num o_volume_id o_volume_label].
    repeat split; intros; try lia; try discriminate;
      match goal with H : Some _ = Some _ |- _ => injection H as <- end; try reflexivity; lia.
  - eexists. split; [vm_compute; reflexivity|vm_compute; reflexivity].
Qed.
