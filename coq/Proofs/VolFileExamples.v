(* VolFileExamples.v: the volume-level file theorems on a concrete image - the 64-sector FAT12 volume produced by the
   model of format (Model/FormatImage.v; the same request as Props/C06.v [ex_img_fat12]): 512-byte clusters, two FAT
   copies at 512 and 1024, fixed root at 1536, data area at 2048, device fill byte 0xD1.
   A file is written through the image-level machine so that 6 bytes [1..6] straddle clusters 2 and 3; the
   INDEPENDENT decoder (Spec/Abs.v) then walks the chain 2 -> 3 in the raw bytes and reads the same bytes back. *)
From Coq Require Import NArith ZArith List Lia Bool.
From FatVerif Require Import Model.Base Model.Table Model.Format Model.FormatImage Model.Fat Model.FileM Model.VolFile
  Spec.Image Spec.Abs Spec.ByteFile
  Proofs.TableProofs Proofs.FatProofs Proofs.FileProofs Proofs.VolFileProofs.
Open Scope N_scope.

Definition ex_request : fmt_options :=
  {| o_bytes_per_sector := 512; o_total_sectors := None; o_bytes_per_cluster := None; o_fat_type := None;
     o_max_root_dir_entries := 16; o_fats := 2; o_media := 248; o_sectors_per_track := 32; o_heads := 64;
     o_drive_num := None; o_volume_id := 305419896;
     o_volume_label := Some [65; 66; 67; 68; 69; 70; 71; 72; 73; 74; 75] |}.

Definition ex_im : image :=
  match format_image ex_request 64 (img_empty 209) with Ok im => im | _ => img_empty 0 end.
Definition ex_g : geom := parse_geom ex_im.
Definition ex_fi : fsinfo := {| fi_free := None; fi_next := None; fi_dirty := false |}.   (* a FAT12/16 mount *)

Example ex_geometry :
  ft_of ex_g = Fat12 /\ g_cluster_size ex_g = 512 /\ g_clusters ex_g = 60 /\ vol_base ex_g = 512 /\
  g_fat_bytes ex_g = 512 /\ vol_mirrors ex_g = 2%nat /\ g_cluster_off ex_g 2 = 2048.
Proof. vm_compute. repeat split. Qed.

Example ex_geom_ok : vgeom_ok ex_g.
Proof. apply vgeom_okb_ok. vm_compute. reflexivity. Qed.

Example ex_bytes_ok : bytes_ok ex_im.
Proof. apply bytes_ok_check. vm_compute. reflexivity. Qed.

(* the hypotheses of the volume theorems hold: a new empty file on the freshly formatted image *)
Example ex_vol_inv : VolInv ex_g ex_im ex_fi empty_file 0 [].
Proof.
  apply (vol_inv_empty ex_g ex_geom_ok); [exact ex_bytes_ok|]. split; [exact I|exact I].
Qed.

Definition ex_ops : list fop := [FWrite (repeat 7 509); FWrite [1; 2; 3; 4; 5; 6]; FWrite [4; 5; 6]].

Example ex_ops_ok : Forall op_ok ex_ops.
Proof.
  repeat constructor; intros b Hb; cbn [In] in Hb; try (apply repeat_spec in Hb; subst b; reflexivity);
    repeat (destruct Hb as [<-|Hb]; [reflexivity|]); destruct Hb.
Qed.

(* the run: 509 + 3 + 3 bytes; the table holds 2 -> 3 -> EOC in both copies; the decoder's chain walk, the decoder's
   file content and the extents read from the raw image all give the 6 bytes at positions 509..514 *)
Example ex_run_decodes :
  let '(st, rs) := vol_run ex_g (ex_im, ex_fi, empty_file) ex_ops in
  let '(im', fi', h') := st in
  rs = [RCount 509; RCount 3; RCount 3] /\ h_first h' = Some 2 /\ h_size h' = Some 515 /\
  chain_from ex_g im' 2 (Abs.chain_fuel ex_g) = Some [2; 3] /\
  skipn 509 (decode_file ex_g im' (first_field h') 515) = [1; 2; 3; 4; 5; 6] /\
  img_read im' (512 + 3) 3 = [3; 240; 255] /\ img_read im' (1024 + 3) 3 = [3; 240; 255] /\
  img_read im' (2048 + 509) 6 = [1; 2; 3; 4; 5; 6] /\
  vol_extents ex_g st = Ok [(2048, 512); (2560, 3)] /\
  skipn 509 (read_ranges im' [(2048, 512); (2560, 3)]) = [1; 2; 3; 4; 5; 6] /\
  bf_run ([], 0) ex_ops rs = Some (decode_file ex_g im' (first_field h') 515, 515).
Proof. vm_compute. repeat split. Qed.

(* the same history as plain FileM steps on the world read off the image, replayed by [img_run] *)
Example ex_replay_decodes :
  let w := world_of ex_g ex_im ex_fi in
  let '(w', h', rs) := file_run fstore (fat_get Fat12) (fat_set Fat12) 512 60 w empty_file ex_ops in
  let im' := img_run ex_g ex_im w empty_file ex_ops in
  rs = [RCount 509; RCount 3; RCount 3] /\
  chain_from ex_g im' 2 (Abs.chain_fuel ex_g) = Some [2; 3] /\
  skipn 509 (decode_file ex_g im' (first_field h') 515) = [1; 2; 3; 4; 5; 6] /\
  img_read im' (1024 + 3) 3 = [3; 240; 255].
Proof. vm_compute. repeat split. Qed.

(* the invariant on a NON-TRIVIAL state: after the history above the ghosts are sz = 515, l = [2; 3] (obtained from the
   theorem, the chain identified by running the decoder) *)
Definition ex_final : vstate * list fresult := vol_run ex_g (ex_im, ex_fi, empty_file) ex_ops.
Definition ex_im' : image := fst (fst (fst ex_final)).
Definition ex_fi' : fsinfo := snd (fst (fst ex_final)).
Definition ex_h' : fhandle := snd (fst ex_final).

Example ex_final_facts :
  h_first ex_h' = Some 2 /\ h_size ex_h' = Some 515 /\ chain_from ex_g ex_im' 2 (Abs.chain_fuel ex_g) = Some [2; 3].
Proof. vm_compute. repeat split. Qed.

Example ex_vol_inv_final : VolInv ex_g ex_im' ex_fi' ex_h' 515 [2; 3].
Proof.
  destruct (vol_run_refines ex_g ex_geom_ok ex_ops ex_im ex_fi empty_file 0 [] ex_ops_ok ex_vol_inv)
    as (im' & fi' & h' & rs & sz' & l' & Hr & V & _ & Hd).
  assert (im' = ex_im' /\ fi' = ex_fi' /\ h' = ex_h') as (-> & -> & ->).
  { unfold ex_im', ex_fi', ex_h', ex_final. rewrite Hr. repeat split. }
  clear Hr.
  destruct ex_final_facts as (F1 & F2 & F3).
  pose proof V as (_ & _ & I & _).
  assert (sz' = 515) as ->.
  { pose proof (inv_size_eq fstore (val_ft (ft_of ex_g)) (g_cluster_size ex_g) (g_clusters ex_g) _ _ _ _ I) as E.
    rewrite F2 in E. injection E as <-. reflexivity. }
  assert (l' = [2; 3]) as ->; [|exact V].
  unfold chain_decodes in Hd. rewrite F1 in Hd.
  assert (g_clusters ex_g <= 131072) as Hcl by (vm_compute; discriminate).
  pose proof (chain_fuel_enough ex_g (world_of ex_g ex_im' ex_fi') ex_h' 515 l' I (or_introl Hcl)) as Hf.
  specialize (Hd _ Hf). rewrite F3 in Hd. injection Hd as <-. reflexivity.
Qed.
