(* VolSession2Format.v: from ANY device content to k files with content, end to end over images:
   format_volume (Model/FormatImage.v) ; root_dir().create_file for every request ; any interleaving of calls on the k handles,
   flushes and drops (Model/VolSession2.v) - decoded by the independent decoder Spec/Abs.abs and judged by the
   well-formedness predicate Spec/Wf.wf_issues.  The long-name clause (WDupLong) comes from the library's own existence
   check (Proofs/DupLongProofs.v), so the names need no distinctness premise. *)
From Coq Require Import NArith ZArith Lia List Bool Permutation FMapPositive.
From FatVerif Require Import Model.Base Model.Str Model.Slot Model.Time Model.Table Model.Fat Model.FileM Model.DirSlots
  Spec.Image Model.Format Spec.FormatSpec Model.FormatImage Spec.FormatImageSpec Model.VolDir Model.VolFile Model.VolSession
  Model.VolSession2 Spec.ByteFile Spec.WfFold Proofs.FatProofs Proofs.TableProofs Proofs.FileProofs Proofs.FormatProofs
  Proofs.FormatImageProofs Proofs.FormatImageAbs Proofs.VolDirProofs Proofs.VolDirFormat Proofs.VolFileProofs
  Proofs.VolSessionProofs Proofs.VolSessionFormat Proofs.DupLongProofs Proofs.VolSession2Proofs.
From FatVerif Require Spec.Abs Spec.Wf Proofs.TimeProofs Model.ShortName.
Import ListNotations.
Open Scope N_scope.
Ltac Zify.zify_post_hook ::= Z.to_euclidean_division_equations.

(* ================================================================ 1. a FAT12/16 root that holds plain files only *)
Definition file_node_ok (cs : N) (n : Abs.node) : Prop :=
  exists e l content, n = Abs.NFile e (if Abs.e_cluster e =? 0 then None else Some l) content /\
    (Abs.e_cluster e = 0 <-> Abs.e_size e = 0) /\ len_N l = Wf.ceil_div (Abs.e_size e) cs.

Lemma depth_files cs ns d : Forall (file_node_ok cs) ns -> Wf.depth_exceeded ns d = false.
Proof.
  intros H. destruct d; cbn [Wf.depth_exceeded]; induction H as [|n ns (e & l & c & -> & _) _ IH]; cbn [existsb]; try reflexivity; exact IH.
Qed.

Lemma nodes_issues_files fold g ns : Forall (file_node_ok (Abs.g_cluster_size g)) ns -> Wf.nodes_issues fold g 0 ns = [].
Proof.
  intros H. unfold Wf.nodes_issues. apply flat_map_nil. eapply Forall_impl; [|exact H].
  intros n (e & l & c & -> & Hz & Hl). cbn [Wf.node_issues].
  destruct (N.eqb_spec (Abs.e_size e) 0) as [Z|NZ].
  - rewrite (proj2 (N.eqb_eq _ _) (proj2 Hz Z)). reflexivity.
  - destruct (N.eqb_spec (Abs.e_cluster e) 0) as [C|NC]; [exfalso; apply NZ; apply Hz; exact C|].
    rewrite Hl, N.eqb_refl. reflexivity.
Qed.

(* chain length matches the size of every file, no cluster is owned twice, every allocated cluster is owned, the names
   are pairwise different => no C03 issue at all *)
Lemma wf_files fold im ns :
  let g := Abs.parse_geom im in
  Abs.g_bits g <> 32 -> Abs.v_root_issues (Abs.abs im) = [] -> Abs.v_root (Abs.abs im) = ns ->
  Wf.names_issues fold 0 ns = [] -> Forall (file_node_ok (Abs.g_cluster_size g)) ns ->
  NoDup (concat (Wf.nodes_chains ns)) ->
  (forall x, 2 <= x < Abs.g_clusters g + 2 -> Abs.fat_val g im x = Abs.FFree \/ In x (concat (Wf.nodes_chains ns))) ->
  Wf.wf_issues fold im = [].
Proof.
  intros g Hb Hiss Hr Hn Hf Hnd Hall. rewrite (wf_issues_as_body fold im Hb). fold g. rewrite Hiss, Hr.
  apply wf_body_nil. split; [reflexivity|]. split; [exact Hn|]. split; [exact (nodes_issues_files fold g ns Hf)|].
  destruct (Wf.own_clusters (concat (Wf.nodes_chains ns)) (PositiveMap.empty unit)) as [owned cross] eqn:O. cbn [fst snd].
  destruct (own_clusters_spec _ _ _ _ O) as [K1 K2].
  split; [apply K2; split; [exact Hnd|intros c _; apply PositiveMap.gempty]|].
  split; [|exact (depth_files _ ns _ Hf)].
  apply FormatImageAbs.lost_from_nil. intros x Hx. destruct (Hall x ltac:(lia)) as [F|Hin]; [left; exact F|right; right].
  assert (PositiveMap.find (N.succ_pos x) owned <> None) as X by (apply K1; right; exists x; split; [exact Hin|reflexivity]).
  destruct (PositiveMap.find (N.succ_pos x) owned) as [[]|]; [reflexivity|contradiction].
Qed.

(* ================================================================ 2. the creates keep the volume well formed *)
Section Creates.
Variable upper : N -> list N.
Variable oem : N -> N.

Lemma s2_create_im st name now st' range im1 :
  s2_create upper oem st name now = Some st' ->
  vol_create_empty_file_root upper oem (s2_im st) name now = (Ok (Some range), im1) -> s2_im st' = im1.
Proof.
  unfold s2_create, sess_create. intros H Hv. rewrite Hv in H. destruct range as [p q].
  destruct (sess_open (Abs.parse_geom im1) im1 (q - 1)) as [[h en]|]; [|discriminate]. injection H as <-. reflexivity.
Qed.

Theorem s2_creates_keeps_wf fold : forall reqs st st1,
  fold_agrees upper fold -> fixed_root_geom (Abs.parse_geom (s2_im st)) ->
  Wf.wf_issues fold (s2_im st) = [] -> root_lfns_ok (s2_im st) ->
  Forall (fun q => str_valid (fst q) = true /\ TimeProofs.datetime_valid (snd q) = true) reqs ->
  s2_creates upper oem st reqs = Some st1 ->
  Wf.wf_issues fold (s2_im st1) = [] /\ root_lfns_ok (s2_im st1).
Proof.
  induction reqs as [|q reqs IH]; intros st st1 FA Hg Hwf Hok Hq H; cbn [s2_creates] in H.
  - injection H as <-. split; assumption.
  - inversion Hq as [|? ? [Hv Hnow] Hq']; subst.
    destruct (s2_create upper oem st (fst q) (snd q)) as [st'|] eqn:Hc; [|discriminate].
    destruct (s2_create_some upper oem st _ _ st' Hc) as (range & im1 & Hcr).
    pose proof (s2_create_im st _ _ st' range im1 Hc Hcr) as Him.
    pose proof (vol_create_confined upper oem _ _ _ _ im1 Hg Hcr) as (_ & _ & Hpg & _).
    destruct (vol_create_keeps_wf_closed fold upper oem _ _ _ range im1 FA Hg Hwf Hok Hv Hnow Hcr) as [W1 O1].
    apply (IH st' st1 FA); try assumption; rewrite Him; try assumption. rewrite Hpg. exact Hg.
Qed.
End Creates.

(* ================================================================ 3. lists of chains *)
Lemma nodup_app_intro {A} (l1 l2 : list A) : NoDup l1 -> NoDup l2 -> (forall x, In x l1 -> ~ In x l2) -> NoDup (l1 ++ l2).
Proof.
  induction l1 as [|a l1 IH]; intros H1 H2 Hd; [exact H2|]. inversion H1 as [|? ? N1 N2]; subst. cbn [app]. constructor.
  - intros Hin. apply in_app_or in Hin. destruct Hin as [Hin|Hin]; [exact (N1 Hin)|exact (Hd a (or_introl eq_refl) Hin)].
  - apply IH; [exact N2|exact H2|]. intros x Hx. apply Hd. right. exact Hx.
Qed.

Lemma nodup_flat_chains (gs : list ghost) :
  (forall gh, In gh gs -> NoDup (gh_l gh)) -> chains_disjoint gs -> NoDup (flat_map gh_l gs).
Proof.
  induction gs as [|a gs IH]; intros Hn Hd; [constructor|]. cbn [flat_map].
  apply nodup_app_intro.
  - apply Hn. left. reflexivity.
  - apply IH; [intros gh Hgh; apply Hn; right; exact Hgh|].
    intros i j g1 g2 Hij H1 H2. apply (Hd (S i) (S j) g1 g2); [lia|exact H1|exact H2].
  - intros x Hx Hin. apply in_flat_map in Hin. destruct Hin as (gh & Hgh & Hxg).
    apply In_nth_error in Hgh. destruct Hgh as (j & Hj).
    exact (Hd 0%nat (S j) a gh ltac:(lia) eq_refl Hj x Hx Hxg).
Qed.

Lemma length_flat_chains cs (gs : list ghost) :
  (forall gh, In gh gs -> N.of_nat (length (gh_l gh)) = cdiv cs (gh_sz gh)) ->
  N.of_nat (length (flat_map gh_l gs)) = fold_right (fun gh a => cdiv cs (gh_sz gh) + a) 0 gs.
Proof.
  induction gs as [|a gs IH]; intros H; [reflexivity|]. cbn [flat_map fold_right]. rewrite app_length, Nat2N.inj_add.
  rewrite (H a (or_introl eq_refl)), IH; [reflexivity|]. intros gh Hgh. apply H. right. exact Hgh.
Qed.

(* the chains of the file nodes of the handles, concatenated, are the handles' chains *)
Lemma hnode_chains g im : forall gs, (forall gh, In gh gs -> Abs.e_cluster (gh_e gh) = 0 -> gh_l gh = []) ->
  concat (Wf.nodes_chains (map (hnode g im) gs)) = flat_map gh_l gs.
Proof.
  induction gs as [|a gs IH]; intros H; [reflexivity|]. cbn [map Wf.nodes_chains flat_map]. fold (Wf.nodes_chains (map (hnode g im) gs)).
  rewrite concat_app, IH by (intros gh Hgh; apply H; right; exact Hgh). f_equal.
  unfold hnode. cbn [Wf.node_chains]. destruct (N.eqb_spec (Abs.e_cluster (gh_e a)) 0) as [Z|NZ].
  - rewrite (H a (or_introl eq_refl) Z). reflexivity.
  - cbn [concat]. apply app_nil_r.
Qed.

(* the blocks of clusters the k files hold *)
Definition total_clusters (cs : N) (gs : list ghost) : N := fold_right (fun gh a => cdiv cs (gh_sz gh) + a) 0 gs.

(* ================================================================ 4. END TO END from any device content *)
(* format_volume of a FAT12/16 volume ; create_file for each of the k requests ; ANY interleaving of calls on the k handles
   under any clocks, flushes and drops in any order, after which every handle is clean (e.g. [settled]: the last step that
   addressed it was its flush or drop).  The decoder finds exactly k root nodes, one file per request (in some order of the
   root slots: Permutation), each with exactly the content the multi-file byte-array machine holds for it, its size field,
   its chain of ceil(len / cluster size) clusters, the chains pairwise disjoint; free clusters = all minus the sum of those;
   the label of the request; NO well-formedness issue, for any case folding that agrees with the library's matching. *)
Theorem format_session2_decodes fold upper oem acc o ts im0 bs t im fi reqs ops st1 st2 rs :
  builder_range o -> ts < 4294967296 -> bytes_ok im0 ->
  format_boot_sector_validated o ts = Ok (bs, t) -> t <> Format.Fat32 ->
  (o_max_root_dir_entries o * 32) mod o_bytes_per_sector o = 0 ->
  format_image o ts im0 = Ok im ->
  let g := geom_of (fbs_bpb bs) in
  fi_inv fstore (val_ft (ft_of g)) (store_of g im) fi (Abs.g_clusters g) ->
  fold_agrees upper fold ->
  Forall (fun q => str_valid (fst q) = true /\ TimeProofs.datetime_valid (snd q) = true) reqs -> Forall s2op_ok ops ->
  s2_creates upper oem {| s2_im := im; s2_fi := fi; s2_hs := [] |} reqs = Some st1 ->
  s2_run g acc st1 ops = (st2, rs) ->
  Forall (fun x => s2_dirty x = false) (s2_hs st2) ->
  exists gs,
    bf_multi (map (fun _ => ([], 0)) reqs) (file_ops ops) rs = Some (s2_views g st2 gs) /\
    Permutation (Abs.v_root (Abs.abs (s2_im st2))) (map (hnode g (s2_im st2)) gs) /\
    Forall2 (file_decoded g im (s2_im st2)) reqs gs /\ chains_disjoint gs /\
    Abs.v_root_issues (Abs.abs (s2_im st2)) = [] /\ Abs.v_labels (Abs.abs (s2_im st2)) = expected_labels o /\
    Abs.parse_geom (s2_im st2) = g /\
    Abs.count_free g (s2_im st2) = sp_clusters (fbs_bpb bs) - total_clusters (Abs.g_cluster_size g) gs /\
    Wf.wf_issues fold (s2_im st2) = [].
Proof.
  intros Hb Hts Hb0 Hv Ht Hfill Hf g Hfi FA Hrq Hops Hcr Hrun Hcl.
  destruct (image_decodes_empty o ts im0 bs t im fold Hb Hts Hb0 Hv Hf) as (Hpg & Hcln & _ & Hroot & Hiss & Hlab & Hrc & _ & Hcf & Hwf0).
  destruct (formatted_fixed_root_geom o ts bs t Hb Hts Hv Ht Hfill) as [Hg Hmax]. fold g in Hg, Hpg, Hcln.
  pose proof (fixed_root_vgeom_ok g Hg) as Hok.
  pose proof (if_bytes _ _ _ _ _ (image_facts_of o ts im0 bs t im Hb Hts Hb0 Hv Hf)) as Hbim.
  assert (sp_is32 t = false) as H32 by (destruct t; try reflexivity; contradiction).
  rewrite H32, Hpg in Hcf.
  assert (Abs.count_free g im = sp_clusters (fbs_bpb bs)) as Hcf' by (rewrite Hcf; unfold bad_range_clusters; lia).
  assert (forall x, 2 <= x < Abs.g_clusters g + 2 -> Abs.fat_val g im x = Abs.FFree) as Hallfree.
  { intros x Hx. apply (all_free_of_count g im (N.to_nat (Abs.g_clusters g)) 2); [|lia].
    fold (Abs.count_free g im). rewrite Hcf', Hcln. lia. }
  assert (Forall (fun q => TimeProofs.datetime_valid (snd q) = true) reqs) as Hclk.
  { eapply Forall_impl; [|exact Hrq]. intros q [_ H]. exact H. }
  destruct (session2_decodes g Hg acc upper oem im fi reqs ops st1 st2 rs Hpg Hbim Hfi Hiss ltac:(rewrite Hroot; reflexivity) Hclk Hops Hcr Hrun Hcl)
    as (gs & es1 & es2 & ls & R2 & Hbf & Hperm & Hdec & Hdis & I1 & I2 & I3 & gs1 & R1 & Nm1 & Nm2 & Hout1).
  rewrite Hroot in Hperm, R2, R1. cbn [app map] in Hperm, R2, R1.
  pose proof (ri_inv _ _ _ _ _ _ _ R2) as SI2. pose proof (ri_frame _ _ _ _ _ _ _ R2) as Fr2.
  pose proof (ri_inv _ _ _ _ _ _ _ R1) as SI1.
  (* per file *)
  assert (forall gh, In gh gs -> NoDup (gh_l gh) /\ N.of_nat (length (gh_l gh)) = cdiv (Abs.g_cluster_size g) (gh_sz gh) /\
            (Abs.e_cluster (gh_e gh) = 0 -> gh_l gh = []) /\ file_node_ok (Abs.g_cluster_size g) (hnode g (s2_im st2) gh) /\
            (forall c, In c (gh_l gh) -> 2 <= c < Abs.g_clusters g + 2 /\ Abs.fat_val g (s2_im st2) c <> Abs.FFree)) as Hper.
  { intros gh Hgh. destruct (ghost_handle g st2 gs es2 ls gh SI2 Hgh) as (i & x & Hx & Hg').
    rewrite Forall_forall in Hcl.
    destruct (handle_node g Hg st2 gs es2 ls i x gh SI2 Hx Hg' (Hcl x (nth_error_In _ _ Hx))) as (_ & _ & K1 & K2 & K3 & K4 & K5 & K6 & K7).
    split; [exact K6|]. split; [exact K5|]. split.
    { intros Z. apply K3 in Z. rewrite Z, (cdiv_0 _ (cs_pos g Hok)) in K5. destruct (gh_l gh); [reflexivity|cbn [length] in K5; lia]. }
    split; [|exact K7].
    exists (gh_e gh), (gh_l gh), (vol_content g (s2_im st2) (gh_l gh) (gh_sz gh)). split; [reflexivity|]. split; [rewrite K1; exact K3|].
    unfold len_N. rewrite K5, K1. reflexivity. }
  assert (NoDup (flat_map gh_l gs)) as NDall.
  { apply nodup_flat_chains; [intros gh Hgh; exact (proj1 (Hper gh Hgh))|exact Hdis]. }
  assert (concat (Wf.nodes_chains (map (hnode g (s2_im st2)) gs)) = flat_map gh_l gs) as Hch.
  { apply hnode_chains. intros gh Hgh. exact (proj1 (proj2 (proj2 (Hper gh Hgh)))). }
  assert (Permutation (concat (Wf.nodes_chains (Abs.v_root (Abs.abs (s2_im st2))))) (flat_map gh_l gs)) as Pch.
  { rewrite <- Hch. apply concat_perm. unfold Wf.nodes_chains. apply Permutation_flat_map. exact Hperm. }
  assert (forall x, 2 <= x < Abs.g_clusters g + 2 -> ~ In x (flat_map gh_l gs) -> Abs.fat_val g (s2_im st2) x = Abs.FFree) as Hfree2.
  { intros x Rx Hn. apply (f2_else _ _ _ _ Fr2 x Rx); [|exact (Hallfree x Rx)].
    intros l Hl Hx. apply Hn. apply in_map_iff in Hl. destruct Hl as (gh & <- & Hgh). apply in_flat_map. exists gh. split; assumption. }
  exists gs.
  split; [exact Hbf|]. split; [exact Hperm|]. split; [exact Hdec|]. split; [exact Hdis|]. split; [exact I1|].
  split; [rewrite I2; exact Hlab|]. split; [exact I3|]. split.
  { pose proof (count_free_after g im (s2_im st2) (flat_map gh_l gs) NDall) as X.
    rewrite X in Hcf'.
    - unfold total_clusters. rewrite <- (length_flat_chains (Abs.g_cluster_size g) gs); [lia|].
      intros gh Hgh. exact (proj1 (proj2 (Hper gh Hgh))).
    - intros x Hx. apply in_flat_map in Hx. destruct Hx as (gh & Hgh & Hxg).
      destruct (proj2 (proj2 (proj2 (proj2 (Hper gh Hgh)))) x Hxg) as [Rx NF]. split; [exact Rx|]. split; [exact (Hallfree x Rx)|exact NF].
    - intros x Rx Hn. rewrite (Hallfree x Rx). exact (Hfree2 x Rx Hn). }
  (* well-formedness *)
  assert (Wf.wf_issues fold (s2_im st1) = []) as Hwf1.
  { apply (s2_creates_keeps_wf upper oem fold reqs {| s2_im := im; s2_fi := fi; s2_hs := [] |} st1 FA); cbn [s2_im]; try assumption.
    - rewrite Hpg. exact Hg.
    - unfold root_lfns_ok, root_lfns. rewrite Hroot. constructor. }
  assert (Abs.parse_geom (s2_im st1) = g) as Hpg1 by exact (si_geom _ _ _ _ _ SI1).
  assert (Wf.names_issues fold 0 (Abs.v_root (Abs.abs (s2_im st2))) = []) as Hnames.
  { rewrite (wf_issues_as_body fold (s2_im st1)) in Hwf1 by (rewrite Hpg1; exact (fg_bits g Hg)).
    apply wf_body_nil in Hwf1. destruct Hwf1 as (_ & Hn1 & _).
    apply names_issues_nil in Hn1. apply names_issues_nil. unfold node_sfns, node_folded in *.
    rewrite (v_root_of_inv g Hg st1 gs1 es1 ls SI1), map_node_entry in Hn1.
    rewrite (v_root_of_inv g Hg st2 gs es2 ls SI2), map_node_entry. rewrite Nm1, Nm2. exact Hn1. }
  apply (wf_files fold (s2_im st2) (Abs.v_root (Abs.abs (s2_im st2)))); rewrite ?I3.
  - exact (fg_bits g Hg).
  - exact I1.
  - reflexivity.
  - exact Hnames.
  - apply Forall_forall. intros n Hn. apply (Permutation_in n Hperm) in Hn. apply in_map_iff in Hn. destruct Hn as (gh & <- & Hgh).
    exact (proj1 (proj2 (proj2 (proj2 (Hper gh Hgh))))).
  - exact (Permutation_NoDup (Permutation_sym Pch) NDall).
  - intros x Rx. destruct (in_dec N.eq_dec x (flat_map gh_l gs)) as [Hin|Hnin].
    + right. exact (Permutation_in x (Permutation_sym Pch) Hin).
    + left. exact (Hfree2 x Rx Hnin).
Qed.
